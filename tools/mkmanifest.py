#!/usr/bin/env python3
"""Writes MANIFEST.json from the table below (kept here so the manifest is always regenerated whole)."""
import json, os
V = os.path.dirname(os.path.dirname(os.path.abspath(__file__)))
BASE_NOTE = ("Trusted: Lean 4.33 kernel; axioms {propext, Classical.choice, Quot.sound} only (audited with #print axioms on every run; no sorry/native_decide/bv_decide/own axioms); "
             "the spec in lean/P0f/Spec as a reading of the property; the hand-written model is tied to /repo by differential correspondence through the line protocol "
             "(harness/impl.py = real pyp0f, lean/Driver.lean = model) and by tables regenerated from the source on every run - that tie is testing, not proof. ")
CLAIMS = {}
def claim(pid, text, note, technique, design):
    CLAIMS[pid] = dict(text=text, note=note, technique=technique, design=design)

claim("C01",
      "Theorem tcpMatch_eq_spec: for every signature, packet signature and max_dist the model of tcp_signatures_match equals the declarative matching rules of the property (with readable corollaries match_only_if/match_if/exact_iff/match_version/badTtl_never_larger); the model is tied to the code by exhaustive TTL/quirk-difference grids and random structured pairs at function level. A disagreement is a concrete input on which the code departs from the rules.",
      BASE_NOTE + "Function-level op constructs TCPSignature/TCPPacketSignature objects directly; signature-text parsing and packet extraction are tied by C09/C10/C18 and C03.",
      "Lean 4 refinement proof (model = declarative spec) + differential correspondence", "5 C01")
claim("C17",
      "Theorems windowMult_eq_spec / divisors_documented / earlier_divisor_wins / no_mult_no_match: the model of calculate_window_multiplier returns window/d for the first documented divisor that divides the window, for all inputs; tied to the code by exhaustive window sweeps for fixed tuples, constructed multiples of every divisor position and random tuples.",
      BASE_NOTE + "'timestamp present' is read as own timestamp non-zero (as p0f and the code do).",
      "Lean 4 refinement proof (find-first characterisation) + differential correspondence", "5 C17")
claim("C02",
      "Theorems findTcpMatch_eq_spec (for every record list, packet signature and max_dist the loop returns the earliest specific exact match, else the earliest generic exact, else the earliest fuzzy unless user-app), findTcpMatch_mem, direction_only, distance_eq_spec and distance_range (0..255); proved by induction over the record list with generalised accumulators. Tied to find_tcp_match/TCPResult by all orderings of 5-record sets, all 256 TTLs and random databases.",
      BASE_NOTE + "Function-level op builds Database/TCPRecord/Label objects directly; database text parsing is tied by C09.",
      "Lean 4 refinement proof by list induction + differential correspondence", "5 C02")
claim("C13",
      "Theorem uptime_eq_spec: for all timestamp pairs in [0,2^32) (wrap-around included), all elapsed times, all 9-bit flag values / fragment status and all thresholds in the documented domain, the integer-arithmetic model of fingerprint_uptime equals the rational-arithmetic reading of the property (ticks mod 2^32, gates, backward step, raw = ticks*1000/ms, floor, rounding, minutes, wrap days); gate_types; roundFrequency_spec for every integer. Tied to the code through real Scapy packets with time.time_ns controlled, boundary pools, exact threshold hits and round_frequency for all integers 0..3000.",
      BASE_NOTE + "Float arithmetic is modelled by exact rationals (agreement argument in DESIGN 3.4, not a theorem; exercised on the equality cases). Threshold domain: 0 < min_scale, min_wait >= 1, grace >= 1.",
      "Lean 4 refinement proof (integer model = rational spec, Mathlib ordered-field lemmas) + differential correspondence with controlled clock", "5 C13")
claim("C03",
      "Theorems parseOpts_eq_interp (TCPOptions.parse = per-token interpretation of the option-area grammar, for every byte string), tokenize_bytes (tokens partition the buffer in wire order), interp_layout_prefix, value_only_from_wellformed (MSS/scale/timestamp only from complete options of exactly the right length), ipv4_quirks / ipv6_quirks / tcp_quirks (each quirk iff the documented header-bit condition; ts2+ on the masked type SYN), ipv4_fragment, tcpType_syn_iff, sig_fields. The byte-level decoding model is tied to parse_packet / TCPPacketSignature.from_packet by packets generated as bytes: all 512 flag values, IP header boundaries, (kind,length) option probes, random packets.",
      BASE_NOTE + "Scapy's dissection of well-framed packets is modelled as RFC 791/8200/793 field extraction, not verified. Open finding F26 (Scapy cannot dissect a TCP-AO option of length 3) is listed in known_findings.json.",
      "Lean 4 refinement proof (parser = tokenizer + per-token interpretation; quirk iff header bits) + differential correspondence on byte-level packets", "5 C03")
claim("C04",
      "Model side: the option walk is defined by well-founded recursion that Lean accepts only because of the len>=2 advance (termination proof), layout_le_bytes (layout entries <= option bytes), tokenize_length_le (iterations <= bytes), all for every byte string. Runtime side (decisive for Scapy / h11 behaviour the model cannot exhibit): oracle on the real code over well-framed, truncated, inconsistent and hostile packets and HTTP payloads (theorem readPayload_errors_closed: for EVERY byte string read_payload yields a result or PacketError, because no extracted line is empty) - exception category in {none, PacketError}, deterministic executed-line bound proportional to input length, 4 s watchdog.",
      BASE_NOTE + "PARTIAL: what Scapy does with ill-framed bytes and wall-clock time / memory are runtime behaviour outside the model; they are monitored, not proved. Work is measured as executed Python lines inside pyp0f.",
      "Lean 4 termination + bound theorems for the option walk; runtime oracle (exception category, executed-line bound) on generated hostile inputs", "5 C04")
claim("C18",
      "Theorems dumpLayout_parse (for every layout over kinds 0..255 incl. unknown kinds and every EOL padding 0..255 the text printed by TCPOptions.dump parses back to exactly that layout and padding) and dumpQuirks_parse (for every one of the 2^17 quirk sets legal for the stated version, dump_quirks text parses back to exactly that set), proved pointwise / by induction, using Std's Nat.toNat?_repr and core's splitOn_intercalate. Tied to the code by printing real extracted packets, parsing and matching them (must be exact) and by function-level round trips over arbitrary layouts / masks.",
      BASE_NOTE + "Texts are ASCII. The whole-signature round trip (printed signature matches its packet exactly) is checked by correspondence + oracle; its Lean theorem is part of C09's parse/render work.",
      "Lean 4 round-trip proofs (induction over layout / quirk list) + differential correspondence", "5 C18")
claim("C08",
      "Theorems fpMtu_spec (MTU = MSS+40 / MSS+60; PacketError exactly for no MSS / fragment / other flags), findMtu_first (earliest record with exactly that MTU, or none), impMtu_frame (all other options and their order untouched), impMtu_in_place (positions of MSS entries kept, every one carries MTU-header), impMtu_prepend - for all option lists, MTU values and databases. impMtu_roundtrip: for every base list of well-formed option tuples in which no EOL precedes the first MSS option, every admissible MTU and either IP version, the option walk on the bytes Scapy builds for the impersonated packet reports MSS = MTU - header, i.e. fingerprint_mtu reports the requested MTU (via parseOptsGo_encode_cons / _list: the verified option walk consumes an encoded tuple list entry by entry). Also judged by the property oracle on the real output over base option lists incl. MSS 0, duplicates, EOL/garbage, every position.",
      BASE_NOTE + "Scapy's option encoding (TCPOptionsField.i2m + zero padding) is modelled (SOpt.encode / encodeOpts) and tied by the impmtu correspondence. A base whose MSS option sits behind an EOL cannot be fixed by an in-place replacement; those inputs are outside the round-trip clause (hypothesis hreach).",
      "Lean 4 proofs of selection / frame / in-place theorems + property oracle and differential correspondence for the round trip", "5 C08")
claim("C06",
      "Theorems headersMatchGo_iff / headersMatch_iff (the index loop of headers_match holds exactly when the declarative walk does: each signature header found at the first position after the previous match, demanded substring in that occurrence, optional header only if it occurs nowhere), httpSigMatch_iff (version, required headers, absent headers, walk), findHttpMatch_eq_spec (earliest non-generic else earliest generic, by induction over the record list), dishonest_iff - for all header lists, signatures and databases. Tied to the code by an exhaustive small scope, messages with signatures derived backwards from them, signature-text parsing and database-level fingerprint_http runs.",
      BASE_NOTE + "Byte strings are modelled as code-point lists; case-insensitive comparison is ASCII lower-casing (bytes.lower).",
      "Lean 4 refinement proof (index loop = declarative walk; loop = find?-spec) + differential correspondence", "5 C06")
claim("C07",
      "Theorem read_render (whole message): for every first line the line reader accepts, every list of header lines name ':' value (name non-empty, without colon or LF, not starting with SP / HT; value without LF), either blank-line form, any body and ANY per-line choice of CRLF or bare LF terminators, read_payload returns the direction and minor version of the first line and exactly the headers - in wire order, names as sent, values stripped; built from scan_render / extractLines_render (h11's blank-line scan returns exactly the lines, by induction over the line list) and readHeaders_sent. Per-line theorems for every line shape: header_line, continuation_line (folded lines appended with CRLF SP), continuation_first_rejected, no_colon_rejected, empty_name_rejected, first_line_request / first_line_other / first_line_short, minorVersion_iff (exactly HTTP/1.<digit>), extractLines_nonempty, readPayload_errors_closed (every payload gives a result or PacketError). Tied to the code by the generator's own header list as oracle and by correspondence on well-formed and single-defect corrupted messages.",
      BASE_NOTE + "Folded continuation lines are covered by the per-line theorem and correspondence, not by the whole-message theorem. h11's maybe_extract_lines is modelled from its source.",
      "Lean 4 proof (blank-line scan by induction over lines, composed with per-line theorems) + closure theorem; generator oracle and differential correspondence", "5 C07")

ALL = [f"C{i:02d}" for i in range(1, 19)]
checks = []
for pid in ALL:
    if pid in CLAIMS:
        c = CLAIMS[pid]
        checks.append({
            "property_id": pid,
            "quick_cmd": f"./check {pid} --tier quick",
            "thorough_cmd": f"./check {pid} --tier thorough",
            "evidence_file": f"evidence/{pid}.json",
            "replay_cmd_template": f"./check {pid} --replay {{path}}",
            "engine": "lean-model+correspondence",
            "level_claimed": {"category": "proof", "text": c["text"], "design_ref": c["design"]},
            "level_note": c["note"],
            "technique": c["technique"],
        })
man = {
    "version": 1,
    "setup_cmd": "./check setup",
    "hooks": {"guard": "PYP0F_VERIF", "enable": "no source hooks are needed: the harness controls the clock, the RNG seed and the reader from outside (DESIGN 2.4)",
              "baseline_off_cmd": "cd /repo && /venv/bin/python -m pytest -ra -q -p no:cacheprovider --timeout=900 --continue-on-collection-errors",
              "source_commits": [], "add_only": True},
    "engines": [{"name": "lean-model+correspondence", "path": "lean/ + harness/", "serves_properties": sorted(CLAIMS),
                 "kind_free_text": "Lean 4 model, specs and theorems (lake project, import-free model, compiled line-protocol driver) + Python differential harness running the real pyp0f"}],
    "checks": checks,
    "not_applicable": [{"property_id": p, "reason": "check not built yet (work in progress; see DESIGN.md section 5 for the plan)"} for p in ALL if p not in CLAIMS],
    "notes": "All checks: ./check <id> --tier quick|thorough [--replay file]; exit 0 ok, 1 VIOLATION, 2 infrastructure error. Findings: known_findings.json.",
}
json.dump(man, open(os.path.join(V, "MANIFEST.json"), "w"), indent=1)
print("claims:", sorted(CLAIMS))
