#!/usr/bin/env python3
"""Writes MANIFEST.json from the table below (kept here so the manifest is always regenerated whole)."""
import json, os
V = os.path.dirname(os.path.dirname(os.path.abspath(__file__)))
BASE_NOTE = ("Trusted: Lean 4.33 kernel; axioms {propext, Classical.choice, Quot.sound} only (audited with #print axioms on every run; no sorry/native_decide/bv_decide/own axioms); "
             "the spec in lean/P0f/Spec as a reading of the property; the hand-written model is tied to /repo by differential correspondence through the line protocol "
             "(harness/impl.py = real pyp0f, lean/Driver.lean = model) and by tables regenerated from the source on every run - that tie is testing, not proof. ")
CLAIMS = {}
def claim(pid, text, note, technique, design):
    CLAIMS[pid] = dict(text=text, note=note, technique=technique, design=design)

claim("C01",
      "Theorem tcpMatch_eq_spec: for every signature, packet signature and max_dist the model of tcp_signatures_match equals the declarative matching rules of the property (with readable corollaries match_only_if/match_if/exact_iff/match_version/badTtl_never_larger); the model is tied to the code by exhaustive TTL/quirk-difference grids and random structured pairs at function level. A disagreement is a concrete input on which the code departs from the rules.",
      BASE_NOTE + "Function-level op constructs TCPSignature/TCPPacketSignature objects directly; signature-text parsing and packet extraction are tied by C09/C10/C18 and C03.",
      "Lean 4 refinement proof (model = declarative spec) + differential correspondence", "5 C01")
claim("C17",
      "Theorems windowMult_eq_spec / divisors_documented / earlier_divisor_wins / no_mult_no_match: the model of calculate_window_multiplier returns window/d for the first documented divisor that divides the window, for all inputs; tied to the code by exhaustive window sweeps for fixed tuples, constructed multiples of every divisor position and random tuples.",
      BASE_NOTE + "'timestamp present' is read as own timestamp non-zero (as p0f and the code do).",
      "Lean 4 refinement proof (find-first characterisation) + differential correspondence", "5 C17")
claim("C02",
      "Theorems findTcpMatch_eq_spec (for every record list, packet signature and max_dist the loop returns the earliest specific exact match, else the earliest generic exact, else the earliest fuzzy unless user-app), findTcpMatch_mem, direction_only, distance_eq_spec and distance_range (0..255); proved by induction over the record list with generalised accumulators. Tied to find_tcp_match/TCPResult by all orderings of 5-record sets, all 256 TTLs and random databases.",
      BASE_NOTE + "Function-level op builds Database/TCPRecord/Label objects directly; database text parsing is tied by C09.",
      "Lean 4 refinement proof by list induction + differential correspondence", "5 C02")
claim("C13",
      "Theorem uptime_eq_spec: for all timestamp pairs in [0,2^32) (wrap-around included), all elapsed times, all 9-bit flag values / fragment status and all thresholds in the documented domain, the integer-arithmetic model of fingerprint_uptime equals the rational-arithmetic reading of the property (ticks mod 2^32, gates, backward step, raw = ticks*1000/ms, floor, rounding, minutes, wrap days); gate_types; roundFrequency_spec for every integer. Tied to the code through real Scapy packets with time.time_ns controlled, boundary pools, exact threshold hits and round_frequency for all integers 0..3000.",
      BASE_NOTE + "Float arithmetic is modelled by exact rationals (agreement argument in DESIGN 3.4, not a theorem; exercised on the equality cases). Threshold domain: 0 < min_scale, min_wait >= 1, grace >= 1.",
      "Lean 4 refinement proof (integer model = rational spec, Mathlib ordered-field lemmas) + differential correspondence with controlled clock", "5 C13")
claim("C03",
      "Theorems parseOpts_eq_interp (TCPOptions.parse = per-token interpretation of the option-area grammar, for every byte string), tokenize_bytes (tokens partition the buffer in wire order), interp_layout_prefix, value_only_from_wellformed (MSS/scale/timestamp only from complete options of exactly the right length), ipv4_quirks / ipv6_quirks / tcp_quirks (each quirk iff the documented header-bit condition; ts2+ on the masked type SYN), ipv4_fragment, tcpType_syn_iff, sig_fields. The byte-level decoding model is tied to parse_packet / TCPPacketSignature.from_packet by packets generated as bytes: all 512 flag values, IP header boundaries, (kind,length) option probes, random packets.",
      BASE_NOTE + "Scapy's dissection of well-framed packets is modelled as RFC 791/8200/793 field extraction, not verified. Open finding F26 (Scapy cannot dissect a TCP-AO option of length 3) is listed in known_findings.json.",
      "Lean 4 refinement proof (parser = tokenizer + per-token interpretation; quirk iff header bits) + differential correspondence on byte-level packets", "5 C03")
claim("C04",
      "Model side: the option walk is defined by well-founded recursion that Lean accepts only because of the len>=2 advance (termination proof), layout_le_bytes (layout entries <= option bytes), tokenize_length_le (iterations <= bytes), all for every byte string. Runtime side (decisive for Scapy / h11 behaviour the model cannot exhibit): oracle on the real code over well-framed, truncated, inconsistent and hostile packets and HTTP payloads (theorem readPayload_errors_closed: for EVERY byte string read_payload yields a result or PacketError, because no extracted line is empty) - exception category in {none, PacketError}, deterministic executed-line bound proportional to input length, 4 s watchdog.",
      BASE_NOTE + "PARTIAL: what Scapy does with ill-framed bytes and wall-clock time / memory are runtime behaviour outside the model; they are monitored, not proved. Work is measured as executed Python lines inside pyp0f.",
      "Lean 4 termination + bound theorems for the option walk; runtime oracle (exception category, executed-line bound) on generated hostile inputs", "5 C04")
claim("C18",
      "Theorems dumpLayout_parse (for every layout over kinds 0..255 incl. unknown kinds and every EOL padding 0..255 the text printed by TCPOptions.dump parses back to exactly that layout and padding) and dumpQuirks_parse (for every one of the 2^17 quirk sets legal for the stated version, dump_quirks text parses back to exactly that set), proved pointwise / by induction, using Std's Nat.toNat?_repr and core's splitOn_intercalate. Tied to the code by printing real extracted packets, parsing and matching them (must be exact) and by function-level round trips over arbitrary layouts / masks.",
      BASE_NOTE + "Texts are ASCII. The whole-signature round trip (printed signature matches its packet exactly) is checked by correspondence + oracle; its Lean theorem is part of C09's parse/render work.",
      "Lean 4 round-trip proofs (induction over layout / quirk list) + differential correspondence", "5 C18")
claim("C08",
      "Theorems fpMtu_spec (MTU = MSS+40 / MSS+60; PacketError exactly for no MSS / fragment / other flags), findMtu_first (earliest record with exactly that MTU, or none), impMtu_frame (all other options and their order untouched), impMtu_in_place (positions of MSS entries kept, every one carries MTU-header), impMtu_prepend - for all option lists, MTU values and databases. The round trip 'MTU fingerprint of the impersonated packet is m' is decided by the property oracle on the real output (and by the model of Scapy's option encoding + the verified option walk) over base option lists incl. MSS 0, duplicates, EOL/garbage, every position.",
      BASE_NOTE + "PARTIAL: the round-trip clause is not yet a Lean theorem (needs the encode/parse composition lemma, planned with C05); it is decided by oracle + correspondence. A base whose MSS option sits behind an EOL cannot be fixed by an in-place replacement; those inputs are outside the round-trip clause.",
      "Lean 4 proofs of selection / frame / in-place theorems + property oracle and differential correspondence for the round trip", "5 C08")
claim("C06",
      "Theorems headersMatchGo_iff / headersMatch_iff (the index loop of headers_match holds exactly when the declarative walk does: each signature header found at the first position after the previous match, demanded substring in that occurrence, optional header only if it occurs nowhere), httpSigMatch_iff (version, required headers, absent headers, walk), findHttpMatch_eq_spec (earliest non-generic else earliest generic, by induction over the record list), dishonest_iff - for all header lists, signatures and databases. Tied to the code by an exhaustive small scope, messages with signatures derived backwards from them, signature-text parsing and database-level fingerprint_http runs.",
      BASE_NOTE + "Byte strings are modelled as code-point lists; case-insensitive comparison is ASCII lower-casing (bytes.lower).",
      "Lean 4 refinement proof (index loop = declarative walk; loop = find?-spec) + differential correspondence", "5 C06")
claim("C07",
      "Line-level theorems for every header line shape (header_line: name kept, value stripped, wire order; continuation_line; continuation_first_rejected; no_colon_rejected; empty_name_rejected) and first line shape (first_line_request / first_line_other / first_line_short, minorVersion_iff: exactly HTTP/1.<digit>), extractLines_nonempty and readPayload_errors_closed (every payload gives a result or PacketError). The composition over a whole rendered message (read_render) is NOT yet a theorem; it is decided by the oracle that compares the parsed result with the header list the generator wrote, and by correspondence on well-formed and single-defect corrupted messages.",
      BASE_NOTE + "PARTIAL: read_render (whole-message composition of the line-level theorems through the blank-line scan) is covered by oracle + correspondence only. h11's maybe_extract_lines is modelled from its source.",
      "Lean 4 proofs per line shape + closure theorem; property oracle (generator's own header list) and differential correspondence for whole messages", "5 C07")
claim("C09",
      "Theorem parseLines_records: for EVERY list of lines (any interleaving of sections incl. repeated headers, labels, sys lines, comments, blank lines, skipped parameters) a successful run of the model of _parse_file returns exactly specDb - the database defined line by line without parser state: a section exists iff it has a header, and holds in file order one record per sig line with its enclosing section (last header before it), the most recent label with its sys list, the structured signature of its text, the raw text and the 1-based line number. Corollaries record_iff_sig_line (record <-> sig line, both directions), recordAt_fields, len_eq_sig_lines, records_in_file_order. Tied to Database.load / iter_values / len by grammar-generated files judged against the model AND against the generator's own record list, the shipped p0f.fp, and every signature / label text through the structured-signature ops.",
      BASE_NOTE + "PARTIAL: 'each structured signature denotes what its text denotes' is proved for option layouts and quirk lists (C18 dumpLayout_parse / dumpQuirks_parse) and for ranges (C10 parseTcpSig_ranges); the whole-signature parse/render round trip is decided by correspondence over the full grammars, not yet by a theorem. Texts are ASCII; universal-newline reading is modelled (pyLines).",
      "Lean 4 refinement proof (parser state machine = stateless per-line specification, invariant by induction over the lines) + differential correspondence + generator oracle", "5 C09")
claim("C10",
      "Theorems parseLines_closed (for EVERY list of lines the model of _parse_file returns a database or ParsingError(n) with 1 <= n <= number of lines; IndexError and plain DatabaseError are unreachable - stepKind_error under the parser invariant), error_line_correct (the reported line is the first one the parser cannot accept: the lines before it load, and it fails in the state they lead to), load_closed (Database.load: success, ParsingError, or DatabaseError exactly for an unreadable file), blank_and_comment_ok, and range soundness parseTcpSig_ranges / parseMtuSig_range / parseTtl_range / parseWindow_range / parseOptionsField_range (whatever the parsers accept lies in the documented ranges, known keywords only, no quirk illegal for the version). Tied to the code by single-fault corruptions with generator-known faulty line, all sequences of <= 4 line kinds, unreadable paths, non-ASCII texts (category oracle) and corrupted signature texts.",
      BASE_NOTE + "Texts compared with the model are ASCII; non-ASCII inputs are judged by the exception-category oracle only. open()/decoding failures are modelled as one 'unreadable' outcome.",
      "Lean 4 invariant proof (error closure, error line, range soundness) + differential correspondence + fault-line oracle", "5 C10")
claim("C11",
      "Theorems over the state machine of public calls (apiStep / apiRun; the only state between calls is the live record map): failed_load_preserves, load_replaces (the result of a successful load is independent of what was loaded before - no accumulation) with load_result (= the database the file denotes, C09), load_idempotent, reader_old_or_new + reader_new_only_on_success (every observation during a load is the old or the new contents), unloaded_is_error_tcp/mtu/http + no_successful_load_stays_empty (before any successful load every fingerprint raises DatabaseError / PacketError, never 'no match'), apiRun_db and history_independent - for all histories, files and previous contents. Tied to the code by histories of loads (good A/B, the shipped file, a fault inserted at EVERY line, unreadable paths) and probes on one Database object while a reader snapshots the shared object at every line / call / return event (thorough: every bytecode) of the load.",
      BASE_NOTE + "PARTIAL: preemption is abstracted to observation points inside the loading thread (bytecode boundaries in the thorough tier) - sound for CPython with the GIL, not for free-threaded builds; that the parser writes into a private RecordsDatabase is a fact of the code the model states and the reader checks, not something the theorem derives.",
      "Lean 4 proofs over call histories (invariants by induction) + differential correspondence on histories with an injected reader", "5 C11")
claim("C15",
      "Theorems label_parse_dump (every four-part label text type:class:name:flavour without further colons - any class, spaces / punctuation, empty flavour - parses to exactly those fields and dumps back to exactly that text), parseLabel_dump_fixpoint (dump of any accepted label re-parses to the same label), candidates_iff (the candidates of a lookup are exactly the records of the requested kind and direction whose dumped label equals the text), candidates_error_iff / candidates_error_database (DatabaseError iff there is none), loaded_label_dump (a record loaded under a four-part label line dumps to that line's text). Tied to Label.parse/dump, Database.get_random and impersonate_mtu(raw_label=..) by label-text streams, generated databases with the same label across kinds and directions, and >= 40 seeded draws per record so that the set of returned records must equal the candidate set.",
      BASE_NOTE + "'can return every such record' is about random.choice: the model gives the candidate list, the harness checks by repeated seeded draws that each candidate is returned (miss probability < 1e-16 per lookup). impersonate_tcp by label is exercised with C05.",
      "Lean 4 round-trip and filter-characterisation proofs + differential correspondence with repeated seeded draws", "5 C15")
claim("C16",
      "Theorems tcpMatchObj_eq / findLoopObj_eq / fingerprintTcpObj_eq: the model that threads the per-call TCPPacketSignature object with its window-multiplier cache through tcp_signatures_match and the record loop exactly as the code does (cache filled lazily, only in the mss*N / mtu*N window branches) returns, for every database, packet signature, record order and max_dist, what the cache-free definitions of C01 / C02 / C17 return, keeps the cache coherent and never changes a field; repeated_match_stable; across calls history_independent / repeat_stable / only_load_changes / apiRun_db (C11): a result depends on the history only through the live database. Tied to the code by call histories over input pools (same MSS / header shape, different windows and peer MSS), every input raw / as parsed Packet / twice on the same object, interleaved with impersonations and reloads of three databases; every step compared with the pure model.",
      BASE_NOTE + "Interpretive choice: TCPPacketSignature.received (receive time) is clock metadata, not part of the result. Module-level state a change might introduce (caches keyed by anything) is not in the model by construction - it is what the history correspondence is there to expose.",
      "Lean 4 refinement proof (cache-threading model = pure model, by induction over the record list) + differential correspondence on call histories", "5 C16")
claim("C12",
      "Theorems call_frame / impMtu_world_frame / run_frame over an explicit store of caller objects (packets as option list + everything else, buffers as bytes + consumed offset, the database): every call except impersonate_mtu leaves the store unchanged, impersonate_mtu changes only the option list of the packet it is given, lifted to arbitrary call sequences; db_untouched (no call but load alters a record, label or signature; from C11) and C08's impMtu_frame for the content of the rewritten option list. DECISIVE for Python aliasing: a snapshot oracle on the real objects - before every call a field-level snapshot (layer identities, explicit fields deep-copied, overloaded fields, raw caches) plus a Scapy deep copy; afterwards fields, identities, bytes(packet), packet.command(), buffer bytes / offsets / extractability and the identity + repr of every database record / label / signature must be unchanged, and impersonate_tcp's result must share no layer object with its input.",
      BASE_NOTE + "PARTIAL: that pyp0f works on copies (copy_packet(assemble=True), copy_buffer, fresh layers) is stated by the model and checked by the snapshots, not derived; aliasing inside Scapy is outside the model.",
      "Lean 4 frame theorems over an explicit object store + before/after deep-snapshot oracle on the real objects across random call sequences", "5 C12")

ALL = [f"C{i:02d}" for i in range(1, 19)]
checks = []
for pid in ALL:
    if pid in CLAIMS:
        c = CLAIMS[pid]
        checks.append({
            "property_id": pid,
            "quick_cmd": f"./check {pid} --tier quick",
            "thorough_cmd": f"./check {pid} --tier thorough",
            "evidence_file": f"evidence/{pid}.json",
            "replay_cmd_template": f"./check {pid} --replay {{path}}",
            "engine": "lean-model+correspondence",
            "level_claimed": {"category": "proof", "text": c["text"], "design_ref": c["design"]},
            "level_note": c["note"],
            "technique": c["technique"],
        })
man = {
    "version": 1,
    "setup_cmd": "./check setup",
    "hooks": {"guard": "PYP0F_VERIF", "enable": "no source hooks are needed: the harness controls the clock, the RNG seed and the reader from outside (DESIGN 2.4)",
              "baseline_off_cmd": "cd /repo && /venv/bin/python -m pytest -ra -q -p no:cacheprovider --timeout=900 --continue-on-collection-errors",
              "source_commits": [], "add_only": True},
    "engines": [{"name": "lean-model+correspondence", "path": "lean/ + harness/", "serves_properties": sorted(CLAIMS),
                 "kind_free_text": "Lean 4 model, specs and theorems (lake project, import-free model, compiled line-protocol driver) + Python differential harness running the real pyp0f"}],
    "checks": checks,
    "not_applicable": [{"property_id": p, "reason": "check not built yet (work in progress; see DESIGN.md section 5 for the plan)"} for p in ALL if p not in CLAIMS],
    "notes": "All checks: ./check <id> --tier quick|thorough [--replay file]; exit 0 ok, 1 VIOLATION, 2 infrastructure error. Findings: known_findings.json.",
}
json.dump(man, open(os.path.join(V, "MANIFEST.json"), "w"), indent=1)
print("claims:", sorted(CLAIMS))
