#!/usr/bin/env python3
"""
dev tool: take a candidate change written by a sub-agent (<dir> with patch.diff, demo.py, notes.md), confirm it in a
scratch worktree (demo before / after, unedited suite) through tools/mutant_eval.py, run the quick checks named, and
file it under seeded/<property>-m<k>/ with a meta.json.

  tools/seed_import.py <dir> <property> [<other props to run too> ...]
"""
import json
import os
import shutil
import subprocess
import sys

VERIF = os.path.dirname(os.path.dirname(os.path.abspath(__file__)))


def main():
    src, prop, extra = os.path.abspath(sys.argv[1]), sys.argv[2], sys.argv[3:]
    k = 1
    while os.path.exists(os.path.join(VERIF, "seeded", f"{prop}-m{k}")):
        k += 1
    name = f"{prop}-m{k}"
    p = subprocess.run([os.path.join(VERIF, "tools", "mutant_eval.py"), src, "imp-" + name, prop] + extra + ["--tests"], stdout=subprocess.PIPE, text=True)
    res = json.loads(p.stdout)
    if "error" in res:
        print(json.dumps(res))
        return 2
    ok = res.get("demo_clean_rc") == 0 and res.get("demo_patched_rc") not in (0, None) and res.get("tests", "").startswith("82 passed")
    if not ok:
        print("NOT CONFIRMED:", json.dumps({k: res.get(k) for k in ("demo_clean_rc", "demo_patched_rc", "tests")}))
        return 1
    dst = os.path.join(VERIF, "seeded", name)
    os.makedirs(dst)
    for f in ("patch.diff", "demo.py", "notes.md"):
        if os.path.exists(os.path.join(src, f)):
            shutil.copy(os.path.join(src, f), dst)
    notes = open(os.path.join(src, "notes.md")).read() if os.path.exists(os.path.join(src, "notes.md")) else ""
    lines = [x.strip() for x in notes.splitlines() if x.strip() and not x.startswith("#")]
    caught = [q for q, c in res["checks"].items() if any(l.startswith("VIOLATION") for l in c["lines"])]
    meta = {
        "property": prop,
        "source": "written by an independent sub-agent (" + os.environ.get("SEED_WAVE", "second") + " wave) given only the property record, the list of changes already tried and a scratch worktree",
        "needs_to_manifest": next((l for l in lines if "need" in l.lower() or "manifest" in l.lower()), "")[:300],
        "confirmed": {"demo_exit_on_unchanged_tree": res.get("demo_clean_rc"), "demo_exit_with_patch": res.get("demo_patched_rc"),
                      "baseline_suite_with_patch": res.get("tests"),
                      "how": "tools/seed_import.py -> tools/mutant_eval.py <dir> <name> <props> --tests : scratch worktree of /repo under /tmp/mw, patch applied there, demo before/after, full pytest run, quick checks with PYP0F_REPO pointing at the worktree, worktree removed"},
        "quick_checks_run": list(res["checks"].keys()),
        "caught_by": caught,
        "not_caught_by": [q for q in res["checks"] if q not in caught],
        "first_report": {q: c["replay"] for q, c in res["checks"].items() if c.get("replay")},
        "what": (lines[0] if lines else "")[:300],
    }
    json.dump(meta, open(os.path.join(dst, "meta.json"), "w"), indent=1)
    print(name, "caught_by", caught, "missed_by", meta["not_caught_by"])
    return 0


if __name__ == "__main__":
    sys.exit(main())
