#!/usr/bin/env python3
"""fills DESIGN.md's logic table from tools/logic_eval.py output lines (json, one per change) kept in refactors/logic_eval.jsonl"""
import json, os, re
V = os.path.dirname(os.path.dirname(os.path.abspath(__file__)))
rows = [json.loads(l) for l in open(os.path.join(V, "refactors", "logic_eval.jsonl")) if l.startswith("{")]
out = ["| change | kind | printed definitions that changed | fell back (not translatable) | bridging / build failures | verdict of the tie alone |", "|---|---|---|---|---|---|"]
for r in rows:
    name = r["name"]
    harmless = name.startswith("rf") or re.fullmatch(r"h[A-Z]", name) is not None
    kind = "refactoring (harmless)" if harmless else ("hand-made defect inside the fragment" if re.fullmatch(r"m[A-Z]", name) else "seeded defect")
    un = "; ".join(u.split(": ", 1)[0].split(".")[-1] + " (" + u.split(": ", 1)[1][:50] + ")" for u in r.get("unavailable", []))
    failed = ", ".join(m.replace("P0f.", "") for m in r.get("failed_modules", []))
    if failed:
        verdict = "ALARM (obligation broken)" + (" - false alarm" if harmless else "")
    elif r.get("unavailable"):
        verdict = "quiet - tie falls back to the correspondence"
    elif r.get("files_changed"):
        verdict = "quiet - printed definition changed, bridging proofs still hold" + ("" if harmless else " (the defect is outside the translated logic or equivalent on it)")
    else:
        verdict = "quiet - no translated function touched"
    out.append(f"| `{name}` | {kind} | {', '.join(f.replace('.lean','') for f in r.get('files_changed', []))} | {un} | {failed} | {verdict} |")
p = os.path.join(V, "DESIGN.md")
s = open(p).read()
s = re.sub(r"<!-- logic-table-begin -->.*?<!-- logic-table-end -->", "<!-- logic-table-begin -->\n" + "\n".join(out) + "\n<!-- logic-table-end -->", s, flags=re.S)
open(p, "w").write(s)
import collections
c = collections.Counter()
for r in rows:
    name = r["name"]
    harmless = name.startswith("rf") or re.fullmatch(r"h[A-Z]", name) is not None
    if r.get("failed_modules"):
        k = "alarm"
    elif r.get("unavailable"):
        k = "fallback"
    elif r.get("files_changed"):
        k = "re-proved"
    else:
        k = "untouched"
    c[("harmless" if harmless else "defect", k)] += 1
print(len(rows), "rows", dict(c))
