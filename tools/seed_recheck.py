#!/usr/bin/env python3
"""dev tool: re-run quick checks against a filed seeded change and update its meta.json (caught_by / not_caught_by)

  tools/seed_recheck.py <seeded name> [<props> ...]      (default: its own property)
"""
import json
import os
import subprocess
import sys

VERIF = os.path.dirname(os.path.dirname(os.path.abspath(__file__)))
name, props = sys.argv[1], sys.argv[2:]
d = os.path.join(VERIF, "seeded", name)
meta = json.load(open(os.path.join(d, "meta.json")))
props = props or [meta["property"]]
p = subprocess.run([os.path.join(VERIF, "tools", "mutant_eval.py"), d, "re-" + name] + props, stdout=subprocess.PIPE, text=True)
res = json.loads(p.stdout)
if "error" in res:
    print(name, "ERROR", res["error"])
    sys.exit(2)
for q, c in res["checks"].items():
    hit = any(l.startswith("VIOLATION") for l in c["lines"])
    for key in ("caught_by", "not_caught_by", "quick_checks_run"):
        meta.setdefault(key, [])
    if q not in meta["quick_checks_run"]:
        meta["quick_checks_run"].append(q)
    if hit:
        if q not in meta["caught_by"]:
            meta["caught_by"].append(q)
        if q in meta["not_caught_by"]:
            meta["not_caught_by"].remove(q)
            meta.setdefault("caught_after_strengthening", [])
            if q not in meta["caught_after_strengthening"]:
                meta["caught_after_strengthening"].append(q)
        if c.get("replay"):
            meta.setdefault("first_report", {})[q] = c["replay"]
    else:
        if q in meta["caught_by"]:
            meta["caught_by"].remove(q)
        if q not in meta["not_caught_by"]:
            meta["not_caught_by"].append(q)
json.dump(meta, open(os.path.join(d, "meta.json"), "w"), indent=1)
print(name, "caught_by", meta["caught_by"], "not_caught_by", meta["not_caught_by"])
