#!/bin/bash
# usage: tools/seedtest.sh <patch.diff> <prop> [<prop> ...]   -- applies patch to /repo, runs quick checks, reverts
patch=$1; shift
cd /repo || exit 2
if [ -n "$(git status --porcelain)" ]; then echo "repo dirty"; exit 2; fi
git apply "$patch" || { echo "patch does not apply"; exit 2; }
trap 'git -C /repo checkout -- . ; git -C /repo clean -fdq pyp0f' EXIT
cd /verif
for p in "$@"; do
  out=$(./check $p --tier quick 2>/dev/null | grep -E "VIOLATION|KNOWN" | head -3)
  echo "$p rc=$? :: ${out:-no violation}"
done
