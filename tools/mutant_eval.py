#!/usr/bin/env python3
"""
dev tool: confirm a candidate property-breaking change and run the quick checks against it.

  tools/mutant_eval.py <dir with patch.diff + demo.py> <name> <prop> [<prop> ...] [--tests] [--tier quick]

Everything happens in a scratch worktree of /repo (under /tmp/mw) and a scratch copy of the Lean
project, so /repo and /verif/lean are not touched and several evaluations can run side by side.
Prints one JSON line with: demo_clean_rc, demo_patched_rc, tests (if --tests), and per property the
check's exit code and VIOLATION / KNOWN-FINDING lines.  Removes the scratch worktree afterwards.
"""
import json
import os
import shutil
import subprocess
import sys

PY = "/venv/bin/python"
VERIF = os.path.dirname(os.path.dirname(os.path.abspath(__file__)))


def sh(cmd, cwd=None, env=None, timeout=3600):
    e = dict(os.environ)
    if env:
        e.update(env)
    p = subprocess.run(cmd, cwd=cwd, env=e, shell=isinstance(cmd, str), stdout=subprocess.PIPE, stderr=subprocess.STDOUT, text=True, timeout=timeout)
    return p.returncode, p.stdout


def main():
    args = [a for a in sys.argv[1:] if not a.startswith("--")]
    flags = [a for a in sys.argv[1:] if a.startswith("--")]
    src, name, props = os.path.abspath(args[0]), args[1], args[2:]
    tier = "thorough" if "--thorough" in flags else "quick"
    root = "/tmp/mw"
    os.makedirs(root, exist_ok=True)
    wt = os.path.join(root, name)
    lean = os.path.join(root, name + "-lean")
    out = os.path.join(root, name + "-out")
    res = {"name": name, "src": src}
    sh(["git", "-C", "/repo", "worktree", "remove", "--force", wt])
    rc, o = sh(["git", "-C", "/repo", "worktree", "add", "--detach", wt, "HEAD"])
    if rc:
        print(json.dumps({"error": o}))
        return 2
    try:
        demo = os.path.join(src, "demo.py")
        if os.path.exists(demo):
            res["demo_clean_rc"], o = sh([PY, demo], cwd=wt, timeout=600, env={"PYTHONPATH": wt})
        rc, o = sh(["git", "apply", os.path.join(src, "patch.diff")], cwd=wt)
        if rc:
            res["error"] = "patch does not apply: " + o[-300:]
            print(json.dumps(res))
            return 2
        if os.path.exists(demo):
            res["demo_patched_rc"], o = sh([PY, demo], cwd=wt, timeout=600, env={"PYTHONPATH": wt})
            res["demo_patched_tail"] = o[-300:]
        if "--tests" in flags:
            rc, o = sh(f"{PY} -m pytest -q -p no:cacheprovider --timeout=900 2>&1 | tail -3", cwd=wt, timeout=3000)
            res["tests"] = o.strip().splitlines()[-1] if o.strip() else ""
        if props:
            # a snapshot of the whole machinery (harness, driver, model, proofs, tables): edits made to /verif while
            # this evaluation runs cannot mix an old driver with a new generator
            shutil.rmtree(lean, ignore_errors=True)
            os.makedirs(lean)
            sh(["rsync", "-a", "--exclude", ".git", "--exclude", "seeded", "--exclude", "evidence", "--exclude", "replays",
                "--exclude", "__pycache__", VERIF + "/", lean + "/"])
            out = lean
            env = {"PYP0F_REPO": wt, "VERIF_LEAN": "", "VERIF_OUT": ""}
            res["checks"] = {}
            for p in props:
                rc, o = sh([os.path.join(lean, "check"), p, "--tier", tier], cwd=lean, env=env, timeout=7200)
                lines = [l for l in o.splitlines() if l.startswith(("VIOLATION", "KNOWN-FINDING", "INFRA"))]
                rp = None
                for l in lines:
                    if l.startswith("VIOLATION") and "replay=" in l:
                        path = os.path.join(out, l.split("replay=")[1].split()[0])
                        try:
                            d = json.load(open(path))
                            rp = {k: d.get(k) for k in ("kind", "what", "op", "impl", "model_and_spec", "broken_obligations", "n_failures") if k in d}
                            for k in ("op", "impl", "model_and_spec", "what"):
                                if isinstance(rp.get(k), str) and len(rp[k]) > 400:
                                    rp[k] = rp[k][:400] + "..."
                        except Exception as e:  # noqa
                            rp = {"error": str(e)}
                res["checks"][p] = {"rc": rc, "lines": lines, "replay": rp}
    finally:
        sh(["git", "-C", "/repo", "worktree", "remove", "--force", wt])
        shutil.rmtree(lean, ignore_errors=True)
        shutil.rmtree(out, ignore_errors=True)
    print(json.dumps(res, indent=1))
    return 0


if __name__ == "__main__":
    sys.exit(main())
