#!/venv/bin/python
"""
dev tool: what does the *translator tie alone* say about a candidate change?

  tools/logic_eval.py <dir with patch.diff> [...]

For each: scratch worktree of /repo with the patch, scratch copy of lean/ (with its build output), regenerate the
logic definitions from the patched source and rebuild the bridging theorems.  Prints per change: which generated files
changed, which targets fell back (not translatable), which bridging modules fail.  Nothing in /repo or /verif/lean is touched.
"""
import json, os, shutil, subprocess, sys
VERIF = os.path.dirname(os.path.dirname(os.path.abspath(__file__)))

def sh(cmd, cwd=None, env=None):
    e = dict(os.environ); e.update(env or {})
    p = subprocess.run(cmd, cwd=cwd, env=e, stdout=subprocess.PIPE, stderr=subprocess.STDOUT, text=True)
    return p.returncode, p.stdout

def main():
    for src in sys.argv[1:]:
        src = os.path.abspath(src)
        name = os.path.basename(src.rstrip("/"))
        wt, lean = f"/tmp/le/{name}", f"/tmp/le/{name}-lean"
        os.makedirs("/tmp/le", exist_ok=True)
        sh(["git", "-C", "/repo", "worktree", "remove", "--force", wt])
        sh(["git", "-C", "/repo", "worktree", "add", "--detach", wt, "HEAD"])
        try:
            rc, o = sh(["git", "apply", os.path.join(src, "patch.diff")], cwd=wt)
            if rc:
                print(json.dumps({"name": name, "error": o[-200:]})); continue
            shutil.rmtree(lean, ignore_errors=True)
            sh(["rsync", "-a", os.environ.get("LE_LEAN_SRC", os.path.join(VERIF, "lean")) + "/", lean + "/"])
            code = ("import sys; sys.path.insert(0, %r); from harness import py2lean; ch = py2lean.regenerate(); "
                    "import json; print(json.dumps({'changed': ch, 'unavailable': py2lean.UNAVAILABLE}))" % VERIF)
            before = {f: open(os.path.join(lean, "P0f/Generated/Logic", f)).read() for f in os.listdir(os.path.join(lean, "P0f/Generated/Logic"))}
            rc, o = sh(["/venv/bin/python", "-c", code], env={"PYP0F_REPO": wt, "VERIF_LEAN": lean, "PYTHONPATH": wt})
            info = json.loads(o.strip().splitlines()[-1]) if rc == 0 else {"error": o[-400:]}
            after = {f: open(os.path.join(lean, "P0f/Generated/Logic", f)).read() for f in os.listdir(os.path.join(lean, "P0f/Generated/Logic"))}
            info["files_changed"] = sorted(f for f in after if before.get(f) != after[f])
            rc, o = sh(["lake", "build", "P0f"], cwd=lean)
            import re
            info["build_rc"] = rc
            info["failed_modules"] = re.findall(r"^- (P0f\.[\w.]+)", o, re.M)
            info["name"] = name
            print(json.dumps(info))
        finally:
            sh(["git", "-C", "/repo", "worktree", "remove", "--force", wt])
            shutil.rmtree(lean, ignore_errors=True)

main()
