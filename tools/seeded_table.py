#!/usr/bin/env python3
"""regenerate the table of seeded changes in DESIGN.md (between the markers) from seeded/*/meta.json"""
import glob
import json
import os
import re

VERIF = os.path.dirname(os.path.dirname(os.path.abspath(__file__)))
rows = []
for d in sorted(glob.glob(os.path.join(VERIF, "seeded", "*")), key=lambda p: (os.path.basename(p).split("-")[0], int(os.path.basename(p).split("-m")[1]))):
    m = json.load(open(os.path.join(d, "meta.json")))
    what = re.sub(r"[`*_|]", "", m.get("what", ""))[:140]
    caught = list(m.get("caught_by", []))
    own = m["property"]
    caught.sort(key=lambda x: (x != own, x))
    rows.append(f"| `{os.path.basename(d)}` | {what} | {', '.join(caught) if caught else 'MISSED'} |")
table = "| seeded change | what it does (from the author's notes) | caught by (quick tier) |\n|---|---|---|\n" + "\n".join(rows) + "\n"
p = os.path.join(VERIF, "DESIGN.md")
s = open(p).read()
a, b = "<!-- seeded-table-begin -->\n", "<!-- seeded-table-end -->\n"
if a in s:
    s = s[:s.index(a) + len(a)] + table + s[s.index(b):]
else:
    i = s.index("| seeded change | what it does")
    j = s.index("\n\n", i) + 1
    s = s[:i] + a + table + b + s[j:]
open(p, "w").write(s)
print(len(rows), "rows;", sum(1 for r in rows if r.endswith("MISSED |")), "missed by every check run")
