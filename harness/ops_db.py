"""ops: sigtcp, sigmtu, label (signature / label text parsers), later db"""
from . import impl
from .impl import P, WT


def txt(h):
    return bytes.fromhex(h).decode("latin-1")


def hx(s):
    return s.encode("latin-1").hex()


def sig_str(s):
    p = P()
    wt = WT.index(s.window.type.name)
    return " ".join([str(s.ip_version), str(s.ip_options_length), str(s.ttl), "1" if s.is_bad_ttl else "0", str(wt), str(s.window.size),
                     str(s.window.scale), "[" + ",".join(str(int(x)) for x in s.options.layout) + "]", str(s.options.mss),
                     str(s.options.eol_padding_length), str(s.payload_class), str(s.quirks.value)])


def op_sigtcp(f):
    return sig_str(P()["TCPSignature"].parse(txt(f[1])))


def op_sigmtu(f):
    return str(P()["MTUSignature"].parse(txt(f[1])).mtu)


def op_label(f):
    l = P()["Label"].parse(txt(f[1]))
    return f"{1 if l.is_generic else 0} {hx(l.os_class)} {hx(l.name)} {hx(l.flavor)} dump={hx(l.dump())} app={1 if l.is_user_app else 0}"


impl.OPS["sigtcp"] = op_sigtcp
impl.OPS["sigmtu"] = op_sigmtu
impl.OPS["label"] = op_label
