"""
Targets of the logic translator (harness/py2lean.py): which functions of the working tree are translated, under
which Lean names, and how the Python objects they read are bound to the model's structures.  The *binding table*
(`env`) of a target is hand-written and trusted: it says e.g. that `signature.options.mss` is the field `mss` of the
model's `Sig` with WILDCARD as -1.  Everything else of the generated definition comes from the source text.
"""
import ast

from .py2lean import NotTranslatable, as_int, par


def opt_int(e):
    """model `Option Nat` field -> the Python int with WILDCARD (-1) for none"""
    return (f"(optInt {e})", "Int")


def opt_bool(e):
    """model `Option Bool` payload class -> the Python int 0 / 1 / -1"""
    return (f"(optBoolInt {e})", "Int")


def tuple_ctor(*fields):
    def mk(fn, args, kw, env):
        vals = {}
        for name, a in zip(fields, args):
            vals[name] = a
        for k, v in kw.items():
            if k not in fields:
                raise NotTranslatable(f"unknown field {k}")
            vals[k] = v
        if set(vals) != set(fields):
            raise NotTranslatable("constructor call with missing fields")
        parts = [fn.expr(vals[f], env) for f in fields]
        return ("(" + ", ".join(p[0] for p in parts) + ")", "Tuple:" + ",".join(p[1] for p in parts))
    return mk


def call_gen(lean_name, arg_types, ret):
    def mk(fn, args, kw, env):
        if kw or len(args) != len(arg_types):
            raise NotTranslatable(f"call shape of {lean_name}")
        out = []
        for a, want in zip(args, arg_types):
            e, t = fn.expr(a, env)
            if want == "Int":
                e = as_int(e, t)
            elif want != t:
                raise NotTranslatable(f"argument type {t}, expected {want}")
            out.append(par(e))
        return (f"({lean_name} " + " ".join(out) + ")", ret)
    return mk


TARGETS = []

# ---------------------------------------------------------------------------------------------- C13
TARGETS.append(dict(
    module="pyp0f.fingerprint.results.uptime", func="round_frequency", file="RoundFrequency", lean="roundFrequency",
    import_="P0f.Model.Uptime",
    pyparams=["raw_frequency"], params=[("raw_frequency", "Q")], ret="Int", lean_ret="Int",
    env={"raw_frequency": ("raw_frequency", "Q")},
    alias="def roundFrequency (raw_frequency : Q) : Int := (P0f.roundFrequency (Q.trunc raw_frequency).toNat : Nat)\n",
))

# ---------------------------------------------------------------------------------------------- C02
TARGETS.append(dict(
    module="pyp0f.fingerprint.results.tcp", func="guess_distance", file="GuessDistance", lean="guessDistance",
    pyparams=["ttl"], params=[("ttl", "Nat")], ret="Int", lean_ret="Int",
    env={"ttl": ("ttl", "Nat")},
    alias="def guessDistance (ttl : Nat) : Int := P0f.guessDistance ttl\n",
))

# ---------------------------------------------------------------------------------------------- C17
WIN_ENV = {
    "self.window_size": ("p.win", "Nat"),
    "self.options.mss": ("p.mss", "Nat"),
    "self.options.timestamp": ("p.ts", "Nat"),
    "self.ip_version": ("p.ipVer", "Nat"),
    "self.headers_length": ("p.hdrLen", "Nat"),
    "self.syn_mss": ("p.synMss", "Nat"),
}
TARGETS.append(dict(
    module="pyp0f.net.signatures.tcp", func="TCPPacketSignature.calculate_window_multiplier", file="WindowMultiplier",
    lean="windowMult", import_="P0f.Model.WMult",
    pyparams=["self"], params=[("p", "WIn")], ret="Tuple:Int,Bool", lean_ret="Int × Bool",
    env=WIN_ENV, list_types={"divs": "List:Tuple:Int,Bool"},
    calls={"WindowMultiplier": tuple_ctor("value", "is_mtu")},
    alias="def windowMult (p : WIn) : Int × Bool := P0f.windowMult p\n",
))

# ---------------------------------------------------------------------------------------------- C01
MATCH_ENV = {
    "signature.options.layout": ("s.layout", "List:Nat"),
    "packet_signature.options.layout": ("p.layout", "List:Nat"),
    "signature.ip_version": opt_int("s.ipVer"),
    "packet_signature.ip_version": ("p.ipVer", "Nat"),
    "signature.quirks": ("s.quirks", "QSet"),
    "packet_signature.quirks": ("p.quirks", "QSet"),
    "signature.options.eol_padding_length": ("s.eolPad", "Nat"),
    "packet_signature.options.eol_padding_length": ("p.eolPad", "Nat"),
    "signature.ip_options_length": ("s.olen", "Nat"),
    "packet_signature.ip_options_length": ("p.olen", "Int"),
    "signature.is_bad_ttl": ("s.badTtl", "Bool"),
    "signature.ttl": ("s.ttl", "Nat"),
    "packet_signature.ttl": ("p.ttl", "Nat"),
    "options.max_dist": ("maxDist", "Int"),
    "signature.options.mss": opt_int("s.mss"),
    "packet_signature.options.mss": ("p.mss", "Nat"),
    "signature.window.scale": opt_int("s.scale"),
    "packet_signature.options.window_scale": ("p.wscale", "Nat"),
    "signature.payload_class": opt_bool("s.payClass"),
    "packet_signature.has_payload": ("p.hasPayload", "Bool"),
    "signature.window.type": ("s.wtype", "Enum:WinType"),
    "signature.window.size": ("s.wsize", "Nat"),
    "packet_signature.window_size": ("p.win", "Nat"),
    "packet_signature.window_multiplier.is_mtu": ("p.multMtu", "Bool"),
    "packet_signature.window_multiplier.value": ("p.multVal", "Int"),
}
TARGETS.append(dict(
    module="pyp0f.fingerprint.tcp", func="tcp_signatures_match", file="TcpSignaturesMatch", lean="tcpSignaturesMatch",
    import_="P0f.Model.Match",
    pyparams=["signature", "packet_signature", "options"],
    params=[("s", "Sig"), ("p", "PSig"), ("maxDist", "Int")], ret="Opt:Enum:MatchType", lean_ret="Option MatchType",
    env=MATCH_ENV,
    alias="def tcpSignaturesMatch (s : Sig) (p : PSig) (maxDist : Int) : Option MatchType := P0f.tcpMatch s p maxDist\n",
))

# ---------------------------------------------------------------------------------------------- gates
GATE_ENV = {
    "self.ip.is_fragment": ("isFragment", "Bool"),
    "self.tcp.type": ("t", "Flags"),
}
TARGETS.append(dict(
    module="pyp0f.net.packet", func="Packet.should_fingerprint", file="ShouldFingerprint", lean="shouldFingerprint",
    import_="P0f.Model.Gate", decorators=("property",),
    pyparams=["self"], params=[("isFragment", "Bool"), ("t", "Nat")], ret="Bool", lean_ret="Bool",
    env=GATE_ENV,
    alias="def shouldFingerprint (isFragment : Bool) (t : Nat) : Bool := P0f.shouldFingerprint isFragment t\n",
))
VALID_ENV = {
    "packet.should_fingerprint": ("(P0f.Gen.shouldFingerprint isFragment t)", "Bool"),
    "packet.tcp.type": ("t", "Flags"),
    "packet.tcp.options.mss": ("mss", "Nat"),
}
for func, lean, model, extra in (
        ("valid_for_tcp_fingerprint", "validTcp", "P0f.validTcp isFragment t", ""),
        ("valid_for_uptime_fingerprint", "validUptime", "P0f.validUptime isFragment t", ""),
        ("valid_for_mtu_fingerprint", "validMtu", "P0f.validMtu isFragment t mss", "mss")):
    TARGETS.append(dict(
        module={"validTcp": "pyp0f.fingerprint.tcp", "validUptime": "pyp0f.fingerprint.uptime", "validMtu": "pyp0f.fingerprint.mtu"}[lean],
        func=func, file=lean[0].upper() + lean[1:], lean=lean, import_="P0f.Generated.Logic.ShouldFingerprint\nimport P0f.Model.Mtu",
        pyparams=["packet"], params=[("isFragment", "Bool"), ("t", "Nat")] + ([("mss", "Nat")] if extra else []),
        ret="Bool", lean_ret="Bool", env=VALID_ENV,
        alias=f"def {lean} (isFragment : Bool) (t : Nat) " + ("(mss : Nat) " if extra else "") + f": Bool := {model}\n",
    ))

for t in TARGETS:
    if "import_" in t:
        t["import"] = t.pop("import_")
