"""
Targets of the logic translator (harness/py2lean.py): which functions of the working tree are translated, under
which Lean names, and how the Python objects they read are bound to the model's structures.  The *binding table*
(`env`) of a target is hand-written and trusted: it says e.g. that `signature.options.mss` is the field `mss` of the
model's `Sig` with WILDCARD as -1.  Everything else of the generated definition comes from the source text.
"""
import ast

from .py2lean import NotTranslatable, as_int, par


def opt_int(e):
    """model `Option Nat` field -> the Python int with WILDCARD (-1) for none"""
    return (f"(optInt {e})", "Int")


def opt_bool(e):
    """model `Option Bool` payload class -> the Python int 0 / 1 / -1"""
    return (f"(optBoolInt {e})", "Int")


def tuple_ctor(*fields):
    def mk(fn, args, kw, env):
        vals = {}
        for name, a in zip(fields, args):
            vals[name] = a
        for k, v in kw.items():
            if k not in fields:
                raise NotTranslatable(f"unknown field {k}")
            vals[k] = v
        if set(vals) != set(fields):
            raise NotTranslatable("constructor call with missing fields")
        parts = [fn.expr(vals[f], env) for f in fields]
        return ("(" + ", ".join(p[0] for p in parts) + ")", "Tuple:" + ",".join(p[1] for p in parts))
    return mk


def call_gen(lean_name, arg_types, ret):
    def mk(fn, args, kw, env):
        if kw or len(args) != len(arg_types):
            raise NotTranslatable(f"call shape of {lean_name}")
        out = []
        for a, want in zip(args, arg_types):
            e, t = fn.expr(a, env)
            if want == "Int":
                e = as_int(e, t)
            elif want != t:
                raise NotTranslatable(f"argument type {t}, expected {want}")
            out.append(par(e))
        return (f"({lean_name} " + " ".join(out) + ")", ret)
    return mk


def bound(expected_args, result, expected_kw=None):
    """a call the binding table reads as a fixed model term - but only in the exact shape it was written for: the source text of
    every argument has to be the expected one (anything else: outside the fragment, the target falls back to the alias)"""
    def mk(fn, args, kw, env):
        got = [ast.unparse(x) for x in args]
        gotk = {k_: ast.unparse(v_) for k_, v_ in kw.items()}
        if got != list(expected_args) or gotk != (expected_kw or {}):
            raise NotTranslatable(f"bound call with arguments {got} {gotk}, expected {list(expected_args)}")
        return result
    return mk


def bound_on(marker, result):
    """a bound call whose single argument has to translate to the given marker term (i.e. be the bound object, however named)"""
    def mk(fn, args, kw, env):
        if kw or len(args) != 1 or fn.expr(args[0], env)[1] != marker[1]:
            raise NotTranslatable("bound call on another argument than the one the binding table names")
        return result
    return mk


TARGETS = []

# ---------------------------------------------------------------------------------------------- C13
TARGETS.append(dict(
    module="pyp0f.fingerprint.results.uptime", func="round_frequency", file="RoundFrequency", lean="roundFrequency",
    import_="P0f.Model.Uptime",
    pyparams=["raw_frequency"], params=[("raw_frequency", "Q")], ret="Int", lean_ret="Int",
    env={"raw_frequency": ("raw_frequency", "Q")},
    alias="def roundFrequency (raw_frequency : Q) : Int := (P0f.roundFrequency (Q.trunc raw_frequency).toNat : Nat)\n",
))

# ---------------------------------------------------------------------------------------------- C02
TARGETS.append(dict(
    module="pyp0f.fingerprint.results.tcp", func="guess_distance", file="GuessDistance", lean="guessDistance",
    pyparams=["ttl"], params=[("ttl", "Nat")], ret="Int", lean_ret="Int",
    env={"ttl": ("ttl", "Nat")},
    alias="def guessDistance (ttl : Nat) : Int := P0f.guessDistance ttl\n",
))

# ---------------------------------------------------------------------------------------------- C17
WIN_ENV = {
    "self.window_size": ("p.win", "Nat"),
    "self.options.mss": ("p.mss", "Nat"),
    "self.options.timestamp": ("p.ts", "Nat"),
    "self.ip_version": ("p.ipVer", "Nat"),
    "self.headers_length": ("p.hdrLen", "Nat"),
    "self.syn_mss": ("p.synMss", "Nat"),
}
TARGETS.append(dict(
    module="pyp0f.net.signatures.tcp", func="TCPPacketSignature.calculate_window_multiplier", file="WindowMultiplier",
    lean="windowMult", safe=True, import_="P0f.Model.WMult",
    pyparams=["self"], params=[("p", "WIn")], ret="Tuple:Int,Bool", lean_ret="Int × Bool",
    env=WIN_ENV, list_types={"divs": "List:Tuple:Int,Bool"}, list_elem_hint="Tuple:Int,Bool",
    calls={"WindowMultiplier": tuple_ctor("value", "is_mtu")},
    alias="def windowMult (p : WIn) : Int × Bool := P0f.windowMult p\ndef windowMult_safe (p : WIn) : Bool := true\n",
))

# ---------------------------------------------------------------------------------------------- C01
MATCH_ENV = {
    "signature.options.layout": ("s.layout", "List:Nat"),
    "packet_signature.options.layout": ("p.layout", "List:Nat"),
    "signature.ip_version": opt_int("s.ipVer"),
    "packet_signature.ip_version": ("p.ipVer", "Nat"),
    "signature.quirks": ("s.quirks", "QSet"),
    "packet_signature.quirks": ("p.quirks", "QSet"),
    "signature.options.eol_padding_length": ("s.eolPad", "Nat"),
    "packet_signature.options.eol_padding_length": ("p.eolPad", "Nat"),
    "signature.ip_options_length": ("s.olen", "Nat"),
    "packet_signature.ip_options_length": ("p.olen", "Int"),
    "signature.is_bad_ttl": ("s.badTtl", "Bool"),
    "signature.ttl": ("s.ttl", "Nat"),
    "packet_signature.ttl": ("p.ttl", "Nat"),
    "options.max_dist": ("maxDist", "Int"),
    "signature.options.mss": opt_int("s.mss"),
    "packet_signature.options.mss": ("p.mss", "Nat"),
    "signature.window.scale": opt_int("s.scale"),
    "packet_signature.options.window_scale": ("p.wscale", "Nat"),
    "signature.payload_class": opt_bool("s.payClass"),
    "packet_signature.has_payload": ("p.hasPayload", "Bool"),
    "signature.window.type": ("s.wtype", "Enum:WinType"),
    "signature.window.size": ("s.wsize", "Nat"),
    "packet_signature.window_size": ("p.win", "Nat"),
    "packet_signature.window_multiplier.is_mtu": ("p.multMtu", "Bool"),
    "packet_signature.window_multiplier.value": ("p.multVal", "Int"),
}
TARGETS.append(dict(
    module="pyp0f.fingerprint.tcp", func="tcp_signatures_match", file="TcpSignaturesMatch", lean="tcpSignaturesMatch", safe=True,
    import_="P0f.Model.Match",
    pyparams=["signature", "packet_signature", "options"],
    params=[("s", "Sig"), ("p", "PSig"), ("maxDist", "Int")], ret="Opt:Enum:MatchType", lean_ret="Option MatchType",
    env=MATCH_ENV,
    alias="def tcpSignaturesMatch (s : Sig) (p : PSig) (maxDist : Int) : Option MatchType := P0f.tcpMatch s p maxDist\n"
          "def tcpSignaturesMatch_safe (s : Sig) (p : PSig) (maxDist : Int) : Bool := true\n",
))

# ---------------------------------------------------------------------------------------------- gates
GATE_ENV = {
    "self.ip.is_fragment": ("isFragment", "Bool"),
    "self.tcp.type": ("t", "Flags"),
}
TARGETS.append(dict(
    module="pyp0f.net.packet", func="Packet.should_fingerprint", file="ShouldFingerprint", lean="shouldFingerprint",
    import_="P0f.Model.Gate", decorators=("property",),
    pyparams=["self"], params=[("isFragment", "Bool"), ("t", "Nat")], ret="Bool", lean_ret="Bool",
    env=GATE_ENV,
    alias="def shouldFingerprint (isFragment : Bool) (t : Nat) : Bool := P0f.shouldFingerprint isFragment t\n",
))
VALID_ENV = {
    "packet.should_fingerprint": ("(P0f.Gen.shouldFingerprint isFragment t)", "Bool"),
    "packet.tcp.type": ("t", "Flags"),
    "packet.tcp.options.mss": ("mss", "Nat"),
}
for func, lean, model, extra in (
        ("valid_for_tcp_fingerprint", "validTcp", "P0f.validTcp isFragment t", ""),
        ("valid_for_uptime_fingerprint", "validUptime", "P0f.validUptime isFragment t", ""),
        ("valid_for_mtu_fingerprint", "validMtu", "P0f.validMtu isFragment t mss", "mss")):
    TARGETS.append(dict(
        module={"validTcp": "pyp0f.fingerprint.tcp", "validUptime": "pyp0f.fingerprint.uptime", "validMtu": "pyp0f.fingerprint.mtu"}[lean],
        func=func, file=lean[0].upper() + lean[1:], lean=lean, import_="P0f.Generated.Logic.ShouldFingerprint\nimport P0f.Model.Mtu",
        pyparams=["packet"], params=[("isFragment", "Bool"), ("t", "Nat")] + ([("mss", "Nat")] if extra else []),
        ret="Bool", lean_ret="Bool", env=VALID_ENV,
        alias=f"def {lean} (isFragment : Bool) (t : Nat) " + ("(mss : Nat) " if extra else "") + f": Bool := {model}\n",
    ))

# ---------------------------------------------------------------------------------------------- C02
RECORDS = {
    "Rec": {"signature": (".sig", "Rec:Sig"), "is_generic": (".generic", "Bool"), "label.is_user_app": (".userApp", "Bool"),
            "signature.ttl": (".sig.ttl", "Nat")},
    "TcpMatch": {"type": (".1", "Enum:MatchType"), "record": (".2", "Rec:Rec")},
}


def _iter_tcp(fn, args, kw, env):
    # `recs` is the list of TCP records of the packet's direction: only for exactly that lookup
    if kw or [ast.unparse(x) for x in args] != ["TCPRecord", "direction"]:
        raise NotTranslatable("options.database.iter_values call shape")
    return ("recs", "List:Rec:Rec")


def _sig_match(fn, args, kw, env):
    if kw or len(args) != 3:
        raise NotTranslatable("call shape of tcp_signatures_match")
    s_, ts = fn.expr(args[0], env)
    p_, tp = fn.expr(args[1], env)
    o_, to = fn.expr(args[2], env)
    if (ts, tp, to) != ("Rec:Sig", "Rec:PSig", "Rec:Options"):
        raise NotTranslatable("argument types of tcp_signatures_match")
    return (f"(P0f.Gen.tcpSignaturesMatch {par(s_)} {par(p_)} maxDist)", "Opt:Enum:MatchType")


def _tcp_match_ctor(fn, args, kw, env):
    e, t = tuple_ctor("type", "record")(fn, args, kw, env)
    if t != "Tuple:Enum:MatchType,Rec:Rec":
        raise NotTranslatable(f"TCPMatch built from {t}")
    return (e, "Rec:TcpMatch")


TARGETS.append(dict(
    module="pyp0f.fingerprint.tcp", func="find_tcp_match", file="FindTcpMatch", lean="findTcpMatch",
    import_="P0f.Generated.Logic.TcpSignaturesMatch\nimport P0f.Model.Find",
    pyparams=["packet_signature", "direction", "options"],
    params=[("recs", "List Rec"), ("p", "PSig"), ("maxDist", "Int")], ret="Opt:Rec:TcpMatch", lean_ret="Option TcpMatch",
    env={"packet_signature": ("p", "Rec:PSig"), "options": ("options", "Rec:Options"), "direction": ("direction", "Enum:Dir")},
    records=RECORDS,
    opt_types={"fuzzy_match": "Opt:Rec:TcpMatch", "generic_match": "Opt:Rec:TcpMatch"},
    calls={"options.database.iter_values": _iter_tcp, "tcp_signatures_match": _sig_match, "TCPMatch": _tcp_match_ctor},
    alias="def findTcpMatch_loop0 (recs : List Rec) (p : PSig) (maxDist : Int) (l : List Rec) (g f : Option TcpMatch) : Option TcpMatch := P0f.findLoop p maxDist l f g\n"
          "def findTcpMatch (recs : List Rec) (p : PSig) (maxDist : Int) : Option TcpMatch := P0f.findTcpMatch recs p maxDist\n",
))

TARGETS.append(dict(
    module="pyp0f.fingerprint.results.tcp", func="TCPResult.__post_init__", file="TcpDistance", lean="distance",
    import_="P0f.Generated.Logic.GuessDistance\nimport P0f.Model.Find",
    pyparams=["self"], params=[("m", "Option TcpMatch"), ("pttl", "Nat")], ret="Int", lean_ret="Int",
    env={"self.match": ("m", "Opt:Rec:TcpMatch"), "self.packet_signature.ttl": ("pttl", "Nat")},
    records=RECORDS, assignable=("self.distance",),
    calls={"guess_distance": call_gen("P0f.Gen.guessDistance", ["Nat"], "Int")},
    end=lambda fn, env: as_int(*env["self.distance"]),
    alias="def distance (m : Option TcpMatch) (pttl : Nat) : Int := P0f.distance m pttl\n",
))

# ---------------------------------------------------------------------------------------------- C03
def _quirk0(fn, args, kw, env):
    if kw or len(args) != 1 or not (isinstance(args[0], ast.Constant) and args[0].value == 0):
        raise NotTranslatable("Quirk(...) with a value other than 0")
    return ("QSet.empty", "QSet")


def _cls_fields(*wanted):
    """`return cls(field=..., ...)`: the tuple of the listed keyword arguments (the others - addresses, ports - are not logic)"""
    def mk(fn, args, kw, env):
        if args:
            raise NotTranslatable("positional constructor arguments")
        for w, _ in wanted:
            if w not in kw:
                raise NotTranslatable(f"constructor without {w}")
        parts = [fn.coerce(kw[w], env, ty) for w, ty in wanted]
        return ("(" + ", ".join(parts) + ")", "Tuple:" + ",".join(ty for _, ty in wanted))
    return mk


IP_FIELDS = (("version", "Nat"), ("ttl", "Nat"), ("tos", "Nat"), ("options_length", "Int"), ("header_length", "Int"),
             ("is_fragment", "Bool"), ("quirks", "QSet"))
IP_RET = "Tuple:" + ",".join(t for _, t in IP_FIELDS)
IP_LEAN_RET = "Nat × Nat × Nat × Int × Int × Bool × QSet"
TARGETS.append(dict(
    module="pyp0f.net.layers.ip", func="IP._from_ipv4", file="FromIpv4", lean="fromIpv4", import_="P0f.Model.WireFields",
    decorators=("classmethod",), pyparams=["cls", "ip"], params=[("ip", "Ip4F")], ret=IP_RET, lean_ret=IP_LEAN_RET,
    env={"ip.tos": ("ip.tos", "Nat"), "ip.flags.evil": ("ip.evil", "Bool"), "ip.flags.DF": ("ip.df", "Bool"),
         "ip.flags.MF": ("ip.mf", "Bool"), "ip.id": ("ip.ident", "Nat"), "ip.ihl": ("ip.ihl", "Nat"), "ip.frag": ("ip.frag", "Nat"),
         "ip.version": ("ip.version", "Nat"), "ip.ttl": ("ip.ttl", "Nat"), "ip.src": ("()", "Unit"), "ip.dst": ("()", "Unit")},
    calls={"Quirk": _quirk0, "cls": _cls_fields(*IP_FIELDS)},
    alias="def fromIpv4 (ip : Ip4F) : " + IP_LEAN_RET + " := P0f.ipv4Fields ip\n",
))
TARGETS.append(dict(
    module="pyp0f.net.layers.ip", func="IP._from_ipv6", file="FromIpv6", lean="fromIpv6", import_="P0f.Model.WireFields",
    decorators=("classmethod",), pyparams=["cls", "ip"], params=[("ip", "Ip6F")], ret=IP_RET, lean_ret=IP_LEAN_RET,
    env={"ip.fl": ("ip.fl", "Nat"), "ip.tc": ("ip.tc", "Nat"), "ip.version": ("ip.version", "Nat"), "ip.hlim": ("ip.hlim", "Nat"),
         "ip.src": ("()", "Unit"), "ip.dst": ("()", "Unit")},
    calls={"Quirk": _quirk0, "cls": _cls_fields(*IP_FIELDS)},
    alias="def fromIpv6 (ip : Ip6F) : " + IP_LEAN_RET + " := P0f.ipv6Fields ip\n",
))


def _tcp_pre(stmts):
    """`TCP.from_packet`: keep the flag / type / is_syn logic and the quirk derivation; the byte slicing, the option
    parser call's buffer and the payload handling are not decision logic (C03 ties them by correspondence)"""
    keep = []
    for st in stmts:
        src = ast.unparse(st)
        if isinstance(st, ast.If) and "ScapyTCP not in packet" in src:
            continue
        if isinstance(st, (ast.Assign, ast.AnnAssign)):
            name = ast.unparse(st.targets[0] if isinstance(st, ast.Assign) else st.target)
            if name in ("tcp", "options_buffer", "payload", "padding"):
                continue
        if isinstance(st, ast.If) and ast.unparse(st.test).startswith("padding is not None"):
            continue
        keep.append(st)
    return keep


def _tcpflag_ctor(fn, args, kw, env):
    # TCPFlag(int(tcp.flags))
    if kw or len(args) != 1:
        raise NotTranslatable("TCPFlag(...) shape")
    e, t = fn.expr(args[0], env)
    if not (t in ("Int", "Nat", "Flags")):
        raise NotTranslatable("TCPFlag of a non-int")
    return ("tcp.flags", "Flags") if "tcp.flags" in e else (e, "Flags")


def _opts_parse(fn, args, kw, env):
    if "is_syn" not in kw or len(args) != 1:
        raise NotTranslatable("TCPOptions.parse call shape")
    return (fn.coerce(kw["is_syn"], env, "Bool"), "Bool")


TCP_FIELDS = (("type", "Nat"), ("options", "Bool"), ("header_length", "Int"), ("quirks", "QSet"))
TARGETS.append(dict(
    module="pyp0f.net.layers.tcp.tcp", func="TCP.from_packet", file="TcpFromPacket", lean="tcpFromPacket", import_="P0f.Model.WireFields",
    decorators=("classmethod",), pyparams=["cls", "packet"], params=[("tcp", "TcpF")],
    ret="Tuple:Nat,Bool,Int,QSet", lean_ret="Nat × Bool × Int × QSet", pre=_tcp_pre,
    env={"tcp.flags": ("tcp.flags", "Nat"), "tcp.flags.E": ("(bit tcp.flags 64)", "Bool"), "tcp.flags.C": ("(bit tcp.flags 128)", "Bool"),
         "tcp.flags.N": ("(bit tcp.flags 256)", "Bool"), "tcp.flags.A": ("(bit tcp.flags 16)", "Bool"),
         "tcp.flags.R": ("(bit tcp.flags 4)", "Bool"), "tcp.flags.U": ("(bit tcp.flags 32)", "Bool"),
         "tcp.flags.P": ("(bit tcp.flags 8)", "Bool"), "tcp.flags.S": ("(bit tcp.flags 2)", "Bool"),
         "tcp.flags.F": ("(bit tcp.flags 1)", "Bool"),
         "tcp.seq": ("tcp.seq", "Nat"), "tcp.ack": ("tcp.ack", "Nat"), "tcp.urgptr": ("tcp.urgptr", "Nat"),
         "tcp.dataofs": ("tcp.dataofs", "Nat"), "tcp.sport": ("()", "Unit"), "tcp.dport": ("()", "Unit"), "tcp.window": ("()", "Unit"),
         "payload": ("()", "Unit"), "options_buffer": ("()", "Unit")},
    calls={"Quirk": _quirk0, "cls": _cls_fields(*TCP_FIELDS), "TCPFlag": _tcpflag_ctor, "TCPOptions.parse": _opts_parse},
    alias="def tcpFromPacket (tcp : TcpF) : Nat × Bool × Int × QSet := P0f.tcpFields tcp\n",
))
TARGETS.append(dict(
    module="pyp0f.net.layers.tcp.tcp", func="TCP.__post_init__", file="TcpPostInit", lean="tcpPostInit", import_="P0f.Model.Wire",
    pyparams=["self"], params=[("type", "Nat"), ("quirks", "QSet"), ("optQuirks", "QSet")], ret="Tuple:Nat,QSet", lean_ret="Nat × QSet",
    env={"self.type": ("type", "Flags"), "self.quirks": ("quirks", "QSet"), "self.options.quirks": ("optQuirks", "QSet")},
    assignable=("self.type", "self.quirks"),
    end=lambda fn, env: f"({env['self.type'][0]}, {env['self.quirks'][0]})",
    alias="def tcpPostInit (type : Nat) (quirks optQuirks : QSet) : Nat × QSet := (P0f.tcpType type, quirks.union optQuirks)\n",
))

# ---------------------------------------------------------------------------------------------- C13
UPTIME_RECORDS = {
    "UptimeV": {"raw_frequency": (".1", "Q"), "frequency": (".2.1", "Int"), "total_minutes": (".2.2.1", "Int"), "modulo_days": (".2.2.2", "Int")},
}
UPTIME_LEAN = "Q × Int × Int × Int"
TARGETS.append(dict(
    module="pyp0f.fingerprint.results.uptime", func="Uptime.__post_init__", file="UptimePostInit", lean="uptimePostInit", safe=True,
    import_="P0f.Generated.Logic.RoundFrequency\nimport P0f.Model.UptimeFields",
    pyparams=["self", "timestamp"], params=[("timestamp", "Nat"), ("raw_frequency", "Q")], ret="Rec:UptimeV", lean_ret=UPTIME_LEAN,
    env={"timestamp": ("timestamp", "Nat"), "self.raw_frequency": ("raw_frequency", "Q")},
    assignable=("self.frequency", "self.total_minutes", "self.modulo_days"),
    calls={"round_frequency": call_gen("P0f.Gen.roundFrequency", ["Q"], "Int")},
    end=lambda fn, env: "(raw_frequency, " + ", ".join(as_int(*env["self." + f]) for f in ("frequency", "total_minutes", "modulo_days")) + ")",
    alias="def uptimePostInit (timestamp : Nat) (raw_frequency : Q) : " + UPTIME_LEAN + " := P0f.uptimePostInit timestamp raw_frequency\n"
          "def uptimePostInit_safe (timestamp : Nat) (raw_frequency : Q) : Bool := true\n",
))


def _uptime_result(fn, args, kw, env):
    if len(args) != 1 or set(kw) - {"tps", "uptime"}:
        raise NotTranslatable("UptimeResult call shape")
    tps = fn.expr(kw["tps"], env) if "tps" in kw else ("none", "Opt:_")
    up = fn.expr(kw["uptime"], env) if "uptime" in kw else ("none", "Opt:_")

    def opt(e, t, inner, ann):
        if t == "Opt:_":
            return f"({e} : Option {par(ann)})" if e == "none" else e
        if t == "Opt:" + inner:
            return e
        if t == inner or (inner == "Int" and t in ("Nat", "Lit", "Flags")):
            return f"(some {as_int(e, t) if inner == 'Int' else e})"
        raise NotTranslatable(f"UptimeResult field of type {t}")
    return ("(" + opt(*tps, "Int", "Int") + ", " + opt(*up, "Rec:UptimeV", UPTIME_LEAN) + ")", "Rec:UptimeResult")


def _uptime_ctor(fn, args, kw, env):
    if kw or len(args) != 2:
        raise NotTranslatable("Uptime(...) call shape")
    ts, tts = fn.expr(args[0], env)
    raw, tr = fn.expr(args[1], env)
    if tts != "Nat" or tr != "Q":
        raise NotTranslatable("Uptime(...) argument types")
    return (f"(P0f.Gen.uptimePostInit {par(ts)} {par(raw)})", "Rec:UptimeV")


def _uptime_pre(stmts):
    out = []
    for st in stmts:
        if isinstance(st, ast.Assign) and ast.unparse(st) == "packet = parse_packet(packet)":
            continue
        out.append(st)
    return out


UPRES_LEAN = "Option Int × Option (" + UPTIME_LEAN + ")"
TARGETS.append(dict(
    module="pyp0f.fingerprint.uptime", func="fingerprint_uptime", file="FingerprintUptime", lean="fingerprintUptime", safe=True,
    safe_callees=("uptimePostInit",),
    import_="P0f.Generated.Logic.UptimePostInit\nimport P0f.Generated.Logic.ValidUptime\nimport P0f.Model.UptimeFields",
    pyparams=["packet", "last_packet_signature", "options"],
    params=[("o", "UpOpts"), ("isFragment", "Bool"), ("t", "Nat"), ("tsPrev", "Nat"), ("tsNow", "Nat"), ("now", "Int"), ("received", "Int")],
    ret="Opt:Rec:UptimeResult", lean_ret="Option (" + UPRES_LEAN + ")", pre=_uptime_pre,
    lean_types={"Rec:UptimeResult": UPRES_LEAN, "Rec:UptimeV": UPTIME_LEAN},
    env={"packet": ("()", "Unit"),
         "packet.tcp.options.timestamp": ("tsNow", "Nat"), "last_packet_signature.options.timestamp": ("tsPrev", "Nat"),
         "last_packet_signature.received": ("received", "Int"), "packet.tcp.type": ("t", "Flags"),
         "options.min_timestamp_wait": ("o.minWait", "Int"), "options.max_timestamp_wait": ("o.maxWait", "Int"),
         "options.timestamp_grace": ("o.grace", "Int"),
         "options.max_timestamp_scale": ("(Q.mk (o.maxScaleN : Int) o.maxScaleD)", "Q"),
         "options.min_timestamp_scale": ("(Q.mk (o.minScaleN : Int) o.minScaleD)", "Q")},
    records=UPTIME_RECORDS, raises={"PacketError": "none"},
    calls={"valid_for_uptime_fingerprint": bound(["packet"], ("(P0f.Gen.validUptime isFragment t)", "Bool")),
           "get_unix_time_ms": bound([], ("now", "Int")),
           "UptimeResult": _uptime_result, "Uptime": _uptime_ctor},
    alias="def fingerprintUptime (o : UpOpts) (isFragment : Bool) (t tsPrev tsNow : Nat) (now received : Int) : Option (" + UPRES_LEAN
          + ") := P0f.fingerprintUptimeFields o isFragment t tsPrev tsNow (now - received)\n"
          "def fingerprintUptime_safe (o : UpOpts) (isFragment : Bool) (t tsPrev tsNow : Nat) (now received : Int) : Bool := true\n",
))

# ---------------------------------------------------------------------------------------------- C08
TARGETS.append(dict(
    module="pyp0f.net.signatures.mtu", func="MTUPacketSignature.from_mss", file="MtuFromMss", lean="mtuFromMss", import_="P0f.Model.Mtu",
    decorators=("classmethod",), pyparams=["cls", "mss", "ip_version"], params=[("mss", "Nat"), ("ip_version", "Nat")],
    ret="Opt:Int", lean_ret="Option Int", env={"mss": ("mss", "Nat"), "ip_version": ("ip_version", "Nat")},
    raises={"PacketError": "none"},
    calls={"cls": lambda fn, a, k, e: (as_int(*fn.expr(a[0], e)), "Int") if len(a) == 1 and not k else (_ for _ in ()).throw(NotTranslatable("cls(...) shape"))},
    alias="def mtuFromMss (mss ip_version : Nat) : Option Int := if mss = 0 then none else some ((mss + P0f.mtuHdr ip_version : Nat) : Int)\n",
))

# ---------------------------------------------------------------------------------------------- C06
HTTP_RECORDS = {
    "HttpRec": {"signature": (".sig", "Rec:HttpSig"), "is_generic": (".generic", "Bool"),
                "signature.expected_software": (".sig.software", "Opt:Bytes")},
}
HDR_RECORDS = {
    "SigHdr": {"lower_name": ("(lower {}.name)", "Bytes"), "is_optional": (".optional", "Bool"), "value": (".value", "Opt:Bytes")},
    "Hdr": {"lower_name": ("(lower {}.name)", "Bytes"), "value": (".value", "Bytes")},
}
TARGETS.append(dict(
    module="pyp0f.fingerprint.http", func="headers_match", file="HeadersMatch", lean="headersMatch", import_="P0f.Model.Http", open="P0f P0f.Py",
    pyparams=["signature_headers", "packet_headers"], params=[("sh", "List SigHdr"), ("ph", "List Hdr")], ret="Bool", lean_ret="Bool",
    env={"signature_headers": ("sh", "List:Rec:SigHdr"), "packet_headers": ("ph", "List:Rec:Hdr")},
    records=HDR_RECORDS, var_types={"i": "Nat", "original_index": "Nat"}, fuel="(ph.length + 1)",
    lean_types={"Rec:SigHdr": "SigHdr", "Rec:Hdr": "Hdr"},
    alias="def headersMatch (sh : List SigHdr) (ph : List Hdr) : Bool := P0f.headersMatch sh ph\n",
))
TARGETS.append(dict(
    module="pyp0f.fingerprint.http", func="http_signatures_match", file="HttpSignaturesMatch", lean="httpSigMatch", import_="P0f.Generated.Logic.HeadersMatch", open="P0f P0f.Py",
    pyparams=["signature", "packet_signature"], params=[("s", "HttpSig"), ("minor", "Nat"), ("ph", "List Hdr")], ret="Bool", lean_ret="Bool",
    env={"signature.version": opt_int("s.version"), "packet_signature.version": ("minor", "Nat"),
         "packet_signature.header_names": ("()", "Unit"), "signature.headers": ("s.headers", "Rec:SigHdrs"), "packet_signature.headers": ("ph", "Rec:Hdrs")},
    calls={
        # `signature.header_names` = lower-cased names of the non-optional signature headers, `absent_headers` = lower-cased absent
        # names, `packet_signature.header_names` = lower-cased packet header names (sets; dataclass plumbing, C09 / C07 tie them)
        "signature.header_names.issubset": bound_on(("()", "Unit"), ("((s.headers.filter (fun h => !h.optional)).all (fun h => (ph.map fun x => lower x.name).contains (lower h.name)))", "Bool")),
        "signature.absent_headers.intersection": bound_on(("()", "Unit"), ("(s.absent.filter fun a => (ph.map fun x => lower x.name).contains a)", "List:Bytes")),
        "signature.absent_headers.isdisjoint": bound_on(("()", "Unit"), ("(!(s.absent.any fun a => (ph.map fun x => lower x.name).contains a))", "Bool")),
        "headers_match": bound(["signature.headers", "packet_signature.headers"], ("(P0f.Gen.headersMatch s.headers ph)", "Bool")),
    },
    alias="def httpSigMatch (s : HttpSig) (minor : Nat) (ph : List Hdr) : Bool := P0f.httpSigMatch s minor ph\n",
))
TARGETS.append(dict(
    module="pyp0f.fingerprint.http", func="find_http_match", file="FindHttpMatch", lean="findHttpMatch",
    import_="P0f.Generated.Logic.HttpSignaturesMatch", open="P0f P0f.Py",
    pyparams=["packet_signature", "direction", "database"],
    params=[("recs", "List HttpRec"), ("minor", "Nat"), ("ph", "List Hdr")], ret="Opt:Rec:HttpRec", lean_ret="Option HttpRec",
    env={"packet_signature": ("()", "Rec:HttpPkt"), "direction": ("()", "Unit")},
    records=HTTP_RECORDS, opt_types={"generic_match": "Opt:Rec:HttpRec"},
    calls={"database.iter_values": bound(["HTTPRecord", "direction"], ("recs", "List:Rec:HttpRec")),
           "http_signatures_match": lambda fn, a, k, e: ("(P0f.Gen.httpSigMatch " + par(fn.expr(a[0], e)[0]) + " minor ph)", "Bool")
           if len(a) == 2 and not k and ast.unparse(a[1]) == "packet_signature" else (_ for _ in ()).throw(NotTranslatable("http_signatures_match call shape"))},
    alias="def findHttpMatch_loop0 (recs : List HttpRec) (minor : Nat) (ph : List Hdr) (l : List HttpRec) (g : Option HttpRec) : Option HttpRec := P0f.findHttpLoop minor ph l g\n"
          "def findHttpMatch (recs : List HttpRec) (minor : Nat) (ph : List Hdr) : Option HttpRec := P0f.findHttpMatch recs minor ph\n",
))
TARGETS.append(dict(
    module="pyp0f.fingerprint.results.http", func="HTTPResult.__post_init__", file="HttpDishonest", lean="dishonest", import_="P0f.Model.Http", open="P0f P0f.Py",
    pyparams=["self"], params=[("m", "Option HttpRec"), ("ph", "List Hdr")], ret="Bool", lean_ret="Bool",
    env={"self.match": ("m", "Opt:Rec:HttpRec"), "self.packet_signature.software": ("(softwareOf ph)", "Opt:Bytes")},
    records=HTTP_RECORDS, assignable=("self.dishonest",), lean_types={"Bytes": "Bytes", "Rec:HttpRec": "HttpRec"},
    end=lambda fn, env: env["self.dishonest"][0],
    alias="def dishonest (m : Option HttpRec) (ph : List Hdr) : Bool := P0f.dishonest m ph\n",
))

# ---------------------------------------------------------------------------------------------- C03 / C04 / C18: the option walk
OPT_FIELDS = (("layout", "List:Nat"), ("quirks", "QSet"), ("mss", "Nat"), ("timestamp", "Nat"), ("window_scale", "Nat"), ("eol_padding_length", "Int"))
TARGETS.append(dict(
    module="pyp0f.net.layers.tcp.options", func="TCPOptions.parse", file="TcpOptionsParse", lean="parseOpts", import_="P0f.Model.WireFields",
    decorators=("classmethod",), pyparams=["cls", "buffer", "is_syn"], params=[("buf", "List Nat"), ("is_syn", "Bool")],
    ret="Tuple:" + ",".join(t for _, t in OPT_FIELDS), lean_ret="List Nat × QSet × Nat × Nat × Nat × Int",
    env={"buffer": ("buf", "Bytes"), "is_syn": ("is_syn", "Bool")},
    list_types={"layout": "List:Nat"}, var_types={"i": "Int", "eol_padding_length": "Int"}, lean_types={"Bytes": "List Nat"},
    fuel="(buf.length + 1)",
    calls={"Quirk": _quirk0, "cls": _cls_fields(*OPT_FIELDS)},
    alias="def parseOpts (buf : List Nat) (is_syn : Bool) : List Nat × QSet × Nat × Nat × Nat × Int := P0f.optsTuple (P0f.parseOpts buf is_syn)\n",
))

# ---------------------------------------------------------------------------------------------- C05 / C14: the impersonator's header logic
def _kw_tuple(*wanted):
    """constructor call of a Scapy layer: the tuple of the listed keyword arguments, `None` standing for a constant"""
    def mk(fn, args, kw, env):
        if args:
            raise NotTranslatable("positional constructor arguments")
        parts = []
        for w, ty, dflt in wanted:
            if w is None or w not in kw:
                if dflt is None:
                    raise NotTranslatable(f"constructor without {w}")
                parts.append(dflt)
                continue
            node = kw[w]
            if w == "options" and isinstance(node, ast.BinOp) and isinstance(node.op, ast.Mult) and isinstance(node.left, ast.List):
                node = node.right          # `[IPOption_NOP()] * n`: n one-byte options
            parts.append(fn.coerce(node, env, ty))
        return ("(" + ", ".join(parts) + ")", "Tuple:" + ",".join(ty for _, ty, _ in wanted))
    return mk


IMP_IP_RET = "Tuple:Int,Nat,Nat,Nat,Nat,Nat"       # ttl / hlim, tos / tc, id, flags, number of IP options, flow label
TARGETS.append(dict(
    module="pyp0f.impersonate.tcp", func="_impersonate_ip", file="ImpersonateIp", lean="impIp", import_="P0f.Model.ImpFields",
    pyparams=["ip", "signature", "extra_hops"], params=[("s", "Sig"), ("b", "Base"), ("hops", "Int"), ("c", "Choices")],
    ret=IMP_IP_RET, lean_ret="Int × Nat × Nat × Nat × Nat × Nat",
    env={"ip.version": ("b.ipVer", "Nat"), "ip.flags": ("b.ipFlags", "Nat"), "ip.id": ("b.ipId", "Nat"), "ip.src": ("()", "Unit"), "ip.dst": ("()", "Unit"),
         "ip.frag": ("()", "Unit"), "ip.proto": ("()", "Unit"),
         "signature.ttl": ("s.ttl", "Nat"), "signature.quirks": ("s.quirks", "QSet"), "signature.ip_options_length": ("s.olen", "Nat"),
         "extra_hops": ("hops", "Int")},
    random_sites=[("c.fl", "Nat"), ("c.ecn", "Nat"), ("c.id", "Nat"), ("c.id", "Nat"), ("c.ecn", "Nat")],
    calls={"ScapyIPv6": _kw_tuple(("hlim", "Int", None), ("tc", "Nat", None), (None, "Nat", "0"), (None, "Nat", "0"), (None, "Nat", "0"), ("fl", "Nat", None)),
           "ScapyIPv4": _kw_tuple(("ttl", "Int", None), ("tos", "Nat", None), ("id", "Nat", None), ("flags", "Nat", None), ("options", "Nat", None), (None, "Nat", "0"))},
    alias="def impIp (s : Sig) (b : Base) (hops : Int) (c : Choices) : Int × Nat × Nat × Nat × Nat × Nat := P0f.impIpFields s b hops c\n",
))


def _imp_tcp_pre(stmts):
    return [st for st in stmts if not (isinstance(st, ast.Assign) and ast.unparse(st.targets[0]) == "options")]


TARGETS.append(dict(
    module="pyp0f.impersonate.tcp", func="_impersonate_tcp", file="ImpersonateTcpHeader", lean="impTcpHeader", import_="P0f.Model.Impersonate",
    pyparams=["tcp", "signature", "mtu", "uptime"], params=[("s", "Sig"), ("b", "Base"), ("c", "Choices")],
    ret="Tuple:Nat,Nat,Nat,Nat", lean_ret="Nat × Nat × Nat × Nat", pre=_imp_tcp_pre,
    env={"tcp.seq": ("b.seq", "Nat"), "tcp.ack": ("b.ack", "Nat"), "tcp.flags": ("b.flags", "Flags"), "tcp.urgptr": ("b.urp", "Nat"),
         "tcp.sport": ("()", "Unit"), "tcp.dport": ("()", "Unit"), "signature.quirks": ("s.quirks", "QSet")},
    random_sites=[("c.seq", "Nat"), ("c.ack", "Nat"), ("c.urp", "Nat")],
    calls={"ScapyTCP": _kw_tuple(("seq", "Nat", None), ("ack", "Nat", None), ("flags", "Nat", None), ("urgptr", "Nat", None))},
    alias="def impTcpHeader (s : Sig) (b : Base) (c : Choices) : Nat × Nat × Nat × Nat := (P0f.impSeq s b c, P0f.impAck s b c, P0f.impFlags s b.flags, P0f.impUrp s b c)\n",
))

TARGETS.append(dict(
    module="pyp0f.impersonate.tcp", func="_impersonate_window", file="ImpersonateWindow", lean="impWindow", import_="P0f.Model.Impersonate",
    pyparams=["tcp", "signature", "new_options", "mtu"], params=[("s", "Sig"), ("b", "Base"), ("opts", "List SOpt"), ("mtu", "Nat"), ("c", "Choices")],
    ret="Opt:Nat", lean_ret="Option Nat",
    env={"signature.window.type": ("s.wtype", "Enum:WinType"), "signature.window.size": ("s.wsize", "Nat"), "tcp.window": ("b.window", "Nat"), "mtu": ("mtu", "Nat")},
    random_sites=[("c.winMul", "Nat")], raises={"ValueError": "none"},
    calls={"dict(new_options).get": bound(["'MSS'"], ("(lastMss opts)", "Opt:Nat"))},
    alias="def impWindow (s : Sig) (b : Base) (opts : List SOpt) (mtu : Nat) (c : Choices) : Option Nat := (P0f.impWindow s b opts mtu c).toOption\n",
))

# ---------------------------------------------------------------------------------------------- glue: from_packet, fingerprint_tcp / _mtu
PKT_ENV = {
    "packet.ip.version": ("pk.ip.version", "Nat"), "packet.ip.options_length": ("pk.ip.olen", "Nat"), "packet.ip.ttl": ("pk.ip.ttl", "Nat"),
    "packet.tcp.window": ("pk.tcp.window", "Nat"), "packet.tcp.options": ("pk.tcp.opts", "Rec:Opts"),
    "packet.ip.header_length": ("pk.ip.hdrLen", "Nat"), "packet.tcp.header_length": ("pk.tcp.hdrLen", "Nat"),
    "packet.tcp.payload": ("pk.tcp.payload", "Bytes"), "packet.ip.quirks": ("pk.ip.quirks", "QSet"), "packet.tcp.quirks": ("pk.tcp.quirks", "QSet"),
    "packet.tcp.type": ("pk.tcp.type", "Flags"), "packet.tcp.options.mss": ("pk.tcp.opts.mss", "Nat"), "packet.ip.is_fragment": ("pk.ip.isFragment", "Bool"),
}
SIG_FIELDS = (("ip_version", "Nat"), ("ip_options_length", "Int"), ("ttl", "Nat"), ("window_size", "Nat"), ("options", "Rec:Opts"),
              ("headers_length", "Nat"), ("has_payload", "Bool"), ("quirks", "QSet"), ("syn_mss", "Nat"))


def _pktsig_ctor(fn, args, kw, env):
    if args or set(kw) != {w for w, _ in SIG_FIELDS}:
        raise NotTranslatable("TCPPacketSignature(...) call shape")
    v = {w: fn.coerce(kw[w], env, ty) if not ty.startswith("Rec:") else fn.expr(kw[w], env)[0] for w, ty in SIG_FIELDS}
    o = v["options"]
    return ("{ ipVer := " + v["ip_version"] + ", olen := " + v["ip_options_length"] + ", ttl := " + v["ttl"] + ", win := " + v["window_size"]
            + f", layout := {o}.layout, mss := {o}.mss, wscale := {o}.ws, ts := {o}.ts, eolPad := {o}.eolPad"
            + ", hdrLen := " + v["headers_length"] + ", hasPayload := " + v["has_payload"] + ", quirks := " + v["quirks"] + ", synMss := " + v["syn_mss"] + " }",
            "Rec:PktSig")


TARGETS.append(dict(
    module="pyp0f.net.signatures.tcp", func="TCPPacketSignature.from_packet", file="PktSigFromPacket", lean="pktSigFromPacket", import_="P0f.Model.Wire",
    decorators=("classmethod",), pyparams=["cls", "packet", "syn_mss"], params=[("pk", "PktL"), ("syn_mss", "Nat")],
    ret="Rec:PktSig", lean_ret="PktSig", env=dict(PKT_ENV, syn_mss=("syn_mss", "Nat")), lean_types={"Rec:PktSig": "PktSig", "Bytes": "List Nat"},
    calls={"cls": _pktsig_ctor},
    alias="def pktSigFromPacket (pk : PktL) (syn_mss : Nat) : PktSig := P0f.pktSigOfPkt pk syn_mss\n",
))


def _drop_parse_packet(stmts):
    return [st for st in stmts if not (isinstance(st, ast.Assign) and ast.unparse(st) == "packet = parse_packet(packet)")]


def _shape(cond, what):
    if not cond:
        raise NotTranslatable(what + " call shape")


def _ft_from_packet(fn, a, k, e):
    _shape(len(a) == 2 and not k and ast.unparse(a[0]) == "packet", "TCPPacketSignature.from_packet")
    return ("(P0f.Gen.pktSigFromPacket pk " + par(fn.coerce(a[1], e, "Nat")) + ")", "Rec:PktSig")


def _ft_find(fn, a, k, e):
    _shape(len(a) == 3 and not k and ast.unparse(a[2]) == "options", "find_tcp_match")
    return ("(P0f.Gen.findTcpMatch (if " + fn.expr(a[1], e)[0] + " == Dir.req then db.req else db.resp) (PktSig.toPSig "
            + par(fn.expr(a[0], e)[0]) + ") maxDist)", "Opt:Rec:TcpMatch")


def _ft_result(fn, a, k, e):
    _shape(len(a) == 3 and not k and ast.unparse(a[0]) == "packet", "TCPResult")
    return ("(let m := " + fn.expr(a[2], e)[0] + "; (m, P0f.Gen.distance m " + fn.expr(a[1], e)[0] + ".ttl))", "Tuple:Opt:Rec:TcpMatch,Int")


TARGETS.append(dict(
    module="pyp0f.fingerprint.tcp", func="fingerprint_tcp", file="FingerprintTcp", lean="fingerprintTcp",
    import_="P0f.Generated.Logic.PktSigFromPacket\nimport P0f.Generated.Logic.FindTcpMatch\nimport P0f.Generated.Logic.TcpDistance\nimport P0f.Generated.Logic.ValidTcp\nimport P0f.Model.Api",
    pyparams=["packet", "syn_mss", "options"], params=[("db", "TcpDb"), ("pk", "PktL"), ("syn_mss", "Nat"), ("maxDist", "Int")],
    ret="Opt:Tuple:Opt:Rec:TcpMatch,Int", lean_ret="Option (Option TcpMatch × Int)", pre=_drop_parse_packet,
    env=dict(PKT_ENV, syn_mss=("syn_mss", "Nat"), options=("options", "Rec:Options"), packet=("pk", "Rec:PktL")),
    raises={"PacketError": "none"}, lean_types={"Rec:PktSig": "PktSig", "Rec:TcpMatch": "TcpMatch"},
    records={"PktSig": {"ttl": (".ttl", "Nat")}},
    calls={"valid_for_tcp_fingerprint": bound(["packet"], ("(P0f.Gen.validTcp pk.ip.isFragment pk.tcp.type)", "Bool")),
           "TCPPacketSignature.from_packet": _ft_from_packet, "find_tcp_match": _ft_find, "TCPResult": _ft_result},
    alias="def fingerprintTcp (db : TcpDb) (pk : PktL) (syn_mss : Nat) (maxDist : Int) : Option (Option TcpMatch × Int) :=\n"
          "  if !P0f.validTcp pk.ip.isFragment pk.tcp.type then none else some (P0f.fingerprintTcp db (P0f.pktSigOfPkt pk syn_mss) (pk.tcp.type == F_SYN) maxDist)\n",
))

# ---------------------------------------------------------------------------------------------- C08: the MTU search and glue
TARGETS.append(dict(
    module="pyp0f.fingerprint.mtu", func="find_mtu_match", file="FindMtuMatch", lean="findMtuMatch", import_="P0f.Model.Mtu", open="P0f",
    pyparams=["packet_signature", "database"], params=[("recs", "List (Nat × Nat)"), ("mtu", "Nat")],
    ret="Opt:Tuple:Nat,Nat", lean_ret="Option (Nat × Nat)",
    # a record is (its MTU, its position): the position stands for the record's identity
    env={"packet_signature": ("mtu", "Rec:MtuSig")},
    records={"MtuRec": {"signature": (".1", "Rec:MtuSig")}, "MtuSig": {"mtu": ("{}", "Nat")}}, lean_types={"Rec:MtuRec": "Nat × Nat", "Rec:MtuSig": "Nat"},
    calls={"database.iter_values": bound(["MTURecord"], ("recs", "List:Rec:MtuRec"))},
    alias="def findMtuMatch (recs : List (Nat × Nat)) (mtu : Nat) : Option (Nat × Nat) := recs.find? (fun r => r.1 == mtu)\n",
))
TARGETS.append(dict(
    module="pyp0f.fingerprint.mtu", func="fingerprint_mtu", file="FingerprintMtu", lean="fingerprintMtu",
    import_="P0f.Generated.Logic.FindMtuMatch\nimport P0f.Generated.Logic.ValidMtu\nimport P0f.Generated.Logic.MtuFromMss\nimport P0f.Model.Api", open="P0f",
    pyparams=["packet", "options"], params=[("recs", "List (Nat × Nat)"), ("pk", "PktL")],
    ret="Opt:Tuple:Nat,Opt:Tuple:Nat,Nat", lean_ret="Option (Nat × Option (Nat × Nat))", pre=_drop_parse_packet,
    env={"packet": ("pk", "Rec:PktL")}, raises={"PacketError": "none"},
    calls={"valid_for_mtu_fingerprint": bound(["packet"], ("(P0f.Gen.validMtu pk.ip.isFragment pk.tcp.type pk.tcp.opts.mss)", "Bool")),
           # MTUPacketSignature.from_packet(packet) = cls.from_mss(packet.tcp.options.mss, packet.ip.version): the printed from_mss on this packet's fields
           "MTUPacketSignature.from_packet": lambda fn, a, k, e: fn.raising("((P0f.Gen.mtuFromMss pk.tcp.opts.mss pk.ip.version).map Int.toNat)", "Nat")
           if [ast.unparse(x) for x in a] == ["packet"] and not k else (_ for _ in ()).throw(NotTranslatable("from_packet call shape")),
           "find_mtu_match": lambda fn, a, k, e: ("(P0f.Gen.findMtuMatch recs " + par(fn.coerce(a[0], e, "Nat")) + ")", "Opt:Tuple:Nat,Nat")
           if len(a) == 2 and not k and ast.unparse(a[1]) == "options.database" else (_ for _ in ()).throw(NotTranslatable("find_mtu_match call shape")),
           "MTUResult": lambda fn, a, k, e: ("(" + fn.coerce(a[1], e, "Nat") + ", " + fn.expr(a[2], e)[0] + ")", "Tuple:Nat,Opt:Tuple:Nat,Nat")
           if len(a) == 3 and not k and ast.unparse(a[0]) == "packet" else (_ for _ in ()).throw(NotTranslatable("MTUResult call shape"))},
    alias="def fingerprintMtu (recs : List (Nat × Nat)) (pk : PktL) : Option (Nat × Option (Nat × Nat)) :=\n"
          "  if !P0f.validMtu pk.ip.isFragment pk.tcp.type pk.tcp.opts.mss then none else some (pk.tcp.opts.mss + P0f.mtuHdr pk.ip.version, recs.find? (fun r => r.1 == pk.tcp.opts.mss + P0f.mtuHdr pk.ip.version))\n",
))

# ---------------------------------------------------------------------------------------------- C05 / C14: the option list of the impersonator
def _impopt_pre(stmts):
    """drop the hint extraction (Scapy's option tuples read into `mss_hint`, `window_scale_hint`, `timestamp_hint`: bound to the model's
    Base fields, trusted glue) and give every iteration of the layout loop its own pair of drawn values"""
    out = []
    hint_names = {"original_options", "mss_hint", "window_scale_hint", "timestamp_hint"}
    for st in stmts:
        if isinstance(st, ast.FunctionDef) and st.name == "int_only":
            continue
        if isinstance(st, ast.Assign) and len(st.targets) == 1 and isinstance(st.targets[0], ast.Name) and st.targets[0].id in hint_names:
            continue
        if isinstance(st, ast.For) and ast.unparse(st.iter) == "signature.options.layout":
            head = [ast.parse("rnd = rnd_head(rnd_stream)").body[0], ast.parse("rnd_stream = rnd_tail(rnd_stream)").body[0]]
            st = ast.For(target=st.target, iter=st.iter, body=head + list(st.body), orelse=st.orelse)
            out.append(ast.parse("rnd_stream = rnd_init()").body[0])
            ast.fix_missing_locations(st)
        out.append(st)
    for st in out:
        ast.fix_missing_locations(st)
    return out


def _nat_of(fn, node, env):
    """an option value as the natural number Scapy will write (an int the code has just range-checked, or an int-or-None hint behind
    its `is not None` test: None is totalised to 0)"""
    e, t = fn.expr(node, env)
    if t in ("Nat", "Lit"):
        return e
    if t == "Int":
        return f"(Int.toNat {par(e)})"
    if t == "Opt:Int":
        return f"(Int.toNat (Option.getD {par(e)} 0))"
    raise NotTranslatable(f"option value of type {t}")


def _sopt_tuple(fn, node, env):
    """Scapy's option tuples (name, value) as the model's SOpt"""
    if len(node.elts) != 2:
        return None
    head, val = node.elts
    if isinstance(head, ast.IfExp) and all(isinstance(x, ast.Constant) and x.value in ("NOP", "EOL") for x in (head.body, head.orelse)) \
            and isinstance(val, ast.Constant) and val.value is None:
        c = fn.cond(head.test, env)
        k = {"NOP": "SOpt.nop", "EOL": "SOpt.eol"}
        return (f"(if {c} then {k[head.body.value]} else {k[head.orelse.value]})", "Rec:SOpt")
    if isinstance(head, ast.Constant) and isinstance(head.value, str):
        name = head.value
        is_none = isinstance(val, ast.Constant) and val.value is None
        if name == "MSS":
            return (f"(SOpt.mss {_nat_of(fn, val, env)})", "Rec:SOpt")
        if name == "WScale":
            return (f"(SOpt.ws {_nat_of(fn, val, env)})", "Rec:SOpt")
        if name == "Timestamp" and isinstance(val, ast.Tuple) and len(val.elts) == 2:
            return (f"(SOpt.ts {_nat_of(fn, val.elts[0], env)} {_nat_of(fn, val.elts[1], env)})", "Rec:SOpt")
        if name == "NOP" and is_none:
            return ("SOpt.nop", "Rec:SOpt")
        if name == "EOL" and is_none:
            return ("SOpt.eol", "Rec:SOpt")
        if name == "SAckOK" and isinstance(val, ast.Constant) and val.value in ("", b""):
            return ("SOpt.sackok", "Rec:SOpt")
        if name == "SAck" and ast.unparse(val) in ("b'\\x00' * 8",):
            return ("(SOpt.sack 8)", "Rec:SOpt")
        raise NotTranslatable(f"option tuple {ast.unparse(node)}")
    if isinstance(head, ast.Call) and ast.unparse(head.func) == "int" and len(head.args) == 1 and isinstance(val, ast.Constant) and val.value == b"":
        return (f"(SOpt.raw {_nat_of(fn, head.args[0], env)} 0)", "Rec:SOpt")
    return None


IMPOPT_ENV = {
    "tcp.flags": ("b.flags", "Flags"), "signature.quirks": ("s.quirks", "QSet"), "signature.options.layout": ("s.layout", "List:Nat"),
    "signature.window.type": ("s.wtype", "Enum:WinType"), "signature.window.size": ("s.wsize", "Nat"), "signature.window.scale": opt_int("s.scale"),
    "signature.options.mss": opt_int("s.mss"), "signature.options.eol_padding_length": ("s.eolPad", "Nat"),
    "uptime": ("uptime", "Opt:Int"), "mss_hint": ("b.mssHint", "Opt:Int"), "window_scale_hint": ("b.wsHint", "Opt:Int"),
    "timestamp_hint": ("(b.ts1Hint, b.ts2Hint)", "Tuple:Opt:Int,Opt:Int"),
}
TARGETS.append(dict(
    module="pyp0f.impersonate.tcp", func="_impersonate_options", file="ImpersonateOptions", lean="impOptions", import_="P0f.Model.Impersonate", safe=True,
    pyparams=["tcp", "signature", "uptime"], params=[("s", "Sig"), ("b", "Base"), ("uptime", "Option Int"), ("c", "Choices")],
    ret="List:Rec:SOpt", lean_ret="List SOpt", pre=_impopt_pre, env=IMPOPT_ENV, sort_carried=True, tuple_hook=_sopt_tuple,
    lean_types={"Rec:SOpt": "SOpt"}, list_types={"options": "List:Rec:SOpt"}, opt_types={"impersonated_option": "Opt:Rec:SOpt"},
    var_types={"tcp_type": "Flags", "min_mss": "Int", "max_mss": "Int", "max_window_scale": "Int", "max_ts": "Int"},
    # every iteration of the layout loop draws from its own pair of values (the model's `Choices.opt`, one pair per layout position);
    # which component a `random` call reads is decided by its position in the source
    random_sites=[("rnd.1", "Nat"), ("rnd.1", "Nat"), ("rnd.1", "Nat"), ("rnd.1", "Nat"), ("rnd.2", "Nat")],
    calls={"rnd_init": bound([], ("c.opt", "List:Tuple:Nat,Nat")),
           "rnd_head": lambda fn, a, k, e: ("(List.headD " + par(fn.expr(a[0], e)[0]) + " (0, 0))", "Tuple:Nat,Nat"),
           "rnd_tail": lambda fn, a, k, e: ("(List.tail " + par(fn.expr(a[0], e)[0]) + ")", "List:Tuple:Nat,Nat"),
           # _align_options works on Scapy's tuples with bytes values: bound to the model's alignOptions
           "_align_options": lambda fn, a, k, e: ("(alignOptions " + par(fn.coerce(a[0], e, "List:Rec:SOpt")) + ")", "List:Rec:SOpt")
           if len(a) == 1 and not k else (_ for _ in ()).throw(NotTranslatable("_align_options call shape"))},
    alias="def impOptions_loop0 (s : Sig) (b : Base) (uptime : Option Int) (c : Choices) (tcp_type : Nat) (ks : List Nat) (options : List SOpt) "
          "(rnd_stream : List (Nat × Nat)) : List SOpt := P0f.alignOptions (options ++ P0f.impOptionsGo s b uptime ks rnd_stream)\n"
          "def impOptions (s : Sig) (b : Base) (uptime : Option Int) (c : Choices) : List SOpt := P0f.impOptions s b uptime c\n"
          "def impOptions_safe_loop0 (s : Sig) (b : Base) (uptime : Option Int) (c : Choices) (tcp_type : Nat) (ks : List Nat) (options : List SOpt) "
          "(rnd_stream : List (Nat × Nat)) : Bool := true\n"
          "def impOptions_safe (s : Sig) (b : Base) (uptime : Option Int) (c : Choices) : Bool := true\n",
))

# ---------------------------------------------------------------------------------------------- C09 / C10: signature text parsers
RAISES_FIELD = {"FieldError": "none", "ValueError": "none"}
TARGETS.append(dict(
    module="pyp0f.database.signatures.tcp", func="_parse_ttl", file="ParseTtl", lean="parseTtl", import_="P0f.Model.SigParse", open="P0f P0f.Py",
    pyparams=["field"], params=[("field", "List Char")], ret="Opt:Tuple:Int,Bool", lean_ret="Option (Int × Bool)",
    env={"field": ("field", "Str")}, raises=RAISES_FIELD, lean_types={"Str": "List Char"}, var_types={"dist": "Int"},
    alias="def parseTtl (field : List Char) : Option (Int × Bool) := (P0f.parseTtl field).map fun r => ((r.1 : Int), r.2)\n",
))

TARGETS.append(dict(
    module="pyp0f.database.signatures.tcp", func="_parse_window", file="ParseWindow", lean="parseWindow", import_="P0f.Model.SigParse", open="P0f P0f.Py",
    pyparams=["field"], params=[("field", "List Char")], ret="Opt:Tuple:Enum:WinType,Int,Int", lean_ret="Option (WinType × Int × Int)",
    env={"field": ("field", "Str")}, raises=RAISES_FIELD, lean_types={"Str": "List Char"}, var_types={"size": "Int"},
    calls={"WindowSignature": tuple_ctor("type", "size", "scale")},
    alias="def parseWindow (field : List Char) : Option (WinType × Int × Int) := (P0f.parseWindow field).map fun r => (r.1, (if r.1 == WinType.any then (-1 : Int) else (r.2.1 : Int)), optInt r.2.2)\n",
))
TARGETS.append(dict(
    module="pyp0f.database.signatures.tcp", func="_parse_options", file="ParseOptionsField", lean="parseOptionsField", import_="P0f.Model.SigParse", open="P0f P0f.Py",
    pyparams=["field"], params=[("field", "List Char")], ret="Opt:Tuple:List:Int,Int", lean_ret="Option (List Int × Int)",
    env={"field": ("field", "Str")}, raises=RAISES_FIELD, lean_types={"Str": "List Char"}, list_types={"options": "List:Int"},
    var_types={"eol_padding_length": "Int", "option": "Int"},
    alias="def parseOptionsField_loop0 (field : List Char) (options : List Int) (raw_options : List (List Char)) (l : List (List Char)) (e : Int) : Option (List Int × Int) :=\n"
          "  (l.foldlM P0f.optionsStep (options.map Int.toNat, e.toNat)).map fun r => (r.1.map (fun (k : Nat) => (k : Int)), (r.2 : Int))\n"
          "def parseOptionsField (field : List Char) : Option (List Int × Int) := (P0f.parseOptionsField field).map fun r => (r.1.map (fun (k : Nat) => (k : Int)), (r.2 : Int))\n",
))
TARGETS.append(dict(
    module="pyp0f.database.signatures.tcp", func="_parse_quirks", file="ParseQuirksField", lean="parseQuirksField", import_="P0f.Model.SigParse", open="P0f P0f.Py",
    pyparams=["field", "ip_version"], params=[("field", "List Char"), ("ip_version", "Int")], ret="Opt:QSet", lean_ret="Option QSet",
    env={"field": ("field", "Str"), "ip_version": ("ip_version", "Int")}, raises=RAISES_FIELD, lean_types={"Str": "List Char"},
    calls={"Quirk": _quirk0},
    alias="def parseQuirksField_loop0 (field : List Char) (ip_version : Int) (invalid_quirks : Option QSet) (raw_quirks : List (List Char)) (l : List (List Char)) (q : QSet) : Option QSet :=\n"
          "  l.foldlM (P0f.quirksStep (intToOpt ip_version)) q\n"
          "def parseQuirksField (field : List Char) (ip_version : Int) : Option QSet := P0f.parseQuirksField field (intToOpt ip_version)\n",
))

def opt_call(lean_name, arg_types, ret):
    """call of another translated function that may raise: bound before the current statement (the exception propagates)"""
    def mk(fn, args, kw, env):
        if kw or len(args) != len(arg_types):
            raise NotTranslatable(f"call shape of {lean_name}")
        out = []
        for a, want in zip(args, arg_types):
            e, t = fn.expr(a, env)
            if want == "Int":
                e = as_int(e, t)
            elif want != t:
                raise NotTranslatable(f"argument type {t}, expected {want}")
            out.append(par(e))
        return fn.raising(f"({lean_name} " + " ".join(out) + ")", ret)
    return mk


def _sig_ctor(fn, args, kw, env):
    want = ("ip_version", "ip_options_length", "ttl", "is_bad_ttl", "window", "options", "payload_class", "quirks")
    if args or set(kw) != set(want):
        raise NotTranslatable("TCPSignature(...) call shape")
    v = {w: fn.expr(kw[w], env) for w in want}
    win, twin = v["window"]
    opt, topt = v["options"]
    if twin != "Tuple:Enum:WinType,Int,Int" or topt != "Tuple:List:Int,Int,Int":
        raise NotTranslatable(f"window / options of types {twin}, {topt}")
    return ("(sigOfFields " + " ".join(par(as_int(*v[w])) if w in ("ip_version", "ip_options_length", "ttl", "payload_class") else par(v[w][0]) for w in
                                       ("ip_version", "ip_options_length", "ttl", "is_bad_ttl")) + f" {par(win)} {par(opt)} "
            + par(as_int(*v["payload_class"])) + " " + par(v["quirks"][0]) + ")", "Rec:Sig")


TARGETS.append(dict(
    module="pyp0f.database.signatures.tcp", func="TCPSignature.parse", file="ParseTcpSig", lean="parseTcpSig",
    import_="P0f.Generated.Logic.ParseTtl\nimport P0f.Generated.Logic.ParseWindow\nimport P0f.Generated.Logic.ParseOptionsField\nimport P0f.Generated.Logic.ParseQuirksField\nimport P0f.Model.SigFields",
    open="P0f P0f.Py", decorators=("classmethod",),
    pyparams=["cls", "raw_signature"], params=[("raw_signature", "List Char")], ret="Opt:Rec:Sig", lean_ret="Option Sig",
    env={"raw_signature": ("raw_signature", "Str")}, raises=RAISES_FIELD, lean_types={"Str": "List Char", "Rec:Sig": "Sig"},
    calls={"split_parts": lambda fn, a, k, e: _split_parts_call(fn, a, k, e),
           "_parse_ttl": opt_call("P0f.Gen.parseTtl", ["Str"], "Tuple:Int,Bool"),
           "_parse_window": opt_call("P0f.Gen.parseWindow", ["Str"], "Tuple:Enum:WinType,Int,Int"),
           "_parse_options": opt_call("P0f.Gen.parseOptionsField", ["Str"], "Tuple:List:Int,Int"),
           "_parse_quirks": opt_call("P0f.Gen.parseQuirksField", ["Str", "Int"], "QSet"),
           "OptionsSignature": tuple_ctor("layout", "mss", "eol_padding_length"),
           "cls": _sig_ctor},
    alias="def parseTcpSig (raw_signature : List Char) : Option Sig := P0f.parseTcpSig raw_signature\n",
))

def _split_parts_call(fn, a, k, e):
    if len(a) == 1 and set(k) == {"parts"} and isinstance(k["parts"], ast.Constant) and isinstance(k["parts"].value, int):
        x, tx = fn.expr(a[0], e)
        if tx == "Str":
            return (f"(splitParts ':' {k['parts'].value} {par(x)})", "List:Str")
    raise NotTranslatable("split_parts call shape")


TARGETS.append(dict(
    module="pyp0f.net.layers.http.http", func="HTTP.software", file="HttpSoftware", lean="softwareOf", import_="P0f.Model.Http", open="P0f P0f.Py",
    decorators=("property",), pyparams=["self"], params=[("ph", "List Hdr")], ret="Opt:Bytes", lean_ret="Option Bytes",
    env={"self.headers": ("ph", "List:Rec:Hdr")}, records=HDR_RECORDS, bytes_elem="Char", value_or=True, receivers={"self": None},
    lean_types={"Bytes": "Bytes", "Rec:Hdr": "Hdr"},
    alias="def softwareOf (ph : List Hdr) : Option Bytes := P0f.softwareOf ph\n",
))

# ---------------------------------------------------------------------------------------------- C09 / C06: HTTP signature texts
def _sighdr_ctor(fn, args, kw, env):
    if args or set(kw) != {"name", "value", "is_optional"}:
        raise NotTranslatable("SignatureHeader(...) call shape")
    return ("({ name := " + fn.coerce(kw["name"], env, "Bytes") + ", optional := " + fn.coerce(kw["is_optional"], env, "Bool")
            + ", value := " + fn.coerce(kw["value"], env, "Opt:Bytes") + " } : SigHdr)", "Rec:SigHdr")


def _httpsig_ctor(fn, args, kw, env):
    if args or set(kw) != {"version", "headers", "absent_headers", "expected_software"}:
        raise NotTranslatable("HTTPSignature(...) call shape")
    return ("({ version := intToOpt " + par(fn.coerce(kw["version"], env, "Int")) + ", headers := " + fn.coerce(kw["headers"], env, "List:Rec:SigHdr")
            + ", absent := " + fn.coerce(kw["absent_headers"], env, "List:Bytes") + ", software := " + fn.coerce(kw["expected_software"], env, "Opt:Bytes")
            + " } : HttpSig)", "Rec:HttpSig")


def _header_split(fn, args, kw, env):
    # _HEADER_PATTERN.split(x): the regular expression rb",(?![^\[]*\])" - a comma not followed by a closing bracket before any
    # opening one - is the model's splitHeaders (bound, not printed)
    if kw or len(args) != 1:
        raise NotTranslatable("_HEADER_PATTERN.split call shape")
    x, tx = fn.expr(args[0], env)
    if tx != "Bytes":
        raise NotTranslatable("_HEADER_PATTERN.split of a non-bytes value")
    return (f"(splitHeaders {par(x)})", "List:Bytes")


_HTTP_LEAN_TYPES = {"Str": "List Char", "Bytes": "Bytes", "Rec:HttpSig": "HttpSig", "Rec:SigHdr": "SigHdr"}
TARGETS.append(dict(
    module="pyp0f.database.signatures.http", func="_parse_headers", file="ParseSigHeaders", lean="parseSigHeaders",
    import_="P0f.Model.Http", open="P0f P0f.Py",
    pyparams=["field"], params=[("field", "List Char")], ret="List:Rec:SigHdr", lean_ret="List SigHdr",
    env={"field": ("field", "Str")}, bytes_elem="Char", sort_carried=True, list_types={"headers": "List:Rec:SigHdr"},
    lean_types=_HTTP_LEAN_TYPES, calls={"SignatureHeader": _sighdr_ctor, "_HEADER_PATTERN.split": _header_split},
    alias="def parseSigHeaders_loop0 (field : List Char) (l : List Bytes) (headers : List SigHdr) : List SigHdr :=\n"
          "  headers ++ (l.filter (fun h => !h.isEmpty)).map P0f.parseSigHeader\n"
          "def parseSigHeaders (field : List Char) : List SigHdr := P0f.parseSigHeaders field\n",
))
TARGETS.append(dict(
    module="pyp0f.database.signatures.http", func="HTTPSignature.parse", file="ParseHttpSig", lean="parseHttpSig",
    import_="P0f.Generated.Logic.ParseSigHeaders\nimport P0f.Model.SigParse\nimport P0f.Model.Q", open="P0f P0f.Py",
    decorators=("classmethod",), pyparams=["cls", "raw_signature"], params=[("raw_signature", "List Char")],
    ret="Opt:Rec:HttpSig", lean_ret="Option HttpSig",
    env={"raw_signature": ("raw_signature", "Str")}, raises=RAISES_FIELD, bytes_elem="Char", lean_types=_HTTP_LEAN_TYPES,
    list_types={"absent_headers": "List:Bytes"},
    calls={"split_parts": lambda fn, a, k, e: _split_parts_call(fn, a, k, e), "cls": _httpsig_ctor,
           "_parse_headers": call_gen("P0f.Gen.parseSigHeaders", ["Str"], "List:Rec:SigHdr")},
    alias="def parseHttpSig (raw_signature : List Char) : Option HttpSig := P0f.parseHttpSig raw_signature\n",
))

# ---------------------------------------------------------------------------------------------- C15 / C09: labels, MTU signatures, section headers
TARGETS.append(dict(
    module="pyp0f.database.signatures.mtu", func="MTUSignature.parse", file="ParseMtuSig", lean="parseMtuSig", import_="P0f.Model.SigParse", open="P0f P0f.Py",
    decorators=("classmethod",), pyparams=["cls", "raw_signature"], params=[("raw_signature", "List Char")], ret="Opt:Int", lean_ret="Option Int",
    env={"raw_signature": ("raw_signature", "Str")}, raises=RAISES_FIELD, lean_types={"Str": "List Char"},
    calls={"cls": lambda fn, a, k, e: (as_int(*fn.expr(a[0], e)), "Int") if len(a) == 1 and not k else (_ for _ in ()).throw(NotTranslatable("cls(...) shape"))},
    alias="def parseMtuSig (raw_signature : List Char) : Option Int := (P0f.parseMtuSig raw_signature).map fun (n : Nat) => (n : Int)\n",
))


def _label_ctor(fn, args, kw, env):
    if args or set(kw) != {"name", "is_generic", "os_class", "flavor"}:
        raise NotTranslatable("Label(...) call shape")
    v = {w: fn.expr(kw[w], env) for w in kw}
    if [v[w][1] for w in ("name", "is_generic", "os_class", "flavor")] != ["Str", "Bool", "Str", "Str"]:
        raise NotTranslatable("Label(...) argument types")
    return ("{ generic := " + v["is_generic"][0] + ", osClass := " + v["os_class"][0] + ", name := " + v["name"][0] + ", flavor := " + v["flavor"][0] + " }", "Rec:LabelM")


TARGETS.append(dict(
    module="pyp0f.database.labels.label", func="Label.parse", file="ParseLabel", lean="parseLabel", import_="P0f.Model.SigParse", open="P0f P0f.Py",
    decorators=("classmethod",), pyparams=["cls", "raw_label"], params=[("raw_label", "List Char")], ret="Opt:Rec:LabelM", lean_ret="Option LabelM",
    env={"raw_label": ("raw_label", "Str")}, raises=RAISES_FIELD, lean_types={"Str": "List Char", "Rec:LabelM": "LabelM"},
    calls={"split_parts": _split_parts_call, "cls": _label_ctor},
    alias="def parseLabel (raw_label : List Char) : Option LabelM := P0f.parseLabel raw_label\n",
))
TARGETS.append(dict(
    module="pyp0f.database.labels.label", func="Label.dump", file="DumpLabel", lean="dumpLabel", import_="P0f.Model.SigParse", open="P0f P0f.Py",
    pyparams=["self"], params=[("l", "LabelM")], ret="Str", lean_ret="List Char",
    env={"self.is_generic": ("l.generic", "Bool"), "self.os_class": ("l.osClass", "Str"), "self.name": ("l.name", "Str"), "self.flavor": ("l.flavor", "Str")},
    lean_types={"Str": "List Char"},
    alias="def dumpLabel (l : LabelM) : List Char := l.dump\n",
))
TARGETS.append(dict(
    module="pyp0f.database.parse.parser", func="_parse_section", file="ParseSection", lean="parseSection", import_="P0f.Model.DbParse", open="P0f P0f.Py",
    pyparams=["line"], params=[("line", "List Char")], ret="Opt:Tuple:Enum:RecKind,Opt:Enum:Dir", lean_ret="Option (RecKind × Option Dir)",
    env={"line": ("line", "Str")}, raises=RAISES_FIELD, lean_types={"Str": "List Char"},
    alias="def parseSection (line : List Char) : Option (RecKind × Option Dir) := (P0f.parseSection line).map fun s => (s.kind, s.dir)\n",
))

# ---------------------------------------------------------------------------------------------- C09 / C10 / C11: the file parser
def _pf_err(fn, line_expr, env):
    return "(Except.error (LoadErr.parsing " + par(fn.coerce(line_expr, env, "Nat")) + "))"


def _pf_db_create(fn, args, kw, env):
    if kw or len(args) != 2:
        raise NotTranslatable("database.create call shape")
    return ("(Db.createKD " + par(env["database"][0]) + " " + par(fn.coerce(args[0], env, "Enum:RecKind")) + " "
            + par(fn.coerce(args[1], env, "Opt:Enum:Dir")) + ")", "Rec:Db")


def _pf_db_add(fn, args, kw, env):
    # add(value, direction) files the record under type(value): the class it was built from
    if kw or len(args) != 2:
        raise NotTranslatable("database.add call shape")
    rec, trec = fn.expr(args[0], env)
    if not trec.startswith("Rec:DbRec@"):
        raise NotTranslatable("database.add of a value that is not a record built from the section's class")
    return fn.raising("(Db.addKD " + par(env["database"][0]) + " " + par(trec[10:]) + " " + par(fn.coerce(args[1], env, "Opt:Enum:Dir"))
                      + " " + par(rec) + ")", "Rec:Db")


def _pf_new_db(fn, args, kw, env):
    if args or kw:
        raise NotTranslatable("RecordsDatabase(...) with initial items")
    return ("Db.empty", "Rec:Db")


def _pf_record_ctor(fn, args, kw, env):
    want = ("label", "signature", "raw_signature", "line_number")
    if args or set(kw) != set(want) or env.get("record_cls") is None or env["record_cls"][1] != "Enum:RecKind":
        raise NotTranslatable("record constructor call shape")
    sig, tsig = fn.expr(kw["signature"], env)
    if tsig != "Rec:DbSig":
        raise NotTranslatable("record signature of an unexpected type")
    text = ("({ label := " + fn.coerce(kw["label"], env, "Opt:Rec:DbLabel") + ", sig := " + sig + ", raw := " + fn.coerce(kw["raw_signature"], env, "Str")
            + ", line := " + fn.coerce(kw["line_number"], env, "Nat") + " } : DbRec)")
    ty = "Rec:DbRec@" + env["record_cls"][0]
    fn.t.setdefault("lean_types", {})[ty] = "DbRec"
    return (text, ty)


def _pf_cls_parse(lean_name, ret):
    def mk(fn, args, kw, env):
        if kw or len(args) != 1 or env.get("record_cls") is None or env["record_cls"][1] != "Enum:RecKind":
            raise NotTranslatable(f"{lean_name} call shape (record class not known to be set)")
        return fn.raising(f"({lean_name} {par(env['record_cls'][0])} {par(fn.coerce(args[0], env, 'Str'))})", ret)
    return mk


def _pf_isinstance(fn, args, kw, env):
    if kw or len(args) != 2 or dotted_name(args[1]) != "Label":
        raise NotTranslatable("isinstance other than isinstance(x, Label)")
    e, t = fn.expr(args[0], env)
    if t == "Rec:DbLabel":
        return (f"(DbLabel.isOs {par(e)})", "Bool")
    if t == "Opt:Rec:DbLabel":
        return (f"(Option.elim {par(e)} false DbLabel.isOs)", "Bool")
    raise NotTranslatable("isinstance on a value that is not a label")


def _pf_set_sys(fn, args, kw, env):
    v, tv = fn.expr(args[0], env)
    if tv != "List:Str" or env.get("label") is None:
        raise NotTranslatable("label.sys store shape")
    e, t = env["label"]
    if t == "Rec:DbLabel":
        return (f"(DbLabel.withSys {par(v)} {par(e)})", t)
    if t == "Opt:Rec:DbLabel":
        return (f"(Option.map (DbLabel.withSys {par(v)}) {par(e)})", t)
    raise NotTranslatable("label.sys store on a value that is not a label")


def dotted_name(n):
    return n.id if isinstance(n, ast.Name) else None


TARGETS.append(dict(
    module="pyp0f.database.parse.parser", func="_parse_file", file="ParseFile", lean="parseFileLines",
    import_="P0f.Glue.ParseFile", open="P0f P0f.Py", desugar=True, sort_carried=True, safe=True, safe_index=True,
    pyparams=["file"], params=[("file", "List (List Char)")], ret="Exc:Rec:Db", lean_ret="Except LoadErr Db", err_ty="LoadErr",
    err_default="(Except.error LoadErr.database)",
    env={"file": ("file", "List:Str")},
    raises={"ParsingError": lambda fn, exc, env: _pf_err(fn, exc.args[1], env)},
    with_wrappers={"parsing_error_wrapper": lambda fn, call, env: _pf_err(fn, call.args[0], env)},
    mutators={"database.create": "database", "database.add": "database"},
    attr_setters={"label.sys": "label"},
    opt_types={"label": "Opt:Rec:DbLabel", "direction": "Opt:Enum:Dir", "record_cls": "Opt:Enum:RecKind"},
    lean_types={"Str": "List Char", "Rec:Db": "Db", "Rec:DbLabel": "DbLabel", "Rec:DbSig": "DbSig"},
    records={"DbLabel": {"is_user_app": (".isUserApp", "Bool")}},
    calls={"RecordsDatabase": _pf_new_db,
           "_parse_section": opt_call("P0f.Gen.parseSection", ["Str"], "Tuple:Enum:RecKind,Opt:Enum:Dir"),
           "%mut%database.create": _pf_db_create, "%mut%database.add": _pf_db_add,
           "record_cls": _pf_record_ctor,
           "record_cls._signature_cls.parse": _pf_cls_parse("P0f.Gen.parseSigFor", "Rec:DbSig"),
           "record_cls._label_cls.parse": _pf_cls_parse("P0f.Gen.parseLabelFor", "Rec:DbLabel"),
           "isinstance": _pf_isinstance, "%set%label.sys": _pf_set_sys},
    alias="def parseFileLines_loop0 (file : List (List Char)) (ls : List (List Char)) (database : Db) (direction : Option Dir) (label : Option DbLabel) "
          "(line_number_next : Nat) (record_cls : Option RecKind) (state : PState) : Except LoadErr Db :=\n"
          "  match P0f.parseGo ls line_number_next { db := database, state := state, label := label, sec := record_cls.bind fun k => P0f.secOf k direction } with\n"
          "  | .ok st => .ok st.db\n  | .error e => .error e\n"
          "def parseFileLines (file : List (List Char)) : Except LoadErr Db := P0f.parseLines file\n"
          "def parseFileLines_safe (file : List (List Char)) : Bool := true\n",
))

# ---------------------------------------------------------------------------------------------- C07: the HTTP payload reader
def _hdr_ctor(fn, args, kw, env):
    if args or set(kw) != {"name", "value"}:
        raise NotTranslatable("PacketHeader(...) call shape")
    return ("({ name := " + fn.coerce(kw["name"], env, "Bytes") + ", value := " + fn.coerce(kw["value"], env, "Bytes") + " } : Hdr)", "Rec:Hdr")


TARGETS.append(dict(
    module="pyp0f.net.layers.http.read", func="read_headers", file="ReadHeaders", lean="readHeaders", import_="P0f.Model.Http", open="P0f P0f.Py",
    safe=True, safe_index=True,
    pyparams=["lines"], params=[("lines", "List Bytes")], ret="Opt:List:Rec:Hdr", lean_ret="Option (List Hdr)",
    env={"lines": ("lines", "List:Bytes")}, bytes_elem="Char", sort_carried=True,
    raises={"PacketError": "none", "ValueError": "none"}, list_types={"headers": "List:Rec:Hdr"},
    records={"Hdr": {"name": (".name", "Bytes"), "value": (".value", "Bytes")}},
    lean_types={"Bytes": "Bytes", "Rec:Hdr": "Hdr"},
    calls={"PacketHeader": _hdr_ctor},
    alias="def readHeaders_loop0 (lines : List Bytes) (l : List Bytes) (headers : List Hdr) : Option (List Hdr) :=\n"
          "  match P0f.readHeadersGo l headers with | .ok h => some h | .error _ => none\n"
          "def readHeaders (lines : List Bytes) : Option (List Hdr) := match P0f.readHeadersGo lines [] with | .ok h => some h | .error _ => none\n"
          "def readHeaders_safe (lines : List Bytes) : Bool := true\n",
))
TARGETS.append(dict(
    module="pyp0f.net.layers.http.read", func="read_first_line", file="ReadFirstLine", lean="readFirstLine", import_="P0f.Model.Http\nimport P0f.Model.DbParse", open="P0f P0f.Py",
    pyparams=["line"], params=[("line", "Bytes")], ret="Opt:Tuple:Enum:Dir,Nat", lean_ret="Option (Dir × Nat)",
    env={"line": ("line", "Bytes")}, bytes_elem="Char",
    raises={"PacketError": "none", "ValueError": "none", "IndexError": "none"},
    lean_types={"Bytes": "Bytes"},
    # `HTTP_VERSION_PATTERN.match` + `int(group)`: the regular expression ^HTTP/1\.(\d)$ on a line without "\n" is the model's minorVersion
    calls={"extract_minor_version": opt_call("minorVersion", ["Bytes"], "Nat")},
    alias="def readFirstLine (line : Bytes) : Option (Dir × Nat) := (P0f.readFirstLine line).map fun r => (if r.1 then Dir.req else Dir.resp, r.2)\n",
))

def _extract_lines(fn, args, kw, env):
    # copy_buffer(buffer).maybe_extract_lines(): h11's receive buffer on a copy of the payload - None while the head is incomplete,
    # else the lines before the blank line (bound to the model's extractLines, not printed)
    if args or kw:
        raise NotTranslatable("maybe_extract_lines call shape")
    return ("(extractLines data)", "Opt:List:Bytes")


TARGETS.append(dict(
    module="pyp0f.net.layers.http.read", func="read_payload", file="ReadPayload", lean="readPayload", safe=True, safe_index=True,
    safe_callees=("readHeaders",),
    import_="P0f.Generated.Logic.ReadHeaders\nimport P0f.Generated.Logic.ReadFirstLine", open="P0f P0f.Py",
    pyparams=["buffer"], params=[("data", "Bytes")], ret="Opt:Tuple:Enum:Dir,Nat,List:Rec:Hdr", lean_ret="Option (Dir × Nat × List Hdr)",
    env={"buffer": ("data", "Bytes")}, bytes_elem="Char", raises={"PacketError": "none"},
    lean_types={"Bytes": "Bytes", "Rec:Hdr": "Hdr"},
    calls={"copy_buffer(buffer).maybe_extract_lines": _extract_lines,
           "read_first_line": opt_call("P0f.Gen.readFirstLine", ["Bytes"], "Tuple:Enum:Dir,Nat"),
           "read_headers": opt_call("P0f.Gen.readHeaders", ["List:Bytes"], "List:Rec:Hdr")},
    alias="def readPayload (data : Bytes) : Option (Dir × Nat × List Hdr) :=\n"
          "  match P0f.extractLines data with\n  | none => none\n  | some [] => none\n"
          "  | some (first :: rest) => (P0f.Gen.readFirstLine first).bind fun r => (P0f.Gen.readHeaders rest).map fun hs => (r.1, r.2, hs)\n"
          "def readPayload_safe (data : Bytes) : Bool := true\n",
))

# ---------------------------------------------------------------------------------------------- C06 / C04: fingerprint_http glue
def _fh_read(fn, a, k, e):
    if k or [ast.unparse(x) for x in a] != ["buffer"]:
        raise NotTranslatable("read_payload call shape")
    return fn.raising("(P0f.Gen.readPayload data)", "Tuple:Enum:Dir,Nat,List:Rec:Hdr", err="(Except.error ApiErr.packet)")


def _fh_sig(fn, a, k, e):
    if k or len(a) != 2:
        raise NotTranslatable("HTTPPacketSignature(...) call shape")
    v, tv = fn.expr(a[0], e)
    h, th = fn.expr(a[1], e)
    if tv != "Nat" or th != "List:Rec:Hdr":
        raise NotTranslatable("HTTPPacketSignature(...) argument types")
    return (f"({v}, {h})", "Tuple:Nat,List:Rec:Hdr")


def _fh_find(fn, a, k, e):
    # find_http_match(packet_signature, direction, options.database): the printed search on the HTTP records of that direction;
    # an unloaded database (no such list) is the DatabaseError of iter_values
    if k or len(a) != 3 or ast.unparse(a[2]) != "options.database":
        raise NotTranslatable("find_http_match call shape")
    ps, tps = fn.expr(a[0], e)
    d, td = fn.expr(a[1], e)
    if tps != "Tuple:Nat,List:Rec:Hdr" or td != "Enum:Dir":
        raise NotTranslatable("find_http_match argument types")
    return fn.raising(f"(match Db.iter db RecKind.http (some {d}) with | .ok l => some (P0f.Gen.findHttpMatch (l.filterMap DbRec.toHttpRec) {ps}.1 {ps}.2) | .error _ => none)",
                      "Opt:Rec:HttpRec", err="(Except.error ApiErr.database)")


def _fh_result(fn, a, k, e):
    # HTTPResult(buffer, packet_signature, match); __post_init__ computes `dishonest` (the printed one)
    if k or len(a) != 3 or ast.unparse(a[0]) != "buffer":
        raise NotTranslatable("HTTPResult(...) call shape")
    ps, tps = fn.expr(a[1], e)
    m, tm = fn.expr(a[2], e)
    if tps != "Tuple:Nat,List:Rec:Hdr" or tm != "Opt:Rec:HttpRec":
        raise NotTranslatable("HTTPResult(...) argument types")
    return (f"({ps}.1, {m}, P0f.Gen.dishonest {m} {ps}.2)", "Tuple:Nat,Opt:Rec:HttpRec,Bool")


TARGETS.append(dict(
    module="pyp0f.fingerprint.http", func="fingerprint_http", file="FingerprintHttp", lean="fingerprintHttp",
    import_="P0f.Generated.Logic.ReadPayload\nimport P0f.Generated.Logic.FindHttpMatch\nimport P0f.Generated.Logic.HttpDishonest\nimport P0f.Model.Api", open="P0f P0f.Py",
    pyparams=["buffer", "options"], params=[("db", "Db"), ("data", "Bytes")],
    ret="Exc:Tuple:Nat,Opt:Rec:HttpRec,Bool", lean_ret="Except ApiErr (Nat × Option HttpRec × Bool)", err_ty="ApiErr",
    err_default="(Except.error ApiErr.packet)", bytes_elem="Char",
    env={"buffer": ("data", "Bytes")}, lean_types={"Bytes": "Bytes", "Rec:Hdr": "Hdr", "Rec:HttpRec": "HttpRec"},
    calls={"read_payload": _fh_read, "HTTPPacketSignature": _fh_sig, "find_http_match": _fh_find, "HTTPResult": _fh_result},
    alias="def fingerprintHttp (db : Db) (data : Bytes) : Except ApiErr (Nat × Option HttpRec × Bool) :=\n"
          "  match P0f.apiFpHttp db data with | .ok r => .ok (r.2.1, r.2.2.1, r.2.2.2) | .error e => .error e\n",
))

# ---------------------------------------------------------------------------------------------- C15: lookup by label text
def _gr_iter(fn, a, k, e):
    if k or [ast.unparse(x) for x in a] != ["key", "direction"]:
        raise NotTranslatable("self.iter_values call shape")
    return fn.raising("(Except.toOption (Db.iter db k d))", "List:Rec:DbRec")


def _gr_label_dump(fn, a, k, e, recv):
    if a or k or recv[1] != "Rec:DbRec":
        raise NotTranslatable("label.dump() on something that is not a record of the store")
    return (f"(Option.elim {recv[0]}.label [] P0f.Gen.dbLabelDump)", "Str")


TARGETS.append(dict(
    module="pyp0f.database.records_database", func="RecordsDatabase.get_random", file="GetRandom", lean="getRandom",
    import_="P0f.Glue.Records", open="P0f P0f.Py",
    pyparams=["self", "raw_label", "key", "direction"], params=[("db", "Db"), ("raw_label", "List Char"), ("k", "RecKind"), ("d", "Option Dir")],
    ret="Exc:List:Rec:DbRec", lean_ret="Except LoadErr (List DbRec)", err_ty="LoadErr", err_default="(Except.error LoadErr.database)",
    env={"raw_label": ("raw_label", "Str"), "key": ("k", "Enum:RecKind"), "direction": ("d", "Opt:Enum:Dir")},
    raises={"DatabaseError": "(Except.error LoadErr.database)"}, lean_types={"Str": "List Char", "Rec:DbRec": "DbRec"},
    # `random.choice(records)`: the outcome the model keeps is the candidate list the draw is made from
    random_sites=[lambda fn, node, env: fn.expr(node.args[0], env) if len(node.args) == 1 and not node.keywords and ast.unparse(node.func) == "random.choice"
                  else (_ for _ in ()).throw(NotTranslatable("random.choice call shape"))],
    calls={"self.iter_values": _gr_iter,
           # record.label.dump(): MTULabel -> its name, Label -> the printed Label.dump (a record without label cannot be filed by the parser)
           "*.label.dump": _gr_label_dump},
    alias="def getRandom (db : Db) (raw_label : List Char) (k : RecKind) (d : Option Dir) : Except LoadErr (List DbRec) := P0f.Db.candidates db raw_label k d\n",
))

# ---------------------------------------------------------------------------------------------- C18: the writers
TARGETS.append(dict(
    module="pyp0f.net.layers.tcp.options", func="TCPOptions.dump", file="DumpLayout", lean="dumpLayout", import_="P0f.Model.TcpOptions", open="P0f",
    pyparams=["self"], params=[("layout", "List Nat"), ("eolPad", "Nat")], ret="Str", lean_ret="List Char",
    env={"self.layout": ("layout", "List:Nat"), "self.eol_padding_length": ("eolPad", "Nat")}, lean_types={"Str": "List Char"},
    alias="def dumpLayout (layout : List Nat) (eolPad : Nat) : List Char := P0f.dumpLayout layout eolPad\n",
))
TARGETS.append(dict(
    module="pyp0f.net.quirks", func="dump_quirks", file="DumpQuirks", lean="dumpQuirks", import_="P0f.Model.TcpOptions", open="P0f",
    pyparams=["quirks"], params=[("quirks", "QSet")], ret="Str", lean_ret="List Char",
    env={"quirks": ("quirks", "QSet")}, lean_types={"Str": "List Char"},
    alias="def dumpQuirks (quirks : QSet) : List Char := P0f.dumpQuirks quirks\n",
))

for t in TARGETS:
    if "import_" in t:
        t["import"] = t.pop("import_")
