"""
Generic check flow (DESIGN.md section 2.1):
  tables -> Lean build -> proof audit -> corpus + generated ops through model and implementation
  -> diff on property observables -> property oracles -> classify -> evidence.
"""
import collections
import importlib
import json
import os
import random
import sys
import time

from . import core


class Failure:
    def __init__(self, kind, what, op=None, impl=None, model=None, extra=None):
        self.kind = kind          # "property-failure" | "correspondence" | "obligation"
        self.what = what
        self.op = op
        self.impl = impl
        self.model = model
        self.extra = extra or {}

    def payload(self, prop, tier, seed):
        d = {"property": prop, "tier": tier, "seed": seed, "kind": self.kind, "what": self.what,
             "how_to_replay": f"./check {prop} --replay <this file>"}
        if self.op is not None:
            d["op"] = self.op
        if self.impl is not None:
            d["impl"] = self.impl
        if self.model is not None:
            d["model_and_spec"] = self.model
        d.update(self.extra)
        return d


class Ctx:
    """what a property module gets to work with"""

    def __init__(self, prop, tier, seed):
        self.prop = prop
        self.tier = tier
        self.seed = seed
        self.rng = random.Random(seed)
        self.failures = []
        self.hist = collections.Counter()
        self.evaluations = 0
        self.nontrivial = set()
        self.samples = []
        self.notes = {}
        self.known_hits = collections.Counter()
        self.skipped = []

    def quick(self):
        return self.tier == "quick"

    def n(self, quick, thorough):
        return quick if self.tier == "quick" else thorough

    def correspond(self, ops, nontrivial=None, tagger=None, label="corr", canon=None, canon_model=None, canon_impl=None):
        """run ops through model and implementation, diff answers.
        ops: list of op lines.  nontrivial(line, answer)->bool.  Returns list of (line, impl, model)."""
        ops = list(ops)
        t0 = time.time()
        model = core.run_driver(ops)
        t1 = time.time()
        impl = core.run_impl(ops)
        t2 = time.time()
        core.log(f"[{self.prop}] {label}: {len(ops)} ops, model {t1 - t0:.1f}s, impl {t2 - t1:.1f}s")
        self.evaluations += len(ops)
        out = []
        for line, a, b in zip(ops, impl, model):
            if canon:
                a, b = canon(a), canon(b)
            if canon_model:
                b = canon_model(b)
            if canon_impl:
                a = canon_impl(a)
            tag = tagger(line, b) if tagger else b.split(" ")[0][:24]
            self.hist[f"{label}:{tag}"] += 1
            if nontrivial is None or nontrivial(line, b):
                self.nontrivial.add(line)
            out.append((line, a, b))
            if a.startswith("SKIP") or b.startswith("SKIP"):
                self.hist[f"{label}:model-skip"] += 1
                continue
            if a != b:
                self.failures.append(Failure("property-failure",
                                             f"implementation answers {a!r} where the verified model (= spec) answers {b!r}",
                                             op=line, impl=a, model=b, extra={"stream": label}))
        if len(self.samples) < 6 and ops:
            k = self.rng.randrange(len(ops))
            self.samples.append({"op": ops[k], "impl": impl[k], "model": model[k]})
        return out

    def fail(self, what, **kw):
        self.failures.append(Failure("property-failure", what, **kw))


def load_corpus(prop):
    d = os.path.join(core.VERIF, "corpus", prop)
    ops = []
    if os.path.isdir(d):
        for f in sorted(os.listdir(d)):
            if f.endswith(".ops"):
                for line in open(os.path.join(d, f)):
                    line = line.rstrip("\n")
                    if line and not line.startswith("#"):
                        ops.append(line)
    return ops


def main(argv):
    import argparse
    if argv and argv[0] == "setup":
        st = core.lean_build(clean=False)
        if not (st.driver_ok and st.proofs_ok):
            print(st.build_log[-4000:])
            return 1
        print("setup ok: model, driver and proofs built")
        return 0
    ap = argparse.ArgumentParser()
    ap.add_argument("prop")
    ap.add_argument("--tier", default=os.environ.get("VERIF_TIER", "quick"), choices=["quick", "thorough"])
    ap.add_argument("--replay")
    ap.add_argument("--seed", type=int, default=int(os.environ.get("VERIF_SEED", "1") or 1))
    args = ap.parse_args(argv)
    prop, tier, seed = args.prop, args.tier, args.seed
    t0 = time.time()
    mod = importlib.import_module(f"harness.props.{prop}")

    try:
        st = core.lean_build(clean=False)
        if not st.driver_ok:
            # the model itself does not build: infrastructure, unless caused by regenerated tables
            print(st.build_log[-3000:], file=sys.stderr)
            raise core.Infra("Lean model/driver does not build")
        n_ob, n_dis, problems, details = core.audit(prop, st)
        checker_cmd = "cd lean && lake build P0f && lake env lean .lake/Audit_%s.lean  (#print axioms)" % prop
        if tier == "thorough":
            mods = sorted({o["module"] for o in core.obligations(prop)})
            ok, out = core.leanchecker(mods)
            checker_cmd += " && lake env leanchecker " + " ".join(mods)
            if not ok:
                problems.append("leanchecker rejected the compiled proofs: " + out[-300:])

        ctx = Ctx(prop, tier, seed)

        if args.replay:
            rp = json.load(open(args.replay))
            if "op" in rp:
                ctx.correspond([rp["op"]], label="replay")
                for line, a, b in [(rp["op"], None, None)]:
                    pass
                print("replayed op:", rp["op"])
                print("impl :", core.run_impl([rp["op"]])[0])
                print("model:", core.run_driver([rp["op"]])[0])
            if hasattr(mod, "replay"):
                mod.replay(ctx, rp)
        else:
            corpus = load_corpus(prop)
            if corpus:
                if hasattr(mod, "corpus"):
                    mod.corpus(ctx, corpus)
                else:
                    ctx.correspond(corpus, label="corpus")
            mod.run(ctx)

        # ---- classify ----
        known = core.known_findings(prop)
        violations = []
        for f in ctx.failures:
            cls = mod.classify(f, known) if hasattr(mod, "classify") else None
            if cls:
                ctx.known_hits[cls] += 1
            else:
                violations.append(f)

        rc = 0
        for k in known:
            # a listed finding is reported whenever its class was observed (or its witness re-confirmed)
            if ctx.known_hits.get(k["id"]):
                print(f"KNOWN-FINDING: property={prop} {k['id']} {k['what']} ({ctx.known_hits[k['id']]} cases this run)")
        prop_viol = [f for f in violations if f.kind == "property-failure"]
        if violations and not prop_viol:
            # only the model-to-code correspondence is broken: every generated input was also judged by the property
            # oracles and none of them fails the property itself
            violations.sort(key=lambda f: len(f.op or ""))
            f = violations[0]
            pl = f.payload(prop, tier, seed)
            pl["correspondence"] = f.extra.get("stream", "model-vs-implementation")
            pl["what"] = ("the correspondence between the Lean model and the implementation no longer checks (" + f.what + "); the search over %d generated inputs "
                          "found no input on which the property itself fails" % ctx.evaluations)
            pl["other_failures"] = [v.payload(prop, tier, seed) for v in violations[1:6]]
            pl["n_failures"] = len(violations)
            if problems:
                pl["broken_obligations"] = problems
            path = core.write_replay(prop, pl)
            print(f"VIOLATION property={prop} replay={path} no-failing-input-found")
            rc = 1
        elif violations:
            # report the first (smallest op) violation with a replay file
            violations = prop_viol + [f for f in violations if f.kind != "property-failure"]
            prop_viol.sort(key=lambda f: len(f.op or ""))
            f = prop_viol[0]
            if hasattr(mod, "shrink"):
                try:
                    f = mod.shrink(ctx, f) or f
                except Exception as e:  # shrinking is best effort
                    core.log("shrink failed:", e)
            pl = f.payload(prop, tier, seed)
            pl["other_failures"] = [v.payload(prop, tier, seed) for v in violations[1:6]]
            pl["n_failures"] = len(violations)
            if problems:
                pl["broken_obligations"] = problems
            path = core.write_replay(prop, pl)
            print(f"VIOLATION property={prop} replay={path}")
            rc = 1
        elif problems or st.tables_changed and not st.proofs_ok:
            pl = {"property": prop, "tier": tier, "seed": seed, "kind": "obligation",
                  "what": "a proof obligation no longer checks; the search over %d generated inputs found no input on which the property fails" % ctx.evaluations,
                  "broken_obligations": problems, "theorems": details,
                  "build_log_tail": st.build_log[-1500:] if not st.proofs_ok else ""}
            path = core.write_replay(prop, pl)
            print(f"VIOLATION property={prop} replay={path} no-failing-input-found")
            rc = 1

        floor = getattr(mod, "NONTRIVIAL_FLOOR", 2)
        if not args.replay and len(ctx.nontrivial) < floor:
            raise core.Infra(f"generator health: only {len(ctx.nontrivial)} non-trivial cases (< {floor})")

        coverage = {
            "obligations": n_ob, "discharged": n_dis, "checker_cmd": checker_cmd,
            "trusted_base": core.TRUSTED_BASE + getattr(mod, "TRUSTED_EXTRA", []),
            "theorems": details,
            "evaluations": ctx.evaluations, "distinct_nontrivial": len(ctx.nontrivial),
            "rule": getattr(mod, "RULE", ""),
            "samples": ctx.samples[:6] or [{"note": "no correspondence ops in this run"}],
            "histogram": dict(sorted(ctx.hist.items(), key=lambda kv: -kv[1])[:60]),
            "known_findings_seen": dict(ctx.known_hits),
            "skipped": ctx.skipped,
            "tables_regenerated_differ": st.tables_changed,
            "tables_not_translatable": st.tables_unavailable,
            "logic_translated_from_source": [t for t in st.logic_targets if not any(u.startswith(t + ":") for u in st.logic_unavailable)],
            "logic_not_translatable": st.logic_unavailable,
            "logic_regenerated_differs": st.logic_changed,
        }
        coverage.update(ctx.notes)
        core.write_evidence(prop, tier, seed, coverage, getattr(mod, "ASSUMPTIONS", []), time.time() - t0, len(violations))
        return rc
    except core.Infra as e:
        print(f"INFRA-ERROR property={prop}: {e}", file=sys.stderr)
        return 2
