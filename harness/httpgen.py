"""generators for HTTP messages and signatures"""
import random

NAMES = [b"Host", b"User-Agent", b"Accept", b"Accept-Language", b"Accept-Encoding", b"Connection", b"Keep-Alive", b"Server", b"Date",
         b"Content-Type", b"Content-Length", b"X", b"Via", b"Cookie"]
VALUES = [b"x", b"", b"a b", b"*/*", b"gzip, deflate", b"curl/7.19", b"Apache", b"Keep-Alive", b"timeout=5", b"Mozilla/5.0 (X11; Linux) Firefox/9",
          b"text/html;q=0.9,*/*;q=0.8", b"en-us,en;q=0.5", b"\xe9t\xe9", b"[v]"]


# well-known headers with values at and beyond the edges of their usual grammars: code that starts to *interpret* a standard header
# (dates, lengths, ports, q-values, charsets) meets absurd numbers, non-ASCII digits, NULs and very long tokens here
_BIG = [b"9" * 20, b"9" * 400, b"1" + b"0" * 30, b"-1", b"-" + b"9" * 25, b"0x7fffffffffffffffffff", b"1e999", b"\xd9\xa1\xd9\xa2", b"\xef\xbc\x91\xef\xbc\x92", b"+5", b" 7 ", b"", b"\x00", b"NaN"]
HOSTILE = {
    b"Date": [b"Tue, 01 Mar %s 20:45:16 GMT", b"Tue, %s Mar 2011 20:45:16 GMT", b"Tue, 01 Mar 2011 %s:45:16 GMT", b"Tue, 01 Mar 2011 20:45:16 +%s",
              b"Tue, 01 Mar 2011 20:45:16 -%s", b"%s", b"Tue, 01 Foo 2011 20:45:16 GMT", b"01 Mar 2011", b"Tue, 32 Mar 2011 25:61:61 GMT", b"Mon, 00 Jan 0000 00:00:00 GMT",
              b"Tue, 01 Mar 2011 20:45:16 GMT" * 30],
    b"Last-Modified": [b"Tue, 01 Mar %s 20:45:16 GMT", b"%s"],
    b"Expires": [b"%s", b"0", b"-1", b"Tue, 01 Mar %s 20:45:16 GMT"],
    b"Content-Length": [b"%s", b"12, %s", b"%s%s"],
    b"Keep-Alive": [b"timeout=%s", b"timeout=%s, max=%s", b"%s"],
    b"Host": [b"example.com:%s", b"[::1]:%s", b"%s", b"a" * 3000, b"\xe9.example", b"exa\x00mple.com"],
    b"Accept": [b"text/html;q=%s", b"*/*;q=0.%s", b"%s/%s"],
    b"Accept-Language": [b"en;q=%s", b"%s"],
    b"Content-Type": [b"text/html; charset=%s", b"text/html; charset=\"%s", b"%s"],
    b"User-Agent": [b"Mozilla/%s", b"curl/%s.%s", b"(" * 500, b"%s"],
    b"Server": [b"Apache/%s", b"%s"],
    b"Via": [b"%s proxy", b"1.1 a, " * 400],
    b"Age": [b"%s"], b"Max-Forwards": [b"%s"], b"Retry-After": [b"%s"], b"Upgrade-Insecure-Requests": [b"%s"],
    b"Cookie": [b"a=%s; " * 50, b"=%s"],
    b"Range": [b"bytes=%s-%s", b"bytes=-%s"],
    b"Transfer-Encoding": [b"chunked, %s", b"%s"],
}


def hostile_header(r):
    name = r.choice(sorted(HOSTILE))
    tmpl = r.choice(HOSTILE[name])
    n = tmpl.count(b"%s")
    val = tmpl % tuple(r.choice(_BIG) for _ in range(n)) if n else tmpl
    val = val.replace(b"\r", b"").replace(b"\n", b"")
    return case_variant(r, name), val


def case_variant(r, n):
    c = r.random()
    return n if c < 0.6 else n.lower() if c < 0.8 else n.upper()


def message(r, headers=None, req=None, minor=None, eol=None, fold=0.05, body=None):
    """returns (bytes, (is_req, minor, [(name, value)])) of a well-formed message"""
    req = r.random() < 0.5 if req is None else req
    minor = r.choice([0, 1, 1, 1, 9, 5]) if minor is None else minor
    pick = (lambda: eol) if eol else (lambda: r.choice([b"\r\n", b"\r\n", b"\n"]))
    if req:
        first = r.choice([b"GET", b"HEAD"]) + r.choice([b" ", b"  ", b"\t"]) + r.choice([b"/", b"/index.html?a=b", b"*", b"http://example.com/path?q=1", b"example.com:443", b"x"]) + b" HTTP/1.%d" % minor
    else:
        first = b"HTTP/1.%d" % minor + r.choice([b" 200 OK", b" 404 Not Found", b" 200", b"\t200 OK  "])
    if headers is None:
        headers = [(case_variant(r, r.choice(NAMES)), r.choice(VALUES)) for _ in range(r.randrange(0, 9))]
        if r.random() < 0.03:
            # a head far beyond 8 / 16 / 64 KiB (many cookies): still a complete, well-formed message
            big = r.choice([700, 1400, 5500])
            headers += [(b"Cookie", b"k%d=" % i + b"v" * big) for i in range(13)]
    out = first + pick()
    parsed = []
    for n, v in headers:
        ows = r.choice([b" ", b"", b"\t", b"  "])
        tws = r.choice([b"", b"", b" "])
        out += n + b":" + ows + v + tws + pick()
        val = v.strip()
        while r.random() < fold:
            cont = r.choice([b"more", b"x y", b"[z]"])
            lead = r.choice([b" ", b"\t", b"  "])
            out += lead + cont + pick()
            val = val + b"\r\n " + cont
        parsed.append((n, val))
    out += pick()
    out += r.choice([b"", b"", b"body", b"a\r\n\r\nb", b"\n\n"]) if body is None else body
    return out, (req, minor, parsed)


def corrupt(r, raw):
    """single-defect corruptions"""
    c = r.random()
    lines = raw.split(b"\n")
    if c < 0.12:
        # no terminating blank line
        i = raw.find(b"\n\r\n")
        j = raw.find(b"\n\n")
        k = min(x for x in (i, j, len(raw)) if x >= 0)
        return raw[:k + 1].rstrip(b"\r\n") + r.choice([b"", b"\r", b"\n", b"\r\n"])
    if c < 0.24:
        return raw.replace(b"GET", r.choice([b"POST", b"get", b"PUT", b"GETX"]), 1).replace(b"HEAD", b"OPTIONS", 1)
    if c < 0.36:
        return raw.replace(b"HTTP/1.", r.choice([b"HTTP/2.", b"HTTP/1", b"HTTP/1.1", b"http/1.", b"HTTP/0."]), 1)
    if c < 0.48 and len(lines) > 2:
        i = r.randrange(1, len(lines) - 1)
        lines[i] = lines[i].replace(b":", b"", 1) if b":" in lines[i] else lines[i]
        return b"\n".join(lines)
    if c < 0.6 and len(lines) > 2:
        i = r.randrange(1, len(lines) - 1)
        if b":" in lines[i]:
            lines[i] = b":" + lines[i].split(b":", 1)[1]
        return b"\n".join(lines)
    if c < 0.7:
        return r.choice([b"\n", b"\r\n", b" ", b"\r", b"\r\r\n"]) + raw
    if c < 0.8 and len(lines) > 1:
        lines.insert(1, r.choice([b" leading continuation", b"\tx"]))
        return b"\n".join(lines)
    if c < 0.9:
        i = r.randrange(len(raw) + 1)
        return raw[:i] + bytes([r.choice([0, 9, 10, 13, 32, 58, 255, r.randrange(256)])]) + raw[i:]
    return raw[:r.randrange(len(raw) + 1)]


def sig_from_message(r, parsed, loosen=True):
    """an HTTP signature text that matches the parsed message, optionally perturbed"""
    req, minor, hdrs = parsed
    items = []
    used = set()
    for n, v in hdrs:
        if r.random() < 0.7:
            ln = n.lower()
            if ln in used and r.random() < 0.7:
                continue
            used.add(ln)
            txt = n.decode("latin-1")
            if r.random() < 0.2:
                txt = "?" + txt
            vs = v.split(b"\r\n")[0]
            if vs and r.random() < 0.4 and b"," not in vs and b"]" not in vs and b"[" not in vs and all(32 <= c < 127 for c in vs):
                a = r.randrange(len(vs))
                b = r.randrange(a + 1, len(vs) + 1)
                txt += "=[" + vs[a:b].decode("latin-1") + "]"
            items.append(txt)
    if r.random() < 0.3:
        items.insert(r.randrange(len(items) + 1), "?" + r.choice(["X-Opt", "Pragma", "Host", "Accept"]))
    absent = []
    present = {n.lower() for n, _ in hdrs}
    for cand in ("Pragma", "Via", "Keep-Alive", "Accept-Charset"):
        if r.random() < 0.3 and (cand.lower().encode() not in present or r.random() < 0.15):
            absent.append(cand)
    ver = r.choice([str(minor), "*", "*", "0", "1"]) if minor in (0, 1) else "*"
    sw = r.choice(["", "", "curl", "Apache", "Firefox/", "Mozilla"])
    return "%s:%s:%s:%s" % (ver, ",".join(items), ",".join(absent), sw)
