"""ops: opts (TCPOptions.parse / dump, function level)"""
from . import impl
from .impl import P


def op_opts(f):
    p = P()
    o = p["TCPOptions"].parse(bytes.fromhex(f[1]), is_syn=f[2] == "1")
    return (f"{','.join(str(int(x)) for x in o.layout)} q={o.quirks.value} mss={o.mss} ws={o.window_scale} ts={o.timestamp} "
            f"pad={o.eol_padding_length} dump={o.dump()} quirks={p['dump_quirks'](o.quirks)}")


impl.OPS["opts"] = op_opts


def op_dumprt(f):
    p = P()
    layout = impl.ints(f[1])
    o = p["TCPOptions"](layout=layout, quirks=p["Quirk"](0), eol_padding_length=int(f[2]))
    text = f"{f[4]}:64:0:*:*,*:{o.dump()}:{p['dump_quirks'](p['Quirk'](int(f[3])))}:*"
    try:
        s = p["TCPSignature"].parse(text)
    except p["E"].FieldError:
        return f"{text} -> ERR field"
    return f"{text} -> [{','.join(str(int(x)) for x in s.options.layout)}] pad={s.options.eol_padding_length} q={s.quirks.value}"


impl.OPS["dumprt"] = op_dumprt
