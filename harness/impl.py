"""
The line protocol answered by the REAL pyp0f (imported from /repo's working tree).
Every op is a pure function of its line.  Answers are canonical strings; exceptions are
reported by category, never by message.
"""
import logging
import os
import signal
import sys

logging.getLogger("scapy").setLevel(logging.CRITICAL)
logging.getLogger("scapy.runtime").setLevel(logging.CRITICAL)

REPO = os.environ.get("PYP0F_REPO", "/repo")
if REPO not in sys.path:
    sys.path.insert(0, REPO)

_loaded = {}


def P():
    """lazy import of pyp0f (from the working tree) into one namespace"""
    if _loaded:
        return _loaded
    # the way applications usually get Scapy: every layer loaded, so TCP payloads on well-known ports are dissected
    # as their application protocol (DNS, ...) and not as Raw
    import scapy.all  # noqa: F401
    import pyp0f
    assert os.path.realpath(pyp0f.__file__).startswith(os.path.realpath(REPO)), pyp0f.__file__
    from pyp0f.database import Database
    from pyp0f.database.labels import Label, MTULabel
    from pyp0f.database.records import HTTPRecord, MTURecord, TCPRecord
    from pyp0f.database.signatures import HTTPSignature, MTUSignature, TCPSignature, WindowType
    from pyp0f.database.signatures.tcp import OptionsSignature, WindowSignature
    from pyp0f import exceptions as E
    from pyp0f.net.layers.tcp import TCPOptions, TCPFlag
    from pyp0f.net.quirks import Quirk, dump_quirks
    from pyp0f.net.signatures import TCPPacketSignature
    from pyp0f.net.packet import Direction, parse_packet, Packet
    from pyp0f.options import Options
    import pyp0f.fingerprint as F
    import pyp0f.fingerprint.tcp as FT
    import pyp0f.fingerprint.http as FH
    import pyp0f.fingerprint.results as R
    import pyp0f.impersonate as I
    _loaded.update(locals())
    return _loaded


class Hang(Exception):
    pass


def _alarm(*_):
    raise Hang()


def exc_cat(e):
    """exception category (most specific pyp0f class, else the Python class name)"""
    p = P()
    E = p["E"]
    if isinstance(e, Hang):
        return "HANG"
    if isinstance(e, E.ParsingError):
        return f"ERR parsing {e.line_number}"
    if isinstance(e, E.FieldError):
        return "ERR field"
    if isinstance(e, E.DatabaseError):
        return "ERR database"
    if isinstance(e, E.PacketError):
        return "ERR packet"
    return "EXC " + type(e).__name__


def ints(s):
    return [int(x) for x in s.split(",")] if s else []


WT = ["NORMAL", "ANY", "MOD", "MSS", "MTU"]


def mk_sig(f, o):
    p = P()
    wt = getattr(p["WindowType"], WT[int(f[o + 4])])
    size = int(f[o + 5]) if wt != p["WindowType"].ANY else -1
    return p["TCPSignature"](
        ip_version=int(f[o]), ip_options_length=int(f[o + 1]), ttl=int(f[o + 2]), is_bad_ttl=f[o + 3] == "1",
        window=p["WindowSignature"](wt, size, int(f[o + 6])),
        options=p["OptionsSignature"](ints(f[o + 7]), int(f[o + 8]), int(f[o + 9])),
        payload_class=int(f[o + 10]), quirks=p["Quirk"](int(f[o + 11])))


def mk_pktsig(f, o):
    p = P()
    opts = p["TCPOptions"](layout=ints(f[o + 4]), quirks=p["Quirk"](0), mss=int(f[o + 5]), timestamp=int(f[o + 7]),
                           window_scale=int(f[o + 6]), eol_padding_length=int(f[o + 8]))
    return p["TCPPacketSignature"](
        ip_version=int(f[o]), ip_options_length=int(f[o + 1]), ttl=int(f[o + 2]), window_size=int(f[o + 3]),
        options=opts, headers_length=int(f[o + 9]), has_payload=f[o + 10] == "1", quirks=p["Quirk"](int(f[o + 11])),
        syn_mss=int(f[o + 12]))


def mt_str(m):
    return "none" if m is None else m.name.lower()


def op_match(f):
    p = P()
    s = mk_sig(f, 1)
    k = mk_pktsig(f, 13)
    return mt_str(p["FT"].tcp_signatures_match(s, k, p["Options"](max_dist=int(f[26]))))


def op_match2(f):
    """one TCPSignature object, evaluated, edited in place field by field, evaluated again"""
    p = P()
    s = mk_sig(f, 1)
    k = mk_pktsig(f, 13)
    o = p["Options"](max_dist=int(f[26]))
    p["FT"].tcp_signatures_match(s, k, o)
    b = mk_sig(f, 27)
    for name in ("ip_version", "ip_options_length", "ttl", "is_bad_ttl", "payload_class", "quirks"):
        setattr(s, name, getattr(b, name))
    for name in ("type", "size", "scale"):
        setattr(s.window, name, getattr(b.window, name))
    for name in ("layout", "mss", "eol_padding_length"):
        setattr(s.options, name, getattr(b.options, name))
    k2 = mk_pktsig(f, 13)
    return mt_str(p["FT"].tcp_signatures_match(s, k2, o))


def op_wmult(f):
    k = mk_pktsig(["4", "0", "64", f[1], "", f[2], "0", f[3], "0", f[5], "0", "0", f[6]], 0)
    k.ip_version = int(f[4])
    m = k.window_multiplier
    return f"{m.value} {1 if m.is_mtu else 0}"


OPS = {}


def register(name):
    def deco(fn):
        OPS[name] = fn
        return fn
    return deco


def mk_db(recs_req, recs_resp):
    """Database object holding the given TCPRecord lists (function-level construction)"""
    p = P()
    db = p["Database"]()
    db.create(p["TCPRecord"], p["Direction"].CLIENT_TO_SERVER)
    db.create(p["TCPRecord"], p["Direction"].SERVER_TO_CLIENT)
    for d, recs in ((p["Direction"].CLIENT_TO_SERVER, recs_req), (p["Direction"].SERVER_TO_CLIENT, recs_resp)):
        for r in recs:
            db.add(r, d)
    return db


def op_find(f):
    p = P()
    is_syn = f[1] == "1"
    k = mk_pktsig(f, 3)
    nreq, nresp = int(f[16]), int(f[17])
    recs = []
    for i in range(nreq + nresp):
        o = 18 + 14 * i
        label = p["Label"](name="n", is_generic=f[o] == "1", os_class="!" if f[o + 1] == "1" else "unix", flavor="")
        recs.append(p["TCPRecord"](label=label, signature=mk_sig(f, o + 2), raw_signature="", line_number=i + 1))
    db = mk_db(recs[:nreq], recs[nreq:])
    opts = p["Options"](database=db, max_dist=int(f[2]))
    d = p["Direction"].CLIENT_TO_SERVER if is_syn else p["Direction"].SERVER_TO_CLIENT
    m = p["FT"].find_tcp_match(k, d, opts)
    res = p["R"].TCPResult(None, k, m)
    if m is None:
        return f"none {res.distance}"
    return f"{m.record.line_number} {mt_str(m.type)} {res.distance}"


OPS["find"] = op_find
OPS["match"] = op_match
OPS["match2"] = op_match2
OPS["wmult"] = op_wmult


_HARNESS_DIR = os.path.dirname(os.path.abspath(__file__))


def _raised_in_harness(e):
    """True if a binding error (AttributeError / TypeError / ImportError / NameError / KeyError) was raised by harness code
    itself - i.e. while looking up or calling into pyp0f internals - and not inside pyp0f / Scapy / h11"""
    if not isinstance(e, (AttributeError, TypeError, ImportError, NameError, KeyError)):
        return False
    tb = e.__traceback__
    files = []
    while tb is not None:
        files.append(tb.tb_frame.f_code.co_filename)
        tb = tb.tb_next
    if not files:
        return False
    in_harness = lambda fn: os.path.abspath(fn).startswith(_HARNESS_DIR)
    if in_harness(files[-1]):
        return True                      # lookup / call boundary (wrong arguments) failed in harness code
    # generated code (dataclass __init__, "<string>") called directly from the harness
    return files[-1].startswith("<") and len(files) >= 2 and in_harness(files[-2])


_HANGS = [0]


def answer(line, timeout=4):
    if _HANGS[0] >= 3:
        # circuit breaker: this worker has already seen 3 hangs (each one is reported); do not spend
        # minutes re-confirming the same non-termination on thousands of inputs
        return "SKIP after-hangs"
    f = line.split("\t")
    fn = OPS.get(f[0])
    if fn is None:
        return "SKIP unknown-op"
    # pyp0f and every Scapy layer are imported BEFORE the watchdog is armed: on a cold start the import alone can take longer
    # than an op's work budget, and a Hang raised inside Scapy's layer loader is swallowed there (layers half loaded)
    P()
    old = signal.signal(signal.SIGALRM, _alarm)
    oldp = signal.signal(signal.SIGPROF, _alarm)
    # The work budget is CPU time of this worker (ITIMER_PROF), so that a loaded machine - other checks,
    # the test suite - cannot turn a slow-but-finite op into a HANG; a wall-clock timer far above it is the
    # backstop for a call that blocks without computing.  Repeating timers: if the first Hang is swallowed
    # by a broad `except` in the code under test, the next tick raises again.
    if f[0] == "hist":
        timeout = 120          # loads are traced event by event
    elif f[0] == "histq":
        timeout = 30           # hundreds of seeded get_random draws per op
    signal.setitimer(signal.ITIMER_PROF, timeout, 1.0)
    signal.setitimer(signal.ITIMER_REAL, max(60, 20 * timeout), 5.0)
    try:
        return fn(f)
    except Hang:
        _HANGS[0] += 1
        return "HANG"
    except MemoryError:
        return "EXC MemoryError"
    except Exception as e:  # noqa
        if _raised_in_harness(e):
            # an internal function / class the function-level fast path binds to was removed or re-shaped:
            # the fast path is skipped (counted in the evidence); that alone is never a violation
            return "SKIP harness-binding " + type(e).__name__
        return exc_cat(e)
    finally:
        signal.setitimer(signal.ITIMER_PROF, 0)
        signal.setitimer(signal.ITIMER_REAL, 0)
        signal.signal(signal.SIGALRM, old)
        signal.signal(signal.SIGPROF, oldp)


def op_seq(f):
    """several ops one after the other in this process; what an earlier one leaves behind must not change a later answer"""
    return " ;; ".join(answer("\t".join(part.split("\x1f"))) for part in f[1:] if part)


OPS["seq"] = op_seq


# more ops live in their own modules; importing them registers them
def _load_ext():
    import importlib
    for m in ("ops_opts", "ops_db", "ops_wire", "ops_http", "ops_misc", "ops_hist", "ops_frame", "ops_imp"):
        try:
            importlib.import_module("harness." + m)
        except ModuleNotFoundError as e:
            if "harness." + m not in str(e):
                raise


_load_ext()
