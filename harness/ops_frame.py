"""
op: frame -- C12: call sequences on REAL caller-owned objects with deep before/after snapshots.
  frame <dbhex> <step> ...
steps  T|M|U:<pktspec>            fingerprint_tcp / fingerprint_mtu / fingerprint_uptime
       H:<hex>:<kind>             fingerprint_http on bytes (y) / bytearray (a) / ReceiveBuffer (b)
       I:<pktspec>:<sighex>       impersonate_tcp(raw_signature=)
       K:<pktspec>:<labelhex>     impersonate_tcp(raw_label=, database=db)
       J:<pktspec>:<mtu>          impersonate_mtu(raw_signature=)   (allowed to change tcp.options of its argument only)
pktspec = <kind>.<ver>.<hex>: d dissected from bytes, u dissected then automatic fields unset (chksum / len / ihl / dataofs / plen),
          e dissected under an Ethernet header, c built field by field (explicit fields only)
answer per step: same | opts | CHANGED(<what>)
"""
import copy

from . import impl
from .impl import P


def mk_pkt(spec):
    from scapy.layers.inet import IP, TCP
    from scapy.layers.inet6 import IPv6
    from scapy.layers.l2 import Ether
    kind, ver, hx = spec.split(".")
    raw = bytes.fromhex(hx)
    cls = IP if ver == "4" else IPv6
    if kind == "e":
        hdr = bytes.fromhex("020000000001" "020000000002") + (b"\x08\x00" if ver == "4" else b"\x86\xdd")
        return Ether(hdr + raw)
    pkt = cls(raw)
    if kind == "u":
        for layer, names in ((pkt, ("chksum", "len", "ihl", "plen")), (pkt.getlayer(TCP), ("chksum", "dataofs"))):
            if layer is None:
                continue
            for n in names:
                if n in layer.fields:
                    del layer.fields[n]
        pkt.raw_packet_cache = None
        if pkt.getlayer(TCP) is not None:
            pkt.getlayer(TCP).raw_packet_cache = None
    elif kind == "c":
        t = pkt.getlayer(TCP)
        if t is not None:
            new_t = TCP(sport=t.sport, dport=t.dport, seq=t.seq, ack=t.ack, flags=int(t.flags), window=t.window, urgptr=t.urgptr, options=list(t.options))
            pay = t.payload.copy() if t.payload else None
            if ver == "4":
                top = IP(src=pkt.src, dst=pkt.dst, ttl=pkt.ttl, id=pkt.id, tos=pkt.tos, flags=int(pkt.flags))
            else:
                top = IPv6(src=pkt.src, dst=pkt.dst, hlim=pkt.hlim, fl=pkt.fl, tc=pkt.tc)
            pkt = top / new_t
            if pay is not None:
                pkt = pkt / pay
    return pkt


def layers(pkt):
    out = []
    l = pkt
    while l is not None and l.__class__.__name__ != "NoPayload":
        out.append(l)
        l = l.payload
    return out


def snap_pkt(pkt):
    """field-level snapshot that does not build the packet"""
    s = []
    for l in layers(pkt):
        s.append((l.__class__.__name__, id(l), copy.deepcopy(dict(l.fields)), copy.deepcopy(dict(l.overloaded_fields)) if hasattr(l, "overloaded_fields") else None,
                  l.raw_packet_cache, copy.deepcopy(l.raw_packet_cache_fields) if getattr(l, "raw_packet_cache_fields", None) is not None else None,
                  tuple(sorted(l.explicit.items())) if isinstance(getattr(l, "explicit", None), dict) else getattr(l, "explicit", None)))
    return s


def diff_pkt(before, after, opts_assigned=False):
    """'' if identical; 'opts' if only the TCP options field (and nothing else) differs; else a description"""
    if len(before) != len(after):
        return "number of layers"
    only_opts = False
    for b, a in zip(before, after):
        if (b[0], b[1]) != (a[0], a[1]):
            return f"layer object {b[0]} replaced"
        fb, fa = b[2], a[2]
        keys = set(fb) | set(fa)
        for k in sorted(keys):
            if k not in fb or k not in fa or repr(fb[k]) != repr(fa[k]):
                if b[0] == "TCP" and k == "options":
                    only_opts = True
                else:
                    return f"{b[0]}.{k}: {fb.get(k, '<unset>')!r} -> {fa.get(k, '<unset>')!r}"
        if b[3] != a[3]:
            return f"{b[0]}.overloaded_fields"
        if b[4] != a[4] and not ((only_opts or opts_assigned) and b[0] in ("TCP",)):
            # the raw cache of a layer may only be dropped together with an options change of that layer
            return f"{b[0]}.raw_packet_cache"
        if repr(b[5]) != repr(a[5]) and not ((only_opts or opts_assigned) and b[0] == "TCP"):
            return f"{b[0]}.raw_packet_cache_fields"
    return "opts" if only_opts else ""


def snap_buf(buf):
    from h11._receivebuffer import ReceiveBuffer
    if isinstance(buf, ReceiveBuffer):
        return ("rb", bytes(buf), len(buf), buf._next_line_search, buf._multiple_lines_search)
    return (type(buf).__name__, bytes(buf), len(buf))


def snap_db(db):
    from .ops_hist import db_str
    p = P()
    ids = []
    from .ops_hist import sections
    for name, cls, d in sections():
        try:
            for r in db.iter_values(cls, d):
                sig = r.signature
                ids.append((id(r), id(r.label), id(sig), repr(r.label), repr(sig)))
        except p["E"].DatabaseError:
            ids.append(None)
    return (db_str(db), tuple(ids))


def op_frame(f):
    p = P()
    from scapy.layers.inet import TCP
    from .ops_hist import do_load
    db = p["Database"]()
    if f[1]:
        do_load(db, f[1], False)
    opts = p["Options"](database=db)
    out = []
    last = p["TCPPacketSignature"](ip_version=4, ip_options_length=0, ttl=64, window_size=1, options=p["TCPOptions"]([], p["Quirk"](0), timestamp=5),
                                   headers_length=40, has_payload=False, quirks=p["Quirk"](0), syn_mss=0)
    for st in [s for s in f[2:] if s]:
        a = st.split(":")
        k = a[0]
        dbs = snap_db(db)
        res = "same"
        try:
            if k in "TMUIKJ":
                pkt = mk_pkt(a[1])
                pristine = pkt.copy()
                before = snap_pkt(pkt)
                ret = None
                try:
                    if k == "T":
                        p["F"].fingerprint_tcp(pkt, options=opts)
                    elif k == "M":
                        p["F"].fingerprint_mtu(pkt, options=opts)
                    elif k == "U":
                        p["F"].fingerprint_uptime(pkt, last, options=opts)
                    elif k == "I":
                        ret = p["I"].impersonate_tcp(pkt, raw_signature=bytes.fromhex(a[2]).decode("latin-1"), extra_hops=int(a[3]) if len(a) > 3 and a[3] else 0)
                    elif k == "K":
                        ret = p["I"].impersonate_tcp(pkt, raw_label=bytes.fromhex(a[2]).decode("latin-1"), database=db, extra_hops=int(a[3]) if len(a) > 3 and a[3] else 0,
                                                     uptime=12345 if len(a) > 3 and a[3] == "2" else None)
                    elif k == "J":
                        ret = p["I"].impersonate_mtu(pkt, raw_signature=a[2])
                except impl.Hang:
                    raise
                except Exception:  # noqa  - what the call raises is other properties' business
                    pass
                # assigning tcp.options (impersonate_mtu) drops that layer's raw cache even when the new list is equal
                d = diff_pkt(before, snap_pkt(pkt), opts_assigned=(k == "J"))
                if d == "" or (d == "opts" and k == "J"):
                    # byte-for-byte and command() comparison against the copy taken before the call
                    if k != "J":
                        try:
                            ref = (bytes(pristine), pristine.command())
                        except impl.Hang:
                            raise
                        except Exception:  # noqa - Scapy cannot rebuild this packet at all (unset fields + odd options): fields were compared
                            ref = None
                        if ref is not None and (bytes(pkt), pkt.command()) != ref:
                            d = "bytes(packet) / packet.command()"
                if d and not (d == "opts" and k == "J"):
                    res = f"CHANGED(packet {a[1][:1]}: {d})"
                elif k == "J":
                    res = "opts"
                if k in "IK" and ret is not None:
                    ids_in = {id(l) for l in layers(pkt)}
                    if ret is pkt or any(id(l) in ids_in for l in layers(ret)):
                        res = "CHANGED(impersonate_tcp returned (part of) its input object)"
            elif k == "H":
                raw = bytes.fromhex(a[1])
                kind = a[2] if len(a) > 2 else "y"
                if kind == "a":
                    buf = bytearray(raw)
                elif kind == "b":
                    from h11._receivebuffer import ReceiveBuffer
                    buf = ReceiveBuffer()
                    buf += raw
                else:
                    buf = raw
                before = snap_buf(buf)
                try:
                    p["F"].fingerprint_http(buf, options=opts)
                except impl.Hang:
                    raise
                except Exception:  # noqa
                    pass
                after = snap_buf(buf)
                if before != after:
                    res = f"CHANGED(buffer {kind}: {before[1:]!r} -> {after[1:]!r})"[:200]
                elif kind == "b":
                    # unconsumed: the caller can still extract the same lines
                    from h11._receivebuffer import ReceiveBuffer
                    ref = ReceiveBuffer()
                    ref += raw
                    if buf.maybe_extract_lines() != ref.maybe_extract_lines():
                        res = "CHANGED(receive buffer no longer yields its lines)"
        finally:
            pass
        if snap_db(db) != dbs:
            res = "CHANGED(database records / labels / signatures)"
        out.append(res)
    return " ; ".join(out)


impl.OPS["frame"] = op_frame
