"""
Translator for pyp0f's *decision logic*: reads the source of selected functions from the working tree
(`ast`), and prints them as Lean 4 definitions into lean/P0f/Generated/Logic/<Name>.lean.  The hand-written
bridging theorems in lean/P0f/LogicOk/*.lean prove each generated definition equal to the hand-written model
function the property theorems are about, so the property theorems are re-checked against what the code says
*now*: an edit that changes the logic changes the generated definition and the bridging proof no longer
checks (then the check searches for a failing input, DESIGN 4.3).

The translated fragment (anything else raises NotTranslatable - never silently skipped):
  statements   return / if-elif-else / assignment / augmented assignment / docstrings / `x.append(e)` /
               nested helper `def`s that are inlined at their call sites / `raise` (mapped per target) /
               `for T in L: if C: return E` (first-hit search, `List.find?`) /
               general `for` loops over a record list (emitted as a structurally recursive auxiliary definition)
  expressions  int / bool / Flag / IntFlag / Enum constants (evaluated in the module's own namespace),
               + - * // % & | ^ ~ << >>, comparisons (chained, `in` / `not in` tuples, IntFlag containment),
               and / or / not with Python truthiness by static type, conditional expressions, tuples, lists,
               `next((E for x in T if C), D)`, calls of other translated functions, constructor calls mapped to tuples
  semantics    Python ints are Lean `Int`; `//` and `%` are floor operations (`Int.fdiv` / `Int.fmod`; a zero
               divisor, ZeroDivisionError in Python, is totalised to 0 and named in the trusted base);
               `x & (2^k-1)` on a possibly negative int is `x mod 2^k`; `~x` is `-x-1`; floats whose only uses are
               comparisons, `int()` and one division are exact rationals (`Q`), literals read as decimals.

Added later (DESIGN 11.7 has the full list): `while` loops (fuel-recursive definitions), `break` / `continue`, strings and ASCII
byte strings as `List Char`, exceptions as `Option` / `Except` with the raising call bound before its statement, `try … except X:
raise Y`, `with <registered wrapper>`, closures inlined with their cell values, comprehensions, `enumerate`, value-`or` on optional
values, per-target desugarings (`desugar=True`), registered mutators / attribute stores, per-iteration random draws, and the
*safety companions* (`safe=True`: `<name>_safe : Bool`, false where a division has a zero divisor or - `safe_index=True` - a
totalised subscript is out of range).  In-place updates of an argument are outside the fragment.

A target whose source is outside the fragment (or whose function is gone / decorated) is reported in UNAVAILABLE
and its generated definition is an alias of the model function: the differential correspondence is then the tie
that remains for it (same policy as for the finite tables, DESIGN 11.4).
"""
import ast
import enum
import importlib
import inspect
import os
import sys
import textwrap
from fractions import Fraction

VERIF = os.path.dirname(os.path.dirname(os.path.abspath(__file__)))
LEAN = os.environ.get("VERIF_LEAN") or os.path.join(VERIF, "lean")
OUTDIR = os.path.join(LEAN, "P0f", "Generated", "Logic")


class NotTranslatable(Exception):
    pass


QUIRK_CTORS = ["ecn", "df", "nzId", "zeroId", "nzMbz", "flow", "zeroSeq", "nzAck", "zeroAck", "nzUrg", "urg", "push",
               "zeroTs1", "nzTs2", "eolNz", "exws", "bad"]          # = P0f.Quirk.all (bit order; tied by Tables.quirkValues)

ENUMS = {   # python enum class name -> (lean type, {member: ctor})
    "TCPMatchType": ("MatchType", {"EXACT": "exact", "FUZZY_TTL": "fuzzyTtl", "FUZZY_QUIRKS": "fuzzyQuirks"}),
    "WindowType": ("WinType", {"NORMAL": "normal", "ANY": "any", "MOD": "mod", "MSS": "mss", "MTU": "mtu"}),
    "Direction": ("Dir", {"CLIENT_TO_SERVER": "req", "SERVER_TO_CLIENT": "resp"}),
    "ParserState": ("PState", {"NEED_SECTION": "needSection", "NEED_LABEL": "needLabel", "NEED_SYS": "needSys", "NEED_SIG": "needSig"}),
}


CLASS_CONSTS = {   # python classes that only occur as tags -> lean enum constructors
    "MTURecord": ("RecKind.mtu", "Enum:RecKind"), "TCPRecord": ("RecKind.tcp", "Enum:RecKind"), "HTTPRecord": ("RecKind.http", "Enum:RecKind"),
}


def flat_with(stmts):
    """statement list with every `with` statement replaced by its body (for the control-flow / assignment analyses)"""
    out = []
    for st in stmts:
        if isinstance(st, ast.With):
            out.extend(flat_with(st.body))
        else:
            out.append(st)
    return out


class Desugar(ast.NodeTransformer):
    """source-level rewriting done before translation, for targets that ask for it (`desugar=True`); each step preserves the
    meaning of side-effect free code:
      * `for n, x in enumerate(xs, start=k): B`   =>   `n_next = k; for x in xs: n = n_next; n_next += 1; B`
      * `if A or X is None: B` with B leaving (raise / return / continue)   =>   `if X is None: B` then `if A: B`
        (so that X is known to be an object afterwards)
      * the mutating calls named by the target (`database.create(a, b)`)   =>   `database = %mut%database.create(a, b)`
      * the attribute stores named by the target (`label.sys = v`)   =>   `label = %set%label.sys(v)`"""

    def __init__(self, t):
        self.t = t

    def stmts(self, body):
        out = []
        for st in body:
            r = self.visit(st)
            out.extend(r if isinstance(r, list) else [r])
        return out

    def visit_FunctionDef(self, node):
        return node

    def generic_body(self, node):
        for f in ("body", "orelse"):
            if hasattr(node, f):
                setattr(node, f, self.stmts(getattr(node, f)))
        return node

    def visit_With(self, node):
        return self.generic_body(node)

    def visit_While(self, node):
        return self.generic_body(node)

    def visit_Try(self, node):
        return node

    def visit_For(self, node):
        node = self.generic_body(node)
        it = node.iter
        if (isinstance(it, ast.Call) and dotted(it.func) == "enumerate" and len(it.args) == 1
                and isinstance(node.target, ast.Tuple) and len(node.target.elts) == 2 and all(isinstance(x, ast.Name) for x in node.target.elts)
                and all(k.arg == "start" for k in it.keywords) and not node.orelse):
            n, x = node.target.elts
            start = it.keywords[0].value if it.keywords else ast.Constant(value=0)
            cnt = n.id + "_next"
            head = [ast.Assign(targets=[ast.Name(id=n.id, ctx=ast.Store())], value=ast.Name(id=cnt, ctx=ast.Load())),
                    ast.AugAssign(target=ast.Name(id=cnt, ctx=ast.Store()), op=ast.Add(), value=ast.Constant(value=1))]
            loop = ast.For(target=ast.Name(id=x.id, ctx=ast.Store()), iter=it.args[0], body=head + node.body, orelse=[])
            return [ast.Assign(targets=[ast.Name(id=cnt, ctx=ast.Store())], value=start), loop]
        return node

    def visit_If(self, node):
        node = self.generic_body(node)
        tt = node.test
        if isinstance(tt, ast.BoolOp) and isinstance(tt.op, ast.Or) and not node.orelse and not Fn.falls(node.body):
            def is_none_test(v):
                return (isinstance(v, ast.Compare) and len(v.ops) == 1 and isinstance(v.ops[0], ast.Is) and isinstance(v.left, ast.Name)
                        and isinstance(v.comparators[0], ast.Constant) and v.comparators[0].value is None)
            nones = [v for v in tt.values if is_none_test(v)]
            others = [v for v in tt.values if not is_none_test(v)]
            pure = all(not isinstance(n, ast.Call) or dotted(n.func) == "isinstance" for v in others for n in ast.walk(v))
            if nones and pure:
                out = [ast.If(test=v, body=node.body, orelse=[]) for v in nones]
                if others:
                    test = others[0] if len(others) == 1 else ast.BoolOp(op=ast.Or(), values=others)
                    out.append(ast.If(test=test, body=node.body, orelse=[]))
                return out
        return node

    def visit_Expr(self, node):
        c = node.value
        if isinstance(c, ast.Call):
            f = dotted(c.func)
            if f in self.t.get("mutators", {}):
                return ast.Assign(targets=[ast.Name(id=self.t["mutators"][f], ctx=ast.Store())],
                                  value=ast.Call(func=ast.Name(id="%mut%" + f, ctx=ast.Load()), args=c.args, keywords=c.keywords))
        return node

    def visit_Assign(self, node):
        if len(node.targets) == 1:
            d = dotted(node.targets[0])
            if isinstance(node.targets[0], ast.Attribute) and d in self.t.get("attr_setters", {}):
                return ast.Assign(targets=[ast.Name(id=self.t["attr_setters"][d], ctx=ast.Store())],
                                  value=ast.Call(func=ast.Name(id="%set%" + d, ctx=ast.Load()), args=[node.value], keywords=[]))
        return node


def is_int_ty(t):
    return t in ("Int", "Nat", "Flags", "Lit")


def is_nat_ty(t):
    return t in ("Nat", "Flags", "Lit")


def const_to_lean(val):
    """python constant -> (lean term, type)"""
    if isinstance(val, bool):
        return ("true" if val else "false", "Bool")
    if isinstance(val, enum.Flag) and not isinstance(val, int):
        cls = type(val).__name__
        if cls in ENUMS:
            # a Flag class used as a plain enumeration: only its single members have a Lean constructor
            if val.name not in ENUMS[cls][1]:
                raise NotTranslatable(f"flag combination {val!r}")
            return (f"{ENUMS[cls][0]}.{ENUMS[cls][1][val.name]}", "Enum:" + ENUMS[cls][0])
        if cls != "Quirk":
            raise NotTranslatable(f"Flag class {cls}")
        bits = [i for i in range(val.value.bit_length()) if val.value >> i & 1]
        if any(i >= len(QUIRK_CTORS) for i in bits):
            raise NotTranslatable("quirk bit beyond the 17 known ones")
        return ("(QSet.ofList [" + ", ".join("." + QUIRK_CTORS[i] for i in bits) + "])", "QSet")
    if isinstance(val, enum.IntFlag):
        return (str(int(val)), "Flags")
    if isinstance(val, enum.IntEnum):
        return (str(int(val)), "Lit") if int(val) >= 0 else (f"({int(val)})", "Int")
    if isinstance(val, enum.Enum):
        cls = type(val).__name__
        if cls not in ENUMS or val.name not in ENUMS[cls][1]:
            raise NotTranslatable(f"enum {cls}.{val.name}")
        return (f"{ENUMS[cls][0]}.{ENUMS[cls][1][val.name]}", "Enum:" + ENUMS[cls][0])
    if isinstance(val, int):
        return (str(val), "Lit") if val >= 0 else (f"({val})", "Int")
    if isinstance(val, float):
        fr = Fraction(repr(val))
        return (f"(Q.mk ({fr.numerator}) {fr.denominator})", "Q")
    if val is None:
        return ("none", "Opt:_")
    if isinstance(val, type) and val.__name__ in CLASS_CONSTS:
        return CLASS_CONSTS[val.__name__]
    if isinstance(val, str):
        if any((ord(ch) > 126 or ord(ch) < 32) and ch not in "\n\t\r" for ch in val):
            raise NotTranslatable("string constant outside printable ASCII")
        esc = {'"': '\\"', "\\": "\\\\", "\n": "\\n", "\t": "\\t", "\r": "\\r"}
        return ('("' + "".join(esc.get(ch, ch) for ch in val) + '".toList)', "Str")
    if isinstance(val, bytes):
        # a byte string as the list of its characters (only meaningful for targets whose `Bytes` is `List Char`)
        if any((ch > 126 or ch < 32) and ch not in (10, 9, 13) for ch in val):
            raise NotTranslatable("bytes constant outside printable ASCII")
        esc = {'"': '\\"', "\\": "\\\\", "\n": "\\n", "\t": "\\t", "\r": "\\r"}
        return ('("' + "".join(esc.get(chr(ch), chr(ch)) for ch in val) + '".toList)', "Bytes")
    if isinstance(val, tuple):
        parts = [const_to_lean(v) for v in val]
        return ("[" + ", ".join(p[0] for p in parts) + "]", "List:" + (parts[0][1] if parts else "_"))
    raise NotTranslatable(f"constant of type {type(val).__name__}")


def dotted(node):
    if isinstance(node, ast.Name):
        return node.id
    if isinstance(node, ast.Attribute):
        b = dotted(node.value)
        return None if b is None else b + "." + node.attr
    return None


def par(s):
    return s if (s.startswith("(") and s.endswith(")") and _balanced(s[1:-1])) or s.replace("_", "").replace(".", "").isalnum() else f"({s})"


def _balanced(s):
    d = 0
    for ch in s:
        if ch == "(":
            d += 1
        elif ch == ")":
            d -= 1
            if d < 0:
                return False
    return d == 0


def as_int(e, t):
    if t == "Int":
        return e
    if t == "Lit":
        return f"({e} : Int)"
    if t in ("Nat", "Flags"):
        return f"(({e} : Nat) : Int)"
    raise NotTranslatable(f"int expected, got {t}")


def split_top(s):
    """split a comma separated type list at nesting depth 0 (types do not nest tuples in tuples here)"""
    return [x for x in s.split(",") if x]


class Fn:
    """one function being translated"""

    def __init__(self, target, fdef, glob):
        self.t = target
        self.fdef = fdef
        self.glob = glob
        self.helpers = {}       # nested defs, inlined
        self.aux = []           # auxiliary top-level definitions (loops)
        self.div_sites = []
        self.pending_checks = []
        self.unchecked_divs = []
        self.guards = []
        self.join_depth = 0
        self.let_bound = set()
        self.pending = []
        self.no_raise = 0
        self.consts = {}

    # ---------------------------------------------------------------- expressions
    def truthy(self, e, t):
        if t == "Bool":
            return e
        if is_int_ty(t):
            return f"({e} != 0)"
        if t == "QSet":
            return f"(!QSet.isEmpty {par(e)})"
        if t.startswith("Opt:List:"):
            return f"(Option.elim {par(e)} false (fun v => !List.isEmpty v))"      # None and the empty list are both falsy
        if t in ("Opt:Bytes", "Opt:Str"):
            return f"(Option.elim {par(e)} false (fun v => !List.isEmpty v))"      # None and the empty string are both falsy
        if t.startswith("Opt:"):
            return f"(Option.isSome {par(e)})"
        if t == "Q":
            return f"(!Q.isZero {par(e)})"
        if t.startswith("List:") or t in ("Bytes", "Str"):
            return f"(!List.isEmpty {par(e)})"
        raise NotTranslatable(f"truthiness of {t}")

    def cond(self, node, env):
        e, t = self.expr(node, env)
        return self.truthy(e, t)

    def default_of(self, t):
        if t == "Bool":
            return "false"
        if is_int_ty(t):
            return "0"
        if t == "QSet":
            return "QSet.empty"
        if t.startswith("Enum:"):
            for ty, m in ENUMS.values():
                if ty == t[5:]:
                    return f"{ty}.{next(iter(m.values()))}"
            for e_, ty in CLASS_CONSTS.values():
                if ty == t:
                    return e_
        if t.startswith("Opt:"):
            return "none"
        if t in ("Str", "Bytes") or t.startswith("List:"):
            return "[]"
        raise NotTranslatable(f"no default value of type {t}")

    def struct_attr(self, e, t, attr):
        table = eval(t[9:], self.glob)  # noqa: S307
        if attr == "size":
            out = "0"
            for k, st in sorted(table.items(), key=lambda kv: -int(kv[0])):
                out = f"(if {e} == {int(k)} then {st.size} else {out})"
            return (out, "Nat")
        raise NotTranslatable(f"struct attribute {attr}")

    def subscript_str_slice(self, node, base, env):
        """a slice of a `str` (or of an ASCII byte string kept as a list of characters)"""
        sl = node.slice
        if sl.step is not None:
            raise NotTranslatable("slice step")
        lo = sl.lower
        hi = sl.upper
        def neg_const(n):
            return isinstance(n, ast.UnaryOp) and isinstance(n.op, ast.USub) and isinstance(n.operand, ast.Constant) and isinstance(n.operand.value, int)
        if lo is None and hi is not None and neg_const(hi):
            k = hi.operand.value
            return (f"(List.take (List.length {par(base)} - {k}) {par(base)})", "Str")      # s[:-k]
        if hi is None:
            if lo is None:
                return (base, "Str")
            if neg_const(lo):
                raise NotTranslatable("negative slice start")
            return (f"(List.drop {par(self.nat_index(lo, env))} {par(base)})", "Str")
        if lo is not None and not neg_const(lo) and neg_const(hi):
            l_ = self.nat_index(lo, env)
            k = hi.operand.value
            inner = f"(List.drop {par(l_)} {par(base)})"
            return (f"(List.take (List.length {inner} - {k}) {inner})", "Str")          # s[a:-k]
        if neg_const(hi) or (lo is not None and neg_const(lo)):
            raise NotTranslatable("negative slice bounds")
        l = self.nat_index(lo, env) if lo is not None else "0"
        h = self.nat_index(hi, env)
        return (f"(List.take ({h} - {l}) (List.drop {par(l)} {par(base)}))", "Str")

    def fields(self, e, t, rest):
        if rest and t.startswith("StructOf:"):
            r = self.struct_attr(e, t, rest[0])
            return self.fields(r[0], r[1], rest[1:])
        return self._fields(e, t, rest)

    def _fields(self, e, t, rest):
        """attribute path `rest` on a value `e` of type `t` (records through the target's record table; an optional
        value is dereferenced with a default for None - AttributeError in Python, named in the trusted base)"""
        if not rest:
            return (e, t)
        if t.startswith("Opt:"):
            ie, it = self.fields("v", t[4:], rest)
            return (f"(Option.elim {par(e)} {par(self.default_of(it))} (fun v => {ie}))", it)
        if t.startswith("Rec:"):
            table = self.t.get("records", {}).get(t[4:], {})
            for j in range(len(rest), 0, -1):
                key = ".".join(rest[:j])
                if key in table:
                    suffix, ft = table[key]
                    return self.fields(suffix.format(e) if "{}" in suffix else f"{e}{suffix}", ft, rest[j:])
        raise NotTranslatable(f"attribute {'.'.join(rest)} of a value of type {t}")

    def lookup(self, node, env):
        d = dotted(node)
        if d is None:
            return None
        parts = d.split(".")
        for k in range(len(parts), 0, -1):
            pre = ".".join(parts[:k])
            if pre in env:
                if env[pre] is None:
                    raise NotTranslatable(f"{pre} is only assigned on some paths")
                e, t = env[pre]
                return self.fields(e, t, parts[k:])
        # constant of the function's module?
        try:
            val = eval(d, self.glob)  # noqa: S307 - evaluating names of the module under translation
        except Exception:
            raise NotTranslatable(f"unbound name {d}")
        return self.const_value(val)

    def const_value(self, val):
        if isinstance(val, dict):
            key = f"d{len(self.consts)}"
            self.consts[key] = val
            return (key, "DictConst:" + key)
        return const_to_lean(val)

    def expr(self, node, env):
        if isinstance(node, ast.Constant):
            return const_to_lean(node.value)
        if isinstance(node, (ast.Name, ast.Attribute)):
            r = self.lookup(node, env)
            if r is None:
                # attribute path on a computed value (`packet_headers[i].lower_name`)
                attrs, base = [], node
                while isinstance(base, ast.Attribute):
                    attrs.append(base.attr)
                    base = base.value
                e, t = self.expr(base, env)
                return self.fields(e, t, list(reversed(attrs)))
            return r
        if isinstance(node, ast.BoolOp):
            vo_ = None
            if isinstance(node.op, ast.Or) and len(node.values) == 2:
                # `a or b` of two optional values of one type: its VALUE is a if a is truthy, else b (its truthiness is then
                # truthy(a) or truthy(b), so the reading is right in a condition as well)
                marks_ = (len(self.unchecked_divs), len(self.pending_checks), len(self.div_sites), len(self.pending))
                self.no_raise += 1
                try:
                    try:
                        vo_ = (self.expr(node.values[0], env), self.expr(node.values[1], env))
                    except NotTranslatable:
                        vo_ = None
                finally:
                    self.no_raise -= 1
                if vo_ is not None and not (vo_[0][1] == vo_[1][1] and vo_[0][1].startswith("Opt:") and not vo_[0][1].endswith(":_")):
                    vo_ = None
                if vo_ is None:
                    # only a probe: what it recorded is recorded again by the ordinary reading below
                    del self.unchecked_divs[marks_[0]:], self.pending_checks[marks_[1]:], self.div_sites[marks_[2]:], self.pending[marks_[3]:]
            if vo_ is not None:
                (a_, ta_), (b_, tb_) = vo_
                if True:
                    ind_ = lambda x: "   " + x.replace("\n", "\n    ")      # noqa: E731  (continuation lines right of the first `let`)
                    if "\n" not in a_ and "\n" not in b_:
                        return (f"((fun a => if {self.truthy('a', ta_)} then a else {b_}) {a_})", ta_)
                    return (f"((fun a => if {self.truthy('a', ta_)} then a else\n{ind_(b_)})\n{ind_(a_)})", ta_)
            op = " && " if isinstance(node.op, ast.And) else " || "
            parts = [self.cond(node.values[0], env)]
            for v in node.values[1:]:
                # a later operand is only evaluated when the earlier ones were all true (`and`) / all false (`or`): the guard under
                # which a division inside it is reached (division-safety mode)
                g = "(" + " && ".join(parts if isinstance(node.op, ast.And) else [f"(!{x})" for x in parts]) + ")"
                self.no_raise += 1
                self.guards.append(g)
                try:
                    parts.append(self.cond(v, env))
                finally:
                    self.guards.pop()
                    self.no_raise -= 1
            return ("(" + op.join(parts) + ")", "Bool")
        if isinstance(node, ast.UnaryOp):
            if isinstance(node.op, ast.Not):
                return (f"(!{self.cond(node.operand, env)})", "Bool")
            e, t = self.expr(node.operand, env)
            if isinstance(node.op, ast.Invert):
                if t == "QSet":
                    return (f"(QSet.compl {par(e)})", "QSet")
                if is_int_ty(t):
                    return (f"(-{as_int(e, t)} - 1)", "Int")
            if isinstance(node.op, ast.USub) and (is_int_ty(t)):
                return (f"(-{as_int(e, t)})", "Int")
            if isinstance(node.op, ast.USub) and t == "Q":
                return (f"(Q.neg {par(e)})", "Q")
            raise NotTranslatable(f"unary {type(node.op).__name__} on {t}")
        if isinstance(node, ast.BinOp):
            if isinstance(node.op, ast.BitAnd) and isinstance(node.right, ast.UnaryOp) and isinstance(node.right.op, ast.Invert):
                r = self.clear_bits(self.expr(node.left, env), self.expr(node.right.operand, env))
                if r is not None:
                    return r
            return self.binop(node.op, self.expr(node.left, env), self.expr(node.right, env), node)
        if isinstance(node, ast.Compare):
            parts = []
            left = self.expr(node.left, env)
            for op, rn in zip(node.ops, node.comparators):
                dn = dotted(rn)
                if isinstance(op, (ast.In, ast.NotIn)) and dn is not None and dn not in env and isinstance(self.glob.get(dn), dict):
                    keys = sorted(self.glob[dn].keys(), key=lambda x: int(x))
                    alts = [self.compare(ast.Eq(), left, const_to_lean(k)) for k in keys]
                    c = "(" + " || ".join(alts) + ")" if alts else "false"
                    parts.append(c if isinstance(op, ast.In) else f"(!{c})")
                    left = None
                    continue
                if isinstance(op, (ast.In, ast.NotIn)) and dn is not None and dn not in env and isinstance(self.glob.get(dn), (set, frozenset)):
                    vals_ = self.glob[dn]
                    if not all(isinstance(v_, str) for v_ in vals_):
                        raise NotTranslatable("membership in a set of non-strings")
                    alts = [self.compare(ast.Eq(), left, const_to_lean(k)) for k in sorted(vals_)]
                    c = "(" + " || ".join(alts) + ")" if alts else "false"
                    parts.append(c if isinstance(op, ast.In) else f"(!{c})")
                    left = None
                    continue
                if isinstance(op, (ast.In, ast.NotIn)) and isinstance(rn, ast.BinOp) and isinstance(rn.op, ast.BitOr):
                    # `x in (A | B)` on a Flag used as an enumeration (x is a single member: its Lean type has no combinations)
                    def flat(n):
                        return flat(n.left) + flat(n.right) if isinstance(n, ast.BinOp) and isinstance(n.op, ast.BitOr) else [n]
                    members = [self.expr(x, env) for x in flat(rn)]
                    if not (left[1].startswith("Enum:") and all(m_[1] == left[1] for m_ in members)):
                        raise NotTranslatable("membership in a flag combination of another type")
                    c = "(" + " || ".join(self.compare(ast.Eq(), left, m_) for m_ in members) + ")"
                    parts.append(c if isinstance(op, ast.In) else f"(!{c})")
                    left = None
                    continue
                if isinstance(op, (ast.In, ast.NotIn)) and isinstance(rn, ast.Tuple):
                    alts = [self.compare(ast.Eq(), left, self.expr(x, env)) for x in rn.elts]
                    c = "(" + " || ".join(alts) + ")"
                    parts.append(c if isinstance(op, ast.In) else f"(!{c})")
                    right = None
                else:
                    right = self.expr(rn, env)
                    parts.append(self.compare(op, left, right))
                left = right
            return (parts[0] if len(parts) == 1 else "(" + " && ".join(parts) + ")", "Bool")
        if isinstance(node, (ast.ListComp, ast.SetComp)) and len(node.generators) == 1 and not node.generators[0].is_async \
                and isinstance(node.generators[0].target, ast.Name):
            # [f(x) for x in xs if c] ; a set comprehension is kept as the list of its elements (membership is all a set is used for
            # in the translated code; order and multiplicity are not observable through `in`)
            gen = node.generators[0]
            it, tit = self.expr(gen.iter, env)
            if not tit.startswith("List:"):
                raise NotTranslatable("comprehension over a non-list")
            v = self.lean_name(gen.target.id)
            env2 = dict(env)
            env2[gen.target.id] = (v, tit[5:])
            self.no_raise += 1
            try:
                xe, xt = self.expr(node.elt, env2)
                conds = [self.cond(c, env2) for c in gen.ifs]
            finally:
                self.no_raise -= 1
            src = it
            if conds:
                src = f"(List.filter (fun {v} => " + " && ".join(conds) + f") {par(it)})"
            return (f"(List.map (fun {v} => {xe}) {par(src)})", "List:" + xt)
        if isinstance(node, ast.IfExp):
            c_ = self.cond(node.test, env)
            self.no_raise += 1
            try:
                self.guards.append(c_)
                try:
                    a, ta = self.expr(node.body, env)
                finally:
                    self.guards.pop()
                self.guards.append(f"(!{c_})")
                try:
                    b, tb = self.expr(node.orelse, env)
                finally:
                    self.guards.pop()
            finally:
                self.no_raise -= 1
            a, b, t = self.unify(a, ta, b, tb)
            return (f"(if {c_} then {a} else {b})", t)
        if isinstance(node, ast.Tuple):
            hook = self.t.get("tuple_hook")
            if hook is not None:
                r_ = hook(self, node, env)
                if r_ is not None:
                    return r_
            parts = [self.expr(x, env) for x in node.elts]
            return ("(" + ", ".join(p[0] for p in parts) + ")", "Tuple:" + ",".join(p[1] for p in parts))
        if isinstance(node, ast.List):
            if any(isinstance(x, ast.Starred) for x in node.elts):
                want = self.t.get("list_elem_hint")
                pieces, et = [], None
                for x in node.elts:
                    if isinstance(x, ast.Starred):
                        e, t = self.expr_list_hint(x.value, env, want)
                        if not t.startswith("List:"):
                            raise NotTranslatable("starred non-list")
                        if t != "List:_":
                            et = et or t[5:]
                        pieces.append(e)
                    else:
                        if want:
                            pieces.append("[" + self.coerce(x, env, want) + "]")
                            et = want
                        else:
                            e, t = self.expr(x, env)
                            et = et or t
                            pieces.append(f"[{e}]")
                return ("(" + " ++ ".join(pieces) + ")", "List:" + (et or "_"))
            parts = [self.expr(x, env) for x in node.elts]
            want = self.t.get("list_elem_hint")
            if want and parts:
                try:
                    return ("[" + ", ".join(self.coerce(x, env, want) for x in node.elts) + "]", "List:" + want)
                except NotTranslatable:
                    pass
            return ("[" + ", ".join(p[0] for p in parts) + "]", "List:" + (parts[0][1] if parts else "_"))
        if isinstance(node, ast.Call):
            return self.call(node, env)
        if isinstance(node, ast.Subscript):
            return self.subscript(node, env)
        if isinstance(node, ast.JoinedStr):
            parts = []
            for v in node.values:
                if isinstance(v, ast.Constant) and isinstance(v.value, str):
                    if v.value:
                        parts.append(const_to_lean(v.value)[0])
                elif isinstance(v, ast.FormattedValue) and v.conversion == -1 and v.format_spec is None:
                    parts.append(self.to_str(v.value, env))
                else:
                    raise NotTranslatable("f-string with a conversion or format spec")
            return ("(" + " ++ ".join(parts) + ")" if parts else '("".toList)', "Str")
        raise NotTranslatable(f"expression {type(node).__name__}")

    def to_str(self, node, env):
        """`str(x)` as it appears in an f-string / `format` argument: decimal digits of a natural, a string itself"""
        if isinstance(node, ast.IfExp):
            self.no_raise += 1
            try:
                a = self.to_str(node.body, env)
                b = self.to_str(node.orelse, env)
            finally:
                self.no_raise -= 1
            return f"(if {self.cond(node.test, env)} then {a} else {b})"
        e, t = self.expr(node, env)
        if t == "Str":
            return e
        if is_nat_ty(t):
            return f"(natStr {par(e)})"
        raise NotTranslatable(f"str() of a value of type {t}")

    def nat_index(self, node, env):
        e, t = self.expr(node, env)
        if is_nat_ty(t):
            return e
        if t == "Int":
            return f"(Int.toNat {par(e)})"      # a negative index (counting from the end in Python) is outside the fragment's use
        raise NotTranslatable(f"index of type {t}")

    def subscript(self, node, env):
        # struct table:  OPTION_FORMATS[kind]
        d = dotted(node.value)
        if d is not None and d not in env and not isinstance(node.slice, ast.Slice):
            try:
                val = eval(d, self.glob)  # noqa: S307
            except Exception:
                val = None
            if isinstance(val, dict) and val and all(type(v).__name__ == "Struct" for v in val.values()):
                k, tk = self.expr(node.slice, env)
                if not is_int_ty(tk):
                    raise NotTranslatable("struct table key")
                return (f"{k}", "StructOf:" + d)
        base, tb = self.expr(node.value, env)
        if tb.startswith("DictConst:") and not isinstance(node.slice, ast.Slice):
            d = self.consts[tb[10:]]
            try:
                kv = eval(compile(ast.Expression(node.slice), "<key>", "eval"), self.glob)  # noqa: S307
                if kv in d:
                    return const_to_lean(d[kv])
            except Exception:
                pass
            k, tk = self.expr(node.slice, env)
            vals = [const_to_lean(v) for v in d.values()]
            vt = vals[0][1] if vals else "Int"
            if any(is_int_ty(v[1]) for v in vals):
                if not all(is_int_ty(v[1]) for v in vals):
                    raise NotTranslatable("dict with mixed value types")
                vt = "Int"
                vals = [(as_int(*v), "Int") for v in vals]
            elif any(v[1] != vt for v in vals):
                raise NotTranslatable("dict with mixed value types")
            out = self.default_of(vt) if vt != "Int" else "(0 : Int)"     # KeyError: totalised (the code tests membership first)
            for kk, (ve, _) in reversed(list(zip(d.keys(), vals))):
                ke, kt = const_to_lean(kk)
                c = self.compare(ast.Eq(), (k, tk), (ke, kt))
                out = f"(if {c} then {ve} else {out})"
            return (out, vt)
        if tb == "Bytes" and self.t.get("bytes_elem") == "Char" and isinstance(node.slice, ast.Slice):
            e_, _ = self.subscript_str_slice(node, base, env)
            return (e_, "Bytes")
        if tb == "Str":
            if isinstance(node.slice, ast.Slice):
                return self.subscript_str_slice(node, base, env)
            i = self.nat_index(node.slice, env)
            self.idx_check(f"(decide (List.length {par(base)} ≤ {i}))", ast.unparse(node))
            return (f"(List.take 1 (List.drop {par(i)} {par(base)}))", "Str")             # s[i]: a string of length 1 (IndexError: totalised to "")
        if tb == "List:Str" and not isinstance(node.slice, ast.Slice):
            i = self.nat_index(node.slice, env)
            self.idx_check(f"(decide (List.length {par(base)} ≤ {i}))", ast.unparse(node))
            return (f"(List.getD {par(base)} {par(i)} [])", "Str")
        if tb == "Bytes" and self.t.get("bytes_elem") == "Char" and not isinstance(node.slice, ast.Slice):
            i = self.nat_index(node.slice, env)
            self.idx_check(f"(decide (List.length {par(base)} ≤ {i}))", ast.unparse(node))
            return (f"(List.getD {par(base)} {par(i)} default)", "BChar")     # one byte of a byte string (IndexError: totalised)
        if tb.startswith("List:") and isinstance(node.slice, ast.Slice) and node.slice.upper is None and node.slice.step is None \
                and node.slice.lower is not None and tb not in ("List:_",) and not tb.startswith("List:Rec:Unpacked"):
            lo_ = self.nat_index(node.slice.lower, env)
            return (f"(List.drop {par(lo_)} {par(base)})", tb)            # xs[k:]
        if tb == "List:Bytes" and not isinstance(node.slice, ast.Slice):
            i = self.nat_index(node.slice, env)
            if "IndexError" in self.t.get("raises", {}):
                return self.raising(f"({base}[{i}]?)", "Bytes")           # IndexError leaves the function like the mapped exceptions
            self.idx_check(f"(decide (List.length {par(base)} ≤ {i}))", ast.unparse(node))
            return (f"(List.getD {par(base)} {par(i)} [])", "Bytes")
        if (tb.startswith("List:Rec:") and isinstance(node.slice, ast.UnaryOp) and isinstance(node.slice.op, ast.USub)
                and isinstance(node.slice.operand, ast.Constant) and node.slice.operand.value == 1):
            self.idx_check(f"(List.isEmpty {par(base)})", ast.unparse(node))
            return (f"(List.getLastD {par(base)} default)", tb[5:])          # xs[-1] (IndexError on an empty list: totalised)
        if tb == "Bytes":
            if isinstance(node.slice, ast.Slice):
                if node.slice.step is not None:
                    raise NotTranslatable("slice step")
                lo = self.nat_index(node.slice.lower, env) if node.slice.lower is not None else "0"
                if node.slice.upper is None:
                    return (f"(List.drop {par(lo)} {par(base)})", "Bytes")
                hi = self.nat_index(node.slice.upper, env)
                return (f"(List.take ({hi} - {lo}) (List.drop {par(lo)} {par(base)}))", "Bytes")
            i = self.nat_index(node.slice, env)
            return (f"(List.getD {par(base)} {par(i)} 0)", "Nat")          # IndexError beyond the end: totalised to 0
        if tb.startswith("List:Rec:") and not isinstance(node.slice, ast.Slice):
            i = self.nat_index(node.slice, env)
            return (f"(List.getD {par(base)} {par(i)} default)", tb[5:])          # IndexError beyond the end: totalised
        if tb.startswith("Unpacked:"):
            # element of struct.unpack(...) :  decided by the table entry of the key
            if not (isinstance(node.slice, ast.Constant) and isinstance(node.slice.value, int)):
                raise NotTranslatable("unpacked value index")
            return self.unpacked_item(base, tb, node.slice.value)
        if tb.startswith("Tuple:") and isinstance(node.slice, ast.Constant) and isinstance(node.slice.value, int):
            tys = split_top(tb[6:])
            i = node.slice.value
            if 0 <= i < len(tys):
                return (base + ".2" * i + (".1" if i < len(tys) - 1 else ""), tys[i])
        raise NotTranslatable(f"subscript of {tb}")

    STRUCT_ITEMS = {"B": 1, "H": 2, "I": 4}

    def struct_layout(self, st):
        """[(offset, size)] of a big-endian struct of unsigned items"""
        fmt = st.format
        if not (fmt == "" or fmt.startswith("!")):
            raise NotTranslatable(f"struct format {fmt}")
        out, off = [], 0
        for ch in fmt[1:]:
            if ch not in self.STRUCT_ITEMS:
                raise NotTranslatable(f"struct item {ch}")
            out.append((off, self.STRUCT_ITEMS[ch]))
            off += self.STRUCT_ITEMS[ch]
        return out

    def unpacked_item(self, base, tb, idx):
        # tb = "Unpacked:<table name>"; base = "(key, bytes)" kept as two lean terms joined by a marker
        table = eval(tb[9:], self.glob)  # noqa: S307
        key, data = base.split("\x00")
        alts = []
        for k, st in sorted(table.items(), key=lambda kv: int(kv[0])):
            lay = self.struct_layout(st)
            if idx < len(lay):
                off, size = lay[idx]
                be = {1: f"(List.getD (List.drop {off} {data}) 0 0)", 2: f"(be16 (List.drop {off} {data}))", 4: f"(be32 (List.drop {off} {data}))"}[size]
                alts.append((int(k), be))
        if not alts:
            raise NotTranslatable("unpacked item beyond every format")
        e = "0"
        for k, be in reversed(alts):
            e = f"(if {key} == {k} then {be} else {e})"
        return (e, "Nat")

    def expr_list_hint(self, node, env, want):
        """a list-valued expression whose literal pieces are converted to the hinted element type"""
        if isinstance(node, ast.IfExp):
            a, ta = self.expr_list_hint(node.body, env, want)
            b, tb = self.expr_list_hint(node.orelse, env, want)
            t = ta if ta != "List:_" else tb
            ann = f" : {self.lean_ty(t)}" if t != "List:_" else ""
            return (f"((if {self.cond(node.test, env)} then {a} else {b}){ann})", t)
        return self.expr(node, env)

    def literal_items(self, node, env):
        """the element expressions of an iterable that is known statically: a tuple / list display, or a module constant
        that is a tuple / list of constants.  Each item is ("node", ast) or ("const", python value)."""
        if isinstance(node, (ast.Tuple, ast.List)) and not any(isinstance(x, ast.Starred) for x in node.elts):
            return [("node", x) for x in node.elts]
        d = dotted(node)
        if d is not None and ("%lit%" + d) in env:
            return [("vals", v) for v in env["%lit%" + d]]
        if d is not None and d.split(".")[0] not in env and not any(k == d or k.startswith(d + ".") for k in env):
            try:
                val = eval(d, self.glob)  # noqa: S307
            except Exception:
                return None
            if isinstance(val, (tuple, list)) and len(val) <= 64:
                return [("const", v) for v in val]
        return None

    def bind_target(self, target, item, env):
        """environment with a loop / comprehension target bound to one statically known item"""
        env2 = dict(env)
        kind, v = item
        if kind == "vals":
            if isinstance(target, ast.Name):
                if isinstance(v, list):
                    env2[target.id] = ("(" + ", ".join(x[0] for x in v) + ")", "Tuple:" + ",".join(x[1] for x in v))
                else:
                    env2[target.id] = v
                return env2
            if isinstance(target, ast.Tuple) and isinstance(v, list) and len(v) == len(target.elts):
                for n, val in zip(target.elts, v):
                    env2[n.id] = val
                return env2
            raise NotTranslatable("loop target against a recorded display")
        if isinstance(target, ast.Name):
            env2[target.id] = self.expr(v, env) if kind == "node" else const_to_lean(v)
            return env2
        if isinstance(target, ast.Tuple) and all(isinstance(x, ast.Name) for x in target.elts):
            if kind == "node":
                if not isinstance(v, ast.Tuple) or len(v.elts) != len(target.elts):
                    raise NotTranslatable("tuple target against a non-tuple item")
                vals = [self.expr(x, env) for x in v.elts]
            else:
                if not isinstance(v, tuple) or len(v) != len(target.elts):
                    raise NotTranslatable("tuple target against a non-tuple constant")
                vals = [const_to_lean(x) for x in v]
            for n, val in zip(target.elts, vals):
                env2[n.id] = val
            return env2
        raise NotTranslatable("loop target")

    def unify(self, a, ta, b, tb):
        if ta == tb:
            return a, b, ta
        if is_nat_ty(ta) and is_nat_ty(tb):
            return a, b, ("Nat" if "Nat" in (ta, tb) else "Flags" if "Flags" in (ta, tb) else "Nat")
        if is_int_ty(ta) and is_int_ty(tb):
            return as_int(a, ta), as_int(b, tb), "Int"
        if ta == "List:_" and tb.startswith("List:"):
            return a, b, tb
        if tb == "List:_" and ta.startswith("List:"):
            return a, b, ta
        if ta == "Opt:_" and tb.startswith("Opt:"):
            return a, b, tb
        if tb == "Opt:_" and ta.startswith("Opt:"):
            return a, b, ta
        if ta == "Opt:_" and not tb.startswith("Opt:"):
            return a, f"(some {b})", "Opt:" + tb
        if tb == "Opt:_" and not ta.startswith("Opt:"):
            return f"(some {a})", b, "Opt:" + ta
        if ta.startswith("Opt:") and ta[4:] == tb:
            return a, f"(some {b})", ta
        if tb.startswith("Opt:") and tb[4:] == ta:
            return f"(some {a})", b, tb
        if ta == "Q" and is_int_ty(tb):
            return a, f"(Q.ofInt {as_int(b, tb)})", "Q"
        if tb == "Q" and is_int_ty(ta):
            return f"(Q.ofInt {as_int(a, ta)})", b, "Q"
        raise NotTranslatable(f"cannot unify {ta} and {tb}")

    def clear_bits(self, l, m):
        """`a & ~m` on naturals: the bits of `m` cleared in `a`"""
        (a, ta), (b, tb) = l, m
        if is_nat_ty(ta) and is_nat_ty(tb):
            return (f"({a} ^^^ ({a} &&& {b}))", "Flags" if "Flags" in (ta, tb) and ta != "Nat" else "Nat")
        return None

    def binop(self, op, l, r, node=None):
        (a, ta), (b, tb) = l, r
        if ta == "Bytes" and tb == "Bytes" and isinstance(op, ast.Add) and self.t.get("bytes_elem") == "Char":
            return (f"({a} ++ {b})", "Bytes")
        if ta == "QSet" and tb == "QSet":
            f = {ast.BitAnd: "inter", ast.BitOr: "union", ast.BitXor: "xor"}.get(type(op))
            if f:
                return (f"(QSet.{f} {par(a)} {par(b)})", "QSet")
            raise NotTranslatable("quirk-set operator")
        if ta == "Q" or tb == "Q":
            a, b, _ = self.unify(a, ta, b, tb)
            f = {ast.Mult: "mul", ast.Div: "div", ast.Add: "add", ast.Sub: "sub"}.get(type(op))
            if f:
                if f == "div":
                    self.div_check(f"(Q.isZero {par(b)})", "Q", ast.unparse(node) if node is not None else "/")
                return (f"(Q.{f} {par(a)} {par(b)})", "Q")
            raise NotTranslatable("rational operator")
        if isinstance(op, ast.Div) and is_int_ty(ta) and is_int_ty(tb):
            # true division of two ints: an exact rational
            self.div_check(f"({as_int(b, tb)} == 0)", tb, ast.unparse(node) if node is not None else "/")
            return (f"(Q.div (Q.ofInt {as_int(a, ta)}) (Q.ofInt {as_int(b, tb)}))", "Q")
        if ta.startswith("List:") and tb.startswith("List:") and isinstance(op, ast.Add):
            return (f"({a} ++ {b})", ta if ta != "List:_" else tb)
        if not (is_int_ty(ta) and is_int_ty(tb)):
            raise NotTranslatable(f"operator {type(op).__name__} on {ta}, {tb}")
        if ta == "Lit" and tb == "Lit":
            import operator
            f = {ast.Add: operator.add, ast.Sub: operator.sub, ast.Mult: operator.mul, ast.BitAnd: operator.and_, ast.Pow: operator.pow,
                 ast.BitOr: operator.or_, ast.BitXor: operator.xor, ast.LShift: operator.lshift, ast.RShift: operator.rshift}.get(type(op))
            if f:
                return const_to_lean(f(int(a), int(b)))
        flags = "Flags" in (ta, tb) and {ta, tb} <= {"Flags", "Lit"}
        nat = is_nat_ty(ta) and is_nat_ty(tb)
        if isinstance(op, (ast.BitAnd, ast.BitOr, ast.BitXor)):
            sym = {ast.BitAnd: "&&&", ast.BitOr: "|||", ast.BitXor: "^^^"}[type(op)]
            if nat:
                return (f"({a} {sym} {b})", "Flags" if flags else "Nat")
            # `x & (2^k - 1)` for an arbitrary (possibly negative) int x  =  x mod 2^k
            if isinstance(op, ast.BitAnd):
                for (x, tx), (m, tm) in (((a, ta), (b, tb)), ((b, tb), (a, ta))):
                    try:
                        mv = int(m.strip("()"))
                    except ValueError:
                        continue
                    if mv >= 0 and (mv + 1) & mv == 0:
                        return (f"(Int.emod {par(as_int(x, tx))} {mv + 1})", "Int")
            raise NotTranslatable("bitwise operator on a possibly negative int")
        if isinstance(op, (ast.LShift, ast.RShift)) and nat:
            return (f"({a} {'<<<' if isinstance(op, ast.LShift) else '>>>'} {b})", "Nat")
        ai, bi = as_int(a, ta), as_int(b, tb)
        if isinstance(op, ast.Add):
            return ((f"({a} + {b})", "Nat") if nat else (f"({ai} + {bi})", "Int"))
        if isinstance(op, ast.Mult):
            return ((f"({a} * {b})", "Nat") if nat else (f"({ai} * {bi})", "Int"))
        if isinstance(op, ast.Sub):
            return (f"({ai} - {bi})", "Int")
        if isinstance(op, ast.FloorDiv):
            self.div_sites.append(ast.unparse(node) if node is not None else "//")
            self.div_check(f"({bi} == 0)", tb, ast.unparse(node) if node is not None else "//")
            return (f"(Int.fdiv {par(ai)} {par(bi)})", "Int")
        if isinstance(op, ast.Mod):
            self.div_sites.append(ast.unparse(node) if node is not None else "%")
            self.div_check(f"({bi} == 0)", tb, ast.unparse(node) if node is not None else "%")
            return (f"(Int.fmod {par(ai)} {par(bi)})", "Int")
        raise NotTranslatable(f"operator {type(op).__name__}")

    def compare(self, op, l, r):
        (a, ta), (b, tb) = l, r
        if (ta == "Str" and is_int_ty(tb)) or (tb == "Str" and is_int_ty(ta)):
            # a str never equals an int in Python (no exception either)
            if isinstance(op, ast.Eq):
                return "false"
            if isinstance(op, ast.NotEq):
                return "true"
            raise NotTranslatable("ordering of str and int")
        if ta == "Str" and tb == "Str":
            if isinstance(op, ast.Eq):
                return f"({a} == {b})"
            if isinstance(op, ast.NotEq):
                return f"({a} != {b})"
            if isinstance(op, ast.In):
                return f"(isInfix {par(a)} {par(b)})"
            if isinstance(op, ast.NotIn):
                return f"(!isInfix {par(a)} {par(b)})"
            raise NotTranslatable("ordering of strings")
        if ta == "Str" and tb.startswith("DictConst:") and isinstance(op, (ast.In, ast.NotIn)):
            d = self.consts[tb[10:]]
            alts = [f"({a} == {const_to_lean(k)[0]})" for k in d.keys() if isinstance(k, str)]
            if len(alts) != len(d):
                raise NotTranslatable("dict with non-string keys tested against a string")
            c = "(" + " || ".join(alts) + ")" if alts else "false"
            return c if isinstance(op, ast.In) else f"(!{c})"
        if isinstance(op, (ast.Is, ast.IsNot)) and ta.startswith("Enum:") and ta == tb:
            return f"({a} == {b})" if isinstance(op, ast.Is) else f"({a} != {b})"
        if isinstance(op, (ast.Is, ast.IsNot)):
            if b == "none":
                if not ta.startswith("Opt:"):
                    # a value the binding table declares non-optional is never None
                    return "false" if isinstance(op, ast.Is) else "true"
                return f"(Option.isNone {par(a)})" if isinstance(op, ast.Is) else f"(Option.isSome {par(a)})"
            raise NotTranslatable("`is` on values")
        if ta == "Bytes" and tb == "Bytes" and isinstance(op, (ast.Eq, ast.NotEq)):
            return f"({a} == {b})" if isinstance(op, ast.Eq) else f"({a} != {b})"
        if ta == "BChar" and tb == "Bytes" and isinstance(op, (ast.In, ast.NotIn)):
            c = f"(List.contains {par(b)} {par(a)})"          # `byte in bytes`: one of its elements
            return c if isinstance(op, ast.In) else f"(!{c})"
        if isinstance(op, (ast.In, ast.NotIn)) and ta in ("Bytes", "Opt:Bytes") and tb in ("Bytes", "Opt:Bytes"):
            # substring test on byte strings; an operand that may be None is only reached behind an `is not None` test
            inner = "isInfix x y"
            ea = f"(Option.elim {par(a)} false (fun x => INNER))" if ta.startswith("Opt:") else f"(let x := {a}; INNER)"
            eb = f"(Option.elim {par(b)} false (fun y => {inner}))" if tb.startswith("Opt:") else f"(let y := {b}; {inner})"
            c = ea.replace("INNER", eb)
            return c if isinstance(op, ast.In) else f"(!{c})"
        if isinstance(op, (ast.In, ast.NotIn)) and ta == "QSet" and tb == "Opt:QSet":
            c = f"(Option.elim {par(b)} false (fun y => QSet.subsetOf {par(a)} y))"
            return c if isinstance(op, ast.In) else f"(!{c})"
        if isinstance(op, (ast.In, ast.NotIn)) and ta == "QSet" and tb == "QSet":
            c = f"(QSet.subsetOf {par(a)} {par(b)})"
            return c if isinstance(op, ast.In) else f"(!{c})"
        if isinstance(op, (ast.In, ast.NotIn)):
            # IntFlag containment: `mask in value`  =  value & mask == mask
            if {ta, tb} <= {"Flags", "Lit"} and "Flags" in (ta, tb):
                c = f"(({b} &&& {a}) == {a})"
                return c if isinstance(op, ast.In) else f"(!{c})"
            raise NotTranslatable("`in` on these operands")
        if ta == "QSet" and tb == "QSet":
            c = f"(QSet.beq {par(a)} {par(b)})"
            if isinstance(op, ast.Eq):
                return c
            if isinstance(op, ast.NotEq):
                return f"(!{c})"
            raise NotTranslatable("ordering of quirk sets")
        if ta == "Q" or tb == "Q":
            a, b, _ = self.unify(a, ta, b, tb)
            f = {ast.Lt: "lt", ast.LtE: "le", ast.Gt: "gt", ast.GtE: "ge", ast.Eq: "eq", ast.NotEq: "ne"}[type(op)]
            return f"(Q.{f} {par(a)} {par(b)})"
        if isinstance(op, (ast.Lt, ast.LtE, ast.Gt, ast.GtE)) and ((ta == "Opt:Int" and is_int_ty(tb)) or (tb == "Opt:Int" and is_int_ty(ta))
                                                                   or (ta == "Opt:Int" and tb == "Opt:Int")):
            # ordering with an int-or-None value: only reached behind its `is not None` test (None < 1 is a TypeError in Python;
            # totalised to False here)
            xa = "x" if ta == "Opt:Int" else as_int(a, ta)
            yb = "y" if tb == "Opt:Int" else as_int(b, tb)
            sym = {ast.Lt: "<", ast.LtE: "≤", ast.Gt: ">", ast.GtE: "≥"}[type(op)]
            inner = f"(decide ({xa} {sym} {yb}))"
            if tb == "Opt:Int":
                inner = f"(Option.elim {par(b)} false (fun y => {inner}))"
            if ta == "Opt:Int":
                inner = f"(Option.elim {par(a)} false (fun x => {inner}))"
            return inner
        if ta == "Bool" and is_int_ty(tb) or tb == "Bool" and is_int_ty(ta):
            # Python compares bool and int numerically (True == 1)
            conv = lambda e, t: f"(if {e} then (1 : Int) else 0)" if t == "Bool" else as_int(e, t)  # noqa: E731
            a, b, ta, tb = conv(a, ta), conv(b, tb), "Int", "Int"
        if is_int_ty(ta) and is_int_ty(tb):
            if not (is_nat_ty(ta) and is_nat_ty(tb)):
                a, b = as_int(a, ta), as_int(b, tb)
            sym = {ast.Lt: "<", ast.LtE: "≤", ast.Gt: ">", ast.GtE: "≥"}.get(type(op))
            if sym:
                return f"(decide ({a} {sym} {b}))"
            return f"({a} {'==' if isinstance(op, ast.Eq) else '!='} {b})"
        if isinstance(op, (ast.Eq, ast.NotEq)):
            a, b, _ = self.unify(a, ta, b, tb)
            return f"({a} {'==' if isinstance(op, ast.Eq) else '!='} {b})"
        raise NotTranslatable(f"comparison {type(op).__name__} on {ta}, {tb}")

    def method_call(self, node, env):
        args = node.args
        kw = {k.arg: k.value for k in node.keywords}
        if isinstance(node.func, ast.Attribute):
            recv_node = node.func.value
            meth = node.func.attr
            rd = dotted(recv_node)
            if meth in ("encode", "lower") and not args and not kw and self.t.get("bytes_elem") == "Char":
                try:
                    re_, rt = self.expr(recv_node, env)
                except NotTranslatable:
                    re_, rt = None, None
                if meth == "encode" and rt == "Str":
                    return (re_, "Bytes")            # an ASCII text and its bytes: the same list of characters
                if meth == "lower" and rt == "Bytes":
                    return (f"(lower {par(re_)})", "Bytes")
            if meth == "strip" and not args and not kw:
                try:
                    re_, rt = self.expr(recv_node, env)
                except NotTranslatable:
                    re_, rt = None, None
                if rt == "Str":
                    return (f"(strip {par(re_)})", "Str")
                if rt == "Bytes" and self.t.get("bytes_elem") == "Char":
                    return (f"(stripB {par(re_)})", "Bytes")
            if meth == "split" and self.t.get("bytes_elem") == "Char" and len(args) == 1 and set(kw) == {"maxsplit"}:
                try:
                    re_, rt = self.expr(recv_node, env)
                except NotTranslatable:
                    re_, rt = None, None
                ms = kw["maxsplit"]
                if rt == "Bytes" and isinstance(ms, ast.Constant) and isinstance(ms.value, int) and ms.value >= 0:
                    sep = args[0]
                    if isinstance(sep, ast.Constant) and sep.value is None:
                        return (f"(splitWs {ms.value} {par(re_)})", "List:Bytes")          # bytes.split(None, maxsplit): whitespace runs
                    if isinstance(sep, ast.Constant) and isinstance(sep.value, bytes) and len(sep.value) == 1 and 32 < sep.value[0] < 127 and ms.value == 1:
                        # bytes.split(sep, maxsplit=1): [before, after] when sep occurs, else [whole]; as a pair-or-one value
                        return (f"(partition '{chr(sep.value[0])}' {par(re_)})", "Split1:Bytes")
            if meth in ("endswith", "startswith", "partition", "split", "get", "join", "format"):
                try:
                    re_, rt = self.expr(recv_node, env)
                except NotTranslatable:
                    re_, rt = None, None
                if rt == "Str" and meth in ("endswith", "startswith") and len(args) == 1 and not kw:
                    fn_l = "endsWith" if meth == "endswith" else "startsWith"
                    if isinstance(args[0], ast.Tuple):
                        alts = []
                        for x in args[0].elts:
                            xe, xt = self.expr(x, env)
                            if xt != "Str":
                                raise NotTranslatable("startswith of a non-string")
                            alts.append(f"({fn_l} {par(re_)} {par(xe)})")
                        return ("(" + " || ".join(alts) + ")", "Bool")
                    xe, xt = self.expr(args[0], env)
                    if xt == "Str":
                        return (f"({fn_l} {par(re_)} {par(xe)})", "Bool")
                if rt == "Str" and meth == "format" and not args and len(kw) == 1 and isinstance(recv_node, (ast.Subscript, ast.Constant, ast.Name, ast.Attribute)):
                    # a constant template with exactly one `{name}` placeholder
                    tmpl = None
                    try:
                        tmpl = eval(compile(ast.Expression(recv_node), "<tmpl>", "eval"), self.glob)  # noqa: S307
                    except Exception:
                        tmpl = None
                    (kname, knode), = kw.items()
                    ph = "{" + kname + "}"
                    if isinstance(tmpl, str) and tmpl.count("{") == 1 and tmpl.count("}") == 1 and ph in tmpl:
                        pre, post = tmpl.split(ph)
                        parts = ([const_to_lean(pre)[0]] if pre else []) + [self.to_str(knode, env)] + ([const_to_lean(post)[0]] if post else [])
                        return ("(" + " ++ ".join(parts) + ")", "Str")
                    raise NotTranslatable("format on a template that is not a constant with one placeholder")
                if rt == "Str" and meth == "join" and len(args) == 1 and not kw and isinstance(args[0], ast.GeneratorExp) and len(args[0].generators) == 1:
                    g = args[0]
                    gen = g.generators[0]
                    # (a) over the items of a constant dict, with a filter: the pieces that pass, in table order
                    if (isinstance(gen.iter, ast.Call) and isinstance(gen.iter.func, ast.Attribute) and gen.iter.func.attr == "items" and not gen.iter.args
                            and isinstance(gen.target, ast.Tuple) and len(gen.target.elts) == 2):
                        de, dt = self.expr(gen.iter.func.value, env)
                        if dt.startswith("DictConst:"):
                            d = self.consts[dt[10:]]
                            pieces = []
                            for kk, vv in d.items():
                                env2 = dict(env)
                                env2[gen.target.elts[0].id] = const_to_lean(kk)
                                env2[gen.target.elts[1].id] = const_to_lean(vv)
                                xe, xt = self.expr(g.elt, env2)
                                if xt != "Str":
                                    raise NotTranslatable("join of non-strings")
                                c = " && ".join(self.cond(cnd, env2) for cnd in gen.ifs) or "true"
                                pieces.append(f"(if {c} then [{xe}] else [])")
                            return (f"(List.intercalate {par(re_)} (List.flatten [" + ", ".join(pieces) + "]))", "Str")
                    # (b) over a run-time list
                    if isinstance(gen.target, ast.Name) and not gen.ifs:
                        it, tit = self.expr(gen.iter, env)
                        if tit.startswith("List:"):
                            v = self.lean_name(gen.target.id)
                            env2 = dict(env)
                            env2[gen.target.id] = (v, tit[5:])
                            self.no_raise += 1
                            try:
                                xe, xt = self.expr(g.elt, env2)
                            finally:
                                self.no_raise -= 1
                            if xt != "Str":
                                raise NotTranslatable("join of non-strings")
                            return (f"(List.intercalate {par(re_)} (List.map (fun {v} => {xe}) {par(it)}))", "Str")
                    raise NotTranslatable("join over this generator")
                if rt == "Str" and meth == "join" and len(args) == 1 and not kw and isinstance(args[0], (ast.Tuple, ast.List)):
                    items = []
                    for x in args[0].elts:
                        xe, xt = self.expr(x, env)
                        if xt != "Str":
                            raise NotTranslatable("join of non-strings")
                        items.append(xe)
                    return (f"(List.intercalate {par(re_)} [" + ", ".join(items) + "])", "Str")
                if (rt == "Bytes" and self.t.get("bytes_elem") == "Char" and meth in ("partition", "split") and len(args) == 1 and not kw
                        and isinstance(args[0], ast.Constant) and isinstance(args[0].value, bytes) and len(args[0].value) == 1
                        and 32 < args[0].value[0] < 127 and chr(args[0].value[0]) not in "'\\"):
                    ch = chr(args[0].value[0])
                    if meth == "partition":
                        return (f"(partition '{ch}' {par(re_)})", "Tuple:Bytes,Bool,Bytes")
                    return (f"(split '{ch}' {par(re_)})", "List:Bytes")
                if rt == "Str" and meth in ("partition", "split") and len(args) == 1 and not kw:
                    if isinstance(args[0], ast.Constant) and isinstance(args[0].value, str) and len(args[0].value) == 1 and 32 <= ord(args[0].value) < 127 and args[0].value not in "'\\":
                        ch = args[0].value
                        if meth == "partition":
                            return (f"(partition '{ch}' {par(re_)})", "Tuple:Str,Bool,Str")
                        return (f"(split '{ch}' {par(re_)})", "List:Str")
                    raise NotTranslatable(f"{meth} with a separator that is not one printable character")
                if rt is not None and rt.startswith("DictConst:") and meth == "get" and len(args) == 2 and not kw:
                    d = self.consts[rt[10:]]
                    k, tk = self.expr(args[0], env)
                    dflt, tdf = self.expr(args[1], env)
                    vals = [const_to_lean(v) for v in d.values()]
                    if any(v[1] != tdf for v in vals):
                        raise NotTranslatable("dict values and default of different types")
                    out = dflt
                    for kk, (ve, _) in reversed(list(zip(d.keys(), vals))):
                        ke, kt = const_to_lean(kk)
                        c = self.compare(ast.Eq(), (k, tk), (ke, kt))
                        out = f"(if {c} then {ve} else {out})"
                    return (out, tdf)
                if rt is not None and rt.startswith("DictConst:") and meth == "get" and len(args) == 1 and not kw:
                    d = self.consts[rt[10:]]
                    k, tk = self.expr(args[0], env)
                    vals = [const_to_lean(v) for v in d.values()]
                    vt = vals[0][1] if vals else "Int"
                    if any(v[1] != vt for v in vals):
                        raise NotTranslatable("dict with mixed value types")
                    out = "none"
                    for kk, (ve, _) in reversed(list(zip(d.keys(), vals))):
                        ke, kt = const_to_lean(kk)
                        c = self.compare(ast.Eq(), (k, tk), (ke, kt))
                        out = f"(if {c} then some {ve} else {out})"
                    return (out, "Opt:" + vt)
        return None

    def call(self, node, env):
        r = self.method_call(node, env)
        if r is not None:
            return r
        fname = dotted(node.func)
        if fname is None:
            key = ast.unparse(node.func)
            if key in self.t.get("calls", {}):
                return self.t["calls"][key](self, node.args, {k.arg: k.value for k in node.keywords}, env)
            raise NotTranslatable("computed callee")
        args = node.args
        kw = {k.arg: k.value for k in node.keywords}
        if fname == "int" and len(args) == 1:
            e, t = self.expr(args[0], env)
            if t == "Q":
                return (f"(Q.trunc {par(e)})", "Int")
            if is_nat_ty(t):
                return (e, t)
            if is_int_ty(t):
                return (as_int(e, t), "Int")
        if fname == "int" and len(args) == 1 and not kw:
            e0, t0 = self.expr(args[0], env)
            if t0 == "Str":
                if "ValueError" not in self.t.get("raises", {}) and not getattr(self, "in_try", 0):
                    raise NotTranslatable("int(str) outside a try that handles ValueError")
                return self.raising(f"(pyInt? {par(e0)})", "Int")
        if fname in ("any", "all") and len(args) == 1 and isinstance(args[0], ast.GeneratorExp) and not kw:
            g = args[0]
            if len(g.generators) == 1 and not g.generators[0].is_async:
                gen = g.generators[0]
                items = self.literal_items(gen.iter, env)
                if items is None and isinstance(gen.target, ast.Name):
                    it, tit = self.expr(gen.iter, env)
                    if tit.startswith("List:"):
                        v = self.lean_name(gen.target.id)
                        env2 = dict(env)
                        env2[gen.target.id] = (v, tit[5:])
                        c = self.cond(g.elt, env2)
                        for cnd in gen.ifs:
                            gc = self.cond(cnd, env2)
                            c = f"({gc} && {c})" if fname == "any" else f"((!{gc}) || {c})"
                        return (f"(List.{fname} {par(it)} (fun {v} => {c}))", "Bool")
                if items is not None:
                    parts = []
                    for item in items:
                        env2 = self.bind_target(gen.target, item, env)
                        c = self.cond(g.elt, env2)
                        for cnd in gen.ifs:
                            gc = self.cond(cnd, env2)
                            c = f"({gc} && {c})" if fname == "any" else f"((!{gc}) || {c})"
                        parts.append(c)
                    if not parts:
                        return ("false" if fname == "any" else "true", "Bool")
                    return ("(" + (" || " if fname == "any" else " && ").join(parts) + ")", "Bool")
        if fname == "divmod" and len(args) == 2 and not kw:
            l, r = self.expr(args[0], env), self.expr(args[1], env)
            self.div_sites.append(ast.unparse(node))
            ai, bi = as_int(*l), as_int(*r)
            self.div_check(f"({bi} == 0)", r[1], ast.unparse(node))
            return (f"((Int.fdiv {par(ai)} {par(bi)}), (Int.fmod {par(ai)} {par(bi)}))", "Tuple:Int,Int")
        if fname in ("min", "max") and len(args) == 2 and not kw:
            (a_, ta_), (b_, tb_) = self.expr(args[0], env), self.expr(args[1], env)
            if is_int_ty(ta_) and is_int_ty(tb_):
                if is_nat_ty(ta_) and is_nat_ty(tb_):
                    return (f"({fname} {par(a_)} {par(b_)})", "Nat")
                return (f"({fname} {par(as_int(a_, ta_))} {par(as_int(b_, tb_))})", "Int")
        if fname == "abs" and len(args) == 1 and not kw:
            a_, ta_ = self.expr(args[0], env)
            if is_nat_ty(ta_):
                return (a_, ta_)
            if is_int_ty(ta_):
                return (f"((Int.natAbs {par(a_)} : Nat) : Int)", "Int")
        if fname == "bytes" and len(args) == 1 and not kw and self.t.get("bytes_elem") == "Char":
            e, t = self.expr(args[0], env)
            if t == "Bytes":
                return (e, t)          # bytes(b) of a byte string (or bytearray view of one): the same bytes
        if fname == "set" and not args and not kw:
            return ("[]", "List:_")
        if fname == "tuple" and len(args) == 1 and not kw:
            e, t = self.expr(args[0], env)
            if t.startswith("List:"):
                return (e, t)          # an immutable copy of a list value: the same value
        if fname == "bool" and len(args) == 1:
            return (self.cond(args[0], env), "Bool")
        if fname == "len" and len(args) == 1:
            e, t = self.expr(args[0], env)
            if t.startswith("List:") or t in ("Bytes", "Str"):
                return (f"(List.length {par(e)})", "Nat")
        if fname == "next" and len(args) == 2 and isinstance(args[0], ast.GeneratorExp):
            g = args[0]
            if len(g.generators) == 1 and isinstance(g.generators[0].target, ast.Name) and len(g.generators[0].ifs) <= 1:
                gen = g.generators[0]
                it, tit = self.expr(gen.iter, env)
                if not tit.startswith(("List:", "Tuple:")):
                    raise NotTranslatable("generator over a non-sequence")
                if tit.startswith("Tuple:"):
                    el = tit[6:].split(",")
                    it = "[" + it[1:-1] + "]"
                    elt = el[0]
                else:
                    elt = tit[5:]
                v = gen.target.id
                env2 = dict(env)
                env2[v] = (v, elt)
                c = self.cond(gen.ifs[0], env2) if gen.ifs else "true"
                body, tb = self.expr(g.elt, env2)
                dflt, td = self.expr(args[1], env)
                body, dflt, t = self.unify(body, tb, dflt, td)
                return (f"(firstHit {it} (fun {v} => {c}) (fun {v} => {body}) {par(dflt)})", t)
        if fname in ("random.randrange", "random.randint", "random.choice") and "random_sites" in self.t:
            # the value a `random` call returns is one field of the model's `Choices`; which one is decided by the position of the
            # call in the source (the ranges the code draws from are tied by the run explanation, C05/C14, not here)
            sites = getattr(self, "_sites", None)
            if sites is None:
                calls = [n for n in ast.walk(self.fdef) if isinstance(n, ast.Call) and dotted(n.func) in ("random.randrange", "random.randint", "random.choice")]
                calls.sort(key=lambda n: (n.lineno, n.col_offset))
                sites = self._sites = {(n.lineno, n.col_offset): i for i, n in enumerate(calls)}
            idx = sites.get((node.lineno, node.col_offset))
            table = self.t["random_sites"]
            if idx is None or len(sites) != len(table):
                raise NotTranslatable(f"{len(sites)} random draws where the binding table knows {len(table)}")
            return table[idx](self, node, env) if callable(table[idx]) else table[idx]
        if fname not in self.t.get("calls", {}) and isinstance(node.func, ast.Attribute):
            # a binding for a method chain on ANY receiver of the right type: "*.label.dump" (the receiver's name is not part of it)
            for key_, h_ in self.t.get("calls", {}).items():
                if key_.startswith("*.") and fname.endswith(key_[1:]):
                    depth_ = key_.count(".")
                    recv_node_ = node.func
                    for _ in range(depth_):
                        recv_node_ = recv_node_.value
                    re_, rt_ = self.expr(recv_node_, env)
                    return h_(self, args, kw, env, (re_, rt_))
        if fname in self.t.get("calls", {}):
            pmark_ = len(self.pending)
            r_ = self.t["calls"][fname](self, args, kw, env)
            if self.t.get("mode_safe"):
                self.callee_checks(r_[0])
                for _v, call_text_, _e in self.pending[pmark_:]:
                    self.callee_checks(call_text_)
            return r_
        if fname.endswith(".unpack") and len(args) == 1 and not kw:
            recv = fname[:-7]
            if recv in env and env[recv] is not None and env[recv][1].startswith("StructOf:"):
                data, td = self.expr(args[0], env)
                if td != "Bytes":
                    raise NotTranslatable("unpack of a non-bytes value")
                return (env[recv][0] + "\x00" + par(data), "Unpacked:" + env[recv][1][9:])
        inl = self.resolve_callee(fname)
        if inl is not None:
            return self.inline_call(fname, inl, args, kw, env)
        raise NotTranslatable(f"call of {fname}")

    # ---------------------------------------------------------------- inlining of helper functions / methods
    def resolve_callee(self, fname):
        """(function object, receiver prefix or None) for a call that can be inlined: a plain function of a pyp0f module,
        a method of the class being translated (`self.m`), or a method of a declared receiver (`signature.m`)"""
        import types
        parts = fname.split(".")
        if len(parts) == 1:
            f = self.glob.get(fname)
            if isinstance(f, types.FunctionType) and (f.__module__ or "").startswith("pyp0f"):
                return (f, None)
            return None

        recv, meth = ".".join(parts[:-1]), parts[-1]
        cls = None
        if recv == "self" and "." in self.t["func"] and not getattr(self, "inlined", False):
            cls = self.glob.get(self.t["func"].split(".")[0])
        elif recv in self.t.get("receivers", {}):
            mod, _, cname = self.t["receivers"][recv].partition(":")
            cls = getattr(importlib.import_module(mod), cname, None)
        elif getattr(self, "inlined", False) and recv == "self" and self.t.get("self_class") is not None:
            cls = self.t["self_class"]
        if cls is None:
            return None
        raw = inspect.getattr_static(cls, meth, None)
        if isinstance(raw, (staticmethod, classmethod)):
            raw = raw.__func__
        if isinstance(raw, types.FunctionType):
            return (raw, recv, cls)
        return None

    def inline_call(self, fname, inl, args, kw, env):
        depth = getattr(self, "depth", 0)
        if depth >= 3:
            raise NotTranslatable(f"inlining of {fname} nested too deep")
        func = inl[0]
        recv = inl[1] if len(inl) > 1 else None
        try:
            src = textwrap.dedent(inspect.getsource(func))
            fdef = ast.parse(src).body[0]
        except (OSError, TypeError, SyntaxError, IndexError):
            raise NotTranslatable(f"source of {fname} not available")
        if not isinstance(fdef, ast.FunctionDef):
            raise NotTranslatable(f"{fname} is not a plain function")
        for d in fdef.decorator_list:
            if dotted(d) not in ("staticmethod", "classmethod"):
                raise NotTranslatable(f"{fname} is decorated ({ast.unparse(d)})")
        a = fdef.args
        if a.vararg or a.kwarg or a.posonlyargs:
            raise NotTranslatable(f"signature of {fname}")
        params = [x.arg for x in a.args]
        env2 = {}
        if recv is not None and params and params[0] in ("self", "cls"):
            me = params.pop(0)
            for k, v in env.items():
                if k == recv or k.startswith(recv + "."):
                    env2[me + k[len(recv):]] = v
        defaults = dict(zip(params[len(params) - len(a.defaults):], a.defaults))
        kwonly = {x.arg: d for x, d in zip(a.kwonlyargs, a.kw_defaults)}
        actual = {}
        for pname, node in zip(params, args):
            actual[pname] = ("arg", node)
        if len(args) > len(params):
            raise NotTranslatable(f"too many arguments for {fname}")
        for k, node in kw.items():
            if k not in params and k not in kwonly:
                raise NotTranslatable(f"unknown keyword {k} for {fname}")
            actual[k] = ("arg", node)
        mod = importlib.import_module(func.__module__)
        # a closure (`_parse_mss = range_number_parser(min=0, max=65535, wildcard=True)`): its free variables are constants
        if func.__closure__:
            for cname, cell in zip(func.__code__.co_freevars, func.__closure__):
                try:
                    cval = cell.cell_contents
                except ValueError:
                    raise NotTranslatable(f"unbound closure variable {cname}")
                if cname not in env2:
                    env2[cname] = self.const_value(cval)
        sub_t = dict(self.t)
        sub_t["ret"] = "Any"
        sub_t["self_class"] = inl[2] if len(inl) > 2 else None
        sub = Fn(sub_t, fdef, vars(mod))
        sub.depth = depth + 1
        sub.inlined = True
        sub.div_sites = self.div_sites
        sub.aux = self.aux
        sub.consts = self.consts
        sub.in_try = 0
        for pname in params + list(kwonly):
            if pname in actual:
                env2[pname] = self.expr(actual[pname][1], env)
            else:
                dflt = defaults.get(pname, kwonly.get(pname))
                if dflt is None:
                    raise NotTranslatable(f"missing argument {pname} for {fname}")
                env2[pname] = sub.expr(dflt, {})
        lets = ""
        for pname in params + list(kwonly):
            e, t = env2[pname]
            if not (e.replace("_", "").replace(".", "").isalnum()):
                lets += f"let {sub.lean_name(pname)}_arg := {e}\n"
                env2[pname] = (f"{sub.lean_name(pname)}_arg", t)

        def end(e3, ind3):
            sub.ret_types.append("Opt:_")
            return "  " * ind3 + "none"
        end.cheap = True
        sub.ret_types = []
        sub.block(list(fdef.body), dict(env2), end, 1)                      # first pass: the types of the returns
        rts = [t for t in sub.ret_types]
        conc = [t for t in rts if t != "Opt:_"]
        if not conc:
            raise NotTranslatable(f"{fname} returns nothing")
        rt = conc[0]
        for t in conc[1:]:
            if t != rt:
                if is_int_ty(t) and is_int_ty(rt):
                    rt = "Int"
                elif t.startswith("Opt:") and t[4:] == rt:
                    rt = t
                elif rt.startswith("Opt:") and rt[4:] == t:
                    pass
                else:
                    raise NotTranslatable(f"{fname} returns both {rt} and {t}")
        raises_somewhere = any(isinstance(n, ast.Raise) for n in ast.walk(fdef)) or getattr(sub, "used_raising", False)
        explicit_opt = any(t.startswith("Opt:") for t in conc)
        if raises_somewhere and explicit_opt:
            raise NotTranslatable(f"{fname} both returns an optional value and may raise")
        if ("Opt:_" in rts or raises_somewhere) and not rt.startswith("Opt:"):
            rt = "Opt:" + rt
        sub.t["ret"] = rt
        sub.ret_types = []
        sub.used_raising = False
        body = sub.block(list(fdef.body), dict(env2), end, 1)
        if raises_somewhere:
            # the function returns a plain value or raises: at the call, the exception propagates
            return self.raising("(" + lets + textwrap.dedent(body).strip() + ")", rt[4:])
        return ("(" + lets + textwrap.dedent(body).strip() + ")", rt)

    # ---------------------------------------------------------------- statements
    def ret(self, e, t):
        if self.t.get("mode_safe"):
            return "true"                  # the function got to a `return`: no ZeroDivisionError on this path
        want = self.t["ret"]
        if hasattr(self, "ret_types"):
            self.ret_types.append(t)
        if want == "Any":
            return e
        if want.startswith("Opt:"):
            if t.startswith("Opt:"):
                return e
            return f"(some {e})"
        if want.startswith("Exc:"):
            return f"(Except.ok {par(self.coerce_val(e, t, want[4:]))})"
        if want == "Int" and is_int_ty(t):
            return as_int(e, t)
        if want == "Bool" and t != "Bool":
            return self.truthy(e, t)
        return e

    def block(self, stmts, env, cont, ind):
        pad = "  " * ind
        if not stmts:
            return cont(env, ind)
        s, rest = stmts[0], stmts[1:]
        nxt = lambda env2, ind2: self.block(rest, env2, cont, ind2)  # noqa: E731
        if isinstance(s, ast.Expr) and isinstance(s.value, ast.Constant) and isinstance(s.value.value, str):
            return nxt(env, ind)
        if isinstance(s, ast.Pass):
            return nxt(env, ind)
        if isinstance(s, ast.Return):
            if s.value is None:
                return pad + self.wrap_ret(self.ret("none", "Opt:_"))
            want = self.t["ret"]
            if self.t.get("mode_safe"):
                e, t = self.expr(s.value, env)          # evaluated for the divisions inside
                return pad + self.wrap_ret("true")
            if isinstance(s.value, ast.Tuple) and want.startswith("Opt:Tuple:") and not hasattr(self, "ret_types"):
                return pad + self.wrap_ret("(some " + self.coerce(s.value, env, want[4:]) + ")")
            e, t = self.expr(s.value, env)
            return pad + self.wrap_ret(self.ret(e, t))
        if isinstance(s, ast.Raise):
            exc = dotted(s.exc.func) if isinstance(s.exc, ast.Call) else dotted(s.exc)
            m = self.t.get("raises", {})
            if exc not in m:
                raise NotTranslatable(f"raise {exc}")
            if hasattr(self, "ret_types"):
                self.ret_types.append("Opt:_")
            out_ = m[exc]
            if callable(out_):
                out_ = out_(self, s.exc, env)
            if self.t.get("mode_safe"):
                out_ = "true"
            return pad + self.wrap_ret(out_)
        if isinstance(s, ast.FunctionDef):
            if s.decorator_list or s.args.vararg or s.args.kwarg or s.args.kwonlyargs:
                raise NotTranslatable("nested def outside the fragment")
            self.helpers[s.name] = s
            return nxt(env, ind)
        if isinstance(s, (ast.Assign, ast.AnnAssign, ast.AugAssign)):
            if isinstance(s, ast.Assign) and len(s.targets) > 1:
                if not all(isinstance(x, ast.Name) for x in s.targets):
                    raise NotTranslatable("chained assignment to non-names")
                # a = b = c = v   is   (c = v; b = v; a = v) for a side-effect free v
                stmts2 = [ast.Assign(targets=[x], value=s.value) for x in s.targets]
                return self.block(stmts2 + list(rest), env, cont, ind)
            if isinstance(s, ast.Assign):
                tgt, val = s.targets[0], s.value
                if isinstance(tgt, ast.Tuple) and all(isinstance(x, ast.Name) for x in tgt.elts):
                    e, t = self.expr(val, env)
                    if t.startswith("Unpacked:"):
                        env2 = dict(env)
                        out = ""
                        for i, x in enumerate(tgt.elts):
                            ie, it = self.unpacked_item(e, t, i)
                            out += f"{pad}let {self.lean_name(x.id)} := {ie}\n"
                            env2[x.id] = (self.lean_name(x.id), it)
                        return out + nxt(env2, ind)
                    if t == "Split1:Bytes" and len(tgt.elts) == 2:
                        # `a, b = x.split(sep, maxsplit=1)`: ValueError (not enough values to unpack) unless sep occurs
                        m_ = self.t.get("raises", {})
                        if "ValueError" not in m_:
                            raise NotTranslatable("unpacking a split outside a function that maps ValueError")
                        tv = f"u{ind}_{len(rest)}"
                        env2 = dict(env)
                        out = f"{pad}let {tv} := {e}\n{pad}if (!{tv}.2.1) then\n{pad}  {self.wrap_ret('true' if self.t.get('mode_safe') else m_['ValueError'])}\n{pad}else\n"
                        for x, proj in zip(tgt.elts, (tv + ".1", tv + ".2.2")):
                            out += f"{pad}  let {self.lean_name(x.id)} := {proj}\n"
                            env2[x.id] = (self.lean_name(x.id), "Bytes")
                            self.let_bound.add(x.id)
                        return out + nxt(env2, ind + 1)
                    if t == "List:Str":
                        # a list unpacked into n names (ValueError unless it has exactly n items: the bridging theorem's concern)
                        tv = f"u{ind}_{len(rest)}"
                        env2 = dict(env)
                        out = f"{pad}let {tv} := {e}\n"
                        for i, x in enumerate(tgt.elts):
                            out += f"{pad}let {self.lean_name(x.id)} := List.getD {tv} {i} []\n"
                            env2[x.id] = (self.lean_name(x.id), "Str")
                            self.let_bound.add(x.id)
                        return out + nxt(env2, ind)
                    if not t.startswith("Tuple:") or len(split_top(t[6:])) != len(tgt.elts):
                        raise NotTranslatable("unpacking a non-tuple")
                    tv = f"u{ind}_{len(rest)}"
                    env2 = dict(env)
                    out = f"{pad}let {tv} := {e}\n"
                    n = len(tgt.elts)
                    for i, (x, ty) in enumerate(zip(tgt.elts, split_top(t[6:]))):
                        proj = tv + ".2" * i + (".1" if i < n - 1 else "")
                        if x.id == "_":
                            continue
                        want_ = self.t.get("var_types", {}).get(x.id)
                        if want_ and want_ != ty:
                            proj = self.coerce_val(proj, ty, want_)
                            ty = want_
                        if ty == "Lit":
                            ty = "Nat"
                        ann_ = f" : {self.lean_ty(ty)}" if ty in ("Int", "Nat") else ""
                        out += f"{pad}let {self.lean_name(x.id)}{ann_} := {proj}\n"
                        env2[x.id] = (self.lean_name(x.id), ty)
                        self.let_bound.add(x.id)
                    return out + nxt(env2, ind)
            else:
                tgt, val = s.target, s.value
            if (isinstance(s, ast.Assign) and isinstance(tgt, ast.Subscript) and isinstance(tgt.value, ast.Name) and tgt.value.id in env
                    and env[tgt.value.id] is not None and env[tgt.value.id][1].startswith("List:") and not env[tgt.value.id][1].endswith(":_")
                    and isinstance(tgt.slice, ast.UnaryOp) and isinstance(tgt.slice.op, ast.USub)
                    and isinstance(tgt.slice.operand, ast.Constant) and tgt.slice.operand.value == 1):
                # xs[-1] = v : the last element replaced (IndexError on an empty list: totalised to appending - the code tests first)
                nm = tgt.value.id
                self.own_list(nm)
                le, lt = env[nm]
                self.idx_check(f"(List.isEmpty {par(le)})", ast.unparse(tgt))
                ve = self.coerce(val, env, lt[5:])
                env2 = dict(env)
                env2[nm] = (self.lean_name(nm), lt)
                return f"{pad}let {self.lean_name(nm)} := (List.dropLast {par(le)}) ++ [{ve}]\n" + nxt(env2, ind)
            name = dotted(tgt)
            if name is None or not isinstance(tgt, (ast.Name, ast.Attribute)):
                raise NotTranslatable("assignment target")
            if isinstance(tgt, ast.Attribute) and name not in self.t.get("assignable", ()):
                raise NotTranslatable(f"assignment to attribute {name}")
            if val is None:
                return nxt(env, ind)
            # a local name for an object the binding table only knows through its attributes (`window = signature.window`)
            vd = dotted(val) if isinstance(val, (ast.Name, ast.Attribute)) else None
            if (isinstance(s, (ast.Assign, ast.AnnAssign)) and isinstance(tgt, ast.Name) and vd is not None and vd not in env
                    and any(k.startswith(vd + ".") for k in env)):
                env2 = {k: v for k, v in env.items() if not (k == name or k.startswith(name + "."))}
                for k, v in env.items():
                    if k.startswith(vd + "."):
                        env2[name + k[len(vd):]] = v
                return nxt(env2, ind)
            if (isinstance(s, (ast.Assign, ast.AnnAssign)) and isinstance(tgt, ast.Name) and isinstance(val, (ast.Tuple, ast.List))
                    and val.elts and all(isinstance(x, ast.Tuple) for x in val.elts)):
                # a local table of tuples (`checks = ((cond, quirk), ...)`): its items are recorded, evaluated here, for a later loop
                recorded = [[self.expr(y, env) for y in x.elts] for x in val.elts]
                env2 = dict(env)
                env2["%lit%" + name] = recorded
                env2[name] = None
                return nxt(env2, ind)
            e, t = self.expr(val, env)
            if isinstance(s, ast.AugAssign):
                if name not in env:
                    raise NotTranslatable(f"augmented assignment to unbound {name}")
                cb = None
                if isinstance(s.op, ast.BitAnd) and isinstance(val, ast.UnaryOp) and isinstance(val.op, ast.Invert):
                    cb = self.clear_bits(env[name], self.expr(val.operand, env))
                e, t = cb if cb is not None else self.binop(s.op, env[name], (e, t), None)
            if t == "Opt:_":
                t = self.t.get("opt_types", {}).get(name, t)
                if t != "Opt:_":
                    e = f"({e} : {self.lean_ty(t)})"
            if t == "List:_":
                t = self.t.get("list_types", {}).get(name, t)
                if t != "List:_" and not isinstance(s, ast.AnnAssign):
                    e = f"({e} : {self.lean_ty(t)})"
            if t.startswith(("Unpacked:", "StructOf:")):
                env2 = dict(env)
                env2[name] = (e, t)
                return nxt(env2, ind)
            want = self.t.get("var_types", {}).get(name)
            if want and want != t:
                e = self.coerce_val(e, t, want)
                t = want
            if t == "Lit":
                t = "Nat"
            lname = self.lean_name(name)
            env2 = dict(env)
            env2[name] = (lname, t)
            self.let_bound.add(name)
            ann = f" : {self.lean_ty(t)}" if (t.startswith(("List:", "Opt:")) and not t.endswith(":_")) or t in ("Int", "Nat") else ""
            return f"{pad}let {lname}{ann} := {e}\n" + nxt(env2, ind)
        if isinstance(s, ast.Expr) and isinstance(s.value, ast.Call):
            c = s.value
            f = dotted(c.func)
            # list.append
            if f and f.endswith(".append") and len(c.args) == 1 and f[:-7] in env and env[f[:-7]][1].startswith("List:"):
                name = f[:-7]
                self.own_list(name)
                e, t = self.expr(c.args[0], env)
                lname = self.lean_name(name)
                env2 = dict(env)
                lt = env[name][1]
                if lt != "List:_" and lt[5:] != t:
                    e = self.coerce(c.args[0], env, lt[5:])
                env2[name] = (lname, lt if lt != "List:_" else "List:" + t)
                return f"{pad}let {lname} := {env[name][0]} ++ [{e}]\n" + nxt(env2, ind)
            # xs.extend([v] * n): n copies of v appended
            if (f and f.endswith(".extend") and len(c.args) == 1 and not c.keywords and f[:-7] in env and env[f[:-7]] is not None
                    and env[f[:-7]][1].startswith("List:") and isinstance(c.args[0], ast.BinOp) and isinstance(c.args[0].op, ast.Mult)
                    and isinstance(c.args[0].left, ast.List) and len(c.args[0].left.elts) == 1):
                name = f[:-7]
                self.own_list(name)
                lt = env[name][1]
                ve = self.coerce(c.args[0].left.elts[0], env, lt[5:])
                ne, nt = self.expr(c.args[0].right, env)
                if not is_nat_ty(nt):
                    raise NotTranslatable("repetition count of a type that may be negative")
                lname = self.lean_name(name)
                env2 = dict(env)
                env2[name] = (lname, lt)
                return f"{pad}let {lname} := {env[name][0]} ++ List.replicate {par(ne)} {par(ve)}\n" + nxt(env2, ind)
            # inlined helper
            if f in self.helpers:
                h = self.helpers[f]
                params = [a.arg for a in h.args.args]
                defaults = dict(zip(params[len(params) - len(h.args.defaults):], h.args.defaults))
                actual = {}
                for p, a in zip(params, c.args):
                    actual[p] = a
                for k in c.keywords:
                    actual[k.arg] = k.value
                for p in params:
                    if p not in actual:
                        if p not in defaults:
                            raise NotTranslatable("helper call without argument")
                        actual[p] = defaults[p]
                env2 = dict(env)
                out = ""
                for p in params:
                    e, t = self.expr(actual[p], env)
                    env2["%arg%" + p] = (e, t)
                # evaluate arguments in the caller's environment, then bind under the parameter names
                saved = {p: env2.get(p) for p in params}
                for p in params:
                    env2[p] = env2.pop("%arg%" + p)

                def after(env3, ind3):
                    env4 = dict(env3)
                    for p in params:
                        if saved[p] is None:
                            env4.pop(p, None)
                        else:
                            env4[p] = saved[p]
                    return nxt(env4, ind3)
                for st in h.body:
                    if isinstance(st, ast.Return):
                        raise NotTranslatable("helper with return")
                return out + self.block(list(h.body), env2, after, ind)
            raise NotTranslatable(f"expression statement {ast.unparse(s)[:60]}")
        if isinstance(s, ast.If):
            return self.if_stmt(s, rest, env, cont, ind)
        if isinstance(s, ast.With):
            w = self.t.get("with_wrappers", {})
            ok = (len(s.items) == 1 and s.items[0].optional_vars is None and isinstance(s.items[0].context_expr, ast.Call)
                  and dotted(s.items[0].context_expr.func) in w)
            if not ok:
                raise NotTranslatable("with statement other than a registered exception wrapper")
            # the wrapper turns the exceptions of its body into its own error: calls that may raise, made inside the body, leave
            # the function with that error; the statements after the `with` are outside again
            err = w[dotted(s.items[0].context_expr.func)](self, s.items[0].context_expr, env)
            if not hasattr(self, "err_stack"):
                self.err_stack = []
            st_ = self.err_stack
            st_.append(err)

            def after_with(env2, ind2):
                saved_ = list(st_)
                st_.pop()
                try:
                    return self.block(rest, env2, cont, ind2)
                finally:
                    st_[:] = saved_
            try:
                return self.block(list(s.body), env, after_with, ind)
            finally:
                st_.pop()
        if isinstance(s, ast.Try):
            m = self.t.get("raises", {})
            htypes = []
            if len(s.handlers) == 1 and s.handlers[0].type is not None:
                ht = s.handlers[0].type
                htypes = [dotted(x) for x in ht.elts] if isinstance(ht, ast.Tuple) else [dotted(ht)]
            ok = (not s.orelse and not s.finalbody and len(s.handlers) == 1 and htypes and all(x in m for x in htypes)
                  and len(s.handlers[0].body) == 1 and isinstance(s.handlers[0].body[0], ast.Raise))
            if ok:
                h = s.handlers[0].body[0]
                exc = dotted(h.exc.func) if isinstance(h.exc, ast.Call) else dotted(h.exc)
                ok = exc in m and all(m[exc] == m[x] for x in htypes)
            if not ok:
                raise NotTranslatable("try statement other than `except X: raise Y` with X and Y mapped to the same outcome")
            # the handler turns X into Y and both leave the function the same way: the body is translated in place
            self.in_try = getattr(self, "in_try", 0) + 1
            try:
                return self.block(list(s.body) + list(rest), env, cont, ind)
            finally:
                self.in_try -= 1
        if isinstance(s, ast.For):
            return self.for_loop(s, rest, env, cont, ind)
        if isinstance(s, ast.While):
            return self.while_loop(s, rest, env, cont, ind)
        raise NotTranslatable(f"statement {type(s).__name__}")


    # -- control-flow helpers -------------------------------------------------------------------
    @staticmethod
    def falls(stmts):
        """can control fall off the end of this statement list?"""
        for st in flat_with(stmts):
            if isinstance(st, (ast.Return, ast.Raise, ast.Continue, ast.Break)):
                return False
            if isinstance(st, ast.If) and not (Fn.falls(st.body) or Fn.falls(st.orelse)):
                return False
        return True

    @staticmethod
    def fall_leaves(stmts):
        """number of distinct fall-through paths (what inlining the continuation would duplicate)"""
        n = 1
        for st in flat_with(stmts):
            if isinstance(st, (ast.Return, ast.Raise, ast.Continue, ast.Break)):
                return 0
            if isinstance(st, ast.If):
                n = n * (Fn.fall_leaves(st.body) + Fn.fall_leaves(st.orelse))
                if n == 0:
                    return 0
        return n

    @staticmethod
    def has_exit(stmts):
        for st in stmts:
            for n in ast.walk(st):
                if isinstance(n, (ast.Return, ast.Raise, ast.Continue, ast.Break)):
                    return True
        return False

    def assigned_in(self, stmts, env):
        out = []

        def visit(sts, local_helpers):
            for st in flat_with(sts):
                if isinstance(st, (ast.Assign, ast.AugAssign, ast.AnnAssign)):
                    tgs = st.targets if isinstance(st, ast.Assign) else [st.target]
                    for tg in tgs:
                        for x in (tg.elts if isinstance(tg, ast.Tuple) else [tg]):
                            d = dotted(x.value) if isinstance(x, ast.Subscript) else dotted(x)
                            if d and d not in out:
                                out.append(d)
                elif isinstance(st, ast.If):
                    visit(st.body, local_helpers)
                    visit(st.orelse, local_helpers)
                elif isinstance(st, ast.Expr) and isinstance(st.value, ast.Call):
                    f = dotted(st.value.func)
                    if f and f.endswith((".append", ".extend")) and f[:-7] not in out:
                        out.append(f[:-7])
                    elif f in self.helpers:
                        params = {a.arg for a in self.helpers[f].args.args}
                        before = list(out)
                        visit(self.helpers[f].body, local_helpers)
                        for v in list(out):
                            if v in params and v not in before:
                                out.remove(v)
                elif isinstance(st, ast.While):
                    visit(st.body, local_helpers)
                elif isinstance(st, ast.For):
                    raise NotTranslatable("for loop inside a joined conditional")
        visit(stmts, None)
        return out

    def lean_ty(self, t):
        m = self.t.get("lean_types", {})
        if t in m:
            return m[t]
        base = {"Int": "Int", "Nat": "Nat", "Flags": "Nat", "Bool": "Bool", "QSet": "QSet", "Q": "Q"}
        if t in base:
            return base[t]
        if t.startswith("Opt:"):
            return f"Option {par(self.lean_ty(t[4:]))}"
        if t.startswith("Exc:"):
            return f"Except {self.t['err_ty']} {par(self.lean_ty(t[4:]))}"
        if t.startswith("Enum:"):
            return t[5:]
        if t.startswith("Rec:"):
            return t[4:]
        if t.startswith("Tuple:"):
            return " × ".join(par(self.lean_ty(u)) for u in split_top(t[6:]))
        if t.startswith("List:"):
            return f"List {par(self.lean_ty(t[5:]))}"
        raise NotTranslatable(f"no Lean type for {t}")

    def coerce(self, node, env, want):
        """expression translated and converted to the wanted type (ints widened, tuples component-wise)"""
        if want.startswith("Tuple:") and isinstance(node, ast.Tuple):
            ws = split_top(want[6:])
            if len(ws) != len(node.elts):
                raise NotTranslatable("tuple arity")
            return "(" + ", ".join(self.coerce(x, env, w) for x, w in zip(node.elts, ws)) + ")"
        e, t = self.expr(node, env)
        if t == want:
            return e
        if want.startswith("Opt:") and t == "Opt:_":
            return f"({e} : {self.lean_ty(want)})"
        if want.startswith("Opt:") and t == want[4:]:
            return f"(some {e})"
        if want == "Int" and is_int_ty(t):
            return as_int(e, t)
        if want == "Nat" and is_nat_ty(t):
            return e
        if want == "Bool":
            return self.truthy(e, t)
        raise NotTranslatable(f"cannot convert {t} to {want}")

    def coerce_val(self, e, t, want):
        if t == want:
            return e
        if want == "Int" and is_int_ty(t):
            return as_int(e, t)
        if want == "Nat" and is_nat_ty(t):
            return e
        if want == "Nat" and t == "Int":
            return f"(Int.toNat {par(e)})"
        if want == "Bool":
            return self.truthy(e, t)
        raise NotTranslatable(f"cannot convert {t} to {want}")

    def callee_checks(self, text):
        """division-safety mode: a call of another printed function that has a division-safety companion is safe when the companion
        says so for these arguments"""
        for name in self.t.get("safe_callees", ()):
            key = f"(P0f.Gen.{name} "
            i = text.find(key)
            while i >= 0:
                depth, j = 0, i
                while j < len(text):
                    if text[j] == "(":
                        depth += 1
                    elif text[j] == ")":
                        depth -= 1
                        if depth == 0:
                            break
                    j += 1
                args_ = text[i + len(key):j]
                if self.no_raise > 0:
                    self.unchecked_divs.append(f"call of {name}")
                else:
                    self.pending_checks.append(f"(!(P0f.Gen.{name}_safe {args_}))")
                i = text.find(key, j)

    def own_list(self, name):
        """in-place updates (`append`, `extend`, `xs[-1] = v`) are read as re-binding the variable - which is only the same thing for a
        list the function created itself: an argument (or an attribute of one) updated in place is an effect the caller sees"""
        if name in self.t.get("env", {}) and name not in self.let_bound:
            raise NotTranslatable(f"in-place update of the argument {name}")

    def idx_check(self, out_of_range_test, what):
        """safety mode: a subscript that the translation totalises is only reached in range (IndexError otherwise)"""
        if not self.t.get("mode_safe") or not self.t.get("safe_index"):
            return
        if self.no_raise > len(self.guards):
            self.unchecked_divs.append(what)
            return
        self.pending_checks.append("(" + " && ".join(self.guards + [out_of_range_test]) + ")" if self.guards else out_of_range_test)

    def div_check(self, zero_test, tb, b_node_text):
        """division-safety mode: the statement containing this division is only reached with a non-zero divisor; a divisor that is a
        non-zero literal needs no check; a division inside a short-circuit / conditional expression cannot be checked at statement
        level (listed in the header as unchecked)"""
        if not self.t.get("mode_safe"):
            return
        if tb == "Lit":
            return
        if self.no_raise > len(self.guards):
            self.unchecked_divs.append(b_node_text)      # inside an expression whose evaluation condition is not tracked
            return
        self.pending_checks.append("(" + " && ".join(self.guards + [zero_test]) + ")" if self.guards else zero_test)

    def none_value(self):
        """how an exception of a called function leaves the current function: `none` for Option targets; for `Except` targets the
        error of the innermost enclosing wrapper (`with parsing_error_wrapper(n):`), else the target's default error"""
        if self.t.get("mode_safe"):
            return "true"                  # another exception than ZeroDivisionError left the function
        st = getattr(self, "err_stack", None)
        if st:
            return st[-1]
        if "err_default" in self.t:
            return self.t["err_default"]
        return "none"

    def raising(self, call_text, t, err=None):
        """a call that may raise (its translation has type Option t): bound before the current statement; its value is the temp.
        `err`: how THIS call's exception leaves the function, when the target tells exceptions apart (else the enclosing wrapper's /
        the target's default)"""
        if self.no_raise > 0:
            raise NotTranslatable("a call that may raise inside a short-circuit / conditional expression")
        if getattr(self, "cur_ret", None) and str(self.cur_ret).startswith("Option (") and getattr(self, "in_while", 0):
            raise NotTranslatable("a call that may raise inside a while loop")
        var = f"r{len(self.pending)}_{self.tmp_counter()}"
        self.pending.append((var, call_text, err))
        self.used_raising = True
        return (var, t)

    def tmp_counter(self):
        self._tmp = getattr(self, "_tmp", 0) + 1
        return self._tmp

    def wrap_ret(self, text):
        return f"(Sum.inl {par(text)})" if self.join_depth > 0 else text

    def if_stmt(self, s, rest, env, cont, ind):
        pad = "  " * ind
        nxt = lambda env2, ind2: self.block(rest, env2, cont, ind2)  # noqa: E731
        # narrowing:  `if X is None: <does not fall through>`  /  `if X is not None: ... else: <does not fall through>`
        tt = s.test
        if (isinstance(tt, ast.Compare) and len(tt.ops) == 1 and isinstance(tt.ops[0], (ast.Is, ast.IsNot))
                and isinstance(tt.comparators[0], ast.Constant) and tt.comparators[0].value is None
                and isinstance(tt.left, ast.Name) and tt.left.id in env and env[tt.left.id] is not None
                and env[tt.left.id][1].startswith("Opt:") and env[tt.left.id][1] != "Opt:_"):
            x = tt.left.id
            none_branch, some_branch = (s.body, s.orelse) if isinstance(tt.ops[0], ast.Is) else (s.orelse, s.body)
            if not self.falls(none_branch) or not rest:
                # (when nothing follows the `if` in this block, letting both branches run into the continuation duplicates little)
                xe, xt = env[x]
                env_some = dict(env)
                env_some[x] = (self.lean_name(x), xt[4:])
                a = self.block(list(none_branch), env, nxt, ind + 1)
                b = self.block(list(some_branch), env_some, nxt, ind + 1)
                return f"{pad}Option.elim {par(xe)} (\n{a}) (fun {self.lean_name(x)} =>\n{b})"
        if (isinstance(tt, ast.UnaryOp) and isinstance(tt.op, ast.Not) and isinstance(tt.operand, ast.Name) and tt.operand.id in env
                and env[tt.operand.id] is not None and env[tt.operand.id][1].startswith("Opt:List:") and not s.orelse and not self.falls(s.body)):
            # `if not X: <leaves>` on a list-or-None value: afterwards X is a non-empty list
            x = tt.operand.id
            xe, xt = env[x]
            env_some = dict(env)
            env_some[x] = (self.lean_name(x), xt[4:])
            a = self.block(list(s.body), env, nxt, ind + 1)
            a2 = self.block(list(s.body), env_some, nxt, ind + 2)
            b = self.block(rest, env_some, cont, ind + 2)
            lx = self.lean_name(x)
            return (f"{pad}Option.elim {par(xe)} (\n{a}) (fun {lx} =>\n{pad}  if (List.isEmpty {lx}) then\n{a2}\n{pad}  else\n{b})")
        c = self.cond(s.test, env)
        leaves = self.fall_leaves(s.body) + self.fall_leaves(s.orelse)
        if leaves <= 1 or (not rest and getattr(cont, "cheap", False)):
            a = self.block(list(s.body), env, nxt, ind + 1)
            b = self.block(list(s.orelse), env, nxt, ind + 1)
            return f"{pad}if {c} then\n{a}\n{pad}else\n{b}"
        # several paths fall through to the rest of the block: join them, carrying the variables assigned inside
        vs = self.assigned_in([s], env)
        def top_assigned(stmts):
            """names definitely assigned when control falls off the end of `stmts`"""
            out = set()
            for st in flat_with(stmts):
                if isinstance(st, (ast.Assign, ast.AugAssign, ast.AnnAssign)):
                    tgs = st.targets if isinstance(st, ast.Assign) else [st.target]
                    for tg in tgs:
                        for x in (tg.elts if isinstance(tg, ast.Tuple) else [tg]):
                            d = dotted(x)
                            if d:
                                out.add(d)
                elif isinstance(st, ast.If):
                    a_, b_ = top_assigned(st.body), top_assigned(st.orelse)
                    fa, fb = Fn.falls(st.body), Fn.falls(st.orelse)
                    if fa and fb:
                        out |= (a_ & b_)
                    elif fa:
                        out |= a_
                    elif fb:
                        out |= b_
            return out
        both = top_assigned(s.body) & top_assigned(s.orelse)
        # temporaries of the branches are poisoned for the code after, unless both branches define them
        dropped = [v for v in vs if v not in env and v not in both]
        vs = [v for v in vs if v in env or v in both]
        names = [self.lean_name(v) for v in vs]
        tup = "(" + ", ".join(names) + ")" if names else "()"
        exits = self.has_exit([s])
        if not exits and self.t.get("mode_safe") and any(
                (isinstance(n, (ast.BinOp, ast.AugAssign)) and isinstance(n.op, (ast.Div, ast.FloorDiv, ast.Mod))) or isinstance(n, (ast.Call, ast.Subscript))
                for n in ast.walk(s)):
            exits = True        # division-safety mode: a zero divisor inside leaves with `false`
        if not exits and self.t.get("raises") and any(isinstance(n, ast.Call) or (isinstance(n, ast.Subscript) and "IndexError" in self.t["raises"])
                                                      for n in ast.walk(s)):
            exits = True        # a call inside may raise: the join has to be able to carry an early exit
        types = {}

        def yield_vars(env2, ind2):
            out = []
            for v in vs:
                pre_t = env[v][1] if v in env else "Any:_"
                e2, t2 = env2[v]
                if pre_t in ("List:_", "Opt:_") and t2 != pre_t:
                    types[v] = t2
                elif pre_t.startswith("Opt:") and not t2.startswith("Opt:"):
                    e2 = f"(some {e2})"
                    types.setdefault(v, pre_t)
                else:
                    types.setdefault(v, t2 if pre_t.endswith(":_") else pre_t)
                out.append(e2)
            vals = "(" + ", ".join(out) + ")" if vs else "()"
            return "  " * ind2 + (f"(Sum.inr {vals})" if exits else vals)
        yield_vars.cheap = True
        if exits:
            self.join_depth += 1
        a = self.block(list(s.body), env, yield_vars, ind + 2)
        b = self.block(list(s.orelse), env, yield_vars, ind + 2)
        if exits:
            self.join_depth -= 1
        env2 = dict(env)
        for v, n in zip(vs, names):
            env2[v] = (n, types.get(v) or env[v][1])
        for v in dropped:
            env2[v] = None
        vty = " × ".join(par(self.lean_ty(env2[v][1])) for v in vs) if vs else "Unit"
        jv = f"j{ind}"

        def unpack(ind3):
            if len(vs) == 1:
                return ""
            out = ""
            for i, n in enumerate(names):
                out += "  " * ind3 + f"let {n} := {jv}" + ".2" * i + (".1" if i < len(names) - 1 else "") + "\n"
            return out
        one = names[0] if len(vs) == 1 else jv
        if not exits:
            return (f"{pad}let {one} : {vty} :=\n{pad}  if {c} then\n{a}\n{pad}  else\n{b}\n" + unpack(ind) + nxt(env2, ind))
        rty = getattr(self, "cur_ret", None) or self.t["lean_ret"]
        return (f"{pad}Sum.elim (fun r => {self.wrap_ret('r')}) (fun ({one} : {vty}) =>\n" + unpack(ind + 1) + nxt(env2, ind + 1) + ")\n"
                f"{pad}  ((if {c} then\n{a}\n{pad}  else\n{b}) : Sum ({rty}) ({vty}))")

    LEAN_KEYWORDS = {"match", "end", "from", "at", "fun", "let", "in", "do", "then", "else", "if", "with", "open", "def", "theorem",
                     "instance", "where", "have", "show", "by", "local", "section", "namespace", "universe", "variable", "import",
                     "return", "for", "structure", "class", "inductive", "mutual", "private", "protected", "macro", "syntax",
                     "deriving", "extends", "using", "calc", "nomatch", "nofun", "unless", "try", "catch", "finally", "break",
                     "continue", "mut", "example", "abbrev", "axiom", "opaque", "partial", "unsafe", "noncomputable", "attribute",
                     "export", "prefix", "infix", "infixl", "infixr", "postfix", "notation", "set_option", "Type", "Sort", "Prop", "at"}

    def lean_name(self, name):
        n = name.replace(".", "_")
        return n + "'" if n in self.LEAN_KEYWORDS else n

    def for_loop(self, s, rest, env, cont, ind):
        pad = "  " * ind
        nxt = lambda env2, ind2: self.block(rest, env2, cont, ind2)  # noqa: E731
        if s.orelse:
            raise NotTranslatable("for-else")
        items = self.literal_items(s.iter, env)
        if items is not None:
            # a loop over a statically known sequence: unrolled (the loop variable is bound to each item in turn)
            for n in ast.walk(ast.Module(body=s.body, type_ignores=[])):
                if isinstance(n, (ast.Continue, ast.For, ast.While)):
                    raise NotTranslatable("continue / nested loop in an unrolled loop")
            tnames = [s.target.id] if isinstance(s.target, ast.Name) else [x.id for x in getattr(s.target, "elts", []) if isinstance(x, ast.Name)]

            def after(env_k, ind_k):
                env_out = {kk: vv for kk, vv in env_k.items() if kk not in tnames or kk in env}
                for tn in tnames:
                    if tn in env:
                        env_out[tn] = env[tn]
                saved = getattr(self, "break_cont", None)
                self.break_cont = outer_break
                try:
                    return self.block(rest, env_out, cont, ind_k)
                finally:
                    self.break_cont = saved

            def unroll(k, env_k, ind_k):
                if k == len(items):
                    return after(env_k, ind_k)
                env_b = self.bind_target(s.target, items[k], env_k)
                saved = getattr(self, "break_cont", None)
                self.break_cont = after
                try:
                    return self.block(list(s.body), env_b, lambda e2, i2: unroll(k + 1, e2, i2), ind_k)
                finally:
                    self.break_cont = saved
            outer_break = getattr(self, "break_cont", None)
            return unroll(0, env, ind)
        it, tit = self.expr(s.iter, env) if not isinstance(s.iter, ast.Call) else self.call(s.iter, env)
        if not tit.startswith("List:"):
            raise NotTranslatable("loop over a non-list")
        elt = tit[5:]
        # first-hit search:  for T in L: if C: return E
        if (len(s.body) == 1 and isinstance(s.body[0], ast.If) and not s.body[0].orelse
                and len(s.body[0].body) == 1 and isinstance(s.body[0].body[0], ast.Return)):
            env2 = dict(env)
            xv = f"x{ind}"
            if isinstance(s.target, ast.Tuple):
                names = [n.id for n in s.target.elts]
                tys = split_top(elt[6:]) if elt.startswith("Tuple:") else None
                if tys is None or len(tys) != len(names):
                    raise NotTranslatable("tuple target does not fit the element type")
                for i, (n, t) in enumerate(zip(names, tys)):
                    proj = xv + ".2" * i + (".1" if i < len(names) - 1 else "")
                    env2[n] = (proj, t)
            else:
                env2[s.target.id] = (xv, elt)
            cmark_ = len(self.pending_checks)
            c = self.cond(s.body[0].test, env2)
            cmark2_ = len(self.pending_checks)
            r = s.body[0].body[0]
            e, t = self.expr(r.value, env2)
            if len(self.pending_checks) > cmark_:
                # division-safety mode: a division in the test of a search loop is checked for every element of the list (more than
                # Python evaluates - the elements after the first hit - hence conservative); one in the returned expression for
                # every element that satisfies the test
                in_test, in_result = self.pending_checks[cmark_:cmark2_], self.pending_checks[cmark2_:]
                del self.pending_checks[cmark_:]
                for test_ in in_test:
                    self.pending_checks.append(f"(List.any {par(it)} (fun {xv} => {test_}))")
                for test_ in in_result:
                    self.pending_checks.append(f"(List.any {par(it)} (fun {xv} => ({c} && {test_})))")
            return (f"{pad}firstHit {par(it)} (fun {xv} => {c}) (fun {xv} => {self.wrap_ret(self.ret(e, t))}) (\n"
                    + nxt(env, ind + 1) + ")")
        # general loop: structurally recursive auxiliary definition over the list; loop-carried variables =
        # the variables assigned in the body that exist before the loop
        tuple_names = None
        if isinstance(s.target, ast.Tuple) and all(isinstance(x, ast.Name) for x in s.target.elts):
            tuple_names = [x.id for x in s.target.elts]
        elif not isinstance(s.target, ast.Name):
            raise NotTranslatable("general loop target")
        assigned = []
        for n in ast.walk(ast.Module(body=s.body, type_ignores=[])):
            if isinstance(n, (ast.Assign, ast.AugAssign, ast.AnnAssign)):
                tg = n.targets[0] if isinstance(n, ast.Assign) else n.target
                for tg1 in (tg.elts if isinstance(tg, ast.Tuple) else [tg]):
                    d = dotted(tg1.value) if isinstance(tg1, ast.Subscript) else dotted(tg1)
                    if d in env and d not in assigned:
                        assigned.append(d)
            if self.t.get("sort_carried") and isinstance(n, ast.Expr) and isinstance(n.value, ast.Call):
                f_ = dotted(n.value.func)
                if f_ and f_.endswith((".append", ".extend")) and f_[:-7] in env and f_[:-7] not in assigned:
                    assigned.append(f_[:-7])
            if isinstance(n, ast.For) and n is not s:
                raise NotTranslatable("nested for loop")
        if self.t.get("sort_carried"):
            assigned.sort()          # the signature of the auxiliary definition does not depend on the order of the assignments
        def direct_break(stmts):
            for st in stmts:
                if isinstance(st, ast.Break):
                    return True
                if isinstance(st, ast.If) and (direct_break(st.body) or direct_break(st.orelse)):
                    return True
            return False
        has_break = direct_break(s.body)
        aux = f"{self.t['lean']}_loop{len(self.aux)}"
        params = list(self.t["params"]) + self.outer_locals(env, assigned)
        psig = " ".join(f"({p} : {ty})" for p, ty in params)
        pnames = " ".join(p for p, _ in params)
        carried = [(self.lean_name(v), env[v][1]) for v in assigned]
        x = s.target.id if tuple_names is None else "it"

        lean_ty = self.lean_ty
        env_nil = dict(env)
        for v, (ln, ty) in zip(assigned, carried):
            env_nil[v] = (ln, ty)
        nil_case = self.block(rest, env_nil, cont, 2)
        env_c = dict(env_nil)
        if tuple_names is None:
            env_c[x] = (x, elt)
            self.let_bound.add(x)
        else:
            tys = split_top(elt[6:]) if elt.startswith("Tuple:") else []
            if len(tys) != len(tuple_names):
                raise NotTranslatable("tuple target does not fit the element type")
            for i, (n, ty) in enumerate(zip(tuple_names, tys)):
                env_c[n] = (x + ".2" * i + (".1" if i < len(tys) - 1 else ""), ty)

        def again(env3, ind3):
            def back(v, ty):
                e3, t3 = env3[v]
                if t3 != ty and ty == "Opt:" + t3:
                    return f"(some {e3})"          # narrowed by an `is None` test inside the body
                return e3
            return "  " * ind3 + self.wrap_ret(f"({aux} {pnames} xs " + " ".join(par(back(v, ty)) for v, (_, ty) in zip(assigned, carried)) + ")")

        def after_break(env3, ind3):
            # `break`: what follows the loop, with the loop-carried variables as they are now
            env_b = dict(env_nil)
            for v in assigned:
                env_b[v] = env3[v]
            return self.block(rest, env_b, cont, ind3)

        saved_cont = self.loop_cont if hasattr(self, "loop_cont") else None
        saved_break = getattr(self, "break_cont", None)
        saved_depth, saved_ret = self.join_depth, getattr(self, "cur_ret", None)
        self.loop_cont, self.join_depth, self.cur_ret = again, 0, None
        self.break_cont = after_break if has_break else None
        try:
            cons_case = self.block(list(s.body), env_c, again, 2)
        finally:
            self.break_cont = saved_break
        self.loop_cont, self.join_depth, self.cur_ret = saved_cont, saved_depth, saved_ret
        cs = " ".join(f"({n} : {lean_ty(t)})" for n, t in carried)
        self.aux.append(
            f"def {aux} {psig} : List {par(lean_ty(elt))} → " + "".join(f"{par(lean_ty(t))} → " for _, t in carried) + f"{lean_ty(self.t['ret'])}\n"
            f"  | []" + "".join(", " + n for n, _ in carried) + " =>\n" + nil_case + "\n"
            f"  | {x} :: xs" + "".join(", " + n for n, _ in carried) + " =>\n" + cons_case + "\n")
        return pad + f"{aux} {pnames} {par(it)} " + " ".join(par(env[v][0]) for v in assigned)

    def outer_locals(self, env, carried):
        """let-bound variables of the enclosing scope that an auxiliary loop definition has to receive as parameters"""
        out = []
        for v in sorted(self.let_bound):
            if v in env and env[v] is not None and v not in carried and env[v][0] == self.lean_name(v):
                try:
                    out.append((self.lean_name(v), self.lean_ty(env[v][1])))
                except NotTranslatable:
                    pass
        return out

    def while_loop(self, s, rest, env, cont, ind):
        """`while c: body` without `return` inside: an auxiliary definition by recursion on a fuel argument that maps the
        loop-carried variables to their values at loop exit (`none` = fuel exhausted; the bridging theorem has to show the
        fuel the target supplies is enough)"""
        pad = "  " * ind
        if s.orelse:
            raise NotTranslatable("while-else")
        for n in ast.walk(ast.Module(body=s.body, type_ignores=[])):
            if isinstance(n, (ast.Return, ast.Raise)):
                raise NotTranslatable("return / raise inside a while loop")
        fuel = self.t.get("fuel")
        if not fuel:
            raise NotTranslatable("while loop in a target without a fuel bound")
        carried = [v for v in self.assigned_in(s.body, env) if v in env and env[v] is not None]
        for v in carried:
            if env[v][1].endswith(":_"):
                raise NotTranslatable(f"loop-carried variable {v} of unknown type")
        names = [self.lean_name(v) for v in carried]
        tys = [env[v][1] for v in carried]
        aux = f"{self.t['lean']}_while{len(self.aux)}"
        self.aux.append(None)                       # reserve the slot: inner loops get later numbers but are emitted before
        slot = len(self.aux) - 1
        params = list(self.t["params"]) + self.outer_locals(env, carried)
        psig = " ".join(f"({p} : {ty})" for p, ty in params)
        pnames = " ".join(p for p, _ in params)
        env_in = dict(env)
        for v, n, ty in zip(carried, names, tys):
            env_in[v] = (n, ty)
        tup_ty = " × ".join(par(self.lean_ty(t)) for t in tys) if tys else "Unit"

        def vals(env3):
            out = []
            for v, ty in zip(carried, tys):
                e3, t3 = env3[v]
                out.append(self.coerce_val(e3, t3, ty))
            return out

        def again(env3, ind3):
            return "  " * ind3 + self.wrap_ret(f"({aux} {pnames} fuel " + " ".join(par(x) for x in vals(env3)) + ")")

        def leave(env3, ind3):
            return "  " * ind3 + self.wrap_ret("(some (" + ", ".join(vals(env3)) + "))" if carried else "(some ())")
        saved = (getattr(self, "loop_cont", None), getattr(self, "break_cont", None), self.join_depth, getattr(self, "cur_ret", None))
        self.loop_cont, self.break_cont, self.join_depth, self.cur_ret = again, leave, 0, f"Option ({tup_ty})"
        self.in_while = getattr(self, "in_while", 0) + 1
        try:
            c = self.cond(s.test, env_in)
            body = self.block(list(s.body), env_in, again, 3)
        finally:
            self.loop_cont, self.break_cont, self.join_depth, self.cur_ret = saved
            self.in_while -= 1
        args = " ".join(f"({n} : {self.lean_ty(t)})" for n, t in zip(names, tys))
        self.aux[slot] = (
            f"def {aux} {psig} : Nat → " + "".join(f"{par(self.lean_ty(t))} → " for t in tys) + f"Option ({tup_ty})\n"
            f"  | 0" + "".join(", " + n for n in names) + " => none\n"
            f"  | fuel + 1" + "".join(", " + n for n in names) + " =>\n"
            f"    if {c} then\n{body}\n    else\n" + leave(env_in, 3) + "\n")
        # emitted after any inner loop definitions it calls
        self.aux.append(self.aux[slot])
        self.aux[slot] = ""
        cur = "(" + ", ".join(env[v][0] for v in carried) + ")" if carried else "()"
        wv = f"w{ind}_{len(rest)}"
        out = f"{pad}let {wv} : {tup_ty} := Option.getD ({aux} {pnames} {par(fuel)} " + " ".join(par(env[v][0]) for v in carried) + f") {cur}\n"
        env2 = dict(env)
        for i, (v, n, ty) in enumerate(zip(carried, names, tys)):
            proj = wv + ".2" * i + (".1" if i < len(carried) - 1 else "") if len(carried) > 1 else wv
            out += f"{pad}let {n} := {proj}\n"
            env2[v] = (n, ty)
        return out + self.block(rest, env2, cont, ind)

    def translate(self):
        f = self.fdef
        allowed = set(self.t.get("decorators", ()))
        for d in f.decorator_list:
            if dotted(d) not in allowed:
                raise NotTranslatable(f"decorator {ast.unparse(d)}")
        pynames = [a.arg for a in f.args.args] + [a.arg for a in f.args.kwonlyargs]
        if f.args.vararg or f.args.kwarg:
            raise NotTranslatable("*args / **kwargs")
        expected = self.t.get("pyparams")
        if expected is not None and pynames != expected:
            raise NotTranslatable(f"parameters {pynames}, expected {expected}")
        env = dict(self.t["env"])

        def end(env2, ind2):
            if self.t.get("mode_safe"):
                return "  " * ind2 + "true"
            if self.t["ret"].startswith("Opt:") and "end" not in self.t:
                return "  " * ind2 + "none"
            if "end" in self.t:
                return "  " * ind2 + self.t["end"](self, env2)
            raise NotTranslatable("function end without return")
        end.cheap = True
        stmts = list(f.body)
        if self.t.get("desugar"):
            import copy
            stmts = Desugar(self.t).stmts(copy.deepcopy(stmts))
            for st in stmts:
                ast.fix_missing_locations(st)
        body = self.block(self.pre(stmts), env, end, 1)
        return body

    def pre(self, stmts):
        """statement-level rewriting a target may ask for (e.g. drop the packet-parsing prologue)"""
        p = self.t.get("pre")
        return p(stmts) if p else stmts


# ------------------------------------------------------------------------------------------------
# `continue` support: handled in Fn.block through loop_cont
# ------------------------------------------------------------------------------------------------
_orig_block = Fn.block


def _block(self, stmts, env, cont, ind):
    mark = len(self.pending)
    cmark = len(self.pending_checks)
    out = _block_inner(self, stmts, env, cont, ind)
    if len(self.pending_checks) > cmark:
        # division-safety mode: the divisions evaluated by the first statement have non-zero divisors, else the answer is `false`
        mine_c = self.pending_checks[cmark:]
        del self.pending_checks[cmark:]
        pad_c = "  " * ind
        for test in reversed(mine_c):
            out = f"{pad_c}if {test} then {self.wrap_ret('false')} else\n{out}"
    if len(self.pending) > mark:
        # calls that may raise, made while evaluating the first statement: bound in evaluation order around the statement and
        # everything after it (an exception leaves the function: `none`)
        mine = self.pending[mark:]
        del self.pending[mark:]
        pad = "  " * ind
        for var, call, err_ in reversed(mine):
            err_ = self.none_value() if (err_ is None or self.t.get("mode_safe")) else err_
            out = f"{pad}Option.elim {par(call)} {self.wrap_ret(err_)} (fun {var} =>\n{out})"
    return out


def _block_inner(self, stmts, env, cont, ind):
    if stmts and isinstance(stmts[0], ast.Continue):
        lc = getattr(self, "loop_cont", None)
        if lc is None:
            raise NotTranslatable("continue outside a loop")
        return lc(env, ind)
    if stmts and isinstance(stmts[0], ast.Break):
        bc = getattr(self, "break_cont", None)
        if bc is None:
            raise NotTranslatable("break outside an unrolled loop")
        return bc(env, ind)
    return _orig_block(self, stmts, env, cont, ind)


Fn.block = _block


def find_function(tree, qual):
    """qual = 'func' or 'Class.method'"""
    parts = qual.split(".")
    body = tree.body
    node = None
    for p in parts:
        node = None
        for n in body:
            if isinstance(n, (ast.FunctionDef, ast.ClassDef)) and n.name == p:
                node = n
                break
        if node is None:
            return None
        body = node.body
    return node if isinstance(node, ast.FunctionDef) else None


def translate_target(t):
    mod = importlib.import_module(t["module"])
    src = inspect.getsource(mod)
    tree = ast.parse(src)
    fdef = find_function(tree, t["func"])
    if fdef is None:
        raise NotTranslatable(f"function {t['func']} not found in {t['module']}")
    # what the module exports under that name must be the function this `def` defines, not a wrapper put around it later
    # (`f = lru_cache(f)`, a decorator applied by assignment): the text would no longer say what a call does
    obj = mod
    for part in t["func"].split("."):
        obj = inspect.getattr_static(obj, part, None)
        if obj is None:
            break
    raw = obj
    if isinstance(raw, (staticmethod, classmethod)):
        raw = raw.__func__
    if isinstance(raw, property):
        raw = raw.fget
    import types as _types
    if not isinstance(raw, _types.FunctionType) or raw.__code__.co_firstlineno not in range(fdef.lineno - len(fdef.decorator_list) - 1, fdef.lineno + 1):
        raise NotTranslatable(f"{t['func']} as exported is not the function defined in the source text (wrapped or rebound)")
    fn = Fn(t, fdef, vars(mod))
    body = fn.translate()
    psig = " ".join(f"({p} : {ty})" for p, ty in t["params"])
    rty = t.get("lean_ret") or {"Int": "Int", "Bool": "Bool", "QSet": "QSet"}.get(t["ret"]) or t["lean_ret"]
    out = "".join(a for a in fn.aux if a)
    out += f"def {t['lean']} {psig} : {rty} :=\n{body}\n"
    if t.get("safe") and not t.get("mode_safe"):
        # the division-safety companion: the same control skeleton, `true` at every exit, `false` where a divisor is zero
        t2 = dict(t, lean=t["lean"] + "_safe", ret="Bool", lean_ret="Bool", mode_safe=True)
        t2.pop("end", None)
        fn2 = Fn(t2, fdef, vars(mod))
        body2 = fn2.translate()
        out += "\n/-- safety of the function above: `false` iff it reaches a division with a zero divisor (ZeroDivisionError)" \
               + (" or a subscript out of range (IndexError)" if t.get("safe_index") else "") \
               + (";\n    NOT covered (inside a short-circuit / conditional expression): " + "; ".join(sorted(set(fn2.unchecked_divs))) if fn2.unchecked_divs else "") + " -/\n"
        out += "".join(a for a in fn2.aux if a)
        out += f"def {t2['lean']} {psig} : Bool :=\n{body2}\n"
    return out, sorted(set(fn.div_sites))


def header(t, note):
    return (f"import {t.get('import', 'P0f.Model.Find')}\nimport P0f.Model.Q\n"
            f"/-\n  GENERATED by harness/py2lean.py from {t['module']}.{t['func']} of the working tree - do not edit.\n  {note}\n-/\n"
            "set_option linter.unusedVariables false\nnamespace P0f.Gen\nopen " + t.get("open", "P0f") + "\n\n")


UNAVAILABLE = []
DIV_SITES = {}


def _elaborates(path):
    """does the generated file elaborate on its own?  (a translation that is ill-typed in Lean is a limit of the
    translator, not a statement about the code)"""
    import subprocess
    mod = "P0f.Generated.Logic." + os.path.basename(path)[:-5]
    p = subprocess.run(["lake", "build", mod], cwd=LEAN, stdout=subprocess.PIPE, stderr=subprocess.STDOUT, text=True)
    errs = [l for l in p.stdout.splitlines() if l.startswith("error:")]
    return p.returncode == 0, (errs[0] if errs else p.stdout[-300:])


def regenerate(targets=None, check=True):
    """returns True when any generated file changed"""
    from . import py2lean_targets
    targets = targets or py2lean_targets.TARGETS
    del UNAVAILABLE[:]
    os.makedirs(OUTDIR, exist_ok=True)
    changed = False
    repo = os.environ.get("PYP0F_REPO", "/repo")
    if repo not in sys.path:
        sys.path.insert(0, repo)
    force = os.environ.get("PY2LEAN_FORCE_ALIAS", "")
    for t in targets:
        def alias_text(why):
            return header(t, f"NOT TRANSLATABLE ({why}): alias of the model function; the correspondence is the remaining tie") + t["alias"] + "\nend P0f.Gen\n"
        try:
            if force == "all" or t["lean"] in force.split(","):
                raise NotTranslatable("forced (self-test of the fallback)")
            body, divs = translate_target(t)
            DIV_SITES[t["lean"]] = divs
            text = header(t, "division sites (a zero divisor is ZeroDivisionError in Python, 0 here): " + ("; ".join(divs) or "none")) + body + "\nend P0f.Gen\n"
        except NotTranslatable as e:
            UNAVAILABLE.append(f"{t['module']}.{t['func']}: {e}")
            text = alias_text(str(e).replace("-/", "- /"))
        except Exception as e:  # noqa: BLE001 - a construct the translator trips over is outside its fragment, never a crash of the check
            UNAVAILABLE.append(f"{t['module']}.{t['func']}: translator error {type(e).__name__}: {e}")
            text = alias_text(f"translator error {type(e).__name__}")
        path = os.path.join(OUTDIR, t["file"] + ".lean")
        old = open(path).read() if os.path.exists(path) else None
        if old != text:
            open(path, "w").write(text)
            changed = True
            if check and "NOT TRANSLATABLE" not in text:
                ok, out = _elaborates(path)
                if not ok:
                    UNAVAILABLE.append(f"{t['module']}.{t['func']}: the printed definition does not elaborate in Lean ({out.strip().splitlines()[0][:160] if out.strip() else ''})")
                    open(path, "w").write(alias_text("the printed definition does not elaborate in Lean"))
    return changed


if __name__ == "__main__":
    ch = regenerate()
    print("changed" if ch else "unchanged")
    for u in UNAVAILABLE:
        print("not translatable:", u)
