"""ops: uptime, roundfreq, (later) mtu"""
import time as _time
from . import impl
from .impl import P


class FakeClock:
    def __init__(self, ms):
        self.ms = ms

    def __enter__(self):
        self.o_ns, self.o_t = _time.time_ns, _time.time
        _time.time_ns = lambda: self.ms * 10**6
        _time.time = lambda: self.ms / 1000.0
        return self

    def __exit__(self, *a):
        _time.time_ns, _time.time = self.o_ns, self.o_t


def flags_str(v):
    return "".join(c for i, c in enumerate("FSRPAUECN") if v >> i & 1)


def op_uptime(f):
    p = P()
    from scapy.layers.inet import IP, TCP
    flags, frag, ts_prev, ts_now, ms = int(f[1]), int(f[2]), int(f[3]), int(f[4]), int(f[5])
    opts = p["Options"](min_timestamp_scale=int(f[6]) / int(f[7]), max_timestamp_scale=int(f[8]) / int(f[9]),
                        min_timestamp_wait=int(f[10]), max_timestamp_wait=int(f[11]), timestamp_grace=int(f[12]))
    clock = FakeClock(1_700_000_000_000)
    with clock:
        p0 = IP() / TCP(flags="A", seq=1, options=[("Timestamp", (ts_prev, 0))])
        last = p["TCPPacketSignature"].from_packet(p["parse_packet"](p0))
        clock.ms += ms
        ipkw = {"flags": "MF"} if frag == 1 else ({"frag": 7} if frag == 2 else {})
        p1 = IP(**ipkw) / TCP(flags=flags, seq=1, options=[("Timestamp", (ts_now, 0))])
        r = p["F"].fingerprint_uptime(p1, last, options=opts)
    if r.uptime is None:
        if r.tps is None:
            return "none"
        return "bad" if r.tps == -1 else f"tps-without-uptime {r.tps}"
    u = r.uptime
    if r.tps != u.frequency:
        return f"tps {r.tps} != frequency {u.frequency}"
    return f"v {float(u.raw_frequency).hex()} {u.frequency} {u.total_minutes} {u.modulo_days}"


def op_roundfreq(f):
    p = P()
    n = int(f[1])
    a = p["R"].uptime.round_frequency(float(n)) if hasattr(p["R"], "uptime") else None
    from pyp0f.fingerprint.results.uptime import round_frequency
    a = round_frequency(float(n))
    b = round_frequency(n + 0.999)
    return str(a) if a == b else f"{a} but {b} for {n}.999"


impl.OPS["uptime"] = op_uptime
impl.OPS["roundfreq"] = op_roundfreq
