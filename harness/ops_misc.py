"""ops: uptime, roundfreq, (later) mtu"""
import time as _time
from . import impl
from .impl import P


class FakeClock:
    def __init__(self, ms, sub_ns=0):
        self.ms = ms
        self.sub_ns = sub_ns      # position inside the millisecond (0..999999 ns): the millisecond reading must not depend on it

    def __enter__(self):
        self.o_ns, self.o_t = _time.time_ns, _time.time
        _time.time_ns = lambda: self.ms * 10**6 + self.sub_ns
        _time.time = lambda: (self.ms * 10**6 + self.sub_ns) / 1e9
        return self

    def __exit__(self, *a):
        _time.time_ns, _time.time = self.o_ns, self.o_t


def flags_str(v):
    return "".join(c for i, c in enumerate("FSRPAUECN") if v >> i & 1)


def op_uptime(f):
    p = P()
    from scapy.layers.inet import IP, TCP
    flags, frag, ts_prev, ts_now, ms = int(f[1]), int(f[2]), int(f[3]), int(f[4]), int(f[5])
    opts = p["Options"](min_timestamp_scale=int(f[6]) / int(f[7]), max_timestamp_scale=int(f[8]) / int(f[9]),
                        min_timestamp_wait=int(f[10]), max_timestamp_wait=int(f[11]), timestamp_grace=int(f[12]))
    clock = FakeClock(1_700_000_000_000, int(f[13]) if len(f) > 13 and f[13] else 0)
    with clock:
        p0 = IP() / TCP(flags="A", seq=1, options=[("Timestamp", (ts_prev, 0))])
        last = p["TCPPacketSignature"].from_packet(p["parse_packet"](p0))
        clock.ms += ms
        ipkw = {"flags": "MF"} if frag == 1 else ({"frag": 7} if frag == 2 else {})
        p1 = IP(**ipkw) / TCP(flags=flags, seq=1, options=[("Timestamp", (ts_now, 0))])
        r = p["F"].fingerprint_uptime(p1, last, options=opts)
    if r.uptime is None:
        if r.tps is None:
            return "none"
        return "bad" if r.tps == -1 else f"tps-without-uptime {r.tps}"
    u = r.uptime
    if r.tps != u.frequency:
        return f"tps {r.tps} != frequency {u.frequency}"
    return f"v {float(u.raw_frequency).hex()} {u.frequency} {u.total_minutes} {u.modulo_days}"


def op_roundfreq(f):
    p = P()
    n = int(f[1])
    a = p["R"].uptime.round_frequency(float(n)) if hasattr(p["R"], "uptime") else None
    from pyp0f.fingerprint.results.uptime import round_frequency
    a = round_frequency(float(n))
    b = round_frequency(n + 0.999)
    return str(a) if a == b else f"{a} but {b} for {n}.999"


impl.OPS["uptime"] = op_uptime
impl.OPS["roundfreq"] = op_roundfreq


# ---------------------------------------------------------------------------------------------
# MTU
# ---------------------------------------------------------------------------------------------
def mtu_db(values):
    from .ops_wire import db_from_text
    text = "[mtu]\n" + "".join(f"label = L{i}\nsig = {v}\n" for i, v in enumerate(values))
    return db_from_text(text)


def op_fpmtu(f):
    p = P()
    from .ops_wire import scapy_from
    vals = impl.ints(f[3])
    db = mtu_db(vals)
    r = p["F"].fingerprint_mtu(scapy_from(f[1], bytes.fromhex(f[2])), options=p["Options"](database=db))
    m = "none" if r.match is None else r.match.label.name[1:]
    if r.match is not None and r.match.signature.mtu != r.packet_signature.mtu:
        return "match-with-different-mtu"
    return f"mtu={r.packet_signature.mtu} match={m}"


def tok_to_opt(t):
    k, rest = t[0], t[1:]
    if k == "E":
        return ("EOL", None)
    if k == "N":
        return ("NOP", None)
    if k == "S":
        return ("SAckOK", b"")
    if k == "M":
        return ("MSS", int(rest))
    if k == "W":
        return ("WScale", int(rest))
    if k == "K":
        return ("SAck", b"\x00" * int(rest))
    if k == "T":
        a, b = rest.split(".")
        return ("Timestamp", (int(a), int(b)))
    if k == "R":
        a, b = rest.split(".")
        return (int(a), b"\x00" * int(b))
    raise ValueError(t)


def opt_to_tok(o):
    n, v = o
    if n == "EOL":
        return "E"
    if n == "NOP":
        return "N"
    if n == "SAckOK":
        return "S"
    if n == "MSS":
        return f"M{v}"
    if n == "WScale":
        return f"W{v}"
    if n == "SAck":
        return f"K{len(v)}"
    if n == "Timestamp":
        return f"T{v[0]}.{v[1]}"
    if isinstance(n, int):
        return f"R{n}.{len(v)}"
    return f"?{n}"


def op_impmtu(f):
    p = P()
    from scapy.layers.inet import IP, TCP
    from scapy.layers.inet6 import IPv6
    ver = f[1]
    opts = [tok_to_opt(t) for t in f[2].split(",")] if f[2] else []
    top = IP(src="10.0.0.1", dst="10.0.0.2", ttl=61, id=77, tos=4) if ver == "4" else IPv6(src="::1", dst="::2", hlim=61, fl=5)
    wrap = f[4] if len(f) > 4 else ""
    if "h" in wrap and ver == "6":
        from scapy.layers.inet6 import IPv6ExtHdrHopByHop
        top = top / IPv6ExtHdrHopByHop()
    if "d" in wrap and ver == "6":
        from scapy.layers.inet6 import IPv6ExtHdrDestOpt
        top = top / IPv6ExtHdrDestOpt()
    if "e" in wrap:
        from scapy.layers.l2 import Ether
        top = Ether() / top
    base = top / TCP(sport=1234, dport=80, flags="S", seq=99, window=1111, options=list(opts))
    if len(bytes(base[TCP])) - 20 > 40 - (0 if any(o[0] == "MSS" for o in opts) else 4):
        return "SKIP options-do-not-fit"
    if "f" in wrap or "t" in wrap:
        # the base has a history, as in an application: sniffed, inspected (MTU / TCP fingerprint of this very object), then impersonated
        for fn in ([p["F"].fingerprint_mtu] if "f" in wrap else []) + ([p["F"].fingerprint_tcp] if "t" in wrap else []):
            try:
                fn(base, options=p["Options"](database=mtu_db([1500])))
            except (p["E"].PacketError, p["E"].DatabaseError):
                pass
    before = {k: v for k, v in base[TCP].fields.items() if k != "options"}
    before_ip = dict(base.fields)
    out = p["I"].impersonate_mtu(base, raw_signature=f[3])
    if "2" in wrap:
        # impersonated twice, the second request is the one that counts
        out = p["I"].impersonate_mtu(out, raw_signature=f[3])
    same = out is base and {k: v for k, v in out[TCP].fields.items() if k != "options"} == before and dict(out.fields) == before_ip
    toks = ",".join(opt_to_tok(o) for o in out[TCP].options)
    db = mtu_db([1500])
    try:
        r = p["F"].fingerprint_mtu(out, options=p["Options"](database=db))
        fp = str(r.packet_signature.mtu)
    except p["E"].PacketError:
        fp = "ERR_packet"
    return f"opts={toks} same={1 if same else 0} fp={fp}"


impl.OPS["fpmtu"] = op_fpmtu
impl.OPS["impmtu"] = op_impmtu
