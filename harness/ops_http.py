"""ops: httpread, httpall, sighttp, hmatch, fphttp"""
from . import impl
from .impl import P


def hdrs_str(hs):
    return "[" + ",".join(h.name.hex() + "=" + h.value.hex() for h in hs) + "]"


def op_httpread(f):
    from pyp0f.net.layers.http.read import read_payload
    p = P()
    raw = bytes.fromhex(f[1])
    d, v, hs = read_payload(raw)
    ans = f"{'req' if d == p['Direction'].CLIENT_TO_SERVER else 'resp'} {v} {hdrs_str(hs)}"
    # every kind of buffer the API accepts denotes the same message, also when the same buffer object is read again
    from h11._receivebuffer import ReceiveBuffer
    rb = ReceiveBuffer()
    rb += raw
    ba = bytearray(raw)
    for name, buf in (("ReceiveBuffer", rb), ("ReceiveBuffer read again", rb), ("bytearray", ba), ("bytearray read again", ba)):
        try:
            d2, v2, hs2 = read_payload(buf)
            a2 = f"{'req' if d2 == p['Direction'].CLIENT_TO_SERVER else 'resp'} {v2} {hdrs_str(hs2)}"
        except p["E"].PacketError:
            a2 = "ERR packet"
        if a2 != ans:
            return f"DIFFERS({name}: {a2[:80]}) {ans}"
    return ans


def op_httpall(f):
    """C04: fingerprint_http on arbitrary bytes (bytes, bytearray and ReceiveBuffer inputs): category + executed lines"""
    from .ops_wire import LineCounter, db_from_text, SMALL_DB, cat_of
    from h11._receivebuffer import ReceiveBuffer
    p = P()
    raw = bytes.fromhex(f[1])
    opts = p["Options"](database=db_from_text(SMALL_DB))
    with LineCounter() as lc:
        c = cat_of(lambda: p["F"].fingerprint_http(raw, options=opts))
    c2 = cat_of(lambda: p["F"].fingerprint_http(bytearray(raw), options=opts))
    rb = ReceiveBuffer()
    rb += raw
    c3 = cat_of(lambda: p["F"].fingerprint_http(rb, options=opts))
    if not (c == c2 == c3):
        return f"http={c}/{c2}/{c3} lines={lc.n} len={len(raw)}"
    return f"http={c} lines={lc.n} len={len(raw)}"


def opt_bytes(b):
    return "-" if b is None else "=" + b.hex()


def op_sighttp(f):
    from .ops_db import txt
    s = P()["HTTPSignature"].parse(txt(f[1]))
    hs = ",".join(("?" if h.is_optional else "") + h.name.hex() + opt_bytes(h.value) for h in s.headers)
    # the absent set is unordered: sort it; the model sorts too via canon
    ab = ",".join(sorted(a.hex() for a in s.absent_headers))
    return f"v={s.version} h=[{hs}] absent=[{ab}] sw={opt_bytes(s.expected_software)}"


def op_hmatch(f):
    from .ops_db import txt
    from pyp0f.net.layers.http.read import read_payload
    from pyp0f.net.signatures import HTTPPacketSignature
    p = P()
    s = p["HTTPSignature"].parse(txt(f[1]))
    d, v, hs = read_payload(bytes.fromhex(f[2]))
    k = HTTPPacketSignature(v, hs)
    return f"sig={1 if p['FH'].http_signatures_match(s, k) else 0} hdr={1 if p['FH'].headers_match(s.headers, k.headers) else 0}"


def op_fphttp(f):
    from .ops_db import txt
    from .ops_wire import db_from_text
    p = P()
    nreq, nresp = int(f[2]), int(f[3])
    lines = []
    rec_line = {}
    for sec, lo, hi in (("request", 0, nreq), ("response", nreq, nreq + nresp)):
        lines.append(f"[http:{sec}]")
        for i in range(lo, hi):
            lines.append(f"label = {'g' if f[4 + 2 * i] == '1' else 's'}:unix:R{i}:")
            lines.append("sig = " + txt(f[5 + 2 * i]))
            rec_line[len(lines)] = i
    try:
        db = db_from_text("\n".join(lines) + "\n")
    except p["E"].ParsingError:
        return "ERR sig"
    r = p["F"].fingerprint_http(bytes.fromhex(f[1]), options=p["Options"](database=db))
    from pyp0f.net.layers.http.read import read_payload
    d = read_payload(bytes.fromhex(f[1]))[0]
    m = "none" if r.match is None else str(rec_line.get(r.match.line_number, f"line{r.match.line_number}"))
    return f"{'req' if d == p['Direction'].CLIENT_TO_SERVER else 'resp'} {r.packet_signature.version} match={m} dishonest={1 if r.dishonest else 0}"


for n, fn in (("httpread", op_httpread), ("httpall", op_httpall), ("sighttp", op_sighttp), ("hmatch", op_hmatch), ("fphttp", op_fphttp)):
    impl.OPS[n] = fn
