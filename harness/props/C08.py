"""C08 - MTU fingerprint and MTU impersonation.  Ops: fpmtu (API level, wire bytes + MTU database), impmtu (API level, Scapy base packets)."""
import struct
from .. import wiregen

RULE = ("fpmtu ops: byte-level SYN / SYN+ACK / other-flag / fragment packets with an MSS option (boundary + random MSS, both IP versions; thorough: all 65535 values x 2 versions) "
        "against MTU databases with duplicates and misses; observable (mtu, index of the matched record) or PacketError. impmtu ops: base option lists of 0..7 entries with 0..2 MSS "
        "entries (incl. MSS 0), any position, EOL/garbage around, x MTU values incl. the smallest that leaves a positive MSS; observable: resulting option list, all other fields "
        "untouched, MTU fingerprint of the result. Non-trivial = accepted packet / option list that fits 40 bytes.")
ASSUMPTIONS = ["Scapy's encoding of option tuples is modelled (SOpt.encode) and checked by this very correspondence",
               "base option lists are limited to what fits the 40-byte option area after adding an MSS option"]
NONTRIVIAL_FLOOR = 2000


def mk(r, ver, mss, flags=2, frag_fl=2, extra=b"", ipopts=b""):
    opts = (b"\x02\x04" + struct.pack("!H", mss) if mss is not None else b"") + extra
    opts += b"\x01" * (-len(opts) % 4)
    tcp = wiregen.tcp_header(r, flags=flags, opts=opts, res=0, seq=1, ack=0, urp=0)
    if ver == "4":
        return wiregen.ipv4(r, tcp, ipopts=ipopts, fl=frag_fl, ident=1)
    return wiregen.ipv6(r, tcp)


def run(ctx):
    r = ctx.rng
    ops = []
    dbs = ["1500", "1500,576,1500", "", "1492,1500,65535,41,61,1", "576,1500,1500,9000"]
    msss = [1, 2, 99, 100, 536, 1440, 1452, 1460, 1461, 8960, 65494, 65495, 65496, 65535, 0]
    if not ctx.quick():
        msss = list(range(0, 65536))
    else:
        msss += [r.randrange(65536) for _ in range(1500)]
    for mss in msss:
        for ver in "46":
            ops.append("fpmtu\t%s\t%s\t%s" % (ver, mk(r, ver, mss, flags=r.choice([2, 0x12])).hex(), r.choice(dbs + (["%d" % (mss + 40), "%d,%d" % (mss + 60, mss + 40)] if 0 < mss <= 65535 - 60 else []))))
    # IPv4 headers with options (IHL 6..15): the MTU is still MSS + 40
    for n in range(0, 11):
        for mss in (1460, 1452, 536, 1460 - 4 * n):
            ops.append("fpmtu\t4\t%s\t%s" % (mk(r, "4", mss, ipopts=b"\x01" * (4 * n)).hex(), "1500,1492,%d,%d" % (mss + 40, mss + 40 + 4 * n)))
    for flags in range(512):
        ops.append("fpmtu\t4\t%s\t1500" % mk(r, "4", 1460, flags=flags).hex())
    for fl in range(8):
        ops.append("fpmtu\t4\t%s\t1500" % mk(r, "4", 1460, frag_fl=fl).hex())
    for ver in "46":
        ops.append("fpmtu\t%s\t%s\t1500" % (ver, mk(r, ver, None).hex()))
        ops.append("fpmtu\t%s\t%s\t1500" % (ver, mk(r, ver, 1460, extra=b"\x02\x04\x00\x00").hex()))   # later MSS 0 wins
        ops.append("fpmtu\t%s\t%s\t1500" % (ver, mk(r, ver, 0, extra=b"\x02\x04\x05\xb4").hex()))
        ops.append("fpmtu\t%s\t%s\t1500" % (ver, mk(r, ver, None, extra=b"\x02\x03\x05\x01").hex()))    # malformed MSS
    ctx.correspond(ops, nontrivial=lambda l, a: a.startswith("mtu="), label="fpmtu", tagger=lambda l, a: "ERR" if a.startswith("ERR") else ("hit" if "match=none" not in a else "miss"))
    ctx.notes["exhaustive_subdomains"] = ["all 512 TCP flag values", "all 8 IPv4 flag combinations", "IPv4 header lengths 20..60"] + (["all MSS 0..65535 x both versions"] if not ctx.quick() else [])
    # API level: the MTU section written as database TEXT - header repeated, other sections in between, duplicates
    ops = []
    hx = lambda t: t.encode().hex()
    for _ in range(ctx.n(2500, 50000)):
        vals = [r.choice([1500, 1492, 1400, 1300, 576, 1500]) for _ in range(r.randint(1, 6))]
        lines, open_sec = [], False
        for i, v in enumerate(vals):
            if not open_sec or r.random() < 0.35:
                if open_sec and r.random() < 0.5:
                    lines += ["[tcp:request]", "label = s:unix:X:", "sig = *:64:0:*:*,*:mss:df,id+:0"]
                lines.append("[mtu]")
                open_sec = True
            lines += [f"label = L{i}", f"sig = {v}"]
        ver = r.choice("46")
        mss = r.choice(vals + [1234]) - (40 if ver == "4" else 60)
        ops.append("histq\tL:" + hx("\n".join(lines) + "\n") + "\tM:%s:%s" % (ver, mk(r, ver, mss, flags=r.choice([2, 0x12])).hex()))
    ctx.correspond(ops, nontrivial=lambda l, a: "match=" in a and "match=none" not in a, label="fpmtu-db-text", tagger=lambda l, a: a.split(" ; ")[-1][:22])
    # impersonation
    ops = []
    pool = ["N", "N", "S", "W7", "W0", "T5.0", "T0.9", "K8", "K16", "E", "R77.0", "R254.2", "M1460", "M0", "M536", "M65535"]
    mtus = [41, 61, 62, 100, 576, 1500, 1492, 9000, 65535, 40, 60, 1]
    for _ in range(ctx.n(25000, 150000)):    # ~10 ms per op (Scapy builds and dissects the packet): 150 000 keep the thorough tier under half an hour
        n = r.randrange(0, 8)
        opts = [r.choice(pool) for _ in range(n)]
        if r.random() < 0.5:
            opts = [o for o in opts if o[0] != "M"]
        ver = r.choice("46")
        hdr = 40 if ver == "4" else 60
        m = r.choice(mtus) if r.random() < 0.5 else r.randrange(hdr + 1, 65536)
        if m <= hdr:
            m = hdr + 1
        # the base as the application has it: bare, under an Ethernet header, IPv6 with extension headers before TCP
        ops.append("impmtu\t%s\t%s\t%d\t%s" % (ver, ",".join(opts), m, r.choice(["", "", "e", "h", "d", "hd", "eh", "f", "f", "t", "ft", "ef", "f2", "hf"])))
    # every single-option base and every position of one MSS among NOPs
    for o in pool:
        for ver in "46":
            ops.append("impmtu\t%s\t%s\t1500" % (ver, o))
    for k in range(6):
        base = ["N"] * 5
        base.insert(k, "M1400")
        ops.append("impmtu\t4\t%s\t576" % ",".join(base))
    res = ctx.correspond(list(dict.fromkeys(ops)), nontrivial=lambda l, a: a.startswith("opts="), label="impmtu",
                         tagger=lambda l, a: "skip" if a.startswith("SKIP") else ("fp-ok" if "ERR" not in a else "fp-err"))
    # property oracle on the implementation's own output: MTU fingerprint of the result is m, all other options kept
    # in order, other fields untouched - whenever every entry before the first MSS is one the option walk skips
    # (an EOL in front of the MSS hides it from any TCP stack; replacing "in place" cannot help there)
    for line, a, b in res:
        if not a.startswith("opts="):
            continue
        f = line.split("\t")
        base = f[2].split(",") if f[2] else []
        m = int(f[3])
        kv = dict(x.split("=", 1) for x in a.split(" "))
        out = kv["opts"].split(",") if kv["opts"] else []
        hdr = 40 if f[1] == "4" else 60
        if [o for o in out if o[0] != "M"] != [o for o in base if o[0] != "M"]:
            ctx.fail("options other than MSS changed: %s -> %s" % (base, out), op=line, impl=a, model=b)
        if any(o[0] == "M" for o in base) and [o[0] == "M" for o in out] != [o[0] == "M" for o in base]:
            ctx.fail("MSS option not replaced in place: %s -> %s" % (base, out), op=line, impl=a, model=b)
        if kv["same"] != "1":
            ctx.fail("fields other than TCP options were touched", op=line, impl=a, model=b)
        before_first = []
        for o in (out if any(x[0] == "M" for x in base) else []):
            if o[0] == "M":
                break
            before_first.append(o)
        reachable = all(o[0] != "E" for o in before_first)
        if reachable and kv["fp"] != str(m):
            ctx.fail("MTU fingerprint of the impersonated packet is %s, requested %d" % (kv["fp"], m), op=line, impl=a, model=b)
