"""C07 - HTTP payload parsing.  Ops: httpread (function level read_payload), fphttp for the API level."""
from .. import httpgen

RULE = ("httpread ops: grammar-generated HTTP/1.x messages (GET/HEAD requests and status lines, minor versions 0-9, 0-8 headers with repeated names, empty values, folded lines, "
        "per-line CRLF / LF, bodies containing blank lines) and every single-defect corruption of them; the parsed (direction, minor version, header list) is compared with the "
        "model AND, for generated messages, with the header list the generator wrote (oracle). Non-trivial = accepted message with at least one header, or a rejected one.")
ASSUMPTIONS = ["h11 0.16.0 maybe_extract_lines is modelled from its source (scanner up to the first LF CR? LF), not verified"]
NONTRIVIAL_FLOOR = 3000


def hx(b):
    return b.hex()


def expect_str(parsed):
    req, minor, hdrs = parsed
    return "%s %d [%s]" % ("req" if req else "resp", minor, ",".join(n.hex() + "=" + v.hex() for n, v in hdrs))


def run(ctx):
    r = ctx.rng
    ops, exp = [], {}
    for _ in range(ctx.n(40000, 900000)):
        raw, parsed = httpgen.message(r, fold=r.choice([0, 0.05, 0.3]))
        op = "httpread\t" + hx(raw)
        ops.append(op)
        exp[op] = expect_str(parsed)
    res = ctx.correspond(ops, nontrivial=lambda l, a: a.startswith("ERR") or "=" in a, label="wellformed", tagger=lambda l, a: a.split(" ")[0])
    for line, a, b in res:
        if a != exp[line]:
            ctx.fail("parsed result differs from what the message says: got %s, message holds %s" % (a, exp[line]), op=line, impl=a, model=b)
    ops = []
    for _ in range(ctx.n(40000, 900000)):
        raw, parsed = httpgen.message(r)
        for _k in range(r.choice([1, 1, 2])):
            raw = httpgen.corrupt(r, raw)
        ops.append("httpread\t" + hx(raw))
    ctx.correspond(ops, nontrivial=lambda l, a: True, label="corrupted", tagger=lambda l, a: a.split(" ")[0] + (" " + a.split(" ")[1] if a.startswith("E") else ""))
