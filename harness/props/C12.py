"""C12 - fingerprinting and TCP impersonation never modify the caller's objects.
Op: frame - call sequences on real Scapy packets / buffers / Database with deep before-after snapshots."""
import struct
from .. import dbgen, wiregen
from .C09 import hx
from .C11 import DB_A, HTTP_REQ, HTTP_RESP

RULE = ("frame ops: sequences of 4..14 calls (fingerprint_tcp / mtu / uptime, fingerprint_http on bytes / bytearray / ReceiveBuffer, impersonate_tcp by signature and by label, "
        "impersonate_mtu) on caller objects of every construction: packets dissected from bytes, dissected with automatic fields (chksum, len, ihl, dataofs, plen) unset, "
        "built field by field, under an Ethernet header, with payload, with IP options, SYN / SYN+ACK / other flags / fragments (calls that raise included). Before every call a "
        "field-level snapshot (per layer: object identity, explicit fields deep-copied, overloaded fields, raw packet cache) and a Scapy deep copy are taken; afterwards fields, "
        "identities, bytes(packet) and packet.command() must be unchanged (impersonate_mtu: only TCP.options of its argument), buffers byte-identical and unconsumed, "
        "impersonate_tcp's result must share no layer object with its input, and the database dump plus the identity and repr of every record / label / signature must be unchanged. "
        "Non-trivial = sequence containing an impersonation or an unset-field packet.")
ASSUMPTIONS = ["the theorem side (call_frame / impMtu_frame / run_frame over the explicit store) fixes the footprint the snapshots are compared against; Python aliasing inside Scapy is observed, not modelled"]
NONTRIVIAL_FLOOR = 400

SIGS = ["*:64:0:*:mss*4,*:mss,nop,ws:df,id+:0", "4:128:0:1460:8192,0:mss,nop,nop,sok:df,id+:+", "*:64:0:*:*,*:mss,sok,ts,nop,ws::*", "6:64:0:*:%8192,*:mss:flow:0",
        "*:255:4:*:1024,*:?77,sack,eol+2:seq-,ack+,pushf+,ecn:0", "bogus", "*:64:0:*:mss*10,*:mss,sok,ts,nop,ws:df,id+,ts1-:0"]
# the very texts the loaded database holds: an impersonation by raw_signature must not reach the database's own objects
SIGS += [l.split("=", 1)[1].strip() for l in DB_A.splitlines() if l.startswith("sig") and l.count(":") == 7]
LABELS = ["s:unix:Linux:3.x", "g:unix:Linux:2.2.x-3.x", "nope"]


def packet(r):
    ver = r.choice(["4", "4", "6"])
    flags = r.choice([0x02, 0x12, 0x02, 0x12, 0x10, 0x18, 0x04, 0xc2, 0x29])
    opts = wiregen.option_area(r) if r.random() < 0.5 else b"\x02\x04\x05\xb4\x04\x02\x08\x0a\x00\x00\x30\x39\x00\x00\x00\x00\x01\x03\x03\x07"
    payload = r.choice([b"", b"", b"hello", b"GET / HTTP/1.1\r\n\r\n"])
    tcp = wiregen.tcp_header(r, flags=flags, opts=opts[:40], payload=payload, res=0)
    trailer = r.choice([b"", b"", b"\x00" * 6, b"\x00\x00\xde\xad\xbe\xef", b"\x00" * 18])     # frame padding / FCS beyond the IP length
    raw = wiregen.ipv4(r, tcp, frag=r.choice([0, 0, 0, 0, 5]), trailer=trailer) if ver == "4" else wiregen.ipv6(r, tcp, trailer=trailer)
    return f"{r.choice('dduuce')}.{ver}.{raw.hex()}"


def run(ctx):
    r = ctx.rng
    ops = []
    nt = set()
    for _ in range(ctx.n(2500, 50000)):
        steps = []
        interesting = False
        for _s in range(r.randint(4, 14)):
            c = r.random()
            if c < 0.35:
                ps = packet(r)
                steps.append(f"{r.choice('TMU')}:{ps}")
                interesting |= ps[0] in "uc"
            elif c < 0.5:
                steps.append("H:" + r.choice([HTTP_REQ, HTTP_RESP, HTTP_REQ[:20], b"\r\n\r\n", HTTP_REQ + b"body", b""]).hex() + ":" + r.choice("yab"))
            elif c < 0.72:
                steps.append(f"I:{packet(r)}:{hx(r.choice(SIGS))}:{r.choice([0, 0, 1, 3])}")
                interesting = True
            elif c < 0.84:
                steps.append(f"K:{packet(r)}:{hx(r.choice(LABELS))}:{r.choice([0, 1, 2, 5])}")
                interesting = True
            else:
                steps.append(f"J:{packet(r)}:{r.choice([1500, 1492, 576, 65535, 41, 40, 1])}")
                interesting = True
        line = "frame\t" + hx(DB_A) + "\t" + "\t".join(steps)
        ops.append(line)
        if interesting:
            nt.add(line)
    res = ctx.correspond(ops, nontrivial=lambda l, a: l in nt, label="call-sequences", tagger=lambda l, a: "CHANGED" if "CHANGED" in a else "ok")
    n = 0
    for line, a, b in res:
        for st, x in zip(line.split("\t")[2:], a.split(" ; ")):
            ctx.hist[f"step:{st[0]}:{st.split(':')[1][0] if st[0] != 'H' else st.split(':')[-1]}"] += 1
            n += 1
    ctx.notes["calls_snapshotted"] = n
