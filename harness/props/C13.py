"""C13 - uptime arithmetic.  Ops: uptime (API level: real packets, fingerprint_uptime, controlled clock), roundfreq."""
from fractions import Fraction

RULE = ("uptime ops: (tcp flags 9 bit, fragment kind, previous ts, current ts, elapsed ms, thresholds as fractions) through real Scapy packets and "
        "fingerprint_uptime with time.time_ns controlled; boundary pools for timestamps (wrap-around, 2^31), elapsed (24,25,99,100,101,600000,600001, <=0), "
        "ticks chosen so that ticks*1000 = threshold*ms exactly and +-1; all 512 flag values x fragment kinds; round_frequency for every integer 0..3000 (+ .999). "
        "Non-trivial = packet accepted and both timestamps non-zero and elapsed inside the wait window.")
ASSUMPTIONS = ["float raw_frequency is compared with the correctly rounded value of the model's exact fraction; float threshold comparisons are modelled by exact rational ones (agreement argument DESIGN 3.4, exercised on the equality cases)",
               "thresholds in the documented domain: 0 < min_scale, min_wait >= 1, grace >= 1"]
NONTRIVIAL_FLOOR = 3000
DEF = (7, 10, 1500, 1, 25, 600000, 100)
T32 = 2**32


def op(flags, frag, a, b, ms, o=DEF, sub=0):
    # sub: where inside the millisecond (ns) both clock readings fall - the elapsed milliseconds must not depend on it
    return "\t".join(["uptime", str(flags), str(frag), str(a), str(b), str(ms)] + [str(x) for x in o] + ([str(sub)] if sub else []))


def canon_model(ans):
    if ans.startswith("v "):
        f = ans.split(" ")
        n, d = f[1].split("/")
        return " ".join(["v", (int(n) / int(d)).hex()] + f[2:])
    return ans


def nontriv(line, ans):
    return ans.startswith(("v ", "bad"))


def run(ctx):
    r = ctx.rng
    ops = []
    # gate: all flag values x fragment kinds
    for flags in range(512):
        for frag in (0, 1, 2):
            ops.append(op(flags, frag, 1000, 1100, 1000))
            if frag == 0:
                ops.append(op(flags, frag, 5000, 4000, 1000))
            # an unacceptable packet type / fragment is rejected whatever the timestamps are (zero included)
            ops.append(op(flags, frag, 0, 1100, 1000))
            ops.append(op(flags, frag, 1000, 0, 1000))
    ctx.correspond(ops, nontrivial=nontriv, label="gate", canon_model=canon_model)
    # boundaries
    ops = []
    tsp = [0, 1, 5, 1000, 2**31 - 1, 2**31, 2**31 + 1, T32 - 5, T32 - 1, 123456789]
    mss = [-5, 0, 1, 24, 25, 26, 99, 100, 101, 1000, 599999, 600000, 600001]
    deltas = [0, 1, 4, 5, 6, 100, 1000, 14999, 15000, 15001, 2**31 - 1, 2**31, 2**31 + 1, T32 - 15001, T32 - 15000, T32 - 14999, T32 - 1000, T32 - 5, T32 - 1]
    for a in tsp:
        for dl in deltas:
            for ms in mss:
                for fl in (0x10, 0x02):
                    ops.append(op(fl, 0, a, (a + dl) % T32, ms))
    # exact threshold hits: ticks*1000 = thr * ms
    for ms in (25, 30, 50, 100, 1000, 7000, 10000, 600000):
        for thr in (Fraction(7, 10), Fraction(1500), Fraction(1), Fraction(10), Fraction(11), Fraction(50), Fraction(51), Fraction(100), Fraction(101), Fraction(500), Fraction(501)):
            t = thr * ms / 1000
            for tk in {int(t) - 1, int(t), int(t) + 1}:
                if tk >= 0:
                    for a in (1, T32 - 3):
                        ops.append(op(0x12, 0, a, (a + tk) % T32, ms))
                        ops.append(op(0x12, 0, a, (a + tk) % T32, ms, sub=r.choice([999_950, 999_999, 999_813])))
    ops = list(dict.fromkeys(ops))
    ctx.correspond(ops, nontrivial=nontriv, label="boundary", canon_model=canon_model)
    # other thresholds
    ops = []
    grid = [(7, 10, 1500, 1, 25, 600000, 100), (1, 1, 1000, 1, 1, 1000, 1), (1, 1000, 999999, 1000, 5, 100, 50), (3, 2, 3, 2, 10, 10, 1000), (1, 2, 10**6, 1, 25, 10**7, 10**6),
            (7, 10, 1500, 1, 25, 600000, 1), (1, 4, 2000, 1, 1, 5000, 300)]
    for _ in range(ctx.n(40000, 900000)):
        o = r.choice(grid) if r.random() < 0.5 else DEF
        a = r.choice(tsp) if r.random() < 0.5 else r.randrange(T32)
        ms = r.choice(mss) if r.random() < 0.3 else r.randrange(1, 700000) if r.random() < 0.5 else r.randrange(1, 3000)
        c = r.random()
        if c < 0.3:
            dl = r.choice(deltas)
        elif c < 0.8:
            hz = r.choice([0.5, 0.7, 1, 9.99, 10, 11, 49, 50, 51, 99, 100, 101, 250, 499, 500, 501, 1000, 1499, 1500, 1501, 3000])
            dl = max(0, int(hz * ms / 1000) + r.choice([-1, 0, 0, 1]))
        else:
            dl = r.randrange(T32)
        ops.append(op(r.choice([0x10, 0x12, 0x02, 0x02, 0x18, 0x52]), 0, a, (a + dl) % T32, ms, o, sub=r.choice([0, 0, 0, 999_950, 999_999, 500_000, 1])))
    ctx.correspond(ops, nontrivial=nontriv, label="random", canon_model=canon_model)
    # rounding function, exhaustive
    ops = ["roundfreq\t%d" % n for n in list(range(0, 3001)) + [10**4, 10**5, 10**6, 123456]]
    ctx.correspond(ops, nontrivial=lambda l, a: True, label="roundfreq", tagger=lambda l, a: "x")
    ctx.notes["exhaustive_subdomains"] = ["round_frequency for all integers 0..3000", "all 512 TCP flag values x 3 fragment kinds"]
