"""C15 - records are addressable by the label text shown in the database.
Ops: label (Label.parse + dump), histq with D / R (get_random) / J (impersonate_mtu by label) steps."""
import struct
from .. import dbgen, wiregen
from .C09 import canon, hx, parse_dump

RULE = ("label ops: label texts type:class:name:flavour over an alphabet with spaces, punctuation, case variants, empty fields and surplus colons -> parsed fields and dump. "
        "histq ops: a generated database in which the same label text recurs across kinds (mtu / tcp / http) and directions, then for every label text of the file (and case / "
        "whitespace variants, and texts that occur nowhere) x every (kind, direction) one get_random lookup: the SET of records returned over >= 120 seeded draws (>= 40 per record "
        "of the section) must equal the model's candidate list, each returned record must carry exactly that label and kind; impersonate_mtu(raw_label=..) over the same draws must "
        "realise exactly the MTUs filed under the label. Oracle independent of the model: dumping every loaded record's label gives the text written in the file (4-part labels). "
        "Non-trivial = the lookup has at least one candidate.")
ASSUMPTIONS = ["'can return every such record' is decided by drawing: with >= 40 draws per record of the section the chance of missing a candidate is below 1e-16 per lookup",
               "label texts are ASCII"]
NONTRIVIAL_FLOOR = 1500


def variants(r, lab):
    out = [lab]
    if lab:
        out.append(lab.swapcase())
        out.append(lab.upper() if r.random() < 0.5 else lab.lower())
        out.append(lab + " ")
        out.append(" " + lab)
        out.append(lab[:-1])
        out.append(lab + ":")
    return out


def syn_pkt(r, ver="4", flags=0x02):
    opts = b"\x02\x04" + struct.pack("!H", 1400) + b"\x01\x01"
    tcp = wiregen.tcp_header(r, flags=flags, opts=opts, payload=b"", seq=7, ack=0 if flags == 2 else 5, urp=0, win=8192, res=0)
    return (wiregen.ipv4(r, tcp, ipopts=b"", tos=0, ident=1, fl=2, ttl=64) if ver == "4" else wiregen.ipv6(r, tcp, tc=0, fl=0, hlim=64)).hex()


def run(ctx):
    r = ctx.rng
    # 1. label texts
    ops = []
    for _ in range(ctx.n(20000, 300000)):
        k = r.random()
        if k < 0.7:
            t = dbgen.label(r)
        elif k < 0.85:
            t = ":".join(dbgen.word(r, 0, 6, "sg!:aB ._") for _ in range(r.randint(1, 6)))
        else:
            t = r.choice(["", "s", "g", "s:", ":::", "s:::", "g:!::", "x:unix:a:b", "S:unix:a:b", "s :unix:a:b", "s:unix:a:b:c:d", "sg:unix:a:b"])
        ops.append("label\t" + hx(t))
    res = ctx.correspond(ops, nontrivial=lambda l, a: not a.startswith("ERR"), label="label-texts", tagger=lambda l, a: "ERR" if a.startswith("ERR") else "ok")
    for line, a, b in res:
        t = bytes.fromhex(line.split("\t")[1]).decode("latin-1")
        if not a.startswith("ERR") and t.count(":") == 3:
            dump = bytes.fromhex(a.split("dump=")[1].split(" ")[0]).decode("latin-1")
            if dump != t:
                ctx.fail(f"a four-part label text does not dump back to itself: {t!r} -> {dump!r}", op=line, impl=a, model=b, extra={"stream": "dump-oracle"})
    # 2. lookups
    ops = []
    files = []
    for _ in range(ctx.n(4000, 40000)):
        f = dbgen.valid_file(r, fancy=False)
        if not f.sig_lines:
            continue
        text = f.text(term="\n")
        labels = sorted({x[1] for recs in f.expect.values() for x in recs})
        steps = ["L:" + hx(text), "D"]
        for lab in labels[:6]:
            for v in (variants(r, lab) if r.random() < 0.3 else [lab]):
                for kind, d in (("m", "n"), ("m", "q"), ("t", "q"), ("t", "s"), ("h", "q"), ("h", "s"), ("t", "n"), ("h", "n")):
                    if v is lab or r.random() < 0.4:
                        steps.append(f"R:{kind}:{d}:{hx(v)}")
            if "mtu" in f.expect and f.expect["mtu"] and all(41 <= int(x[3]) for x in f.expect["mtu"]):
                steps.append(f"J:4:{syn_pkt(r)}:{hx(lab)}")
                if r.random() < 0.3:
                    steps.append(f"J:6:{syn_pkt(r, '6')}:{hx(lab)}")
        steps.append("R:t:q:" + hx("s:unix:NoSuchThing:"))
        if r.random() < 0.35:
            # the same Database object loaded with another file: the lookups must follow the new contents
            g = dbgen.valid_file(r, fancy=False)
            steps.append("L:" + hx(g.text(term="\n")))
            labs2 = sorted({x[1] for recs in g.expect.values() for x in recs})
            for lab in (labels[:3] + labs2[:3]):
                for kind, d in (("m", "n"), ("t", "q"), ("t", "s"), ("h", "q"), ("h", "s")):
                    steps.append(f"R:{kind}:{d}:{hx(lab)}")
        ops.append("histq\t" + "\t".join(steps))
        files.append(f)
    res = ctx.correspond(ops, label="lookups", canon=canon, tagger=lambda l, a: "load-" + a.split(" ")[0])
    ncand = 0
    for f, (line, a, b) in zip(files, res):
        steps = line.split("\t")[1:]
        ans = a.split(" ; ")
        if len(ans) != len(steps):
            continue
        for s, x in zip(steps, ans):
            if s[0] in "RJ":
                key = "cands:" + ("none" if x.startswith("ERR") else ("one" if "," not in x else "several")) if s[0] == "R" else "mtu-by-label:" + ("none" if x.startswith("ERR") else "some")
                ctx.hist[key] += 1
                if not x.startswith("ERR"):
                    ncand += 1
                    ctx.nontrivial.add(line + s)
        # dump oracle on the loaded database: label text of the file
        if a.startswith("ok"):
            n, got = parse_dump(a.split(" ; ")[0] + " ; " + a.split(" ; ")[1])
            for sec in dbgen.SECTIONS:
                want = f.expect.get(sec)
                have = got.get(sec)
                if want is None or have is None:
                    continue
                for (ln, lab, sysv, raw), (ln2, lab2, raw2) in zip(want, have):
                    txt = lab2[1:].split("/")[0]
                    if bytes.fromhex(txt).decode("latin-1") != lab:
                        ctx.fail(f"record of line {ln}: label.dump() is {bytes.fromhex(txt)!r}, the file says {lab!r}", op=line, impl=a, model=b, extra={"stream": "dump-oracle"})
    ctx.notes["lookups_with_candidates"] = ncand
    # 3. impersonate_tcp(raw_label=..): the packet realises one of the signatures filed under the label for the base's direction
    from . import C05
    C05.label_cases(ctx, ctx.n(500, 10000))
