"""C14 - impersonation keeps the connection identity and every admissible hint.
Ops: imprun + impexplain (as C05).  The Lean model of impersonate_tcp is proved to keep identity / SYN nature / non-zero seq and to use a
hint exactly when it is admissible (Props/C14.lean); a run that the model cannot reproduce from in-range choices is therefore a run
in which the code departs from those rules."""
import struct
from .. import core, impgen, wiregen
from . import C05
from .C05 import hx

RULE = ("cases cross every wildcardable field of a signature (MSS *, scale * with / without exws, window * / mss*N / %N, timestamps with / without ts1- and ts2+, IPv4 id under df,id+ / "
        "no df / id-, payload * / + / 0, seq with / without seq-, ack+ / ack-) with base packets that carry for that field an admissible hint, an inadmissible hint, or none "
        "(MSS 0,1,99,100,101,16383,16384,16385,65535 against mss*N; scale 0,14,15,255; timestamps 0,1,2^32-1 on SYN and SYN+ACK; id 0 / non-0, dissected and built without an "
        "explicit id; payload present / absent), uptime given / not. Every run of the real impersonate_tcp is explained by the Lean model: the values the run drew are read off its "
        "output, must lie in the ranges the model draws from, and the model must then rebuild the output byte for byte - so a kept hint, an overridden hint, a replaced hint, the "
        "addresses, ports, flags and sequence number are all compared. A python oracle re-checks the identity clauses directly. Non-trivial = an explained run whose base carries "
        "at least one hint option.")
ASSUMPTIONS = C05.ASSUMPTIONS + ["'admissible hint' is defined semantically in Props/C14.lean (using it leaves the match exact) and proved equivalent to the range tests of the model"]
NONTRIVIAL_FLOOR = 1500
TRUSTED_EXTRA = C05.TRUSTED_EXTRA

classify = C05.classify

SIGS = ["*:64:0:*:mss*{n},*:mss,nop,ws:{q}:0", "*:64:0:*:*,*:mss,sok,ts,nop,ws:{q}:*", "*:128:0:*:%{m},*:mss,nop,nop,ts:{q}:0", "4:64:0:1460:mss*4,7:mss,sok,ts,nop,ws:{q}:0",
        "*:64:0:*:8192,*:ts,nop,nop:{q}:+", "*:255:0:*:*,*:mss,ws,ws,nop,nop:{q}:*", "*:64:0:*:*,0:mss,mss,ts,ts:{q}:0", "*:64:0:*:mss*{n},*:nop,nop,mss,sok:{q}:*",
        "6:64:0:*:*,*:mss,ts,nop,nop,ws,nop:{q}:*", "*:64:0:*:*,*:ws,nop,mss,sack,eol+1:{q}:0"]
QUIRKS = ["", "df,id+", "df", "id-", "ts1-", "ts2+", "df,id+,ts1-,ts2+", "exws", "seq-", "ack+", "ack-", "df,id+,exws,ts2+", "ecn", "flow", "0+", "uptr+", "pushf+,urgf+", "opt+"]
HINTS = {
    "mss": [None, 0, 1, 99, 100, 101, 536, 1460, 16383, 16384, 16385, 21845, 21846, 65535],
    "ws": [None, 0, 1, 13, 14, 15, 16, 255],
    "ts1": [None, 0, 1, 120, 2**32 - 1],
    "ts2": [None, 0, 1, 2**32 - 1],
}


def base(r, ver, syn_ack, mss, ws, ts1, ts2, ident, payload, seq, ack=None, trailer=b""):
    opts = b""
    if mss is not None:
        opts += b"\x02\x04" + struct.pack("!H", mss)
    if ws is not None:
        opts += b"\x03\x03" + bytes([ws])
    if ts1 is not None or ts2 is not None:
        opts += b"\x08\x0a" + struct.pack("!II", ts1 or 0, ts2 or 0)
    if r.random() < 0.3:
        opts = b"\x01" + opts + b"\x04\x02"
    opts += b"\x01" * (-len(opts) % 4)
    flags = (0x12 if syn_ack else 0x02) | r.choice([0, 0, 0x08, 0x40, 0xc0])
    tcp = wiregen.tcp_header(r, flags=flags, opts=opts, payload=payload, seq=seq, ack=(r.randrange(1, 2**32) if syn_ack else 0) if ack is None else ack, urp=0,
                             win=r.choice([0, 1, 8192, 65535, 31337]), res=0)
    if ver == "4":
        return wiregen.ipv4(r, tcp, ipopts=b"", tos=r.choice([0, 1, 0xb8]), ident=ident, fl=r.choice([0, 2, 4, 6]), ttl=64, trailer=trailer)
    return wiregen.ipv6(r, tcp, tc=r.choice([0, 3]), fl=r.choice([0, 9]), hlim=64, trailer=trailer)


def make_cases(ctx, n):
    r = ctx.rng
    cases = []
    while len(cases) < n:
        q = r.choice(QUIRKS)
        sig = r.choice(SIGS).format(n=r.choice([1, 2, 3, 4, 10, 44, 654, 655]), m=r.choice([2, 4, 512, 32768, 32769, 65535]), q=q)
        f = sig.split(":")
        ver = f[0] if f[0] != "*" else r.choice(["4", "6"])
        qs = q.split(",") if q else []
        if ver == "6" and set(qs) & {"df", "id+", "id-", "0+"}:
            if f[0] == "6":
                continue
            ver = "4"
        if ver == "4" and "flow" in qs:
            if f[0] == "4":
                continue
            ver = "6"
        if impgen.known_class(sig):
            continue
        syn_ack = r.random() < 0.5
        if "ts2+" in qs and "ack-" in qs:
            continue
        if "ts2+" in qs and syn_ack and "ack+" not in qs:
            syn_ack = False
        # exws needs a ws option whose scale can exceed 14: skip the combinations that are not satisfiable at all
        lay = f[5].split(",")
        if "exws" in qs and ("ws" not in lay or (f[4].split(",")[1] != "*" and int(f[4].split(",")[1]) <= 14)):
            continue
        if "opt+" in qs and not any(x.startswith("eol+") and x != "eol+0" for x in lay):
            continue
        if ("ts1-" in qs or "ts2+" in qs) and "ts" not in lay:
            continue
        kind = r.choice("dddec")
        # C14 speaks about ALL base packets: every eighth base has an ACK number that does not go with its ACK flag (a SYN
        # carrying one, a SYN+ACK without). C05's "must match exactly" does not apply to those (free=True); identity, hints
        # and the explanation by the model do.
        free = r.random() < 0.125
        ack = None
        if free:
            ack = 0 if syn_ack else r.choice([1, 5, 2**32 - 1])
        # frame padding / FCS beyond the IP datagram (only for packets dissected from bytes): it is not TCP payload
        trailer = r.choice([b"", b"", b"", b"\x00" * 6, b"\x00\x00\xde\xad\xbe\xef"]) if kind in "de" else b""
        b = base(r, ver, syn_ack, r.choice(HINTS["mss"]), r.choice(HINTS["ws"]), r.choice(HINTS["ts1"]), r.choice(HINTS["ts2"]),
                 1 if kind == "c" else r.choice([0, 0, 1, 4242, 65535]), r.choice([b"", b"", b"data"]), r.choice([0, 1, 77, 2**32 - 1]), ack=ack, trailer=trailer)
        cases.append(dict(sig=sig, ver=ver, base=b.hex(), kind=kind, hops=r.choice([0, 0, 1, 34]), uptime=r.choice(["-", "-", "-", "0", "77", "4294967296"]),
                          seed=r.randrange(2**31), origin="crossed", syn_ack=syn_ack, free=free))
    return cases


def identity_oracle(ctx, cases, res_lines):
    """addresses, ports, SYN nature, sequence number: checked directly on the bytes, independently of the model"""
    from ..runner import Failure
    for c, line in zip(cases, res_lines):
        f = line.split("\t")
        braw, oraw = bytes.fromhex(f[3]), bytes.fromhex(f[10])
        bv, ov = f[2], f[9]
        qs = c["sig"].split(":")[6].split(",")

        def parts(v, raw):
            if v == "4":
                ihl = (raw[0] & 15) * 4
                return raw[12:20], raw[ihl:ihl + 20], struct.unpack("!H", raw[4:6])[0]
            return raw[8:40], raw[40:60], None
        ba, bt, bid = parts(bv, braw)
        oa, ot, oid = parts(ov, oraw)
        problems = []
        if bv != ov or ba != oa:
            problems.append("addresses / IP version")
        if bt[0:4] != ot[0:4]:
            problems.append("ports")
        bflags, oflags = bt[13], ot[13]
        if (oflags & 0x02) != (bflags & 0x02):
            problems.append("SYN flag")
        if "ack+" not in qs and "ack-" not in qs and (oflags & 0x10) != (bflags & 0x10):
            problems.append("ACK flag (SYN vs SYN+ACK nature)")
        oseq, bseq = struct.unpack("!I", ot[4:8])[0], struct.unpack("!I", bt[4:8])[0]
        if "seq-" not in qs and (oseq == 0 or (bseq != 0 and oseq != bseq)):
            problems.append(f"sequence number {bseq} -> {oseq}")
        if problems:
            ctx.failures.append(Failure("property-failure", "impersonate_tcp did not keep: " + ", ".join(problems) + f" (signature {c['sig']!r})", op=line, extra={"sig": c["sig"], "stream": "identity-oracle"}))
        ctx.hist["identity-oracle:checked"] += 1


def walk_opts(b):
    """(kind, value) list of a TCP option area; value = int for MSS / WS, (ts1, ts2) for TS, None otherwise"""
    out, i = [], 0
    while i < len(b):
        k = b[i]
        if k == 0:
            break
        if k == 1:
            out.append((1, None))
            i += 1
            continue
        if i + 1 >= len(b) or b[i + 1] < 2:
            break
        ln = b[i + 1]
        body = b[i + 2:i + ln]
        if k == 2 and ln == 4:
            out.append((2, struct.unpack("!H", body)[0]))
        elif k == 3 and ln == 3:
            out.append((3, body[0]))
        elif k == 8 and ln == 10:
            out.append((8, struct.unpack("!II", body)))
        else:
            out.append((k, None))
        i += ln
    return out


def tcp_of(v, raw):
    off = (raw[0] & 15) * 4 if v == "4" else 40
    t = raw[off:]
    hl = (t[12] >> 4) * 4
    end = struct.unpack("!H", raw[2:4])[0] if v == "4" else 40 + struct.unpack("!H", raw[4:6])[0]
    return t[:hl], raw[off + hl:end]


def hint_oracle(ctx, cases, lines):
    """the hint rules of C14, straight from the statement, on the bytes of base and output (independent of the Lean model)"""
    from ..runner import Failure
    for c, line in zip(cases, lines):
        f = line.split("\t")
        bv, braw, hints, uptime, ov, oraw = f[2], bytes.fromhex(f[3]), f[4].split(","), f[7], f[9], bytes.fromhex(f[10])
        sf = c["sig"].split(":")
        qs = sf[6].split(",") if sf[6] else []
        win_f, _, sc_f = sf[4].partition(",")
        hi = [None if x == "-" else int(x) for x in hints]
        bt, bpay = tcp_of(bv, braw)
        ot, opay = tcp_of(ov, oraw)
        oopts = walk_opts(ot[20:])
        problems = []
        final_syn = not (ot[13] & 0x10)
        # MSS
        n = int(win_f[4:]) if win_f.startswith("mss*") else None

        def mss_ok(h):
            return 0 <= h <= 65535 and (n is None or (h >= 100 and h * n <= 65535))
        for k, v in oopts:
            if k == 2 and v is not None:
                if sf[3] != "*":
                    if v != int(sf[3]):
                        problems.append(f"MSS {v}: the signature fixes {sf[3]}")
                elif hi[0] is not None and mss_ok(hi[0]):
                    if v != hi[0]:
                        problems.append(f"admissible MSS hint {hi[0]} not kept (MSS {v})")
                elif hi[0] is not None and v == hi[0]:
                    problems.append(f"inadmissible MSS hint {hi[0]} used")
            if k == 3 and v is not None:
                def ws_ok(h):
                    return 0 <= h <= 255 and (("exws" in qs) == (h > 14))
                if sc_f != "*":
                    if v != int(sc_f):
                        problems.append(f"scale {v}: the signature fixes {sc_f}")
                elif hi[1] is not None and ws_ok(hi[1]):
                    if v != hi[1]:
                        problems.append(f"admissible scale hint {hi[1]} not kept (scale {v})")
                elif hi[1] is not None and v == hi[1]:
                    problems.append(f"inadmissible scale hint {hi[1]} used")
            if k == 8 and v is not None:
                t1, t2 = v
                up = None if uptime in ("-", "") else int(uptime)
                if "ts1-" in qs:
                    if t1 != 0:
                        problems.append("ts1- asked for, own timestamp non-zero")
                elif up is not None and 0 < up < 2**32:
                    if t1 != up:
                        problems.append(f"uptime {up} not used (ts1 {t1})")
                elif hi[2] is not None and 0 < hi[2] < 2**32:
                    if t1 != hi[2]:
                        problems.append(f"admissible own-timestamp hint {hi[2]} not kept (ts1 {t1})")
                elif t1 == 0:
                    problems.append("own timestamp zero without ts1-")
                if final_syn:
                    if "ts2+" in qs:
                        if hi[3] is not None and 0 < hi[3] < 2**32:
                            if t2 != hi[3]:
                                problems.append(f"admissible peer-timestamp hint {hi[3]} not kept (ts2 {t2})")
                        elif t2 == 0:
                            problems.append("ts2+ asked for, peer timestamp zero")
                    elif t2 != 0:
                        problems.append("peer timestamp non-zero on a SYN without ts2+")
                elif hi[3] is not None and 0 <= hi[3] < 2**32 and t2 != hi[3]:
                    problems.append(f"echoed timestamp {hi[3]} of a SYN+ACK not kept (ts2 {t2})")
        # window
        if win_f == "*" and ot[14:16] != bt[14:16]:
            problems.append("window of the base packet not kept with a '*' window")
        # IPv4 id
        if bv == "4":
            bid, oid = struct.unpack("!H", braw[4:6])[0], struct.unpack("!H", oraw[4:6])[0]
            free = ("df" in qs and "id+" in qs) or ("df" not in qs and "id-" not in qs)
            if free and bid != 0 and oid != bid:
                problems.append(f"IPv4 id {bid} of the base packet not kept (id {oid})")
        # payload
        if sf[7] == "*" and opay != bpay:
            problems.append("payload not kept with payload class '*'")
        if sf[7] == "+" and bpay and opay != bpay:
            problems.append("existing payload not kept with payload class '+'")
        ctx.hist["hint-oracle:checked"] += 1
        if problems:
            ctx.failures.append(Failure("property-failure", "impersonate_tcp broke the hint rules: " + "; ".join(problems[:3]) + f" (signature {c['sig']!r})",
                                        op=line, extra={"sig": c["sig"], "stream": "hint-oracle"}))


def run(ctx):
    cases = make_cases(ctx, ctx.n(9000, 200000))
    res = C05.run_cases(ctx, cases, "imp")
    # oracles on the outputs, independent of the Lean model: identity clauses and hint rules straight from the statement.
    # A run the model cannot explain but on which both oracles pass is a broken correspondence, not a property failure.
    lines = [l for (l, a, b) in res]
    by_key = {}
    for c in cases:
        by_key.setdefault((hx(c["sig"]), c["base"], str(c["hops"]), c["uptime"]), c)
    cs = []
    for l in lines:
        f = l.split("\t")
        cs.append(by_key.get((f[1], f[3], f[5], f[7])))
    pairs = [(c, l) for l, c in zip(lines, cs) if c]
    identity_oracle(ctx, [c for c, l in pairs], [l for c, l in pairs])
    hint_oracle(ctx, [c for c, l in pairs], [l for c, l in pairs])
    # non-trivial: explained runs whose base carried hints
    ctx.nontrivial = {l for l in ctx.nontrivial if "\t-,-,-,-\t" not in l}
