"""C09 - loading a database yields exactly the records written in the file.
Ops: db (Database.load + iter_values/len dump), sigtcp / sigmtu / sighttp / label (structured signature of a text)."""
import os
import re
from .. import dbgen

RULE = ("db ops: the text of a whole database file -> load result + per-section dump (line, label dump, sys, raw signature, structured signature) + len. "
        "Files come from a grammar: any interleaving of the five sections incl. repeated headers, labels, sys lines, comments, blank / whitespace lines, "
        "classes / ua_os, CR / CRLF / LF terminators, signatures from the full TCP / MTU / HTTP grammars (incl. numbers spelled as Python's int() accepts). "
        "Each is judged twice: against the Lean model (= spec, theorem parseLines_records) and against the generator's own list of what it wrote. "
        "Non-trivial = the load succeeds with at least one record.")
ASSUMPTIONS = ["database texts are ASCII (non-ASCII texts are only judged by C10's exception-category oracle)",
               "HTTP absent-header sets are unordered in the implementation: both sides are compared as sorted sets"]
NONTRIVIAL_FLOOR = 1500


def hx(s):
    return s.encode("latin-1").hex()


def canon(ans):
    def fix(m):
        items = [x for x in m.group(1).split(",")]
        return "absent=[" + ",".join(sorted(set(items))) + "]"
    return re.sub(r"absent=\[([^\]]*)\]", fix, ans)


def parse_dump(ans):
    """'ok ... ; len=N mtu=[...] ...' -> (len, {section: [(line, labelhex, sys, rawhex)]})"""
    body = ans.split(" ; ", 1)[1]
    out = {}
    m = re.match(r"len=(\d+) mtu=(.*) tcpreq=(.*) tcpresp=(.*) httpreq=(.*) httpresp=(.*)$", body)
    n = int(m.group(1))
    for i, key in enumerate(dbgen.SECTIONS):
        v = m.group(i + 2)
        if v == "-":
            out[key] = None
            continue
        recs = []
        for rec in (v[1:-1].split(";") if v != "[]" else []):
            line, lab, raw, _sig = rec.split("~", 3)
            recs.append((int(line), lab, raw))
        out[key] = recs
    return n, out


def expect_of(f):
    exp = {}
    for sec in dbgen.SECTIONS:
        if sec not in f.expect:
            exp[sec] = None
            continue
        recs = []
        for (n, lab, sys, raw) in f.expect[sec]:
            if sys is None:
                l = "m" + hx(lab)
            else:
                parts = lab.split(":")
                l = f"l{hx(lab)}/{1 if parts[0] == 'g' else 0}/{1 if parts[1] == '!' else 0}/sys{len(sys)}:{','.join(hx(x) for x in sys)}"
            recs.append((n, l, hx(raw)))
        exp[sec] = recs
    return exp


def run(ctx):
    r = ctx.rng
    nt = lambda l, a: a.startswith("ok") and " len=0 " not in a
    # 0. the shipped database
    repo = os.environ.get("PYP0F_REPO", "/repo")
    shipped = open(os.path.join(repo, "pyp0f/data/p0f.fp"), encoding="utf-8").read()
    ctx.correspond(["db\t" + hx(shipped)], nontrivial=nt, label="shipped-p0f.fp", canon=canon)
    # 1. generated valid files
    files = []
    ops = []
    for _ in range(ctx.n(6000, 150000)):
        f = dbgen.valid_file(r)
        t = f.text(r)
        files.append(f)
        ops.append("db\t" + hx(t))
    res = ctx.correspond(ops, nontrivial=nt, label="valid-files", canon=canon,
                         tagger=lambda l, a: a.split(" ;")[0][:12] + (" nonempty" if " len=0 " not in a else " empty"))
    # generator's own expectation (independent of the model)
    bad = 0
    for f, (line, a, b) in zip(files, res):
        if not a.startswith("ok"):
            if bad < 3:
                ctx.fail(f"a syntactically valid database file is rejected: {a.split(' ;')[0]}", op=line, impl=a, model=b, extra={"stream": "generator-oracle"})
            bad += 1
            continue
        n, got = parse_dump(a)
        exp = expect_of(f)
        nsig = sum(len(v) for v in exp.values() if v)
        if n != nsig or got != exp:
            sec = next((s for s in dbgen.SECTIONS if got.get(s) != exp.get(s)), "len")
            ctx.fail(f"loaded records differ from the sig lines written in the file (section {sec}: loaded {str(got.get(sec))[:200]}, written {str(exp.get(sec))[:200]}; len {n} vs {nsig} sig lines)",
                     op=line, impl=a, model=b, extra={"stream": "generator-oracle"})
        ctx.hist["oracle:checked"] += 1
    # 1b. the same Database object loaded again and again: the dump is always that of the LAST file
    ops = []
    for _ in range(ctx.n(700, 15000)):
        steps = []
        for _k in range(r.randint(2, 4)):
            f = dbgen.valid_file(r, max_sections=3, fancy=False)
            steps += ["L:" + hx(f.text(term="\n")), "D"]
            if r.random() < 0.4:
                # the application adds a record of its own, then loads the SAME unchanged file again (same path, same bytes, same
                # mtime): the database is again exactly the file's sig lines
                steps += ["A", "L:" + hx(f.text(term="\n")), "D"]
        ops.append("histq\t" + "\t".join(steps))
    ctx.correspond(ops, nontrivial=lambda l, a: a.count("ok during") >= 2, label="reloads", canon=canon, tagger=lambda l, a: "reload")
    # 2. structured signatures: every field of the grammars
    ops = []
    for _ in range(ctx.n(30000, 600000)):
        k = r.random()
        if k < 0.6:
            ops.append("sigtcp\t" + hx(dbgen.tcp_sig(r)))
        elif k < 0.7:
            ops.append("sigmtu\t" + hx(dbgen.mtu_sig(r)))
        elif k < 0.9:
            ops.append("sighttp\t" + hx(dbgen.http_sig(r)))
        else:
            ops.append("label\t" + hx(dbgen.label(r)))
    ctx.correspond(ops, nontrivial=lambda l, a: not a.startswith("ERR"), label="signature-texts", canon=canon, tagger=lambda l, a: l.split("\t")[0] + (" ERR" if a.startswith("ERR") else " ok"))
    ctx.notes["exhaustive_subdomains"] = ["the shipped p0f.fp (322 records)"]


def classify(f, known):
    return None
