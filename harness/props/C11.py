"""C11 - database (re)load is atomic, idempotent and never observed half-done.
Ops: hist - histories of load / dump / len / fingerprint calls on ONE Database object, with a reader
(sys.settrace; line, call and return events - opcode events too in the thorough tier - inside pyp0f frames)
snapshotting the shared object through its public API during every load."""
import os
import struct
from .. import dbgen, wiregen
from .C09 import canon, hx

RULE = ("hist ops: 2..9 steps over {load good file A / B / the shipped p0f.fp, load a file with a fault inserted at line k (every k of the file in turn), load an unreadable path, "
        "dump all records, len, fingerprint_tcp / mtu / http probes}. Every load is watched by a reader that takes a snapshot of the shared Database at each line / call / return "
        "event (thorough: each bytecode) executed inside pyp0f; the snapshots must be old* new*, new only if the load succeeds; a failed load must leave the full dump unchanged. "
        "All answers are compared with the model (theorems failed_load_preserves, load_replaces, load_idempotent, reader_old_or_new, unloaded_is_error_*). "
        "Non-trivial = the history contains a load that fails after a load that succeeded, or two successful loads of different files.")
ASSUMPTIONS = ["a concurrent reader is represented by an observer at every line / call / return event (and every bytecode boundary in the thorough tier) of the loading thread - sound for CPython with the GIL, "
               "where a thread switch happens only between bytecodes; free-threaded builds are outside the model",
               "snapshots go through the public API (len, iter_values)"]
NONTRIVIAL_FLOOR = 150

DB_A = """[mtu]
label = Ethernet or modem
sig = 1500
label = DSL
sig = 1492
[tcp:request]
label = s:unix:Linux:3.x
sig = *:64:0:*:mss*10,*:mss,sok,ts,nop,ws:df,id+:0
label = g:unix:Linux:2.2.x-3.x
sig = *:64:0:*:*,*:mss,sok,ts,nop,ws:df,id+:0
[tcp:response]
label = s:unix:Linux:3.x
sig = *:64:0:*:mss*10,*:mss,sok,ts,nop,ws:df:0
[http:request]
label = s:!:curl:
sys = @unix,@win
sig = 1:Host,User-Agent,Accept=[*/*]:Connection:curl
[http:response]
label = s:!:Apache:2.x
sys = @unix,@win
sig = 1:Date,Server,Content-Type::Apache
"""
DB_B = """; another database: fewer sections, other records
[tcp:request]
label = s:win:Windows:XP
sig = *:128:0:*:65535,0:mss,nop,nop,sok:df,id+:0
label = s:unix:OtherLinux:
sig = *:64:0:1460:mss*10,7:mss,sok,ts,nop,ws:df,id+:0
[mtu]
label = generic tunnel or VPN
sig = 1500
"""


def syn(r, flags=0x02, mss=1460, ttl=64):
    opts = b"\x02\x04" + struct.pack("!H", mss) + b"\x04\x02" + b"\x08\x0a" + struct.pack("!II", 12345, 0) + b"\x01" + b"\x03\x03\x07"
    tcp = wiregen.tcp_header(r, flags=flags, opts=opts, payload=b"", seq=7, ack=0 if flags == 2 else 9, urp=0, win=mss * 10, res=0)
    return wiregen.ipv4(r, tcp, ipopts=b"", tos=0, ident=77, fl=2, ttl=ttl)


HTTP_REQ = b"GET / HTTP/1.1\r\nHost: x\r\nUser-Agent: curl/7.0\r\nAccept: */*\r\n\r\n"
HTTP_RESP = b"HTTP/1.1 200 OK\r\nDate: x\r\nServer: Apache/2.2\r\nContent-Type: text/html\r\n\r\n"


def bad_variants(r, text, every):
    """the file with a junk line inserted at line k"""
    lines = text.split("\n")
    ks = range(len(lines)) if every else [r.randrange(len(lines))]
    for k in ks:
        yield "\n".join(lines[:k] + [r.choice(["what = 1", "[tcp]", "sig = bogus", "sys = x"])] + lines[k:])


def run(ctx):
    r = ctx.rng
    repo = os.environ.get("PYP0F_REPO", "/repo")
    shipped = open(os.path.join(repo, "pyp0f/data/p0f.fp"), encoding="utf-8").read()
    if not ctx.quick():
        os.environ["VERIF_OPCODES"] = "1"
    probes = ["T:4:%s:0:35" % syn(r).hex(), "T:4:%s:0:35" % syn(r, flags=0x12).hex(), "M:4:%s" % syn(r).hex(),
              "H:" + HTTP_REQ.hex(), "H:" + HTTP_RESP.hex(), "T:4:%s:0:35" % syn(r, ttl=40).hex(), "N", "D"]
    nt = set()
    ops = []

    def add(steps, tag):
        line = "hist\t" + "\t".join(steps)
        ops.append(line)
        if tag:
            nt.add(line)

    # 1. fixed scenarios: not loaded, A, A twice, A then B, A then each fault position, A then unreadable
    add(probes, False)
    add(["L:" + hx(DB_A)] + probes, False)
    add(["L:" + hx(DB_A), "D", "L:" + hx(DB_A), "D"] + probes, True)
    add(["L:" + hx(DB_A), "D", "L:" + hx(DB_B), "D"] + probes + ["L:" + hx(DB_A), "D"], True)
    add(["L:" + hx(shipped), "N"] + probes[:6] + ["L:" + hx(DB_B), "D", "L:" + hx(shipped), "N"] + probes[:6], True)
    for bad in bad_variants(r, DB_A, True):
        add(["L:" + hx(DB_B), "D", "L:" + hx(bad), "D"] + probes[:5], True)
    for bad in bad_variants(r, DB_B, True):
        add(["L:" + hx(bad)] + probes[:3] + ["L:" + hx(DB_A), "L:" + hx(bad), "D"] + probes[:3], True)
    for u in ("!", "!d", "xff", "x" + (DB_A.encode() + b"\xc3\x28").hex()):
        add(["L:" + u, "D", "L:" + hx(DB_A), "L:" + u, "D"] + probes[:5], True)
    # 2. random histories over generated files
    for _ in range(ctx.n(900, 8000)):
        pool = []
        for _k in range(3):
            f = dbgen.valid_file(r, fancy=False)
            pool.append(f.text(r))
        pool += [DB_A, DB_B]
        bads = []
        for _k in range(2):
            x = dbgen.faulty_file(r)
            if x:
                bads.append(x[0].text(term="\n"))
        bads += list(bad_variants(r, r.choice(pool[:3] + [DB_A]), False))
        steps = []
        okloads = set()
        interesting = False
        for _s in range(r.randint(2, 9)):
            k = r.random()
            if k < 0.35:
                t = r.choice(pool)
                steps.append("L:" + hx(t))
                if okloads and t not in okloads:
                    interesting = True
                okloads.add(t)
                # look at the new contents right away, from every kind of fingerprint
                steps += r.sample(probes[:6], r.randint(1, 3))
            elif k < 0.55 and bads:
                steps.append("L:" + hx(r.choice(bads)))
                if okloads:
                    interesting = True
            elif k < 0.6:
                steps.append("L:" + r.choice(["!", "!d", "xfe"]))
                if okloads:
                    interesting = True
            elif k < 0.8:
                steps.append("D")
            else:
                steps.append(r.choice(probes))
        steps.append("D")
        add(steps, interesting)
    res = ctx.correspond(ops, nontrivial=lambda l, a: l in nt, label="histories", canon=canon,
                         tagger=lambda l, a: "BAD" if "BAD" in a else ("mixed" if "ERR parsing" in a and "ok during" in a else ("ok-only" if "ok during" in a else "no-ok-load")))
    from .. import core
    for line, a, b in res:
        if "during=BAD" in a:
            ctx.fail("during a load a reader of the shared database saw a state that is neither the old nor the new contents, or a failed load changed the database: "
                     + a[a.index("during=BAD"):][:300], op=line, impl=a, model=b, extra={"stream": "reader-oracle"})
    # how dense the reader is: observation points during one load of the 21-line database A (measured in-process)
    from .. import impl
    from .. import ops_hist
    db = impl.P()["Database"]()
    ops_hist._STATS.update(points=0, loads=0)
    ops_hist.do_load(db, hx(DB_A), True)
    ctx.notes["reader"] = "line/call/return events" + (" + opcode events" if not ctx.quick() else "")
    ctx.notes["reader_points_for_one_load_of_a_21_line_file"] = ops_hist._STATS["points"]
    ctx.notes["exhaustive_subdomains"] = ["a fault inserted at every line of the two fixed databases"]
