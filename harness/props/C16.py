"""C16 - fingerprint results are a pure function of (input, database, options).
Ops: histq - call histories on one Database object: fingerprints of a pool of inputs in random orders, repeated, given raw or
as parsed Packet objects (and bytes / bytearray / ReceiveBuffer for HTTP), interleaved with impersonations and reloads."""
import struct
from .. import dbgen, wiregen
from .C09 import canon, hx
from .C11 import DB_A, DB_B, HTTP_REQ, HTTP_RESP

RULE = ("histq ops: 10..30 steps over a pool of 6..12 inputs (SYN / SYN+ACK segments that share MSS / timestamp / header length but differ in window and peer MSS, "
        "MTU probes, HTTP requests / responses), each step a fingerprint_tcp / mtu / http call in one of the modes raw / parsed Packet object / same object twice, "
        "interleaved with impersonate_tcp / impersonate_mtu calls (by signature and by label) and reloads of databases A, B, W (mss*K records) in any order. "
        "Every step's (matched record line, match type, distance | mtu | direction, version, dishonest) must equal the model's answer, which is a function of the current "
        "database and that input alone (theorems fingerprintTcpObj_eq, findLoopObj_eq, history_independent, repeat_stable). Non-trivial = a history in which the same input is "
        "fingerprinted at least twice with other calls in between.")
ASSUMPTIONS = ["TCPPacketSignature.received (receive time) is clock metadata and not part of the compared result; uptime results are excluded (C13)",
               "the impersonation steps' own outputs are not compared here (C05/C14), only that they leave later answers unchanged"]
NONTRIVIAL_FLOOR = 300

DB_W = "[tcp:response]\n" + "".join(f"label = s:unix:W{k}:\nsig = *:64:0:*:mss*{k},*:mss:df,id+:0\n" for k in range(1, 8)) + \
       "[tcp:request]\n" + "".join(f"label = s:unix:W{k}:\nsig = *:64:0:*:mss*{k},*:mss:df,id+:0\n" for k in range(1, 8)) + \
       "label = g:unix:Any:\nsig = *:64:0:*:*,*:mss:df,id+:0\n[mtu]\nlabel = Ethernet\nsig = 1500\nlabel = odd\nsig = 1440\n"


# records that several segments of the pool match only fuzzily (a packet TTL above the signature TTL), filed BEFORE the record
# another segment of the pool matches exactly: a fingerprint that re-orders / promotes / memoises records shows up as a
# different fuzzy winner later in the same history
DB_F = "[tcp:request]\n" + "".join(f"label = s:unix:F{m}:\nsig = *:64:0:{m}:*,*:mss:df,id+:0\n" for m in (1400,)) + \
       "".join(f"label = s:unix:X{k}:\nsig = *:64:0:*:mss*{k},*:mss:df,id+:0\n" for k in range(1, 8)) + \
       "[tcp:response]\n" + "".join(f"label = s:unix:F{m}:\nsig = *:64:0:{m}:*,*:mss:df,id+:0\n" for m in (1400,)) + \
       "".join(f"label = s:unix:X{k}:\nsig = *:64:0:*:mss*{k},*:mss:df,id+:0\n" for k in range(1, 8)) + "[mtu]\nlabel = Ethernet\nsig = 1500\n"


def seg(r, flags, mss, win, ttl=64, opts_extra=b""):
    opts = b"\x02\x04" + struct.pack("!H", mss) + opts_extra
    opts += b"\x01" * (-len(opts) % 4)
    tcp = wiregen.tcp_header(r, flags=flags, opts=opts, payload=b"", seq=7, ack=0 if flags == 2 else 9, urp=0, win=win, res=0)
    return wiregen.ipv4(r, tcp, ipopts=b"", tos=0, ident=77, fl=2, ttl=ttl).hex()


def seg6(r, flags, mss, win, hlim=64):
    """the same kind of segment over IPv6: version-agnostic records (`*:...:df,id+`) match it through the family mask"""
    opts = b"\x02\x04" + struct.pack("!H", mss)
    tcp = wiregen.tcp_header(r, flags=flags, opts=opts, payload=b"", seq=7, ack=0 if flags == 2 else 9, urp=0, win=win, res=0)
    return wiregen.ipv6(r, tcp, tc=0, fl=0, hlim=hlim).hex()


def linux_syn(r, flags=0x02):
    opts = b"\x02\x04" + struct.pack("!H", 1460) + b"\x04\x02" + b"\x08\x0a" + struct.pack("!II", 12345, 0) + b"\x01" + b"\x03\x03\x07"
    tcp = wiregen.tcp_header(r, flags=flags, opts=opts, payload=b"", seq=7, ack=0 if flags == 2 else 9, urp=0, win=14600, res=0)
    return wiregen.ipv4(r, tcp, ipopts=b"", tos=0, ident=77 if flags == 2 else 0, fl=2, ttl=64).hex()


def run(ctx):
    r = ctx.rng
    ops = []
    nt = set()
    dbs = [DB_A, DB_B, DB_W, DB_F, DB_F]
    for _ in range(ctx.n(1500, 30000)):
        peer = r.choice([1000, 1300, 700, 1212])
        mss = r.choice([1460, 1400])
        pool = []
        for _k in range(r.randint(3, 6)):
            k = r.randint(1, 7)
            flags = r.choice([0x12, 0x12, 0x02])
            win = r.choice([peer * k, (peer - 12) * k, mss * k, 1500 * k, (mss + 40) * k])
            if win > 65535:
                win = peer * 2
            synmss = r.choice([peer, peer, 0, 0, mss])
            pool.append(("T", f"4:{seg(r, flags, r.choice([mss, 1400, 1460]), win, ttl=r.choice([64, 64, 70, 100, 128]))}:{synmss}:35"))
            if r.random() < 0.6:
                pool.append(("T", f"6:{seg6(r, flags, mss, win)}:{synmss}:35"))
        # a pair for DB_F: the first segment matches record X_k0 exactly, the second matches F1400 (filed earlier) and X_k0 only
        # fuzzily (TTL above the signature's) - in both directions
        k0 = r.randint(1, 7)
        for fl in (0x02, 0x12):
            pool.append(("T", f"4:{seg(r, fl, 1460, 1460 * k0)}:0:35"))
            pool.append(("T", f"4:{seg(r, fl, 1400, 1400 * k0, ttl=r.choice([70, 100]))}:0:35"))
        # handshake segments carrying extra flag bits (ECE / CWR of an ECN stack, PSH, URG) and segments that are no handshake at all:
        # raw and parsed input must get the same verdict (result or PacketError) for them too
        for _k in range(r.randint(1, 3)):
            fl = r.choice([0x02 | 0x40 | 0x80, 0x02 | 0x08, 0x12 | 0x40, 0x02 | 0x20, 0x12 | 0x08, 0x12 | 0x80, 0x10, 0x18, 0x04, 0x11, 0x03, 0x06])
            m = r.choice([1460, 1400])
            pool.append(("T", f"4:{seg(r, fl, m, m * r.randint(1, 7))}:0:35"))
            if r.random() < 0.5:
                pool.append(("M", f"4:{seg(r, fl, m, 8192)}"))
            if r.random() < 0.4:
                pool.append(("T", f"6:{seg6(r, fl, m, m * r.randint(1, 7))}:0:35"))
        pool.append(("T", f"4:{linux_syn(r, 0x02 | 0x40 | 0x80)}:0:35"))
        pool.append(("T", f"4:{linux_syn(r)}:0:35"))
        pool.append(("T", f"4:{linux_syn(r, 0x12)}:{r.choice([0, 1460])}:35"))
        pool.append(("M", f"4:{seg(r, 2, r.choice([1460, 1400, 1452]), 8192)}"))
        pool.append(("H", HTTP_REQ.hex()))
        pool.append(("H", HTTP_RESP.hex()))
        steps = ["L:" + hx(r.choice(dbs))]
        seen = {}
        interesting = False
        for i in range(r.randint(10, 30)):
            c = r.random()
            if c < 0.72:
                kind, body = r.choice(pool)
                if kind == "H":
                    mode = r.choice(["", "", "a", "b", "r", "br"])
                else:
                    mode = r.choice(["", "", "p", "r", "pr"])
                if kind == "T" and r.random() < 0.2:
                    # fingerprint, edit the same packet object in place (TTL), fingerprint again
                    mode += ":" + str(r.choice([54, 60, 33, 1]))
                steps.append(f"{kind}:{body}:{mode}")
                if (kind, body) in seen and seen[(kind, body)] < i - 1:
                    interesting = True
                seen.setdefault((kind, body), i)
            elif c < 0.82:
                base = r.choice([p for p in pool if p[0] == "T"])[1].split(":")
                sig = r.choice(["*:64:0:*:mss*4,*:mss:df,id+:0", "*:128:0:*:8192,0:mss,nop,nop,sok:df,id+:0", "4:64:0:1460:mss*10,7:mss,sok,ts,nop,ws:df,id+:0", "bogus"])
                steps.append(f"I:4:{base[1]}:sig:{hx(sig)}:{r.choice([0, 1, 2])}")
            elif c < 0.9:
                base = r.choice([p for p in pool if p[0] == "T"])[1].split(":")
                how, lab = r.choice([("label", "s:unix:Linux:3.x"), ("label", "s:unix:W3:"), ("mtulabel", "Ethernet"), ("mtusig", "1492"), ("label", "nope")])
                steps.append(f"I:4:{base[1]}:{how}:{hx(lab)}:{r.choice([0, 1, 3, 7])}")
            else:
                steps.append("L:" + hx(r.choice(dbs)))
        line = "histq\t" + "\t".join(steps)
        ops.append(line)
        if interesting:
            nt.add(line)
    res = ctx.correspond(ops, nontrivial=lambda l, a: l in nt, label="histories", canon=canon,
                         tagger=lambda l, a: "UNSTABLE" if "UNSTABLE" in a else "ok")
    n_steps = 0
    for line, a, b in res:
        n_steps += line.count("\t")
        for st, x in zip(line.split("\t")[1:], b.split(" ; ")):
            if st[0] in "TMH":
                w = x.split(" ")
                ctx.hist[f"step:{st[0]}:" + ("ERR" if x.startswith("ERR") else w[1] if st[0] == "T" and len(w) == 3 and w[0] != "none" else "nomatch" if "none" in x else "match")] += 1
        if "UNSTABLE" in a:
            ctx.fail("fingerprinting the same object twice gave two different results: " + a[a.index("UNSTABLE"):][:200], op=line, impl=a, model=b)
    ctx.notes["steps_compared"] = n_steps


def shrink(ctx, f):
    """drop steps of the failing history while it still fails"""
    from .. import core
    if not f.op or not f.op.startswith("histq"):
        return f
    steps = f.op.split("\t")[1:]

    def fails(st):
        line = "histq\t" + "\t".join(st)
        a = core.run_impl([line])[0]
        b = core.run_driver([line])[0]
        return canon(a) != canon(b) or "UNSTABLE" in a
    i = len(steps) - 1
    while i >= 1 and len(steps) > 2:
        cand = steps[:i] + steps[i + 1:]
        if fails(cand):
            steps = cand
        i -= 1
    line = "histq\t" + "\t".join(steps)
    f.extra["shrunk_from_steps"] = f.op.count("\t")
    f.op = line
    f.impl = core.run_impl([line])[0]
    f.model = core.run_driver([line])[0]
    f.what = f"implementation answers {f.impl!r} where the model (a pure function of database and input) answers {f.model!r}"
    return f
