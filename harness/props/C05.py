"""C05 - impersonate_tcp output is fingerprinted as the requested signature.
Ops: imprun (the real impersonator, seeded), impexplain (judge the output: Lean matcher on bytes(out), pyp0f's own matcher and
fingerprint_tcp against a one-record database; explanation of the output by the Lean model of the impersonator)."""
import os
import re
from .. import core, impgen

RULE = ("cases (signature, base, extra_hops, uptime): signatures are derived BACKWARDS from random non-fragment SYN / SYN+ACK segments (all quirks, IP options, eol+n, ?n kinds, sack, "
        "payload) - the segment's own signature is printed and then generalised (version *, ttl+dist, ttl-, MSS *, window * / %N / mss*N, scale *, payload *) so that the source segment "
        "still matches it exactly, which makes every generated signature satisfiable by construction; plus every TCP signature of the shipped p0f.fp. Bases: admissible SYN / SYN+ACK "
        "of a compatible version, dissected from bytes, bare / under Ethernet / with frame padding, hints from boundary pools (MSS 0,1,99,100,16384,65535; scale 0,7,14,15,255; "
        "timestamps 0,1,2^32-1), ECE/CWR/PSH/NS set, payload, tos / id / DF varied; extra_hops in {0,1,min(ttl,35)-1}. Each output is judged by the Lean matcher on its bytes, by "
        "tcp_signatures_match on its extracted signature and by fingerprint_tcp against a database holding only the signature: must be 'exact' at distance extra_hops, no exception. "
        "Each run is also explained by the Lean model of the impersonator (the drawn values are read off the output, checked against their ranges, and the model must rebuild the "
        "output byte for byte). Non-trivial = the signature is outside the known-finding classes and the output matches exactly.")
ASSUMPTIONS = ["a ts2+ signature paired with a base whose final type is SYN+ACK is outside the admissible pairs (C14 keeps the SYN / SYN+ACK nature)",
               "hints are what Scapy's dissection of the base packet reports (dict(tcp.options), integers only), computed by the harness with Scapy itself",
               "extra_hops < min(signature TTL, max_dist = 35)"]
NONTRIVIAL_FLOOR = 1500
TRUSTED_EXTRA = ["the Lean model of impersonate_tcp (P0f/Model/Impersonate.lean) is tied to the code by explaining every run: in-range choices read off the real output must reproduce it byte for byte"]


def hx(s):
    return s.encode("latin-1").hex()


def classify(f, known):
    ids = {k["id"] for k in known}
    sig = f.extra.get("sig")
    if sig:
        c = impgen.known_class(sig)
        if c in ids:
            return c
    return None


def shipped_tcp_sigs():
    repo = os.environ.get("PYP0F_REPO", "/repo")
    out = []
    sec = None
    for line in open(os.path.join(repo, "pyp0f/data/p0f.fp"), encoding="utf-8"):
        line = line.strip()
        if line.startswith("["):
            sec = line
        elif line.startswith("sig") and sec in ("[tcp:request]", "[tcp:response]"):
            out.append((sec == "[tcp:response]", line.split("=", 1)[1].strip()))
    return out


def make_cases(ctx, n):
    """list of dicts: sig, ver, base(hex), kind, hops, uptime, seed, syn_ack"""
    r = ctx.rng
    # 1. source packets and their printed signatures (through the model's printer)
    srcs = [impgen.source_packet(r) for _ in range(n)]
    texts = core.run_driver(["printsig\t%s\t%s" % (v, b.hex()) for v, b in srcs])
    cases = []
    for (v, raw), t in zip(srcs, texts):
        if not t.endswith("-> exact"):
            continue
        text = t.split(" -> ")[0]
        sig = impgen.generalise(r, text) if r.random() < 0.85 else text
        f = sig.split(":")
        qs = f[6].split(",") if f[6] else []
        # the type the source segment had (it is what the signature was satisfiable with)
        src_flags = (raw[(raw[0] & 15) * 4 + 13] if v == "4" else raw[40 + 13])
        syn_ack = bool(src_flags & 0x10)
        if "ack+" in qs:
            syn_ack = r.random() < 0.5          # ack+ dictates the flag: either base nature is admissible
        if "ack-" in qs:
            syn_ack = r.random() < 0.5
        if "ts2+" in qs and (syn_ack and "ack+" not in qs):
            syn_ack = False
        if "ts2+" in qs and "ack-" in qs:
            continue
        ver = f[0] if f[0] != "*" else r.choice(["4", "6"])
        if f[0] == "*":
            # a version-agnostic signature may carry the other family's quirks; the source's version is always fine
            ver = v if r.random() < 0.7 else ver
            if ver != v and (set(qs) & {"df", "id+", "id-", "0+", "flow"} or f[2] != "0"):
                ver = v
        ttl = int(re.match(r"\d+", f[1]).group(0)) + (int(f[1].split("+")[1]) if "+" in f[1] else 0)
        hops = r.choice([0, 0, 1, min(ttl, 35) - 1])
        if hops >= ttl or hops < 0:
            hops = 0
        cases.append(dict(sig=sig, ver=ver, base=impgen.base_packet(r, ver, syn_ack).hex(), kind=r.choice("ddddeepr"), hops=hops,
                          uptime=r.choice(["-", "-", "-", "0", "1", "123456", "4294967295", "4294967296"]), seed=r.randrange(2**31), origin="derived"))
    # 2. shipped signatures
    for resp, sig in shipped_tcp_sigs():
        f = sig.split(":")
        for _ in range(1 if ctx.quick() else 6):
            ver = f[0] if f[0] != "*" else r.choice(["4", "4", "6"])
            qs = f[6].split(",") if f[6] else []
            if f[0] == "*" and ver == "6" and (set(qs) & {"df", "id+", "id-", "0+"}):
                ver = "4"
            ttl = int(re.match(r"\d+", f[1]).group(0))
            hops = r.choice([0, 1, min(ttl, 35) - 1])
            if hops >= ttl:
                hops = 0
            cases.append(dict(sig=sig, ver=ver, base=impgen.base_packet(r, ver, resp).hex(), kind=r.choice("ddep"), hops=hops, uptime="-", seed=r.randrange(2**31), origin="shipped"))
    return cases


def run_cases(ctx, cases, label):
    run_ops = ["imprun\t%s\t%s\t%s\t%s\t%d\t1500\t%s\t%d" % (hx(c["sig"]), c["ver"], c["base"], c["kind"], c["hops"], c["uptime"], c["seed"]) for c in cases]
    outs = core.run_impl(run_ops)
    ctx.evaluations += len(run_ops)
    ex_ops, ex_cases = [], []
    for c, op, o in zip(cases, run_ops, outs):
        cls = impgen.known_class(c["sig"]) or "supported"
        if not o.startswith("out "):
            ctx.hist[f"{label}:raised:{cls}"] += 1
            ctx.failures.append(__import__("harness.runner", fromlist=["Failure"]).Failure(
                "property-failure", f"impersonate_tcp raised {o!r} for a satisfiable signature and an admissible base (signature {c['sig']!r}, extra_hops {c['hops']})",
                op=op, impl=o, extra={"sig": c["sig"], "stream": label}))
            continue
        _, over, ohex, hints = o.split(" ")
        hints = hints.split("=", 1)[1]
        ex_ops.append("impexplain\t%s\t%s\t%s\t%s\t%d\t1500\t%s\t35\t%s\t%s" % (hx(c["sig"]), c["ver"], c["base"], hints, c["hops"], c["uptime"], over, ohex))
        ex_cases.append((c, op))
    strip = lambda a: a.split(" | explain=")[0]
    t0 = len(ctx.failures)
    res = ctx.correspond(ex_ops, label=label, canon_model=strip, tagger=lambda l, a: a.split(" ")[0], nontrivial=lambda l, a: False)
    # the generic diff above flags implementation-vs-model verdict differences; attach the signature for classification
    for fl in ctx.failures[t0:]:
        i = ex_ops.index(fl.op) if fl.op in ex_ops else -1
        if i >= 0:
            fl.extra["sig"] = ex_cases[i][0]["sig"]
            fl.extra["imprun_op"] = ex_cases[i][1]
    raw_model = core.run_driver(ex_ops)
    from ..runner import Failure
    for (c, op), line, (l2, a, b), full in zip(ex_cases, ex_ops, res, raw_model):
        cls = impgen.known_class(c["sig"]) or "supported"
        want = f"exact {c['hops']}"
        ok = a == want and b == want
        if c.get("free"):
            # a base packet outside C05's quantifier (C14 only): no verdict on the match, everything else applies
            ctx.hist[f"{label}:free-base:{'exact' if ok else a.split(' ')[0]}"] += 1
        else:
            ctx.hist[f"{label}:{cls}:{'exact' if ok else a.split(' ')[0]}"] += 1
        if ok and cls == "supported":
            ctx.nontrivial.add(line)
        if not ok and a == b and not c.get("free"):
            ctx.failures.append(Failure("property-failure",
                                        f"the impersonated packet is fingerprinted as {a!r}, not 'exact' at distance {c['hops']} (signature {c['sig']!r})",
                                        op=line, impl=a, model=b, extra={"sig": c["sig"], "imprun_op": op, "stream": label}))
        expl = full.split(" | explain=")[1] if " | explain=" in full else full
        thm = "0"
        if " thm=" in expl:
            expl, thm = expl.rsplit(" thm=", 1)
        ctx.hist[f"{label}:explain:{expl.split('@')[0].split('(')[0]}"] += 1
        ctx.hist[f"{label}:covered-by-imp_exact_partial:{thm}"] += 1
        if thm == "1" and expl == "ok" and b != want:
            # the hypotheses of the theorem hold for this run and the model reproduces it, yet the verdict is not exact:
            # the (checked) link between extractOut and the bytes, or the theorem's reading of the matcher, is off
            ctx.failures.append(Failure("correspondence", f"run covered by imp_exact_partial and explained by the model, but judged {b!r}",
                                        op=line, impl=a, model=full, extra={"sig": c["sig"], "imprun_op": op, "stream": label + "-theorem"}))
        if expl != "ok" and cls == "supported":
            ctx.failures.append(Failure("correspondence",
                                        f"the Lean model of impersonate_tcp does not reproduce this run: {expl} (signature {c['sig']!r})",
                                        op=line, impl=a, model=full, extra={"sig": c["sig"], "imprun_op": op, "stream": label + "-explain"}))
    return res


def witness_cases(ctx):
    """the witness signature of every open finding, so that each is re-confirmed (and reported) on every run"""
    r = ctx.rng
    out = []
    for k in core.known_findings("C05"):
        sig = k.get("witness", {}).get("sig")
        if not sig:
            continue
        f = sig.split(":")
        ver = f[0] if f[0] != "*" else "4"
        for i in range(4):
            out.append(dict(sig=sig, ver=ver, base=impgen.base_packet(r, ver, False).hex(), kind="d", hops=0, uptime="-", seed=1000 + i, origin="witness"))
    return out


def label_cases(ctx, n):
    """impersonate_tcp(raw_label=...): the signature realised must be one of those filed under the label for the base's direction (C15)"""
    r = ctx.rng
    from .. import dbgen
    ops, meta = [], []
    srcs = [impgen.source_packet(r) for _ in range(n * 3)]
    texts = [t.split(" -> ")[0] for t in core.run_driver(["printsig\t%s\t%s" % (v, b.hex()) for v, b in srcs]) if t.endswith("-> exact")]
    texts = [t for t in texts if impgen.known_class(t) is None and "ts2+" not in t and "ack" not in t]
    # version-agnostic forms of the same signatures (`*:...`): they keep the quirks of their own family
    # (not those with IP options: no IPv6 packet has an options length other than 0)
    texts += ["*" + t[1:] for t in texts if t.split(":")[2] == "0" and r.random() < 0.5]
    for _ in range(n):
        if len(texts) < 6:
            break
        labs = ["s:unix:A:1", "g:unix:B:", "s:win:A:1"]
        ver = r.choice(["4", "6"])
        pool = [t for t in texts if t.startswith((ver + ":", "*:"))] if r.random() < 0.9 else texts
        if len(pool) < 4:
            continue
        req = {l: r.sample(pool, r.randint(1, 2)) for l in r.sample(labs, 2)}
        resp = {l: r.sample(pool, r.randint(1, 2)) for l in r.sample(labs, 2)}
        db = "[tcp:request]\n" + "".join(f"label = {l}\n" + "".join(f"sig = {s}\n" for s in ss) for l, ss in req.items()) + \
             "[tcp:response]\n" + "".join(f"label = {l}\n" + "".join(f"sig = {s}\n" for s in ss) for l, ss in resp.items())
        lab = r.choice(labs)
        syn_ack = r.random() < 0.5
        if r.random() < 0.04:
            # a database without any record, and a label the SHIPPED database knows: DatabaseError, not a fallback
            db, req, resp = "; nothing here\n", {}, {}
            lab = r.choice(["s:unix:Linux:3.11 and newer", "s:win:Windows:XP", "g:unix:Linux:2.6.x"])
        cands = (resp if syn_ack else req).get(lab, [])
        cands = [s for s in cands]
        usable = [s for s in cands if s.split(":")[0] in ("*", ver)]
        base = impgen.base_packet(r, ver, syn_ack)
        # the database object has served other calls before, of either IP version
        warm = []
        for _w in range(r.choice([0, 0, 1, 2, 3])):
            wv = r.choice(["4", "6"])
            warm.append("%s.d.%s" % (wv, impgen.base_packet(r, wv, r.random() < 0.5 if r.random() < 0.3 else syn_ack).hex()))
        # extra flag bits on the base must not change the direction that is looked up
        ops.append("imprun\tL:%s\t%s\t%s\td\t0\t1500\t-\t%d\t%s\t%s" % (hx(lab), ver, base.hex(), r.randrange(2**31), hx(db), ",".join(warm)))
        meta.append((lab, cands, usable, ver, syn_ack))
    outs = core.run_impl(ops)
    ctx.evaluations += len(ops)
    from ..runner import Failure
    judge = []
    for op, o, (lab, cands, usable, ver, syn_ack) in zip(ops, outs, meta):
        if not cands:
            ctx.hist["by-label:no-candidate"] += 1
            if o != "ERR database":
                ctx.failures.append(Failure("property-failure", f"no record is filed under {lab!r} for this direction, yet impersonate_tcp answers {o[:60]!r} instead of DatabaseError", op=op, impl=o, extra={"stream": "by-label"}))
            continue
        if not o.startswith("out "):
            # a candidate of the other IP version may have been drawn: ValueError is then legitimate
            if o == "EXC ValueError" and len(usable) < len(cands):
                ctx.hist["by-label:other-version-drawn"] += 1
                continue
            ctx.failures.append(Failure("property-failure", f"impersonate_tcp(raw_label={lab!r}) raised {o!r} although records are filed under that label", op=op, impl=o, extra={"stream": "by-label"}))
            continue
        _, over, ohex, hints = o.split(" ")
        judge.append((op, lab, cands, over, ohex))
    # which of the candidate signatures does the output match exactly (judged by the Lean matcher)
    jops, jmeta = [], []
    for op, lab, cands, over, ohex in judge:
        for s in cands:
            jops.append("impexplain\t%s\t%s\t%s\t-,-,-,-\t0\t1500\t-\t35\t%s\t%s" % (hx(s), over, ohex, over, ohex))
            jmeta.append(op)
    ans = core.run_driver(jops)
    ok = {}
    for op, a in zip(jmeta, ans):
        ok[op] = ok.get(op, False) or a.startswith("exact 0")
    for op, lab, cands, over, ohex in judge:
        ctx.hist["by-label:" + ("matches-a-filed-signature" if ok.get(op) else "MATCHES-NONE")] += 1
        if ok.get(op):
            ctx.nontrivial.add(op)
        else:
            ctx.failures.append(Failure("property-failure", f"impersonate_tcp(raw_label={lab!r}) produced a packet that matches none of the {len(cands)} signatures filed under that label for its direction",
                                        op=op, impl="out " + ohex, extra={"stream": "by-label"}))


def run(ctx):
    cases = witness_cases(ctx) + make_cases(ctx, ctx.n(9000, 200000))
    run_cases(ctx, cases, "imp")
    label_cases(ctx, ctx.n(600, 12000))
    ctx.notes["cases_by_origin"] = {o: sum(1 for c in cases if c["origin"] == o) for o in ("derived", "shipped")}
