"""C10 - malformed databases are rejected with a line-numbered DatabaseError, never anything else.
Ops: db (load result category + line), sigtcp / sigmtu / sighttp (FieldError on raw_signature)."""
import os
import re
from .. import dbgen
from .C09 import canon, hx

RULE = ("db ops on (a) single-fault corruptions of grammar-generated valid files - per field: empty, below / above its range, non-numeric, unknown keyword, quirk illegal "
        "for the version; per line: unknown parameter, malformed / unknown section header, sig / sys without their label - where the generator knows the faulty line and "
        "demands 'ParsingError at exactly that line'; (b) ALL sequences of up to 4 line kinds over 11 kinds (exhaustive); (c) unreadable paths (missing, directory, a path through a regular file, a symlink loop, an over-long name, bytes that are "
        "not UTF-8) -> DatabaseError; (d) non-ASCII and control characters -> DatabaseError or success, never another exception; (e) corrupted signature texts given to the "
        "signature parsers directly (what impersonate_* does with raw_signature) -> FieldError. Non-trivial = the load is rejected.")
ASSUMPTIONS = ["texts compared with the model are ASCII; non-ASCII texts are judged by the exception-category oracle only"]
NONTRIVIAL_FLOOR = 1500


def run(ctx):
    r = ctx.rng
    nt = lambda l, a: a.startswith("ERR")
    tag = lambda l, a: a.split(" during")[0][:11]
    # (a) single faults
    ops, want = [], []
    kinds = {}
    for _ in range(ctx.n(8000, 200000)):
        x = dbgen.faulty_file(r)
        if x is None:
            continue
        f, n, kind = x
        ops.append("db\t" + hx(f.text(term="\n")))
        want.append((n, kind))
    res = ctx.correspond(ops, nontrivial=nt, label="single-fault", canon=canon, tagger=tag)
    for (line, a, b), (n, kind) in zip(res, want):
        ctx.hist[f"fault:{kind}"] += 1
        if not a.startswith(f"ERR parsing {n} "):
            ctx.fail(f"a database whose line {n} is faulty ({kind}) gives {a.split(' ;')[0]!r} instead of ParsingError at line {n}",
                     op=line, impl=a, model=b, extra={"stream": "fault-oracle"})
    # (b) all short sequences of line kinds
    ops = []
    for n in (1, 2, 3) + ((4,) if not ctx.quick() else ()):
        for seq in dbgen.kind_sequences(n):
            ops.append("db\t" + hx("".join(dbgen.LINE_KINDS[k] + "\n" for k in seq)))
    if ctx.quick():
        seqs = list(dbgen.kind_sequences(4))
        for seq in r.sample(seqs, 3000):
            ops.append("db\t" + hx("".join(dbgen.LINE_KINDS[k] + "\n" for k in seq)))
    ctx.correspond(ops, nontrivial=nt, label="line-kind-sequences", canon=canon, tagger=tag)
    ctx.notes["exhaustive_subdomains"] = ["all sequences of <= %d line kinds over %d kinds" % (3 if ctx.quick() else 4, len(dbgen.LINE_KINDS))]
    # (c) unreadable
    ops = ["db\t!", "db\t!d", "db\t!f", "db\t!l", "db\t!n", "db\txff", "db\tx5b6d74755d0a6c6162656c203d20ff0a", "db\tx" + ("[mtu]\nlabel = a\nsig = 1500\n".encode() + b"\xc3\x28").hex(),
           "db\tx" + b"\xfe\xff\x00[".hex(), "db\tx80"]
    res = ctx.correspond(ops, nontrivial=nt, label="unreadable", canon=canon, tagger=tag)
    for line, a, b in res:
        if not a.startswith("ERR database"):
            ctx.fail(f"an unreadable database file gives {a.split(' ;')[0]!r} instead of DatabaseError", op=line, impl=a, model=b)
    # (d) non-ASCII / control characters: only the category is judged (the model's text domain is ASCII)
    from .. import core
    ops = []
    for _ in range(ctx.n(3000, 60000)):
        f = dbgen.valid_file(r, fancy=False)
        if not f.lines:
            continue
        i = r.randrange(len(f.lines))
        l = f.lines[i]
        pos = r.randrange(len(l) + 1)
        ins = r.choice([" ", "٥", " ", "\x85", "\x1c", "\x00", "　", "é", "﻿", "\x0b", "\x0c", "²", "１"])
        f.lines[i] = l[:pos] + ins + l[pos:]
        ops.append("db\t" + f.text(term="\n").encode("utf-8").hex())
    ans = core.run_impl(ops)
    ctx.evaluations += len(ops)
    for line, a in zip(ops, ans):
        c = a.split(" ")[0]
        ctx.hist[f"non-ascii:{a.split(' during')[0][:11]}"] += 1
        if c not in ("ok", "ERR"):
            ctx.fail(f"loading a database with a non-ASCII / control character raises {a.split(' ;')[0]!r} (neither success nor DatabaseError)", op=line, impl=a)
    # (e) signature texts handed to the parsers directly
    ops = []
    for _ in range(ctx.n(20000, 400000)):
        k = r.random()
        if k < 0.7:
            raw = dbgen.tcp_sig(r, fancy=False)
            ops.append("sigtcp\t" + hx(dbgen.corrupt_tcp(r, raw) if r.random() < 0.8 else raw))
        elif k < 0.85:
            ops.append("sigmtu\t" + hx(dbgen.corrupt_sig(r, "mtu", "")))
        else:
            raw = dbgen.http_sig(r)
            ops.append("sighttp\t" + hx(dbgen.corrupt_sig(r, "http:request", raw) if r.random() < 0.8 else raw))
    ctx.correspond(ops, nontrivial=nt, label="signature-texts", canon=canon, tagger=lambda l, a: l.split("\t")[0] + (" ERR" if a.startswith("ERR") else " ok"))
