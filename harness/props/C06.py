"""C06 - HTTP matching and selection.  Ops: hmatch (function level), fphttp (API level: database text + payload), sighttp."""
import itertools
import os
from .. import httpgen

RULE = ("hmatch ops: (signature text, payload) -> http_signatures_match and headers_match; exhaustive small scope: signature header lists of length <= 3 x message header lists of "
        "length <= 4 over names {A,a,B,C}, optional flags, demanded values; random messages with signatures derived backwards from them and perturbed. fphttp ops: databases of "
        "0..6 generic/specific records per direction against messages, observable (direction, version, matched record, dishonest). sighttp: parsed signature structure. "
        "Non-trivial = the signature matches or the walk is decided after the required/absent tests.")
ASSUMPTIONS = ["'at or after the previous match' is read as the code and p0f do: strictly after the previously matched position",
               "header names and values are byte strings; case-insensitive comparison is ASCII lower-casing"]
NONTRIVIAL_FLOOR = 3000


def hx(b):
    return (b if isinstance(b, bytes) else b.encode("latin-1")).hex()


def canon(ans):
    import re
    m = re.search(r"absent=\[([^\]]*)\]", ans)
    if m:
        ans = ans.replace(m.group(0), "absent=[" + ",".join(sorted(set(m.group(1).split(",")))) + "]")
    return ans


def run(ctx):
    r = ctx.rng
    # 1. exhaustive small scope
    ops = []
    names = ["A", "a", "B", "C"]
    sig_items = []
    for n in ("A", "B", "C"):
        sig_items += [n, "?" + n, n + "=[x]", "?" + n + "=[x]"]
    pkt_items = [(n, v) for n in names for v in ("", "x", "yxz")]
    sig_lists = [()] + [(a,) for a in sig_items] + list(itertools.product(sig_items, repeat=2))
    if not ctx.quick():
        sig_lists += list(itertools.product(sig_items[:8], repeat=3))
    pkt_lists = [()] + [(a,) for a in pkt_items] + list(itertools.product(pkt_items, repeat=2)) + list(itertools.product(pkt_items[::2], repeat=3))
    pairs = [(s, p) for s in sig_lists for p in pkt_lists]
    if ctx.quick():
        pairs = r.sample(pairs, 30000)
    for s, p in pairs:
        payload = b"GET / HTTP/1.1\r\n" + b"".join(n.encode() + b": " + v.encode() + b"\r\n" for n, v in p) + b"\r\n"
        ops.append("hmatch\t%s\t%s" % (hx("1:" + ",".join(s) + "::"), hx(payload)))
    ctx.correspond(ops, nontrivial=lambda l, a: a.startswith("sig=1") or "hdr=1" in a, label="small-scope", tagger=lambda l, a: a[:11])
    # 2. random, signatures derived from the message
    ops = []
    for _ in range(ctx.n(40000, 800000)):
        raw, parsed = httpgen.message(r)
        sig = httpgen.sig_from_message(r, parsed)
        if r.random() < 0.3:
            raw2, parsed2 = httpgen.message(r, req=parsed[0])
            raw = raw2 if r.random() < 0.5 else raw
        ops.append("hmatch\t%s\t%s" % (hx(sig), hx(raw)))
    ctx.correspond(ops, nontrivial=lambda l, a: a.startswith("sig=1") or "hdr=1" in a, label="derived", tagger=lambda l, a: a[:11])
    # 3. signature parsing
    ops = []
    for line in open(os.path.join(os.environ.get("PYP0F_REPO", "/repo"), "pyp0f/data/p0f.fp")):
        if line.startswith("sig") and "[" in line:
            ops.append("sighttp\t" + hx(line.split("=", 1)[1].strip()))
    for _ in range(ctx.n(5000, 100000)):
        raw, parsed = httpgen.message(r)
        sig = list(httpgen.sig_from_message(r, parsed))
        for _k in range(r.choice([0, 1, 2])):
            c = r.random()
            ch = r.choice(",[]=?:*01 x")
            if c < 0.4 and sig:
                sig[r.randrange(len(sig))] = ch
            elif c < 0.8:
                sig.insert(r.randrange(len(sig) + 1), ch)
            elif sig:
                del sig[r.randrange(len(sig))]
        ops.append("sighttp\t" + hx("".join(sig)))
    ctx.correspond(ops, nontrivial=lambda l, a: not a.startswith("ERR"), label="sighttp", canon=canon, tagger=lambda l, a: "ERR" if a.startswith("ERR") else "ok")
    # 4. databases
    ops = []
    for _ in range(ctx.n(15000, 300000)):
        raw, parsed = httpgen.message(r)
        recs = []
        counts = []
        for _sec in range(2):
            n = r.choice([0, 1, 2, 3, 6])
            counts.append(n)
            for _k in range(n):
                c = r.random()
                if c < 0.6:
                    sig = httpgen.sig_from_message(r, parsed)
                elif c < 0.8:
                    sig = httpgen.sig_from_message(r, httpgen.message(r)[1])
                else:
                    sig = r.choice(["*:::", "1:Host::", "*:?Host::x", "0:::", "*:Host,?Accept=[*/*]:Via:curl"])
                recs += [str(r.choice([0, 0, 1])), hx(sig)]
        ops.append("\t".join(["fphttp", hx(raw), str(counts[0]), str(counts[1])] + recs))
    ctx.correspond(ops, nontrivial=lambda l, a: "match=" in a and "match=none" not in a, label="fphttp",
                   tagger=lambda l, a: ("hit" if "match=none" not in a else "miss") + (" dishonest" if a.endswith("=1") else "") if "match=" in a else a[:10])
    ctx.notes["exhaustive_subdomains"] = ["signature header lists (length <= 2%s) x message header lists (length <= 3) over names {A,a,B,C}" % ("" if ctx.quick() else ", 3 from a reduced alphabet")]
