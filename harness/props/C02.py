"""C02 - find_tcp_match order / direction / distance.  Ops: find (function level, structured databases)."""
import itertools
from .. import gens
from ..gens import sig_fields, pkt_fields
from .C01 import sig_from_pkt, perturb

RULE = ("API level (histq ops): database TEXT with specific / generic / user-app records that match the probe exactly, fuzzily (quirks / TTL) or not at all, in random order, "
        "split over repeated and interleaved section headers, loaded with Database.load and probed with fingerprint_tcp on wire bytes at several max_dist values. find ops: (direction, max_dist, packet signature, request records, response records); records are drawn from "
        "{specific, generic, user-app} x signatures derived from the probe packet (exact / fuzzy-ttl / fuzzy-quirk / miss variants), any order, "
        "duplicates allowed. Observable: (record line, match type, distance). Exhaustive: all orderings of the 5-record set; guess_distance for all 256 TTLs. "
        "Non-trivial = some record matches (answer is not 'none').")
ASSUMPTIONS = ["function-level op builds Database/TCPRecord/Label objects directly and calls find_tcp_match + TCPResult; API-level path (database text + wire packets) is tied by C09 and C03 checks"]
NONTRIVIAL_FLOOR = 3000


def rec(generic, app, s):
    return [str(generic), str(app)] + sig_fields(**s)


def op(is_syn, d, p, req, resp):
    return "\t".join(["find", str(is_syn), str(d)] + pkt_fields(**p) + [str(len(req)), str(len(resp))] + [x for r in req + resp for x in r])


def variant(r, p, kind):
    """signature relative to packet p: exact / fuzzy ttl / fuzzy quirks / miss"""
    s = dict(ver=-1, olen=p["olen"], ttl=max(1, min(255, p["ttl"] + r.choice([0, 1, 7]))), bad=0, wtype=1, wsize=0, scale=-1, layout=p["layout"],
             mss=-1, eol=p["eol"], pay=-1, quirks=p["quirks"] & ~(gens.V4ONLY | gens.V6ONLY) | (p["quirks"] & (gens.V4ONLY if p["ver"] == 4 else gens.V6ONLY)))
    if kind == "fttl":
        s["ttl"] = max(1, min(255, p["ttl"] + 40)) if p["ttl"] + 40 <= 255 else max(1, p["ttl"] - 1)
        if s["ttl"] >= p["ttl"] and s["ttl"] - p["ttl"] <= 35:
            s["ttl"] = max(1, p["ttl"] - 1)
    elif kind == "fq":
        if p["quirks"] & 1:   # packet has ecn: drop it from signature (ecn extra)
            s["quirks"] &= ~1
        elif p["ver"] == 4 and not (p["quirks"] & 2):
            s["quirks"] |= 2  # df missing in packet
        else:
            s["quirks"] &= ~1
            p["quirks"] |= 1
    elif kind == "miss":
        s["layout"] = list(p["layout"]) + [1]
    return s


def api_level(ctx):
    """database TEXT (records in random order, section headers repeated and interleaved) + wire packets through fingerprint_tcp"""
    import struct
    from .. import wiregen
    r = ctx.rng
    hx = lambda t: t.encode().hex()
    ops = []
    prev = None
    for _ in range(ctx.n(6000, 120000)):
        flags = r.choice([0x02, 0x12])
        ttl = r.choice([64, 60, 57, 30, 31, 32, 33, 29, 100, 128, 1])
        opts = b"\x02\x04\x05\xb4\x01\x03\x03\x07"
        tcp = wiregen.tcp_header(r, flags=flags, opts=opts, payload=b"", seq=5, ack=0 if flags == 2 else 7, urp=0, win=8192, res=0)
        df = r.choice([0, 2])
        tos = r.choice([0, 0, 1])
        pkt = wiregen.ipv4(r, tcp, ipopts=b"", tos=tos, ident=77, fl=df, ttl=ttl)
        pq = ",".join((["ecn"] if tos else []) + (["df", "id+"] if df else []))
        kinds = []
        for _k in range(r.choice([0, 1, 2, 3, 4, 6, 9])):
            kinds.append(r.choice(["exact-s", "exact-g", "fq", "fq-app", "fttl", "fttl-app", "miss", "exact-app", "bad-ttl"]))
        recs = []
        for k in kinds:
            sttl = r.choice([64, 64, 60, 128, 255, 32])
            q = pq
            lay = "mss,nop,ws"
            lab = r.choice(["s:unix:A:1", "s:win:B:", "s:unix:C:x y"])
            sysl = None
            if k == "exact-g":
                lab = "g:unix:G:"
            if k.endswith("-app"):
                lab = "s:!:App:1"
                sysl = "@unix"
            if k.startswith("fq"):
                if tos:
                    q = "df,id+" if df else ""                   # ecn extra in the packet: tolerated
                elif not df:
                    q = r.choice(["df,id+", "df"])                # df / id+ missing in the packet: tolerated
                else:
                    q = "df"                                     # id+ extra in the packet is not tolerated -> a near miss
            if k.startswith("fttl"):
                sttl = r.choice([128, 255, 200])
            if k == "miss":
                lay = "mss,nop,ws,nop"
            t = f"{sttl}-" if k == "bad-ttl" else str(sttl)
            recs.append((lab, sysl, f"*:{t}:0:*:*,*:{lay}:{q}:0"))
        sec = "tcp:request" if flags == 2 else "tcp:response"
        other = "tcp:response" if flags == 2 else "tcp:request"
        lines = []
        cur = None
        for lab, sysl, sig in recs:
            want = sec if r.random() < 0.85 else other
            if cur != want or r.random() < 0.15:
                if r.random() < 0.2:
                    lines += ["[mtu]", "label = x", "sig = 1500"]
                lines.append(f"[{want}]")
                cur = want
            lines.append("label = " + lab)
            if sysl:
                lines.append("sys = " + sysl)
            lines.append("sig = " + sig)
            if r.random() < 0.2:
                lines.append("sig = " + sig.replace("mss,nop,ws", "mss,nop,ws,sok"))
        if r.random() < 0.9 and not any(l == f"[{sec}]" for l in lines):
            lines.append(f"[{sec}]")
        text = "\n".join(lines) + "\n"
        tstep = f"T:4:{pkt.hex()}:0:{r.choice([35, 35, 35, 0, 4, 255])}"
        if prev is not None and r.random() < 0.3:
            # the same Database object held another file before (and answered a query on it): only the current file counts
            ops.append("histq\tL:" + hx(prev) + "\t" + tstep + "\tL:" + hx(text) + "\t" + tstep)
        else:
            ops.append("histq\tL:" + hx(text) + "\t" + tstep)
        prev = text
    ctx.correspond(ops, nontrivial=lambda l, a: " ; " in a and not a.split(" ; ")[1].startswith(("none", "ERR")), label="api-db-text",
                   tagger=lambda l, a: (a.split(" ; ")[1].split(" ")[1] if " ; " in a and len(a.split(" ; ")[1].split(" ")) == 3 else a.split(" ; ")[-1][:10]))


def run(ctx):
    r = ctx.rng
    api_level(ctx)
    nt = lambda l, a: not a.startswith("none")
    # exhaustive orderings of the 5-record set, both directions
    ops = []
    for pv in (4, 6):
        p = dict(ver=pv, olen=0, ttl=60, win=8192, layout=[2, 1], mss=1460, ws=0, ts=0, eol=0, hdr=44, pay=0, quirks=0, synmss=0)
        kinds = [("exact", 0, 0), ("exact", 1, 0), ("fq", 0, 0), ("fq", 0, 1), ("miss", 0, 0), ("fttl", 0, 1), ("fttl", 0, 0)]
        for subset in itertools.combinations(range(len(kinds)), 5) if not ctx.quick() else [tuple(range(5)), (0, 1, 3, 5, 6), (1, 2, 3, 4, 6)]:
            for perm in itertools.permutations(subset):
                pp = dict(p)
                recs = [rec(kinds[i][1], kinds[i][2], variant(r, pp, kinds[i][0])) for i in perm]
                for is_syn in (1, 0):
                    ops.append(op(is_syn, 35, pp, recs if is_syn else [], [] if is_syn else recs))
    ctx.correspond(ops, nontrivial=nt, label="orderings")
    # guess_distance: all TTLs, no match / fuzzy ttl
    ops = []
    for ttl in range(256):
        p = dict(ver=4, olen=0, ttl=ttl, win=1, layout=[2], mss=0, ws=0, ts=0, eol=0, hdr=44, pay=0, quirks=0, synmss=0)
        ops.append(op(1, 35, p, [], []))
        for st in (1, 32, 64, 128, 255, max(1, ttl), min(255, ttl + 35), min(255, ttl + 36)):
            s = dict(ver=-1, olen=0, ttl=st, bad=0, wtype=1, wsize=0, scale=-1, layout=[2], mss=-1, eol=0, pay=-1, quirks=0)
            ops.append(op(1, 35, p, [rec(0, 0, s)], []))
            ops.append(op(0, 35, p, [rec(0, 0, s)], [rec(1, 0, dict(s, bad=1))]))
    ctx.correspond(ops, nontrivial=nt, label="distance-all-ttls")
    ctx.notes["exhaustive_subdomains"] = ["all orderings of 5-record sets x both directions", "guess_distance for all 256 TTLs"]
    # random databases
    ops = []
    for _ in range(ctx.n(40000, 800000)):
        p = gens.rand_pkt(r)
        is_syn = r.choice([0, 1])
        lists = []
        for _l in range(2):
            recs = []
            for _k in range(r.choice([0, 1, 2, 3, 5, 8, 12])):
                kind = r.choice(["exact", "exact", "fttl", "fq", "miss", "rand"])
                if kind == "rand":
                    s = sig_from_pkt(r, p)
                    pp = dict(p)
                    perturb(r, s, pp)
                else:
                    pp = dict(p)
                    s = variant(r, pp, kind)
                    if pp["quirks"] != p["quirks"]:
                        s = variant(r, dict(p), "exact")
                recs.append(rec(r.choice([0, 0, 1]), r.choice([0, 0, 0, 1]), s))
            lists.append(recs)
        ops.append(op(is_syn, r.choice([35, 35, 0, 255]), p, lists[0], lists[1]))
    ctx.correspond(ops, nontrivial=nt, label="random-db",
                   tagger=lambda l, a: a.split(" ")[1] if not a.startswith("none") else "none")
