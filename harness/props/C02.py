"""C02 - find_tcp_match order / direction / distance.  Ops: find (function level, structured databases)."""
import itertools
from .. import gens
from ..gens import sig_fields, pkt_fields
from .C01 import sig_from_pkt, perturb

RULE = ("find ops: (direction, max_dist, packet signature, request records, response records); records are drawn from "
        "{specific, generic, user-app} x signatures derived from the probe packet (exact / fuzzy-ttl / fuzzy-quirk / miss variants), any order, "
        "duplicates allowed. Observable: (record line, match type, distance). Exhaustive: all orderings of the 5-record set; guess_distance for all 256 TTLs. "
        "Non-trivial = some record matches (answer is not 'none').")
ASSUMPTIONS = ["function-level op builds Database/TCPRecord/Label objects directly and calls find_tcp_match + TCPResult; API-level path (database text + wire packets) is tied by C09 and C03 checks"]
NONTRIVIAL_FLOOR = 3000


def rec(generic, app, s):
    return [str(generic), str(app)] + sig_fields(**s)


def op(is_syn, d, p, req, resp):
    return "\t".join(["find", str(is_syn), str(d)] + pkt_fields(**p) + [str(len(req)), str(len(resp))] + [x for r in req + resp for x in r])


def variant(r, p, kind):
    """signature relative to packet p: exact / fuzzy ttl / fuzzy quirks / miss"""
    s = dict(ver=-1, olen=p["olen"], ttl=max(1, min(255, p["ttl"] + r.choice([0, 1, 7]))), bad=0, wtype=1, wsize=0, scale=-1, layout=p["layout"],
             mss=-1, eol=p["eol"], pay=-1, quirks=p["quirks"] & ~(gens.V4ONLY | gens.V6ONLY) | (p["quirks"] & (gens.V4ONLY if p["ver"] == 4 else gens.V6ONLY)))
    if kind == "fttl":
        s["ttl"] = max(1, min(255, p["ttl"] + 40)) if p["ttl"] + 40 <= 255 else max(1, p["ttl"] - 1)
        if s["ttl"] >= p["ttl"] and s["ttl"] - p["ttl"] <= 35:
            s["ttl"] = max(1, p["ttl"] - 1)
    elif kind == "fq":
        if p["quirks"] & 1:   # packet has ecn: drop it from signature (ecn extra)
            s["quirks"] &= ~1
        elif p["ver"] == 4 and not (p["quirks"] & 2):
            s["quirks"] |= 2  # df missing in packet
        else:
            s["quirks"] &= ~1
            p["quirks"] |= 1
    elif kind == "miss":
        s["layout"] = list(p["layout"]) + [1]
    return s


def run(ctx):
    r = ctx.rng
    nt = lambda l, a: not a.startswith("none")
    # exhaustive orderings of the 5-record set, both directions
    ops = []
    for pv in (4, 6):
        p = dict(ver=pv, olen=0, ttl=60, win=8192, layout=[2, 1], mss=1460, ws=0, ts=0, eol=0, hdr=44, pay=0, quirks=0, synmss=0)
        kinds = [("exact", 0, 0), ("exact", 1, 0), ("fq", 0, 0), ("fq", 0, 1), ("miss", 0, 0), ("fttl", 0, 1), ("fttl", 0, 0)]
        for subset in itertools.combinations(range(len(kinds)), 5) if not ctx.quick() else [tuple(range(5)), (0, 1, 3, 5, 6), (1, 2, 3, 4, 6)]:
            for perm in itertools.permutations(subset):
                pp = dict(p)
                recs = [rec(kinds[i][1], kinds[i][2], variant(r, pp, kinds[i][0])) for i in perm]
                for is_syn in (1, 0):
                    ops.append(op(is_syn, 35, pp, recs if is_syn else [], [] if is_syn else recs))
    ctx.correspond(ops, nontrivial=nt, label="orderings")
    # guess_distance: all TTLs, no match / fuzzy ttl
    ops = []
    for ttl in range(256):
        p = dict(ver=4, olen=0, ttl=ttl, win=1, layout=[2], mss=0, ws=0, ts=0, eol=0, hdr=44, pay=0, quirks=0, synmss=0)
        ops.append(op(1, 35, p, [], []))
        for st in (1, 32, 64, 128, 255, max(1, ttl), min(255, ttl + 35), min(255, ttl + 36)):
            s = dict(ver=-1, olen=0, ttl=st, bad=0, wtype=1, wsize=0, scale=-1, layout=[2], mss=-1, eol=0, pay=-1, quirks=0)
            ops.append(op(1, 35, p, [rec(0, 0, s)], []))
            ops.append(op(0, 35, p, [rec(0, 0, s)], [rec(1, 0, dict(s, bad=1))]))
    ctx.correspond(ops, nontrivial=nt, label="distance-all-ttls")
    ctx.notes["exhaustive_subdomains"] = ["all orderings of 5-record sets x both directions", "guess_distance for all 256 TTLs"]
    # random databases
    ops = []
    for _ in range(ctx.n(40000, 800000)):
        p = gens.rand_pkt(r)
        is_syn = r.choice([0, 1])
        lists = []
        for _l in range(2):
            recs = []
            for _k in range(r.choice([0, 1, 2, 3, 5, 8, 12])):
                kind = r.choice(["exact", "exact", "fttl", "fq", "miss", "rand"])
                if kind == "rand":
                    s = sig_from_pkt(r, p)
                    pp = dict(p)
                    perturb(r, s, pp)
                else:
                    pp = dict(p)
                    s = variant(r, pp, kind)
                    if pp["quirks"] != p["quirks"]:
                        s = variant(r, dict(p), "exact")
                recs.append(rec(r.choice([0, 0, 1]), r.choice([0, 0, 0, 1]), s))
            lists.append(recs)
        ops.append(op(is_syn, r.choice([35, 35, 0, 255]), p, lists[0], lists[1]))
    ctx.correspond(ops, nontrivial=nt, label="random-db",
                   tagger=lambda l, a: a.split(" ")[1] if not a.startswith("none") else "none")
