"""C04 - any packet or payload yields a result or PacketError, in bounded work.
Runtime oracle on the real code (exception category, deterministic executed-line bound, layout length) + gate correspondence for well-framed packets."""
import re
from .. import wiregen

RULE = ("fpall ops: byte strings dissected as IPv4/IPv6 (well-framed packets from the C03 generators, truncations at every length, inconsistent length fields, IHL / data offset 0..15, "
        "hostile option areas incl. every (kind, length 0..3) prefix) given to fingerprint_tcp / _mtu / _uptime; httpall ops: HTTP payloads from a grammar, all strings over "
        "{CR,LF,SP,HT,':','A',0xff} up to a length, random bytes. Oracle: exception category in {none, PacketError}; executed lines inside pyp0f <= A + B*len(input); "
        "len(layout) <= option bytes. Non-trivial = the input is not a plain well-formed packet/message (some gate or error path is taken).")
ASSUMPTIONS = ["work is measured as executed Python lines inside the pyp0f package (deterministic); wall-clock time and memory are not measured except by the per-op watchdog (4 s of CPU time of the worker, wall-clock backstop 80 s)",
               "what Scapy does with ill-framed bytes is not modelled; an exception raised by Scapy's own dissection before pyp0f is called is reported separately (dissect=...)",
               "a one-record-per-section database is used, so DatabaseError cannot occur"]
NONTRIVIAL_FLOOR = 2000
# executed-line bound per call set (3 fingerprint calls): calibrated on the clean tree with a wide margin
A_PKT, B_PKT = 1500, 60
A_HTTP, B_HTTP = 600, 40


def parse_kv(ans):
    return dict(x.split("=", 1) for x in ans.split(" ") if "=" in x)


def strip_runtime(ans):
    return " ".join(x for x in ans.split(" ") if x.startswith(("tcp=", "mtu=", "up=")))


def judge_pkt(ctx, line, a):
    if a.startswith("SKIP"):
        return
    if a == "HANG":
        ctx.fail("fingerprint call did not terminate within the watchdog (4 s CPU)", op=line, impl=a)
        return
    kv = parse_kv(a)
    if "dissect" in kv:
        ctx.hist["fpall:scapy-dissect-raises"] += 1
        return
    for k in ("tcp", "mtu", "up"):
        if kv.get(k) not in ("ok", "ERR_packet"):
            ctx.fail(f"fingerprint_{ {'tcp':'tcp','mtu':'mtu','up':'uptime'}[k] } raised {kv.get(k)} (only PacketError may escape)", op=line, impl=a)
            return
    n, ln = int(kv["lines"]), int(kv["len"])
    if n > A_PKT + B_PKT * ln:
        ctx.fail(f"work not proportional to input: {n} executed lines for {ln} input bytes (bound {A_PKT}+{B_PKT}*len)", op=line, impl=a)
    if kv["layout"] != "-":
        l, ob = kv["layout"].split("/")
        if int(l) > max(0, int(ob)):
            ctx.fail(f"option layout has {l} entries for {ob} option bytes", op=line, impl=a)


def judge_http(ctx, line, a):
    if a.startswith("SKIP"):
        return
    if a == "HANG":
        ctx.fail("fingerprint_http did not terminate within the watchdog (4 s CPU)", op=line, impl=a)
        return
    kv = parse_kv(a)
    if kv.get("http") not in ("ok", "ERR_packet"):
        ctx.fail(f"fingerprint_http raised {kv.get('http')} (only PacketError may escape)", op=line, impl=a)
        return
    n, ln = int(kv["lines"]), int(kv["len"])
    if n > A_HTTP + B_HTTP * ln:
        ctx.fail(f"work not proportional to input: {n} executed lines for {ln} payload bytes", op=line, impl=a)


def pkt_ops(ctx):
    r = ctx.rng
    ops = []
    # well-framed + trailers
    for _ in range(ctx.n(4000, 150000)):
        v, b = wiregen.rand_packet(r)
        ops.append("fpall\t%s\t%s" % (v, b.hex()))
    # truncations at every length of a few packets
    for _ in range(ctx.n(12, 300)):
        v, b = wiregen.rand_packet(r)
        for n in range(0, len(b) + 1):
            ops.append("fpall\t%s\t%s" % (v, b[:n].hex()))
    # inconsistent header fields
    for _ in range(ctx.n(3000, 100000)):
        v, b = wiregen.rand_packet(r)
        b = bytearray(b)
        for _k in range(r.choice([1, 1, 2])):
            c = r.random()
            if v == "4":
                if c < 0.25:
                    b[0] = (b[0] & 0xF0) | r.randrange(16)          # IHL
                elif c < 0.5:
                    b[2:4] = r.choice([0, 1, 19, 20, 39, 40, 41, len(b) - 1, len(b) + 1, 65535, r.randrange(65536)]).to_bytes(2, "big")
                elif c < 0.6:
                    b[9] = r.choice([6, 6, 17, 0, 255])
                elif c < 0.7:
                    b[0] = (r.randrange(16) << 4) | (b[0] & 15)
                else:
                    off = (b[0] & 15) * 4 + 12
                    if off < len(b):
                        b[off] = (r.randrange(16) << 4) | (b[off] & 15)   # data offset
            else:
                if c < 0.3:
                    b[4:6] = r.choice([0, 1, 19, 20, len(b) - 41, len(b) - 39, 65535, r.randrange(65536)]).to_bytes(2, "big")
                elif c < 0.45:
                    b[6] = r.choice([6, 6, 0, 43, 44, 58, 59, 60, 255])
                elif c < 0.55:
                    b[0] = (r.randrange(16) << 4) | (b[0] & 15)
                else:
                    if len(b) > 52:
                        b[52] = (r.randrange(16) << 4) | (b[52] & 15)
        if r.random() < 0.3:
            b = b[:r.randrange(len(b) + 1)]
        ops.append("fpall\t%s\t%s" % (v, bytes(b).hex()))
    # hostile option prefixes: every (kind, length 0..3) at the start of a 40 byte area
    kinds = range(256) if not ctx.quick() else [0, 1, 2, 3, 4, 5, 8, 6, 29, 30, 34, 77, 254, 255]
    for kind in kinds:
        for ln in range(0, 4):
            for fill in (0, 1, kind):
                area = (bytes([kind, ln]) + bytes([fill]) * 38)[:40]
                tcp = wiregen.tcp_header(r, flags=2, opts=area, res=0, seq=1, ack=0, urp=0)
                ops.append("fpall\t4\t%s" % wiregen.ipv4(r, tcp, ipopts=b"", fl=2, ident=1).hex())
    # random bytes
    for _ in range(ctx.n(1000, 50000)):
        n = r.choice([0, 1, 19, 20, 39, 40, 41, 59, 60, 61, 80, 100])
        ops.append("fpall\t%s\t%s" % (r.choice("46"), bytes(r.randrange(256) for _ in range(n)).hex()))
    return ops


def judge_optwork(ctx, line, a, b):
    if a.startswith("SKIP"):
        return
    ctx.hist["optwork:" + ("hang" if a == "HANG" else "ok")] += 1
    if a == "HANG" or a.startswith("EXC"):
        ctx.fail(f"TCPOptions.parse: {a}", op=line, impl=a, model=b)
        return
    kv = parse_kv(a)
    if int(kv["layout"]) > int(kv["len"]):
        ctx.fail(f"layout has {kv['layout']} entries for {kv['len']} option bytes", op=line, impl=a, model=b)
    if int(kv["lines"]) > 40 + 30 * int(kv["len"]):
        ctx.fail(f"TCPOptions.parse executed {kv['lines']} lines for {kv['len']} bytes", op=line, impl=a, model=b)
    if " ".join(a.split(" ")[:2]) != b:
        ctx.fail(f"implementation answers {a!r}, model {b!r}", op=line, impl=a, model=b)


def run_ops(ctx, ops, label):
    """oracle on the implementation's full answers; the model's gate prediction for well-framed packets is informational"""
    from .. import core
    full = core.run_impl(ops)
    model = core.run_driver(ops)
    ctx.evaluations += len(ops)
    mx = 0
    for line, a, b in zip(ops, full, model):
        if line.startswith("optwork"):
            judge_optwork(ctx, line, a, b)
            continue
        if line.startswith("httpall"):
            judge_http(ctx, line, a)
            ctx.hist[f"{label}:{parse_kv(a).get('http', a)}"] += 1
        else:
            judge_pkt(ctx, line, a)
            kv = parse_kv(a)
            if "lines" in kv and "len" in kv:
                mx = max(mx, int(kv["lines"]) - B_PKT * int(kv["len"]))
            ctx.hist[f"{label}:{strip_runtime(a) or a}"] += 1
            if not b.startswith("SKIP") and strip_runtime(a) != b:
                ctx.hist[f"{label}:gate-differs-from-model(informational)"] += 1
        if b.startswith("SKIP") or "ERR" in a:
            ctx.nontrivial.add(line)
    if len(ctx.samples) < 6 and ops:
        k = ctx.rng.randrange(len(ops))
        ctx.samples.append({"op": ops[k], "impl": full[k], "model": model[k]})
    return mx


def corpus(ctx, ops):
    run_ops(ctx, ops, "corpus")


def run(ctx):
    r = ctx.rng
    ops = pkt_ops(ctx)
    ctx.notes["max_lines_minus_B_len_packets"] = run_ops(ctx, ops, "fpall")
    # option parser alone: layout length and work on arbitrary buffers
    ops = []
    for _ in range(ctx.n(20000, 500000)):
        n = r.choice([0, 1, 2, 3, 4, 8, 12, 20, 40, 44, 200])
        b = bytes(r.choice([0, 1, 2, 3, 4, 5, 8, r.randrange(256)]) if r.random() < 0.6 else r.choice([0, 1, 2, 3, 4, 10, r.randrange(256)]) for _ in range(n))
        ops.append("optwork\t%s\t%d" % (b.hex(), r.randrange(2)))
    for kind in range(256):
        for ln in range(0, 4):
            ops.append("optwork\t%s\t0" % (bytes([kind, ln]) + bytes([kind]) * 38).hex())
    run_ops(ctx, ops, 'optwork')
    if 'http_part' in globals():
        http_part(ctx)
    uptime_part(ctx)
    peer_mss_part(ctx)


def peer_mss_part(ctx):
    """fingerprint_tcp with the peer's MSS (syn_mss) handed in, against mss*N / mtu*N records: every small value (0..24: a
    candidate divisor of 0 or below), windows nothing divides - a result or PacketError, never another exception"""
    import struct
    from .. import core
    r = ctx.rng
    hx = lambda s: s.encode().hex()
    ops = []
    for _ in range(ctx.n(4000, 80000)):
        ver = r.choice([4, 6])
        mss = r.choice([100, 536, 1400, 1460, 99, 0, 65535, r.randrange(65536)])
        syn = r.choice(list(range(0, 25)) + [65535, 1460, mss])
        win = r.choice([0, 1, 7, 11, 13, 4099, 65535, r.randrange(65536)])
        opts = b"\x02\x04" + struct.pack("!H", mss)
        tcp = wiregen.tcp_header(r, flags=r.choice([0x12, 0x12, 0x02]), opts=opts, payload=b"", seq=7, ack=9, urp=0, win=win, res=0)
        raw = wiregen.ipv4(r, tcp, ipopts=b"", tos=0, ident=1, fl=2, ttl=64) if ver == 4 else wiregen.ipv6(r, tcp, tc=0, fl=0, hlim=64)
        sec = "response" if tcp[13] & 0x10 else "request"
        db = f"[tcp:{sec}]\nlabel = s:unix:X:\nsig = *:64:0:*:{r.choice(['mss', 'mtu'])}*{r.choice([1, 3, 7])},*:mss:{'df,id+' if ver == 4 else ''}:0\n"
        ops.append("histq\tL:" + hx(db) + f"\tT:{ver}:{raw.hex()}:{syn}:35")
    ans = core.run_impl(ops)
    ctx.evaluations += len(ops)
    for line, a in zip(ops, ans):
        last = a.split(" ; ")[-1]
        ctx.hist["peer-mss:" + (last if last.startswith(("ERR", "EXC", "HANG")) else "result")] += 1
        if "EXC" in a or "HANG" in a or (last.startswith("ERR") and last != "ERR packet"):
            ctx.fail(f"fingerprint_tcp(syn_mss=..) raised / answered {last!r} (neither a result nor PacketError)", op=line, impl=a)


def uptime_part(ctx):
    """fingerprint_uptime on every kind of timestamp pair / elapsed time: a result or PacketError, never another exception"""
    from .. import core
    from . import C13
    r = ctx.rng
    ops = []
    T32 = 2**32
    for _ in range(ctx.n(12000, 300000)):
        a = r.choice([0, 1, 5, 2**31, T32 - 1]) if r.random() < 0.4 else r.randrange(T32)
        ms = r.choice([-5, 0, 1, 24, 25, 99, 100, 1000, 6000, 600000, 600001]) if r.random() < 0.5 else r.randrange(1, 700000)
        c = r.random()
        if c < 0.6:
            hz = r.choice([0.1, 0.5, 0.69, 0.7, 0.75, 0.9, 0.99, 1, 1.5, 9.99, 10, 100, 1000, 1499, 1500, 1501, 5000])
            dl = max(0, int(hz * ms / 1000) + r.choice([-1, 0, 0, 1]))
        elif c < 0.8:
            dl = r.choice([0, 1, 4, 5, 6, 2**31 - 1, 2**31, T32 - 15000, T32 - 5, T32 - 1])
        else:
            dl = r.randrange(T32)
        ops.append(C13.op(r.choice([0x10, 0x12, 0x02, 0x18, 0x11, 0x04, 0x00, 0x52, 0x1ff]), r.choice([0, 0, 0, 1, 2]), a, (a + dl) % T32, ms))
    ans = core.run_impl(ops)
    ctx.evaluations += len(ops)
    for line, a in zip(ops, ans):
        cat = a.split(" ")[0]
        ctx.hist["uptime:" + (a if a.startswith(("ERR", "EXC", "HANG")) else cat)] += 1
        if a.startswith(("EXC", "HANG", "tps")) or (a.startswith("ERR") and a != "ERR packet"):
            ctx.fail(f"fingerprint_uptime raised / answered {a!r} (neither a result nor PacketError)", op=line, impl=a)
        elif a.startswith("v "):
            ctx.nontrivial.add(line)


def http_part(ctx):
    import itertools
    from .. import httpgen
    r = ctx.rng
    ops = []
    alpha = [b"\r", b"\n", b" ", b"\t", b":", b"A", b"\xff"]
    maxlen = 4 if ctx.quick() else 6
    for n in range(0, maxlen + 1):
        for t in itertools.product(alpha, repeat=n):
            ops.append("httpall\t" + b"".join(t).hex())
    for _ in range(ctx.n(6000, 200000)):
        raw, _p = httpgen.message(r, fold=0.1)
        c = r.random()
        if c < 0.5:
            for _k in range(r.choice([1, 2, 3])):
                raw = httpgen.corrupt(r, raw)
        elif c < 0.6:
            raw = bytes(r.choice(b"\r\n :AGETHP/1.\xff\x00") for _ in range(r.randrange(0, 40)))
        ops.append("httpall\t" + raw.hex())
    # well-formed messages whose well-known headers carry values at and beyond the edges of their grammars (absurd numbers in dates,
    # lengths, ports, q-values; non-ASCII digits; NULs; very long tokens): whatever the code does with a standard header, the
    # outcome is still a result or PacketError
    for _ in range(ctx.n(3000, 60000)):
        hs = [(httpgen.case_variant(r, r.choice(httpgen.NAMES)), r.choice(httpgen.VALUES)) for _ in range(r.randrange(0, 4))]
        for _k in range(r.choice([1, 1, 2, 3])):
            hs.insert(r.randrange(0, len(hs) + 1), httpgen.hostile_header(r))
        raw, _p = httpgen.message(r, headers=hs, fold=0.05)
        ops.append("httpall\t" + raw.hex())
    # long inputs: work must stay proportional
    for k in (10, 100, 400):
        ops.append("httpall\t" + (b"GET / HTTP/1.1\r\n" + b"X: y\r\n" * k + b"\r\n").hex())
        ops.append("httpall\t" + (b"GET / HTTP/1.1\r\nA: b\r\n" + b" c\r\n" * k + b"\r\n").hex())
        ops.append("httpall\t" + (b"A" * (50 * k)).hex())
    run_ops(ctx, ops, "httpall")
    ctx.notes.setdefault("exhaustive_subdomains", []).append("all HTTP payloads over {CR,LF,SP,HT,':','A',0xff} up to length %d" % maxlen)
