"""C17 - window multiplier divisor order.  Ops: wmult (function level)."""
from .. import gens

RULE = ("wmult ops: (window, mss, own ts, ip version, header length, peer mss). Exhaustive window 0..65535 for fixed tuples, "
        "constructed multiples of each divisor position, random tuples. Non-trivial = the model finds a multiplier (answer is not '-1 0').")
ASSUMPTIONS = ["function-level op builds TCPPacketSignature directly; the API-level path (fingerprint_tcp with syn_mss) is exercised by C01/C02/C03 checks",
               "'timestamp present' is read as p0f and the code do: the extracted own timestamp is non-zero"]
NONTRIVIAL_FLOOR = 1000


def op(win, mss, ts, ver, hdr, syn):
    return "\t".join(["wmult", str(win), str(mss), str(ts), str(ver), str(hdr), str(syn)])


def run(ctx):
    r = ctx.rng
    ops = []
    # constructed: for each divisor position, a multiple of it
    for mss in [100, 536, 1380, 1400, 1440, 1448, 1460, 1500, 9000, 99, 101]:
        for ts in (0, 7):
            for ver in (4, 6):
                for hdr in (40, 44, 52, 60, 72, 80):
                    for syn in (0, 1300, 12, 11, 5):
                        divs = [mss, mss - 12, 1460, 1448, 1440, 1428, mss + 40, mss + hdr, mss + 60, 1500, syn, syn - 12]
                        for d in divs:
                            if d > 0:
                                for k in (1, 2, 3, 65535 // d):
                                    if 0 < d * k <= 65535:
                                        ops.append(op(d * k, mss, ts, ver, hdr, syn))
    ops = list(dict.fromkeys(ops))
    if ctx.quick() and len(ops) > 40000:
        ops = r.sample(ops, 40000)
    ctx.correspond(ops, nontrivial=lambda l, a: a != "-1 0", label="constructed", tagger=lambda l, a: "none" if a == "-1 0" else ("mtu" if a.endswith(" 1") else "mss"))
    # exhaustive windows for fixed tuples
    tuples = [(1460, 0, 4, 40, 0), (1440, 5, 6, 80, 0), (1400, 5, 4, 52, 1300)]
    for _ in range(ctx.n(3, 60)):
        tuples.append((r.choice(gens.MSSS + [r.randrange(100, 2000)]), r.choice([0, 9]), r.choice([4, 6]), r.choice([40, 44, 52, 60, 72, 80, 100]), r.choice([0, 0, 1460, 536, 13, 12, 3])))
    ops = [op(w, *t) for t in tuples for w in range(65536)]
    ctx.correspond(ops, nontrivial=lambda l, a: a != "-1 0", label="exhaustive-window", tagger=lambda l, a: "none" if a == "-1 0" else ("mtu" if a.endswith(" 1") else "mss"))
    ctx.notes["exhaustive"] = False
    ctx.notes["exhaustive_subdomains"] = [f"window 0..65535 for {len(tuples)} (mss,ts,ver,hdrlen,peer) tuples"]
    # random
    ops = []
    for _ in range(ctx.n(60000, 1500000)):
        p = gens.rand_pkt(r)
        ops.append(op(p["win"], p["mss"], p["ts"], p["ver"], p["hdr"], p["synmss"]))
    ctx.correspond(ops, nontrivial=lambda l, a: a != "-1 0", label="random", tagger=lambda l, a: "none" if a == "-1 0" else ("mtu" if a.endswith(" 1") else "mss"))
