"""C17 - window multiplier divisor order.  Ops: wmult (function level), wire (parse_packet + from_packet with syn_mss), hist (fingerprint_tcp against one-record databases)."""
import struct
from .. import gens, wiregen

RULE = ("API level: wire ops on byte-level SYN / SYN+ACK segments with a peer MSS (incl. peer MSS equal to the own MSS, windows that only the peer divisors divide) and hist ops: "
        "fingerprint_tcp(syn_mss=..) against one-record databases whose signature is mss*N / mtu*N with wildcard or pinned MSS. wmult ops: (window, mss, own ts, ip version, header length, peer mss). Exhaustive window 0..65535 for fixed tuples, "
        "constructed multiples of each divisor position, random tuples. Non-trivial = the model finds a multiplier (answer is not '-1 0').")
ASSUMPTIONS = ["the function-level op builds TCPPacketSignature directly; the API-level streams go through parse_packet / from_packet / fingerprint_tcp",
               "'timestamp present' is read as p0f and the code do: the extracted own timestamp is non-zero"]
NONTRIVIAL_FLOOR = 1000


def op(win, mss, ts, ver, hdr, syn):
    return "\t".join(["wmult", str(win), str(mss), str(ts), str(ver), str(hdr), str(syn)])


def seg(r, ver, flags, mss, win, ts, ipopts=b""):
    opts = b"\x02\x04" + struct.pack("!H", mss)
    if ts is not None:
        opts += b"\x01\x01\x08\x0a" + struct.pack("!II", ts, 0)
    tcp = wiregen.tcp_header(r, flags=flags, opts=opts, payload=b"", seq=7, ack=0 if flags == 2 else 9, urp=0, win=win, res=0)
    if ver == 4:
        return wiregen.ipv4(r, tcp, ipopts=ipopts, tos=0, ident=1, fl=2, ttl=64)
    return wiregen.ipv6(r, tcp, tc=0, fl=0, hlim=64)


def api_level(ctx):
    r = ctx.rng
    wire, hist = [], []
    hx = lambda s: s.encode().hex()
    for _ in range(ctx.n(12000, 250000)):
        ver = r.choice([4, 6])
        flags = r.choice([0x12, 0x12, 0x02])
        mss = r.choice([100, 536, 1380, 1400, 1440, 1448, 1460, 99, 1412, r.randrange(100, 1600)])
        ts = r.choice([None, None, 0, 5])
        syn = r.choice([0, mss, mss, 1300, 1460, 12, 11, 536, r.randrange(1, 2000)])
        ipopts = r.choice([b"", b"", b"\x94\x04\x00\x00", b"\x01" * 8]) if ver == 4 else b""
        hdr = (20 + len(ipopts) if ver == 4 else 40) + 20 + (4 if ts is None else 16)
        divs = [mss, mss - 12, 1460, 1448, 1440, 1428, mss + 40, mss + hdr, mss + 60, 1500, syn, syn - 12]
        d = r.choice(divs)
        k = r.choice([1, 2, 4, 10, 44])
        win = d * k if 0 < d * k <= 65535 else r.randrange(65536)
        b = seg(r, ver, flags, mss, win, ts, ipopts)
        wire.append(f"wire\t{ver}\t{b.hex()}\t{syn}")
        form = r.choice(["mss", "mss", "mtu"])
        pin = r.choice(["*", "*", str(mss)])
        layout = "mss" if ts is None else "mss,nop,nop,ts"
        quirks = ("df,id+" if ver == 4 else "") + ("" if flags == 2 or True else "")
        sig = f"*:64:{len(ipopts)}:{pin}:{form}*{k},*:{layout}:{quirks}:0"
        sec = "request" if flags == 2 else "response"
        db = f"[tcp:{sec}]\nlabel = s:unix:X:\nsig = {sig}\n"
        hist.append("histq\tL:" + hx(db) + f"\tT:{ver}:{b.hex()}:{syn}:35")
    ctx.correspond(wire, nontrivial=lambda l, a: "mult=-1," not in a and not a.startswith(("SKIP", "ERR")), label="wire-peer-mss",
                   tagger=lambda l, a: "no-mult" if "mult=-1," in a else ("mtu" if a.split("mult=")[1].split(" ")[0].endswith(",1") else "mss") if "mult=" in a else a[:12])
    ctx.correspond(hist, nontrivial=lambda l, a: " exact " in a, label="fptcp-window-forms",
                   tagger=lambda l, a: (a.split(" ; ")[1].split(" ")[1] if a.count(" ; ") and len(a.split(" ; ")[1].split(" ")) > 2 else a.split(" ; ")[-1][:12]))


def run(ctx):
    r = ctx.rng
    api_level(ctx)
    ops = []
    # constructed: for each divisor position, a multiple of it
    for mss in [100, 536, 1380, 1400, 1440, 1448, 1460, 1500, 9000, 99, 101]:
        for ts in (0, 7):
            for ver in (4, 6):
                for hdr in (40, 44, 52, 60, 72, 80):
                    for syn in (0, 1300, 12, 11, 5):
                        divs = [mss, mss - 12, 1460, 1448, 1440, 1428, mss + 40, mss + hdr, mss + 60, 1500, syn, syn - 12]
                        for d in divs:
                            if d > 0:
                                for k in (1, 2, 3, 65535 // d):
                                    if 0 < d * k <= 65535:
                                        ops.append(op(d * k, mss, ts, ver, hdr, syn))
    ops = list(dict.fromkeys(ops))
    if ctx.quick() and len(ops) > 40000:
        ops = r.sample(ops, 40000)
    ctx.correspond(ops, nontrivial=lambda l, a: a != "-1 0", label="constructed", tagger=lambda l, a: "none" if a == "-1 0" else ("mtu" if a.endswith(" 1") else "mss"))
    # exhaustive windows for fixed tuples
    tuples = [(1460, 0, 4, 40, 0), (1440, 5, 6, 80, 0), (1400, 5, 4, 52, 1300)]
    for _ in range(ctx.n(3, 60)):
        tuples.append((r.choice(gens.MSSS + [r.randrange(100, 2000)]), r.choice([0, 9]), r.choice([4, 6]), r.choice([40, 44, 52, 60, 72, 80, 100]), r.choice([0, 0, 1460, 536, 13, 12, 3])))
    ops = [op(w, *t) for t in tuples for w in range(65536)]
    ctx.correspond(ops, nontrivial=lambda l, a: a != "-1 0", label="exhaustive-window", tagger=lambda l, a: "none" if a == "-1 0" else ("mtu" if a.endswith(" 1") else "mss"))
    ctx.notes["exhaustive"] = False
    ctx.notes["exhaustive_subdomains"] = [f"window 0..65535 for {len(tuples)} (mss,ts,ver,hdrlen,peer) tuples"]
    # random
    ops = []
    for _ in range(ctx.n(60000, 1500000)):
        p = gens.rand_pkt(r)
        ops.append(op(p["win"], p["mss"], p["ts"], p["ver"], p["hdr"], p["synmss"]))
    ctx.correspond(ops, nontrivial=lambda l, a: a != "-1 0", label="random", tagger=lambda l, a: "none" if a == "-1 0" else ("mtu" if a.endswith(" 1") else "mss"))
