"""C01 - tcp_signatures_match.  Ops: match (function level: arbitrary signature x packet signature x max_dist)."""
from .. import gens
from ..gens import sig_fields, pkt_fields

RULE = ("API level (histq ops): signature TEXT derived from a random SYN / SYN+ACK segment, generalised and perturbed in 0-2 criteria, loaded through Database.load into a "
        "one-record database and matched against the segment's bytes with fingerprint_tcp at several max_dist values (observable: match type and distance). match ops: structured signature x full packet signature x max_dist, compared on the match type. Exhaustive TTL grid, "
        "exhaustive single/pair quirk differences, window forms against boundary windows, random pairs derived from a packet by "
        "perturbing 0-2 criteria. Non-trivial = the layouts are equal (the match is decided by a later criterion).")
ASSUMPTIONS = ["function-level op constructs TCPSignature / TCPPacketSignature directly; parsing of signature text is tied by the C09/C10/C18 checks and extraction by C03",
               "signatures are within the ranges the parser guarantees (window %N with N>=2)"]
NONTRIVIAL_FLOOR = 5000


def op(s, p, d):
    return "\t".join(["match"] + s + p + [str(d)])


def nontriv(line, ans):
    f = line.split("\t")
    return f[8] == f[17]


def sig_from_pkt(r, p):
    """a signature that matches packet p exactly, then generalised at random"""
    s = dict(ver=p["ver"] if r.random() < 0.5 else -1, olen=p["olen"], ttl=min(255, p["ttl"] + r.choice([0, 0, 1, 5, 35, 36])) or 1,
             bad=0, wtype=0, wsize=p["win"], scale=p["ws"], layout=p["layout"], mss=p["mss"], eol=p["eol"], pay=p["pay"], quirks=p["quirks"])
    if r.random() < 0.3:
        s["bad"] = 1
    if r.random() < 0.4:
        s["mss"] = -1
    if r.random() < 0.4:
        s["scale"] = -1
    if r.random() < 0.3:
        s["pay"] = -1
    c = r.random()
    if c < 0.15:
        s["wtype"], s["wsize"] = 1, 0
    elif c < 0.35 and p["win"]:
        ds = [d for d in range(2, 50) if p["win"] % d == 0] + [p["win"]]
        s["wtype"], s["wsize"] = 2, r.choice([d for d in ds if d >= 2] or [2])
    elif c < 0.7:
        # mss*N / mtu*N with the multiplier the real divisor order would find, or a near miss
        s["wtype"] = r.choice([3, 4])
        n = 0
        for d in ([p["mss"], p["mss"] - 12, 1460, 1448, p["mss"] + 40, p["mss"] + p["hdr"], 1500]):
            if d > 0 and p["win"] % d == 0:
                n = p["win"] // d
                break
        s["wsize"] = max(1, min(1000, n + r.choice([0, 0, 0, 1])))
    return s


def perturb(r, s, p):
    k = r.choice(["none", "none", "quirk", "quirk", "ttl", "win", "mss", "scale", "eol", "olen", "pay", "layout", "ver"])
    if k == "quirk":
        b = 1 << r.randrange(17)
        if r.random() < 0.5:
            s["quirks"] ^= b
        else:
            p["quirks"] ^= b
    elif k == "ttl":
        p["ttl"] = r.randrange(256)
    elif k == "win":
        p["win"] = max(0, min(65535, p["win"] + r.choice([-1, 1, 1460])))
    elif k == "mss":
        p["mss"] = r.choice(gens.MSSS)
    elif k == "scale":
        p["ws"] = r.randrange(256)
    elif k == "eol":
        p["eol"] = r.randrange(4)
    elif k == "olen":
        p["olen"] = r.choice([0, 4, 8])
    elif k == "pay":
        p["pay"] ^= 1
    elif k == "layout":
        p["layout"] = list(p["layout"]) + [1]
    elif k == "ver":
        s["ver"] = r.choice([4, 6, -1])


def text_perturb(r, sig):
    """perturb 0-2 criteria of a signature TEXT (version, ttl, olen, mss, window, scale, quirks, payload class)"""
    f = sig.split(":")
    for _ in range(r.choice([0, 0, 1, 1, 2])):
        k = r.choice(["ttl", "ttl", "quirk", "quirk", "mss", "win", "scale", "olen", "pay", "ver", "badttl", "layout"])
        try:
            if k == "ttl":
                t = int(f[1].rstrip("-").split("+")[0]) + r.choice([-1, 1, 5, 35, 36, 40, -30])
                f[1] = str(max(1, min(255, t)))
            elif k == "badttl":
                f[1] = f[1].rstrip("-").split("+")[0] + "-"
            elif k == "quirk":
                qs = f[6].split(",") if f[6] else []
                q = r.choice(["df", "id+", "id-", "ecn", "0+", "seq-", "ack+", "pushf+", "flow", "ts1-", "exws"])
                if q in qs:
                    qs.remove(q)
                else:
                    qs.append(q)
                if f[0] == "4":
                    qs = [x for x in qs if x != "flow"]
                if f[0] == "6":
                    qs = [x for x in qs if x not in ("df", "id+", "id-", "0+")]
                f[6] = ",".join(qs)
            elif k == "mss":
                f[3] = r.choice(["*", "1460", "0", "536", f[3]])
            elif k == "win":
                w, _, sc = f[4].partition(",")
                w = r.choice(["*", "%2", "%3", "mss*4", "mss*10", "mtu*4", "8192", w])
                f[4] = w + "," + sc
            elif k == "scale":
                w, _, sc = f[4].partition(",")
                f[4] = w + "," + r.choice(["*", "0", "7", "14", sc])
            elif k == "olen":
                f[2] = r.choice(["0", "4", "8"])
            elif k == "pay":
                f[7] = r.choice(["*", "0", "+"])
            elif k == "ver":
                f[0] = r.choice(["*", "4", "6"])
                qs = f[6].split(",") if f[6] else []
                if f[0] == "4":
                    qs = [x for x in qs if x != "flow"]
                if f[0] == "6":
                    qs = [x for x in qs if x not in ("df", "id+", "id-", "0+")]
                f[6] = ",".join(qs)
            elif k == "layout":
                f[5] = f[5] + ",nop" if f[5] else "nop"
        except ValueError:
            pass
    return ":".join(f)


def api_level(ctx):
    """signature TEXT (through Database.load) x wire bytes (through fingerprint_tcp) at several max_dist values"""
    from .. import core, impgen
    r = ctx.rng
    srcs = [impgen.source_packet(r) for _ in range(ctx.n(9000, 200000))]
    texts = core.run_driver(["printsig\t%s\t%s" % (v, b.hex()) for v, b in srcs])
    hx = lambda t: t.encode().hex()
    ops = []
    for (v, raw), t in zip(srcs, texts):
        if " -> " not in t or t.startswith("SKIP"):
            continue
        sig = t.split(" -> ")[0]
        if r.random() < 0.7:
            sig = impgen.generalise(r, sig)
        sig = text_perturb(r, sig)
        flags = raw[(raw[0] & 15) * 4 + 13] if v == "4" else raw[40 + 13]
        sec = "response" if flags & 0x10 else "request"
        db = f"[tcp:{sec}]\nlabel = s:unix:X:\nsig = {sig}\n"
        tstep = f"T:{v}:{raw.hex()}:0:{r.choice([35, 35, 35, 0, 4, 255])}"
        if r.random() < 0.15:
            # the record's signature has been used by an impersonation by label (with extra hops) before: the verdict
            # is still that of the signature TEXT in the file
            ops.append("histq\tL:" + hx(db) + "\t" + tstep + f"\tI:{v}:{raw.hex()}:label:{hx('s:unix:X:')}:{r.choice([1, 3, 9])}" + "\t" + tstep)
        else:
            ops.append("histq\tL:" + hx(db) + "\t" + tstep)
    ctx.correspond(ops, nontrivial=lambda l, a: " ; " in a and not a.split(" ; ")[1].startswith(("none", "ERR")), label="api-text-x-wire",
                   tagger=lambda l, a: (a.split(" ; ")[1].split(" ")[1] if " ; " in a and len(a.split(" ; ")[1].split(" ")) == 3 else a.split(" ; ")[-1][:10]))


def run(ctx):
    r = ctx.rng
    api_level(ctx)
    # 1. exhaustive TTL grid
    ops = []
    dists = [0, 34, 35, 36, 255, -1] if not ctx.quick() else [0, 35, 36, -1]
    step = 1 if not ctx.quick() else 3
    for d in dists:
        for bad in (0, 1):
            for st in range(1, 256, step):
                for pt in range(0, 256, step):
                    ops.append(op(sig_fields(ttl=st, bad=bad, layout=[2]), pkt_fields(ttl=pt, layout=[2]), d))
    # a few with the exact boundary always included
    for st in (1, 35, 36, 64, 128, 255):
        for delta in (-1, 0, 1, 34, 35, 36):
            for d in (35, 0):
                if 0 <= st - delta <= 255:
                    ops.append(op(sig_fields(ttl=st, layout=[2]), pkt_fields(ttl=st - delta, layout=[2]), d))
    ctx.correspond(ops, nontrivial=nontriv, label="ttl-grid")
    ctx.notes["exhaustive_subdomains"] = ["sig ttl x pkt ttl x {ttl, ttl-} x max_dist pool (step %d)" % step,
                                          "all single and pair quirk differences x sig version {4,6,*} x pkt version {4,6}"]
    # 2. quirk differences: singles and pairs, both directions
    ops = []
    base = 0
    for sv in (4, 6, -1):
        for pv in (4, 6):
            for i in range(17):
                for j in range(i, 17):
                    m = (1 << i) | (1 << j)
                    for (sq, pq) in ((m, 0), (0, m), (1 << i, 1 << j), (m | 64, 64)):
                        ops.append(op(sig_fields(ver=sv, quirks=sq, layout=[2]), pkt_fields(ver=pv, quirks=pq, layout=[2]), 35))
    ctx.correspond(ops, nontrivial=nontriv, label="quirk-diffs")
    # 3. window forms against boundary windows
    ops = []
    for wtype in range(5):
        for size in (1, 2, 3, 4, 10, 44, 1000, 1460, 8192, 32768, 65535):
            for win in {0, 1, size - 1, size, size + 1, 2 * size, 3 * size, 65535, size * 1460 % 65536, 5840, 6000}:
                if 0 <= win <= 65535:
                    for mss in (1460, 1400, 99, 0):
                        ops.append(op(sig_fields(wtype=wtype, wsize=size, layout=[2]), pkt_fields(win=win, mss=mss, layout=[2]), 35))
    ctx.correspond(ops, nontrivial=nontriv, label="window-forms")
    # 4. random pairs
    ops = []
    for _ in range(ctx.n(120000, 3000000)):
        p = gens.rand_pkt(r)
        s = sig_from_pkt(r, p)
        for _ in range(r.choice([0, 0, 1, 1, 2])):
            perturb(r, s, p)
        ops.append(op(sig_fields(**s), pkt_fields(**p), r.choice([35, 35, 35, 0, 5, 255, -1])))
    ctx.correspond(ops, nontrivial=nontriv, label="random")
    # 5. one signature object evaluated, edited in place (as code holding a database record can do), evaluated again:
    #    the verdict follows the object's current fields, for either IP family and both orders
    ops = []
    for _ in range(ctx.n(15000, 300000)):
        p = gens.rand_pkt(r)
        a = sig_from_pkt(r, p)
        b = dict(a)
        k = r.choice(["quirks", "quirks", "ttl", "ver", "win", "mss"])
        if k == "quirks":
            b["quirks"] = a["quirks"] ^ (1 << r.randrange(17))
        elif k == "ttl":
            b["ttl"] = r.choice([1, 64, 255, max(1, p["ttl"])])
        elif k == "ver":
            b["ver"] = r.choice([4, 6, -1])
        elif k == "win":
            b["wtype"], b["wsize"] = 0, p["win"]
        else:
            b["mss"] = r.choice([-1, p["mss"], 1460])
        if r.random() < 0.5:
            a, b = b, a
        d = r.choice([35, 35, 0, 255])
        ops.append("\t".join(["match2"] + sig_fields(**a) + pkt_fields(**p) + [str(d)] + sig_fields(**b)))
    ctx.correspond(ops, nontrivial=lambda l, a: True, label="edited-in-place")
    # 6. twins: two packet signatures that agree in everything a shared memo of the window multiplier might be keyed on except ONE of
    #    the values the divisor search reads (peer MSS, timestamp presence, header length, IP version, own MSS), the window a multiple
    #    of a divisor only one of them has; evaluated one after the other IN ONE PROCESS, in both orders - each verdict must be the one
    #    the packet gets on its own
    ops = []
    for _ in range(ctx.n(6000, 120000)):
        a = gens.rand_pkt(r)
        a["mss"] = r.choice([1460, 1400, 1380, 536, 1220, 8960])
        a["layout"] = [2]
        b = dict(a)
        k = r.choice(["synmss", "synmss", "synmss", "ts", "hdr", "ver", "mss"])
        if k == "synmss":
            a["synmss"], b["synmss"] = r.choice([1400, 1200, 1360, 9000, 512]), r.choice([0, 0, 1460, 1300])
            d = r.choice([a["synmss"], a["synmss"] - 12])
        elif k == "ts":
            a["ts"], b["ts"] = 12345, 0
            d = a["mss"] - 12
        elif k == "hdr":
            b["hdr"] = a["hdr"] + r.choice([4, 12, 20])
            d = a["mss"] + a["hdr"]
        elif k == "ver":
            a["ver"], b["ver"] = 6, 4
            a["quirks"] &= ~gens.V4ONLY
            b["quirks"] = a["quirks"]
            a["olen"] = b["olen"] = 0
            d = r.choice([a["mss"] + 60, 1440, 1428])
        else:
            b["mss"] = a["mss"] - r.choice([12, 40, 100])
            d = a["mss"]
        n = r.randrange(1, max(2, min(40, 65535 // max(d, 1)) + 1))
        a["win"] = b["win"] = min(65535, n * d)
        s = sig_from_pkt(r, a)
        s["wtype"], s["wsize"], s["mss"] = r.choice([3, 3, 4]), n, -1
        dist = 35
        first, second = (a, b) if r.random() < 0.5 else (b, a)
        ops.append("seq\t" + "\x1f".join(op(sig_fields(**s), pkt_fields(**first), dist).split("\t")) + "\t"
                   + "\x1f".join(op(sig_fields(**s), pkt_fields(**second), dist).split("\t")))
    ctx.correspond(ops, nontrivial=lambda l, a: True, label="twins")
