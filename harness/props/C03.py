"""C03 - extraction from wire bytes.  Ops: wire (API level: parse_packet(ScapyIP(bytes)), TCPPacketSignature.from_packet), opts."""
import struct
from .. import wiregen

RULE = ("wire ops: IPv4 (IHL 5..15, random / NOP option bytes, all DF/MF/evil combinations, id in {0,1,65535,..}, all ECN codepoints) and IPv6 (flow label, "
        "traffic class boundaries) segments generated as BYTES, TCP flags over all 512 values x seq/ack/urgptr in {0, non-0}, option areas: valid walks, walks with one "
        "corruption, (kind,length) probes, random bytes; optional trailer beyond the IP length. Every extracted field and quirk set compared with the model. "
        "opts ops: option areas alone incl. every (kind 0..255, length 0..41) probe. Non-trivial = well-framed (the model decodes it).")
ASSUMPTIONS = ["Scapy's dissection of well-framed packets is modelled as RFC 791/8200/793 field extraction (not verified); ill-framed bytes are outside C03 (C04 covers them)",
               "quirks are compared as the 17-bit mask; addresses as bytes"]
NONTRIVIAL_FLOOR = 5000


def scapy_walk_hits_short_ao(opts):
    """Scapy 2.7.0's TCPOptionsField.m2i, re-walked: does it reach a TCP-AO option (kind 29) whose value is shorter than the two
    bytes TCPAOValue needs?  (Its walk differs from pyp0f's: an announced length below 2 is taken as 2 and the walk goes on.)"""
    x = opts
    while x:
        k = x[0]
        if k == 0:
            return False
        if k == 1:
            x = x[1:]
            continue
        ln = x[1] if len(x) > 1 else 0
        if ln < 2:
            ln = 2
        val = x[2:ln]
        if k == 29 and len(val) < 2:
            return True
        x = x[ln:]
    return False


def _is_f26(ver, raw_hex):
    raw = bytes.fromhex(raw_hex)
    off = (raw[0] & 15) * 4 if ver == "4" else 40
    t = raw[off:]
    if len(t) >= 20:
        hl = (t[12] >> 4) * 4
        return scapy_walk_hits_short_ao(t[20:hl])
    return False


def classify(f, known):
    # F26: Scapy cannot dissect the TCP layer when its option walk reaches a TCP-AO option with a value shorter than 2 bytes
    if f.op and f.impl == "ERR packet" and f.op.startswith(("wire", "printsig")):
        if _is_f26(f.op.split("\t")[1], f.op.split("\t")[2]):
            return "F26"
    if f.op and f.op.startswith("seq\t") and f.impl and f.model:
        # a history: F26 only if every part that differs is an F26 packet answered with PacketError
        parts = f.op.split("\t")[1:]
        ia, ma = f.impl.split(" ;; "), f.model.split(" ;; ")
        if len(ia) == len(ma) == len(parts):
            diff = [(p, a) for p, a, b in zip(parts, ia, ma) if a != b]
            if diff and all(a == "ERR packet" and p.split("\x1f")[0] == "wire" and _is_f26(p.split("\x1f")[1], p.split("\x1f")[2]) for p, a in diff):
                return "F26"
    return None


def nt(line, ans):
    return not ans.startswith("SKIP")


def run(ctx):
    r = ctx.rng
    # 1. all 512 flag values x seq/ack/urp zero / non-zero, v4 and v6
    ops = []
    for flags in range(512):
        for seq in (0, 7):
            for ack in (0, 9):
                for urp in (0, 3):
                    tcp = wiregen.tcp_header(r, flags=flags, seq=seq, ack=ack, urp=urp, opts=b"\x08\x0a\x00\x00\x00\x05\x00\x00\x00\x07\x01\x01", res=0)
                    ops.append("wire\t4\t%s\t1460" % wiregen.ipv4(r, tcp, ipopts=b"").hex())
                    if seq == 0 and urp == 0:
                        ops.append("wire\t6\t%s\t0" % wiregen.ipv6(r, tcp).hex())
    ctx.correspond(ops, nontrivial=nt, label="flags-512")
    # 2. IP header boundaries
    ops = []
    tcp = wiregen.tcp_header(r, flags=2, opts=b"\x02\x04\x05\xb4", res=0)
    for fl in range(8):
        for ident in (0, 1, 65535):
            for tos in range(0, 256, 1 if not ctx.quick() else 17):
                ops.append("wire\t4\t%s\t0" % wiregen.ipv4(r, tcp, fl=fl, ident=ident, tos=tos, ipopts=b"").hex())
    for n in range(0, 11):
        ops.append("wire\t4\t%s\t0" % wiregen.ipv4(r, tcp, ipopts=b"\x01" * (4 * n)).hex())
    for flw in (0, 1, 0xfffff, 0x80000):
        for tc in range(256):
            ops.append("wire\t6\t%s\t0" % wiregen.ipv6(r, tcp, tc=tc, fl=flw).hex())
    for frag in (0, 1, 8191):
        for fl in (0, 1, 2):
            ops.append("wire\t4\t%s\t0" % wiregen.ipv4(r, tcp, fl=fl, frag=frag, ipopts=b"").hex())
    ctx.correspond(ops, nontrivial=nt, label="ip-header")
    # 3. option probes: kind x length (function level, exhaustive in thorough)
    ops = []
    kinds = range(256) if not ctx.quick() else list(range(0, 12)) + [28, 29, 30, 34, 77, 253, 254, 255] + [r.randrange(256) for _ in range(20)]
    for kind in kinds:
        for ln in range(0, 42):
            for pre in (b"", b"\x01\x01", b"\x02\x04\x05\xb4\x01"):
                body = bytes([kind, ln]) + bytes((i * 37 + kind) % 256 for i in range(max(0, ln - 2)))
                buf = (pre + body)[:40]
                for tail in (b"", b"\x01", b"\x00\x00", b"\x00\x05"):
                    ops.append("opts\t%s\t%d" % ((buf + tail)[:44].hex(), (kind + ln) % 2))
    ctx.correspond(ops, nontrivial=lambda l, a: True, label="opt-probes", tagger=lambda l, a: "bad" if " q=65536" in a or "bad" in a.split("quirks=")[-1] else "ok")
    # the same probes inside real segments
    ops = []
    for kind in ([2, 3, 4, 5, 8, 0, 1, 29, 30, 77, 255] if ctx.quick() else range(256)):
        for ln in range(0, 42):
            body = bytes([kind, ln]) + bytes((i * 31 + 1) % 256 for i in range(max(0, min(ln, 38) - 2)))
            buf = body[:40]
            buf += b"\x01" * (-len(buf) % 4)
            tcp = wiregen.tcp_header(r, flags=r.choice([2, 0x12]), opts=buf[:40], res=0)
            ops.append("wire\t4\t%s\t0" % wiregen.ipv4(r, tcp, ipopts=b"").hex())
    ctx.correspond(ops, nontrivial=nt, label="opt-probes-wire")
    # 4. random packets
    ops = []
    for _ in range(ctx.n(40000, 1200000)):
        v, b = wiregen.rand_packet(r)
        ops.append("wire\t%s\t%s\t%d" % (v, b.hex(), r.choice([0, 0, 1460, 5, 65535])))
    ctx.correspond(ops, nontrivial=nt, label="random")
    # 5. short histories in one process: the same option bytes on an initial SYN and on another segment (the peer-timestamp
    #    quirk depends on the packet type, the option walk must not remember the previous packet), the same segment under
    #    both IP versions, and a packet repeated after others
    ops = []
    for _ in range(ctx.n(3000, 60000)):
        opts = b"\x08\x0a" + struct.pack("!II", r.choice([0, 5, 2**32 - 1]), r.choice([0, 7, 9])) + r.choice([b"\x01\x01", b"\x03\x03\x0f", b"\x01\x00"])
        opts += b"\x01" * (-len(opts) % 4)
        if r.random() < 0.3:
            opts = wiregen.option_area(r)[:40]
        seq_ops = []
        flags_seq = r.sample([0x02, 0x12, 0x02, 0x10, 0x0a, 0x12], r.randint(2, 4))
        for fl in flags_seq:
            tcp = wiregen.tcp_header(r, flags=fl, opts=opts, seq=7, ack=0 if fl == 2 else 9, urp=0, res=0)
            raw = wiregen.ipv4(r, tcp, ipopts=b"") if r.random() < 0.7 else wiregen.ipv6(r, tcp)
            ver = "4" if raw[0] >> 4 == 4 else "6"
            seq_ops.append("\x1f".join(["wire", ver, raw.hex(), "0"]))
        if r.random() < 0.5:
            seq_ops.append(seq_ops[0])
        ops.append("seq\t" + "\t".join(seq_ops))
    ctx.correspond(ops, nontrivial=lambda l, a: "SKIP" not in a, label="histories")
    ctx.notes["exhaustive_subdomains"] = ["all 512 TCP flag values x {seq,ack,urgptr} zero/non-zero", "all 8 IPv4 flag combinations x id {0,1,65535} x tos",
                                          "option (kind,length) probes: %s kinds x lengths 0..41" % ("256" if not ctx.quick() else "a sample of")]
