"""C18 - printed layouts and quirk lists parse back.  Ops: printsig (API level, from wire bytes), dumprt (function level)."""
from .. import wiregen
from . import C03

RULE = ("printsig ops: a random wire packet is extracted, its signature written with TCPOptions.dump()/dump_quirks(), parsed with TCPSignature.parse and matched against "
        "the packet (must be exact); dumprt ops: arbitrary layouts over kinds 0..255 with any padding and arbitrary 17-bit quirk masks x version {4,6,*} printed and parsed back. "
        "Non-trivial = the printed text is accepted.")
ASSUMPTIONS = ["fields other than layout/quirks are written literally by the harness (ttl as max(ttl,1))"]
NONTRIVIAL_FLOOR = 3000
classify = C03.classify


def run(ctx):
    r = ctx.rng
    ops = []
    for _ in range(ctx.n(30000, 800000)):
        v, b = wiregen.rand_packet(r)
        ops.append("printsig\t%s\t%s" % (v, b.hex()))
    res = ctx.correspond(ops, nontrivial=lambda l, a: a.endswith("exact"), label="printsig", tagger=lambda l, a: a.split(" -> ")[-1][:12])
    for line, a, b in res:
        # property oracle on the implementation's own answer: accepted text must match exactly
        if not b.startswith("SKIP") and not a.startswith(("ERR", "EXC")) and not a.endswith("-> exact"):
            ctx.fail("signature written from the packet does not match it exactly: " + a, op=line, impl=a, model=b)
    ops = []
    V4ONLY, V6ONLY = 2 | 4 | 8 | 16, 32
    for i in range(17):
        for ver in ("4", "6", "*"):
            ops.append("dumprt\t2\t0\t%d\t%s" % (1 << i, ver))
    for kind in range(256):
        ops.append("dumprt\t%d\t0\t0\t*" % kind)
        ops.append("dumprt\t2,%d,0\t%d\t0\t*" % (kind, kind))
    for _ in range(ctx.n(20000, 400000)):
        n = r.randrange(0, 9) if r.random() < 0.9 else r.choice([23, 24, 25, 26, 30, 39, 40, 41, 60])
        layout = [r.choice([0, 1, 2, 3, 4, 5, 8, r.randrange(256)]) for _ in range(n)]
        ver = r.choice(["4", "6", "*"])
        q = r.getrandbits(17)
        if r.random() < 0.7:
            q &= ~(V6ONLY if ver == "4" else V4ONLY if ver == "6" else 0)
        ops.append("dumprt\t%s\t%d\t%d\t%s" % (",".join(map(str, layout)), r.choice([0, 1, 2, 3, 40, 255, 256]), q, ver))
    ctx.correspond(ops, nontrivial=lambda l, a: "ERR" not in a, label="dumprt", tagger=lambda l, a: "ERR" if "ERR" in a else "ok")
    ctx.notes["exhaustive_subdomains"] = ["all 17 single quirks x version {4,6,*}", "all 256 option kinds alone and before an EOL"]
