"""
Generators for p0f database texts: signatures from the full grammars, labels, whole files with any
interleaving of sections (repeated ones included), single-fault corruptions, short line-kind sequences.
Every generated file comes with the generator's own expectation (records per section), which is an
oracle independent of the Lean model.
"""
import random

QUIRKS = ["ecn", "df", "id+", "id-", "0+", "flow", "seq-", "ack+", "ack-", "uptr+", "urgf+", "pushf+", "ts1-", "ts2+", "opt+", "exws", "bad"]
V4ONLY = {"df", "id+", "id-", "0+"}
V6ONLY = {"flow"}
OPTS = ["nop", "mss", "ws", "sok", "sack", "ts"]
SECTIONS = ["mtu", "tcp:request", "tcp:response", "http:request", "http:response"]
HDR_NAMES = ["Host", "User-Agent", "Accept", "Accept-Language", "Accept-Encoding", "Connection", "Keep-Alive", "Server", "Date", "Content-Type", "X-Foo", "a", "B"]


def num(r, lo, hi, fancy=True):
    """a number in range, occasionally spelled the way Python's int() also accepts"""
    v = r.choice([lo, hi, r.randint(lo, hi), r.randint(lo, hi)])
    s = str(v)
    if fancy and r.random() < 0.06:
        k = r.randrange(5)
        if k == 0:
            s = "0" + s
        elif k == 1:
            s = "+" + s
        elif k == 2 and len(s) > 1:
            s = s[0] + "_" + s[1:]
        elif k == 3:
            s = " " + s
        elif k == 4 and v == 0:
            s = "-0"
    return s


def tcp_sig(r, ver=None, fancy=True):
    ver = ver or r.choice(["*", "*", "4", "6"])
    t = r.randrange(4)

    def tnum():
        s = num(r, 1, 255, fancy)
        return s.replace("+", "0") if "+" in s else s      # a '+' in the TTL field means ttl+dist

    if t == 0:
        ttl = tnum()
    elif t == 1:
        a = r.randint(1, 255)
        ttl = f"{a}+{r.randint(0, 255 - a)}"
    elif t == 2:
        ttl = tnum() + "-"
    else:
        ttl = r.choice(["64", "128", "255", "32", "1"])
    olen = num(r, 0, 255, fancy) if r.random() < 0.3 else "0"
    mss = "*" if r.random() < 0.5 else num(r, 0, 65535, fancy)
    w = r.randrange(6)
    if w == 0:
        win = "*"
    elif w == 1:
        win = num(r, 0, 65535, fancy)
    elif w == 2:
        win = "%" + num(r, 2, 65535, fancy)
    elif w == 3:
        win = "mss*" + num(r, 1, 1000, fancy)
    elif w == 4:
        win = "mtu*" + num(r, 1, 1000, fancy)
    else:
        win = r.choice(["8192", "65535", "5840", "mss*4", "mss*44"])
    scale = "*" if r.random() < 0.4 else num(r, 0, 255, fancy)
    n = r.choice([0, 1, 2, 3, 5, 6, 8])
    opts = []
    for _ in range(n):
        k = r.random()
        if k < 0.75:
            opts.append(r.choice(OPTS))
        elif k < 0.9:
            opts.append("?" + num(r, 0, 255, fancy))
        else:
            opts.append("eol+" + num(r, 0, 255, fancy))
    legal = [q for q in QUIRKS if not (ver == "4" and q in V6ONLY) and not (ver == "6" and q in V4ONLY)]
    qs = [q for q in legal if r.random() < 0.2]
    if r.random() < 0.3:
        r.shuffle(qs)
    if qs and r.random() < 0.1:
        qs.append(qs[0])
    pay = r.choice(["*", "0", "+"])
    return ":".join([ver, ttl, olen, mss, f"{win},{scale}", ",".join(opts), ",".join(qs), pay])


def mtu_sig(r, fancy=True):
    return num(r, 1, 65535, fancy)


def http_sig(r):
    ver = r.choice(["*", "0", "1"])
    items = []
    for _ in range(r.choice([0, 1, 2, 3, 5, 8])):
        n = r.choice(HDR_NAMES)
        it = ("?" if r.random() < 0.3 else "") + n
        k = r.random()
        if k < 0.3:
            it += "=[" + r.choice(["x", "keep-alive", "gzip, deflate", ",*/*;q=0.8", "a,b,c", "", "[", "x=y"]) + "]"
        elif k < 0.33:
            it += "=" + r.choice(["x", "[", "[]x", ""])
        items.append(it)
    if r.random() < 0.1:
        items.insert(r.randrange(len(items) + 1), "")
    absent = ",".join(r.choice(HDR_NAMES) for _ in range(r.choice([0, 0, 1, 2, 3])))
    sw = r.choice(["", "", "Apache", "curl", "Mozilla/5.0 (", "a:b"])
    return ":".join([ver, ",".join(items), absent, sw])


# \x0b \x0c \x1c \x1d \x1e: characters str.splitlines() treats as line ends but reading a text file does not
NAME_CH = "abcXYZ019 ._-/()+!@#,;=[]" + "\x0b\x0c\x1c\x1d\x1e"


def word(r, lo=0, hi=8, alphabet=NAME_CH):
    return "".join(r.choice(alphabet) for _ in range(r.randint(lo, hi))).strip()


def label(r, app=None):
    app = (r.random() < 0.25) if app is None else app
    cls = "!" if app else r.choice(["unix", "win", "other", "", "Unix", "!x"])
    name = r.choice(["Linux", "Windows", "NMap", "Mac OS X", "curl", "a b", ""]) if r.random() < 0.6 else word(r)
    flav = r.choice(["", "3.x", "2.2.x-3.x (barebone)", "XP", "7 or 8"]) if r.random() < 0.6 else word(r)
    t = r.choice(["s", "g"])
    s = ":".join([t, cls, name, flav])
    if r.random() < 0.04:
        s += ":extra"
    return s


def sig_for(r, section, fancy=True):
    if section == "mtu":
        return mtu_sig(r, fancy)
    if section.startswith("tcp"):
        return tcp_sig(r, fancy=fancy)
    return http_sig(r)


def pad_eq(r, k, v):
    return r.choice([f"{k} = {v}", f"{k}={v}", f"{k} =\t{v}  ", f"  {k}   = {v}", f"{k}= {v}"])


class File:
    """lines of a generated database + what the generator expects to be loaded"""

    def __init__(self):
        self.lines = []
        self.expect = {}          # section -> list of (line, label text, sys tuple or None, raw sig)
        self.sig_lines = []       # indexes (1-based) of sig lines
        self.kinds = []           # kind per line

    def add(self, text, kind):
        self.lines.append(text)
        self.kinds.append(kind)
        return len(self.lines)

    def text(self, r=None, term=None):
        if term is not None:
            return "".join(l + term for l in self.lines)
        out = []
        for i, l in enumerate(self.lines):
            t = "\n" if r is None or r.random() < 0.85 else r.choice(["\r\n", "\r", "\n"])
            if t == "\r" and (i + 1 >= len(self.lines) or self.lines[i + 1] == ""):
                t = "\r\n"          # a lone CR followed by an empty line + LF would read as one CRLF
            out.append(l + t)
        s = "".join(out)
        if r is not None and r.random() < 0.2 and s.endswith("\n") and not s.endswith("\r\n"):
            s = s[:-1]
        return s


def noise(r, f):
    k = r.random()
    if k < 0.3:
        f.add(r.choice(["; comment", ";", "  ; indented", ";sig = 1", "; [mtu]", "; page\x0cbreak", ";\x0b", "; a\x1cb\x1dc\x1e"]), "comment")
    elif k < 0.6:
        f.add(r.choice(["", "   ", "\t", " \t "]), "blank")
    elif k < 0.8:
        f.add(pad_eq(r, "classes", "win,unix,other"), "skipped")
    else:
        f.add(pad_eq(r, "ua_os", "Linux,Windows=NT"), "skipped")


def valid_file(r, max_sections=6, fancy=True):
    f = File()
    pool = []
    for _ in range(r.randint(0, 2)):
        noise(r, f)
    for _ in range(r.randint(0, max_sections)):
        sec = r.choice(SECTIONS)
        hdr = "[" + sec + "]"
        if r.random() < 0.1:
            hdr = "  " + hdr + " "
        f.add(hdr, "section")
        f.expect.setdefault(sec, [])
        for _ in range(r.choice([0, 1, 1, 2, 3])):
            if r.random() < 0.3:
                noise(r, f)
            if sec == "mtu":
                lab = word(r, 0, 10) if r.random() < 0.5 else r.choice(["Ethernet or modem", "DSL", "s:unix:Linux:3.x", "a"])
                f.add(pad_eq(r, "label", lab), "label")
                sys = None
                lab = lab.strip()
            else:
                # the same label text often recurs in a file (with a different sys list for applications)
                lab = r.choice(pool) if pool and r.random() < 0.35 else label(r)
                pool.append(lab)
                f.add(pad_eq(r, "label", lab), "label")
                parts = lab.split(":")
                lab = ":".join((parts + ["", "", "", ""])[:4])
                sys = ()
                if parts[1] == "!":
                    if r.random() < 0.2:
                        noise(r, f)
                    sv = r.choice(["@unix,@win", "Linux", "", "a, b", "Windows,@unix"])
                    f.add(pad_eq(r, "sys", sv), "sys")
                    sys = tuple(sv.strip().split(","))
            for _ in range(r.choice([0, 1, 1, 2, 4])):
                if r.random() < 0.2:
                    noise(r, f)
                raw = sig_for(r, sec, fancy)
                n = f.add(pad_eq(r, "sig", raw), "sig")
                f.expect[sec].append((n, lab, sys, raw.strip()))
                f.sig_lines.append(n)
    for _ in range(r.randint(0, 1)):
        noise(r, f)
    return f


# ---------------------------------------------------------------------------------------------
# single-fault corruptions (C10): returns (text lines, faulty line number) or None
# ---------------------------------------------------------------------------------------------
def bad_number(r, lo, hi):
    return r.choice([str(lo - 1), str(hi + 1), "x", "", "1x", "0x10", "1.0", "١", "--1", "1__0", "_1", str(hi * 10 + 7)])


def corrupt_tcp(r, raw):
    p = raw.split(":")
    i = r.randrange(8)
    if i == 0:
        p[0] = r.choice(["", "5", "44", "v4", "**", "-1"])
    elif i == 1:
        p[1] = r.choice(["", "0", "256", "-", "+", "64+", "+1", "64+x", "64+-1", "200+56", "255+1", "0-", "256-", "x-", "64-1", "64--"])
    elif i == 2:
        p[2] = r.choice(["", "-1", "256", "x", "*"])
    elif i == 3:
        p[3] = r.choice(["", "-1", "65536", "x", "**", "-2"])
    elif i == 4:
        p[4] = r.choice(["", ",", "*", "8192", "8192,", ",0", "65536,0", "-1,0", "%1,0", "%65536,0", "%,0", "%x,0", "mss*0,0", "mss*1001,0", "mss*,0", "mtu*0,*", "mtu*1001,*",
                         "msx*4,0", "mss,0", "8192,256", "8192,-1", "8192,x", "*,**", "8192;0", "mss*4,0,1"])
    elif i == 5:
        p[5] = r.choice([",", "mss,", ",mss", "mss,,ws", "foo", "MSS", "eol", "eol+", "eol+256", "eol+x", "eol+-1", "?", "?256", "?-1", "?x", "mss ws", "nop,eol+0x1", "sackok", "tstamp"])
    elif i == 6:
        v = p[0]
        choices = [",", "df,", ",df", "foo", "DF", "df id+", "df;id+", "id", "ecn,,df"]
        if v == "4":
            choices += ["flow", "df,flow"]
        if v == "6":
            choices += ["df", "id+", "id-", "0+", "ecn,0+"]
        p[6] = r.choice(choices)
    else:
        p[7] = r.choice(["", "1", "-", "++", "0+", "x", "**"])
    return ":".join(p)


def corrupt_sig(r, sec, raw):
    if sec == "mtu":
        return r.choice(["0", "65536", "", "x", "-1", "1500x", "15 00", "1_", "*"])
    if sec.startswith("tcp"):
        return corrupt_tcp(r, raw)
    p = raw.split(":")
    p[0] = r.choice(["", "2", "10", "x", "-1", "**", "1.1"])
    return ":".join(p)


def faulty_file(r):
    """a valid file with exactly one fault; returns (File, faulty line number, fault kind)"""
    for _ in range(50):
        f = valid_file(r, fancy=False)
        if not f.lines:
            continue
        k = r.random()
        kinds = f.kinds
        if k < 0.45 and f.sig_lines:
            n = r.choice(f.sig_lines)
            sec = next(s for s, recs in f.expect.items() if any(x[0] == n for x in recs))
            raw = next(x[3] for x in f.expect[sec] if x[0] == n)
            bad = corrupt_sig(r, sec, raw)
            if bad.strip() == raw:
                continue
            f.lines[n - 1] = "sig = " + bad
            return f, n, "field"
        if k < 0.55:
            idx = [i for i, kk in enumerate(kinds) if kk == "label" and not f.lines[i].split("=", 1)[1].strip().startswith(("s:", "g:")) is False]
            idx = [i for i, kk in enumerate(kinds) if kk == "label"]
            cand = []
            for i in idx:
                # only OS labels (non-mtu sections) have a constrained type field
                sec = None
                for j in range(i, -1, -1):
                    if kinds[j] == "section":
                        sec = f.lines[j].strip()[1:-1]
                        break
                if sec and sec != "mtu":
                    cand.append(i)
            if not cand:
                continue
            i = r.choice(cand)
            val = f.lines[i].split("=", 1)[1].strip()
            f.lines[i] = "label = " + r.choice(["x", "", "S", "sg", "gs", " "]) + val[1:]
            return f, i + 1, "label-type"
        if k < 0.7:
            idx = [i for i, kk in enumerate(kinds) if kk == "section"]
            if not idx:
                continue
            i = r.choice(idx)
            good = f.lines[i].strip()
            body = good[1:-1] if good.startswith("[") and good.endswith("]") else "mtu"
            f.lines[i] = r.choice(["[tcp]", "[http]", "[mtu:request]", "[mtu:]x", "[tcp:requests]", "[tcp:request", "[", "[]", "[tcp:request:x]", "[TCP:request]", "[udp:request]",
                                   "[tcp:]", "[:request]", "[tcp request]", "[mtu]x", "[tcp:request]]x", "[mtu ]", "[ mtu]",
                                   # surplus / stray brackets around an otherwise well-formed header (the header of this very line)
                                   f"[[{body}]", f"[{body}]]", f"[[{body}]]", f"[]{body}]", f"[{body}[]", f"[[{body}", f"[{body}][", f"[[[{body}]]]",
                                   f"[[{body}]", f"[{body}]]", f"[[{body}]]", f"[]{body}]"])
            return f, i + 1, "section"
        if k < 0.85:
            # an unknown parameter / junk line inserted anywhere
            i = r.randrange(len(f.lines) + 1)
            f.lines.insert(i, r.choice(["foo = 1", "sigs = 1", "Sig = 1", "labels", "=", "= 5", "x", "sig", "]", "sys2 = 1", "class = x", "label:x = 1"]))
            f.kinds.insert(i, "junk")
            txt = f.lines[i]
            # 'sig' / 'label' / 'sys' without '=' are those parameters with an empty value: always misplaced or malformed
            return f, i + 1, "unknown-line"
        # misplaced: remove the label line before a sig, or put a sys line where none is expected
        idx = [i for i, kk in enumerate(kinds) if kk == "label"]
        if not idx:
            continue
        i = r.choice(idx)
        # does a sig follow before the next label/section?
        j = i + 1
        first_sig = None
        while j < len(kinds) and kinds[j] not in ("label", "section"):
            if kinds[j] in ("sig", "sys"):
                first_sig = j
                break
            j += 1
        if first_sig is None:
            continue
        # is there an earlier label in the same section instance (then the sig would not be misplaced)?
        k2 = i - 1
        earlier = False
        while k2 >= 0 and kinds[k2] != "section":
            if kinds[k2] == "label":
                earlier = True
            k2 -= 1
        if earlier and kinds[first_sig] == "sig":
            continue
        f.lines[i] = "; removed label"
        return f, first_sig + 1, "misplaced"
    return None


LINE_KINDS = {
    "sec_mtu": "[mtu]", "sec_tcp": "[tcp:request]", "label": "label = s:unix:L:1", "applabel": "label = s:!:A:1", "sys": "sys = @unix",
    "sig": "sig = 1500", "blank": "", "ws": "  \t", "comment": "; c", "junk": "what = 1", "tcpsig": "sig = *:64:0:*:*,*:mss::0",
}


def kind_sequences(n):
    import itertools
    ks = list(LINE_KINDS)
    for seq in itertools.product(ks, repeat=n):
        yield seq
