"""byte-level generators of IPv4/IPv6 TCP segments (not via Scapy builders)"""
import random
import struct


def tcp_header(r, flags=None, opts=b"", payload=b"", seq=None, ack=None, urp=None, win=None, dofs=None, sport=None, dport=None, res=None):
    flags = r.randrange(512) if flags is None else flags
    seq = r.choice([0, 1, 2**32 - 1, r.randrange(2**32)]) if seq is None else seq
    ack = r.choice([0, 0, 1, r.randrange(2**32)]) if ack is None else ack
    urp = r.choice([0, 0, 0, 1, 65535]) if urp is None else urp
    win = r.choice([0, 1, 1024, 5840, 8192, 14600, 29200, 65535, r.randrange(65536)]) if win is None else win
    dofs = 5 + len(opts) // 4 if dofs is None else dofs
    res = r.choice([0, 0, 0, 1, 7]) if res is None else res
    b12 = (dofs << 4) | ((res & 7) << 1) | (flags >> 8 & 1)
    return struct.pack("!HHIIBBHHH", sport if sport is not None else r.randrange(65536), dport if dport is not None else r.randrange(65536),
                       seq, ack, b12, flags & 0xFF, win, r.randrange(65536), urp) + opts + payload


def ipv4(r, tcp, ihl=None, ipopts=None, tos=None, ident=None, fl=None, frag=0, ttl=None, proto=6, total=None, trailer=b""):
    if ipopts is None:
        n = r.choice([0, 0, 0, 0, 1, 2, 10])
        ipopts = bytes([1] * (4 * n)) if r.random() < 0.5 else bytes(r.randrange(256) for _ in range(4 * n))
        if n and r.random() < 0.5:
            ipopts = bytes([1] * (4 * n - 1)) + b"\x00"
        if r.random() < 0.12:
            # well-formed multi-byte options (one Scapy option object for several bytes): router alert, record route + EOL,
            # timestamp, router alert + NOPs
            ipopts = r.choice([b"\x94\x04\x00\x00", b"\x07\x07\x04\x00\x00\x00\x00\x00", b"\x44\x0c\x05\x00" + bytes(8),
                               b"\x94\x04\x00\x00\x01\x01\x01\x01", b"\x01\x94\x04\x00\x00\x00\x00\x00"])
    ihl = 5 + len(ipopts) // 4 if ihl is None else ihl
    tos = r.choice([0, 0, 1, 2, 3, 4, 0xfc, 0xff]) if tos is None else tos
    ident = r.choice([0, 0, 1, 65535, r.randrange(65536)]) if ident is None else ident
    fl = r.choice([0, 0, 2, 2, 2, 4, 6, 1, 3, 7]) if fl is None else fl
    ttl = r.choice([0, 1, 32, 64, 57, 128, 255, r.randrange(256)]) if ttl is None else ttl
    total = 20 + len(ipopts) + len(tcp) if total is None else total
    hdr = struct.pack("!BBHHHBBH4s4s", (4 << 4) | ihl, tos, total, ident, (fl << 13) | frag, ttl, proto, 0,
                      bytes(r.randrange(1, 255) for _ in range(4)), bytes(r.randrange(1, 255) for _ in range(4)))
    return hdr + ipopts + tcp + trailer


def ipv6(r, tcp, tc=None, fl=None, hlim=None, nh=6, plen=None, trailer=b""):
    tc = r.choice([0, 0, 1, 2, 3, 4, 0xfc, 0xff]) if tc is None else tc
    fl = r.choice([0, 0, 0, 1, 0xfffff, r.randrange(2**20)]) if fl is None else fl
    hlim = r.choice([0, 1, 64, 128, 255, r.randrange(256)]) if hlim is None else hlim
    plen = len(tcp) if plen is None else plen
    w = (6 << 28) | (tc << 20) | fl
    return struct.pack("!IHBB", w, plen, nh, hlim) + bytes(r.randrange(256) for _ in range(32)) + tcp + trailer


VALID_OPTS = [b"\x02\x04\x05\xb4", b"\x01", b"\x03\x03\x07", b"\x04\x02", b"\x08\x0a\x00\x00\x00\x05\x00\x00\x00\x00", b"\x08\x0a\x00\x00\x00\x00\x00\x00\x00\x09",
              b"\x08\x0a\xff\xff\xff\xff\x00\x00\x00\x01", b"\x05\x0a" + b"\x00" * 8, b"\x05\x12" + b"\x00" * 16, b"\x03\x03\x0f", b"\x03\x03\x0e", b"\x02\x04\x00\x63", b"\x02\x04\x00\x64",
              b"\x4d\x02", b"\xfe\x04\xaa\xbb", b"\x22\x03\x01", b"\x01\x01"]


def option_area(r):
    c = r.random()
    if c < 0.04:
        # many one- and two-byte options: up to 40 layout entries in one header
        n = r.choice([24, 25, 26, 28, 32, 36, 40])
        out = bytes(r.choice([1, 1, 1, 1, 4]) for _ in range(n))
        out = out.replace(b"\x04", b"\x04\x02")[:40]
        if r.random() < 0.5:
            out = b"\x02\x04\x05\xb4" + out[:35] + b"\x00"
        out = out[:40]
        return out + b"\x01" * (-len(out) % 4)
    if c < 0.45:
        # walk of valid options
        out = b""
        for _ in range(r.randrange(0, 7)):
            o = r.choice(VALID_OPTS)
            if len(out) + len(o) <= 40:
                out += o
        pad = -len(out) % 4
        if pad:
            out += r.choice([b"\x01" * pad, b"\x00" * pad, b"\x00" + bytes(r.randrange(256) for _ in range(pad - 1))])
        if r.random() < 0.2 and len(out) + 4 <= 40:
            out += r.choice([b"\x00\x00\x00\x00", b"\x00\x01\x00\x00", b"\x01\x01\x01\x00", b"\x00\x00\x00\x07"])
        return out
    if c < 0.75:
        # valid walk with one corruption
        out = bytearray(option_area(random.Random(r.random())) if False else b"".join(r.choice(VALID_OPTS) for _ in range(r.randrange(1, 5))))
        out = out[:40]
        if out:
            out[r.randrange(len(out))] = r.choice([0, 1, 2, 3, 4, 8, 10, 40, 41, 255, r.randrange(256)])
        out += b"\x00" * (-len(out) % 4)
        return bytes(out[:40])
    if c < 0.9:
        # one (kind, length) probe at start / middle / end
        kind = r.choice([2, 3, 4, 5, 8, 0, 1, 6, 77, 254, 255, r.randrange(256)])
        ln = r.randrange(0, 42)
        body = bytes([kind, ln]) + bytes(r.randrange(256) for _ in range(max(0, min(ln, 38) - 2)))
        pre = r.choice([b"", b"\x01\x01", b"\x02\x04\x05\xb4"])
        out = (pre + body)[:40]
        out += r.choice([b"\x01", b"\x00"]) * (-len(out) % 4)
        return out
    n = r.choice([0, 4, 8, 12, 20, 40])
    return bytes(r.choice([0, 1, 2, 3, 4, 5, 8, 10, r.randrange(256)]) for _ in range(n))


def rand_packet(r, syn_bias=True):
    """returns (version, bytes)"""
    opts = option_area(r)
    payload = r.choice([b"", b"", b"", b"x", b"GET / HTTP/1.1\r\n\r\n", bytes(r.randrange(256) for _ in range(r.randrange(1, 9)))])
    flags = None
    if syn_bias and r.random() < 0.7:
        flags = r.choice([0x02, 0x12, 0x02, 0x12, 0x10, 0x0a, 0x22, 0x42, 0xc2, 0x102, 0x1a, 0x32, 0x52])
    sport = dport = None
    if r.random() < 0.06:
        # data on a well-known port that Scapy (all layers loaded) dissects as an application protocol, not as Raw
        q = bytes.fromhex("123401000001000000000000076578616d706c6503636f6d0000010001")
        payload = r.choice([q, struct.pack("!H", len(q)) + q, q[:12]])
        if r.random() < 0.5:
            dport = 53
        else:
            sport = 53
    tcp = tcp_header(r, flags=flags, opts=opts, payload=payload, sport=sport, dport=dport)
    trailer = r.choice([b"", b"", b"", b"\x00" * 6, b"\xaa\xbb"])
    if r.random() < 0.65:
        return "4", ipv4(r, tcp, trailer=trailer)
    return "6", ipv6(r, tcp, trailer=trailer)
