"""shared generator helpers: boundary pools and op-line builders"""
import random

QUIRK_BITS = 17
V4ONLY = 2 | 4 | 8 | 16
V6ONLY = 32
KNOWN_KINDS = [0, 1, 2, 3, 4, 5, 8]

LAYOUTS = [[], [2], [2, 4, 8, 1, 3], [2, 1, 3, 1, 1, 4], [2, 1, 1, 8], [1, 1, 8], [2, 4, 8, 1, 3, 0], [2, 1, 3, 4, 0],
           [77], [2, 200, 1], [5, 1, 1], [2, 3, 4, 5, 8, 1, 0]]
WINS = [0, 1, 2, 5, 99, 100, 512, 1024, 1337, 1460, 2920, 4380, 5840, 5792, 8192, 14600, 16384, 29200, 32768, 32767, 65535, 65534, 14480, 5760, 6000]
MSSS = [0, 1, 99, 100, 101, 536, 1331, 1360, 1380, 1400, 1412, 1428, 1440, 1448, 1452, 1460, 1500, 8960, 65495, 65535, 12, 24]


def sig_fields(ver=-1, olen=0, ttl=64, bad=0, wtype=0, wsize=8192, scale=-1, layout=(), mss=-1, eol=0, pay=0, quirks=0):
    return [str(ver), str(olen), str(ttl), str(bad), str(wtype), str(wsize), str(scale), ",".join(map(str, layout)), str(mss), str(eol), str(pay), str(quirks)]


def pkt_fields(ver=4, olen=0, ttl=64, win=8192, layout=(), mss=0, ws=0, ts=0, eol=0, hdr=40, pay=0, quirks=0, synmss=0):
    return [str(ver), str(olen), str(ttl), str(win), ",".join(map(str, layout)), str(mss), str(ws), str(ts), str(eol), str(hdr), str(pay), str(quirks), str(synmss)]


def rand_pkt(r: random.Random):
    ver = r.choice([4, 4, 6])
    layout = r.choice(LAYOUTS) if r.random() < 0.8 else [r.randrange(256) for _ in range(r.randrange(6))]
    q = 0
    for b in range(QUIRK_BITS):
        if r.random() < 0.15:
            q |= 1 << b
    q &= ~(V6ONLY if ver == 4 else V4ONLY)
    olen = r.choice([0, 0, 0, 4, 8, 40]) if ver == 4 else 0
    mss = r.choice(MSSS) if r.random() < 0.7 else r.randrange(65536)
    hdr = (20 + olen if ver == 4 else 40) + 20 + r.choice([0, 4, 12, 20, 40])
    win = r.choice(WINS) if r.random() < 0.5 else r.randrange(65536)
    if r.random() < 0.5 and mss >= 100:
        # make the window a multiple of one of the divisors
        d = r.choice([mss, mss - 12, 1460, 1448, 1440, 1428, mss + 40, mss + hdr, mss + 60, 1500])
        if d > 0:
            win = d * r.randrange(1, max(2, 65535 // d + 1))
            win = min(win, 65535 // d * d)
    return dict(ver=ver, olen=olen, ttl=r.choice([0, 1, 31, 32, 33, 57, 63, 64, 65, 100, 127, 128, 129, 200, 254, 255]),
                win=win, layout=layout, mss=mss, ws=r.choice([0, 0, 1, 7, 14, 15, 255]),
                ts=r.choice([0, 0, 1, 12345, 2**32 - 1]), eol=r.choice([0, 0, 0, 1, 2, 3]), hdr=hdr, pay=r.choice([0, 0, 1]),
                quirks=q, synmss=r.choice([0, 0, 0, 1, 11, 12, 13, 100, 1300, 1460, 65535]))
