"""ops: wire (parse_packet + TCPPacketSignature.from_packet on raw bytes)"""
import socket
from . import impl
from .impl import P


def scapy_from(ver, raw):
    from scapy.layers.inet import IP
    from scapy.layers.inet6 import IPv6
    return (IP if ver == "4" else IPv6)(raw)


def addr_hex(a):
    try:
        return socket.inet_pton(socket.AF_INET6 if ":" in a else socket.AF_INET, a).hex()
    except OSError:
        return "?" + a


def pkt_str(p, k):
    pp = P()
    m = k.window_multiplier
    pk = p
    sf = pk.should_fingerprint
    return (f"ip v={p.ip.version} ttl={p.ip.ttl} tos={p.ip.tos} olen={p.ip.options_length} hl={p.ip.header_length} frag={1 if p.ip.is_fragment else 0} q={p.ip.quirks.value} src={addr_hex(p.ip.src)} dst={addr_hex(p.ip.dst)} | "
            f"tcp type={int(p.tcp.type)} sp={p.tcp.src_port} dp={p.tcp.dst_port} win={p.tcp.window} seq={p.tcp.seq} hl={p.tcp.header_length} pay={bytes(p.tcp.payload).hex()} q={p.tcp.quirks.value} | "
            f"opt [{','.join(str(int(x)) for x in p.tcp.options.layout)}] mss={p.tcp.options.mss} ws={p.tcp.options.window_scale} ts={p.tcp.options.timestamp} pad={p.tcp.options.eol_padding_length} q={p.tcp.options.quirks.value} | "
            f"sig hdr={k.headers_length} pay={1 if k.has_payload else 0} syn={k.syn_mss} q={k.quirks.value} mult={m.value},{1 if m.is_mtu else 0} | "
            f"gate sf={1 if sf else 0} tcp={1 if pp['FT'].valid_for_tcp_fingerprint(p) else 0} up={1 if _valid_up(p) else 0}")


def _valid_up(p):
    from pyp0f.fingerprint.uptime import valid_for_uptime_fingerprint
    return valid_for_uptime_fingerprint(p)


def op_wire(f):
    pp = P()
    pkt = scapy_from(f[1], bytes.fromhex(f[2]))
    p = pp["parse_packet"](pkt)
    k = pp["TCPPacketSignature"].from_packet(p, int(f[3]))
    # cross-check the copies stored in the signature object
    assert (k.ip_version, k.ip_options_length, k.ttl, k.window_size) == (p.ip.version, p.ip.options_length, p.ip.ttl, p.tcp.window)
    assert k.options is p.tcp.options or k.options == p.tcp.options
    return pkt_str(p, k)


impl.OPS["wire"] = op_wire


def op_printsig(f):
    """write a signature from an observed packet with pyp0f's own printers, parse it back, match it"""
    pp = P()
    from .ops_db import sig_str
    p = pp["parse_packet"](scapy_from(f[1], bytes.fromhex(f[2])))
    k = pp["TCPPacketSignature"].from_packet(p)
    text = ":".join([str(k.ip_version), str(max(k.ttl, 1)), str(k.ip_options_length), str(k.options.mss), f"{k.window_size},{k.options.window_scale}",
                     k.options.dump(), pp["dump_quirks"](k.quirks), "+" if k.has_payload else "0"])
    try:
        s = pp["TCPSignature"].parse(text)
    except pp["E"].FieldError:
        return f"{text} -> ERR field"
    m = pp["FT"].tcp_signatures_match(s, k, pp["Options"]())
    return f"{text} -> {sig_str(s)} -> {impl.mt_str(m)}"


impl.OPS["printsig"] = op_printsig


# ---------------------------------------------------------------------------------------------
# C04: every fingerprint function on arbitrary bytes: exception category + deterministic work
# ---------------------------------------------------------------------------------------------
import os
import sys
import tempfile

_DB = {}
SMALL_DB = """[mtu]
label = Ethernet
sig = 1500
[tcp:request]
label = s:unix:Linux:3.x
sig = *:64:0:*:mss*10,*:mss,sok,ts,nop,ws:df,id+:0
[tcp:response]
label = s:unix:Linux:3.x
sig = *:64:0:*:mss*10,*:mss,sok,ts,nop,ws:df:0
[http:request]
label = s:!:curl:
sys = @unix,@win
sig = 1:Host,User-Agent,Accept=[*/*]:Connection:curl
[http:response]
label = s:!:Apache:2.x
sys = @unix,@win
sig = 1:Date,Server,?Last-Modified,?Accept-Ranges=[bytes],?Content-Length,?Content-Range,Keep-Alive=[timeout],Connection=[Keep-Alive],?Transfer-Encoding=[chunked],Content-Type::Apache
"""


_SHARED = {}


def _load_into(db, text):
    fd, path = tempfile.mkstemp(prefix="verif-db-", suffix=".fp", dir="/dev/shm" if os.path.isdir("/dev/shm") else None)
    try:
        with os.fdopen(fd, "wb") as fh:
            fh.write(text if isinstance(text, bytes) else text.encode("utf-8"))
        db.load(path)
    finally:
        os.unlink(path)
    return db


def db_from_text(text, key=None):
    """Database holding `text`.  Most calls re-load ONE long-lived Database object per worker (so that
    anything cached per object across loads shows up as a wrong answer); some use a fresh object."""
    pp = P()
    if key is not None and key in _DB:
        return _DB[key]
    import zlib
    h = zlib.crc32(text if isinstance(text, bytes) else text.encode("utf-8"))
    if h % 4 == 0:
        db = _load_into(pp["Database"](), text)
    else:
        if "db" not in _SHARED:
            _SHARED["db"] = pp["Database"]()
            _SHARED["last"] = None
        db = _SHARED["db"]
        if _SHARED["last"] != text:
            _SHARED["last"] = None          # a failing load must not leave a stale marker
            _load_into(db, text)
            _SHARED["last"] = text
    return db


class LineCounter:
    """counts 'line' events executed in frames whose code lives under the pyp0f package"""

    def __init__(self):
        self.n = 0
        import pyp0f
        self.root = os.path.dirname(os.path.realpath(pyp0f.__file__))

    def _local(self, frame, event, arg):
        if event == "line":
            self.n += 1
        return self._local

    def _global(self, frame, event, arg):
        if frame.f_code.co_filename.startswith(self.root):
            return self._local
        return None

    def __enter__(self):
        self.old = sys.gettrace()
        sys.settrace(self._global)
        return self

    def __exit__(self, *a):
        sys.settrace(self.old)


def cat_of(fn):
    try:
        fn()
        return "ok"
    except BaseException as e:  # noqa
        if isinstance(e, (KeyboardInterrupt, SystemExit, impl.Hang)):
            raise
        return impl.exc_cat(e).replace(" ", "_")


def op_fpall(f):
    pp = P()
    raw = bytes.fromhex(f[2])
    db = db_from_text(SMALL_DB)
    opts = pp["Options"](database=db)
    res = {}
    lay = "-"
    with LineCounter() as lc:
        try:
            pkt = scapy_from(f[1], raw)
            dis = "ok"
        except impl.Hang:
            raise
        except BaseException as e:  # Scapy's own failure to dissect is not pyp0f's
            return f"dissect=EXC_{type(e).__name__}"
        res["tcp"] = cat_of(lambda: pp["F"].fingerprint_tcp(pkt, options=opts))
        res["mtu"] = cat_of(lambda: pp["F"].fingerprint_mtu(pkt, options=opts))
        last = pp["TCPPacketSignature"](ip_version=4, ip_options_length=0, ttl=64, window_size=1, options=pp["TCPOptions"]([], pp["Quirk"](0), timestamp=5),
                                        headers_length=40, has_payload=False, quirks=pp["Quirk"](0), syn_mss=0)
        res["up"] = cat_of(lambda: pp["F"].fingerprint_uptime(pkt, last, options=opts))
    try:
        p = pp["parse_packet"](pkt)
        lay = f"{len(p.tcp.options.layout)}/{p.tcp.header_length - 20}"
    except impl.Hang:
        raise
    except BaseException:
        pass
    return f"tcp={res['tcp']} mtu={res['mtu']} up={res['up']} lines={lc.n} layout={lay} len={len(raw)}"


def op_optwork(f):
    """TCPOptions.parse on arbitrary bytes: layout length and executed lines"""
    pp = P()
    raw = bytes.fromhex(f[1])
    with LineCounter() as lc:
        o = pp["TCPOptions"].parse(raw, is_syn=f[2] == "1")
    return f"layout={len(o.layout)} len={len(raw)} lines={lc.n}"


impl.OPS["fpall"] = op_fpall
impl.OPS["optwork"] = op_optwork
