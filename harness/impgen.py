"""
Generators for impersonate_tcp: satisfiable signatures derived BACKWARDS from packets (print the signature of a random
SYN / SYN+ACK, then generalise fields), admissible base packets, hints from boundary pools.
"""
import struct
from . import wiregen

OPT_POOL = [b"\x02\x04\x05\xb4", b"\x02\x04\x05\x78", b"\x02\x04\x00\x64", b"\x02\x04\x02\x18", b"\x01", b"\x01", b"\x03\x03\x07", b"\x03\x03\x00", b"\x03\x03\x0e", b"\x03\x03\x0f",
            b"\x04\x02", b"\x08\x0a\x00\x00\x30\x39\x00\x00\x00\x00", b"\x08\x0a\x00\x00\x00\x00\x00\x00\x00\x00", b"\x08\x0a\x00\x01\x00\x00\x00\x00\x00\x07",
            b"\x05\x0a" + b"\x00" * 8, b"\x05\x12" + b"\x00" * 16, b"\x4d\x02", b"\xfe\x04\xaa\xbb", b"\x22\x03\x01", b"\x1e\x08" + b"\x00" * 6]


def opt_area(r):
    """option areas a real stack could send: valid options, NOP or EOL padding to a multiple of four"""
    out = b""
    for _ in range(r.choice([0, 1, 2, 3, 4, 5, 6])):
        o = r.choice(OPT_POOL)
        if len(out) + len(o) <= 40:
            out += o
    pad = -len(out) % 4
    c = r.random()
    if pad:
        if c < 0.5:
            out += b"\x01" * pad
        elif c < 0.8:
            out += b"\x00" * pad
        else:
            out += b"\x00" + bytes(r.choice([0, 1, 7]) for _ in range(pad - 1))
    elif c < 0.1 and len(out) + 4 <= 40:
        out += r.choice([b"\x00\x00\x00\x00", b"\x01\x01\x01\x00", b"\x00\x01\x01\x01"])
    return out


def source_packet(r):
    """any non-fragment SYN / SYN+ACK a signature could have been written from (all quirks possible)"""
    ver = r.choice(["4", "4", "6"])
    flags = r.choice([0x02, 0x12])
    if r.random() < 0.25:
        flags |= r.choice([0x08, 0x20, 0x40, 0x80, 0xc0, 0x100, 0x28])
    seq = r.choice([0, 1, 12345, 2**32 - 1]) if r.random() < 0.3 else r.randrange(1, 2**32)
    if flags & 0x10:
        ack = 0 if r.random() < 0.1 else r.randrange(1, 2**32)
    else:
        ack = 0 if r.random() < 0.85 else r.randrange(1, 2**32)
    urp = 0 if r.random() < 0.85 else r.randrange(1, 65536)
    opts = opt_area(r)
    mss = None
    win = r.choice([0, 1, 512, 1024, 5840, 8192, 14600, 16384, 29200, 65535, r.randrange(65536)])
    payload = r.choice([b"", b"", b"", b"x", b"GET / HTTP/1.0\r\n\r\n"])
    tcp = wiregen.tcp_header(r, flags=flags, opts=opts, payload=payload, seq=seq, ack=ack, urp=urp, win=win, res=0)
    ttl = r.choice([64, 128, 255, 32, 63, 57, 1, 2, 200])
    if ver == "4":
        n = r.choice([0, 0, 0, 0, 1, 2])
        raw = wiregen.ipv4(r, tcp, ipopts=b"\x01" * (4 * n), tos=r.choice([0, 0, 0, 1, 2, 3, 0x10, 0xb8]), ident=r.choice([0, 0, 1, 4242, 65535]),
                           fl=r.choice([0, 2, 2, 2, 4, 6]), ttl=ttl)
    else:
        raw = wiregen.ipv6(r, tcp, tc=r.choice([0, 0, 0, 1, 2, 3, 0x20]), fl=r.choice([0, 0, 0, 1, 0xfffff, 0x12345]), hlim=ttl)
    return ver, raw


def divisors_of(n):
    return [d for d in (2, 3, 4, 5, 8, 10, 16, 64, 100, 512, 1024, 1460, 8192, 32768, 32769, 65535) if d <= n and n % d == 0]


def generalise(r, text):
    """keep the signature satisfiable by its source packet while wildcarding / re-expressing fields"""
    f = text.split(":")
    ver, ttl, olen, mss, winsc, layout, quirks, pay = f
    win, sc = winsc.split(",")
    t = int(ttl)
    if r.random() < 0.3:
        ver = "*"
    c = r.random()
    if c < 0.15 and t > 1:
        d = r.randint(0, min(3, t - 1))
        ttl = f"{t - d}+{d}"
    elif c < 0.3:
        ttl = f"{t}-"
    if r.random() < 0.5:
        mss_f = "*"
    else:
        mss_f = mss
    w = int(win)
    m = int(mss)
    c = r.random()
    if c < 0.2:
        win = "*"
    elif c < 0.4 and w >= 2:
        ds = divisors_of(w)
        if ds:
            win = f"%{r.choice(ds)}"
        elif w >= 2:
            win = f"%{w}"
    elif c < 0.75 and m >= 100 and w and w % m == 0 and 1 <= w // m <= 1000 and "mss" in layout.split(","):
        win = f"mss*{w // m}"
    if r.random() < 0.5:
        sc = "*"
    if r.random() < 0.3:
        pay = "*"
    return ":".join([ver, ttl, olen, mss_f, f"{win},{sc}", layout, quirks, pay])


HINT_OPTS = [b"", b"", b"\x02\x04\x05\xb4", b"\x02\x04\x00\x01", b"\x02\x04\x00\x63", b"\x02\x04\x00\x64", b"\x02\x04\xff\xff", b"\x02\x04\x00\x00", b"\x02\x04\x40\x00",
             b"\x03\x03\x00", b"\x03\x03\x07", b"\x03\x03\x0e", b"\x03\x03\x0f", b"\x03\x03\xff",
             b"\x08\x0a\x00\x00\x00\x00\x00\x00\x00\x00", b"\x08\x0a\x00\x00\x00\x01\x00\x00\x00\x01", b"\x08\x0a\xff\xff\xff\xff\xff\xff\xff\xff", b"\x08\x0a\x00\x0f\x42\x40\x00\x00\x10\x92",
             b"\x04\x02", b"\x01", b"\x02\x04\x05\x78\x02\x04\x02\x18", b"\x02\x03\x05"]


def base_packet(r, ver, syn_ack, want_payload=None):
    """admissible base: non-fragment SYN / SYN+ACK, ack number zero exactly when ACK is clear, URG clear, urgent pointer 0"""
    flags = 0x12 if syn_ack else 0x02
    if r.random() < 0.35:
        flags |= r.choice([0x08, 0x40, 0x80, 0xc0, 0xc8, 0x100])
    opts = b""
    for _ in range(r.choice([0, 1, 2, 3, 4])):
        o = r.choice(HINT_OPTS)
        if len(opts) + len(o) <= 36:
            opts += o
    opts += b"\x01" * (-len(opts) % 4)
    payload = r.choice([b"", b"", b"abc", b"GET / HTTP/1.1\r\n\r\n"])
    tcp = wiregen.tcp_header(r, flags=flags, opts=opts, payload=payload, seq=r.choice([0, 1, r.randrange(2**32)]), ack=r.randrange(1, 2**32) if syn_ack else 0, urp=0,
                             win=r.choice([0, 1, 1024, 8192, 65535, r.randrange(65536)]), res=0)
    if ver == "4":
        raw = wiregen.ipv4(r, tcp, ipopts=b"", tos=r.choice([0, 0, 1, 2, 3, 0xb8, 0xff]), ident=r.choice([0, 0, 1, 4242, 65535]), fl=r.choice([0, 2, 2, 4, 6]),
                           ttl=r.choice([64, 1, 255]))
    else:
        raw = wiregen.ipv6(r, tcp, tc=r.choice([0, 0, 1, 3, 0xff]), fl=r.choice([0, 0, 7, 0xfffff]), hlim=r.choice([64, 1, 255]))
    return raw


def known_class(sig_text):
    """classes of known_findings.json, decided from the signature text"""
    f = sig_text.split(":")
    if len(f) != 8:
        return None
    ver, ttl, olen, mss, winsc, layout, quirks, pay = f
    qs = quirks.split(",") if quirks else []
    lay = layout.split(",") if layout else []
    win, _, sc = winsc.partition(",")
    if "bad" in qs:
        return "F17"
    if win.startswith("mtu*"):
        return "F13"
    if win.startswith("mss*") and mss != "*":
        try:
            if int(mss) * int(win[4:]) > 65535 or int(mss) < 100:
                return "F13b"
        except ValueError:
            pass
    if lay.count("ws") > 1 and "exws" in qs and sc != "*":
        try:
            if int(sc) <= 14:
                return "F16b"
        except ValueError:
            pass
    return None
