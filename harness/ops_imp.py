"""
ops for impersonate_tcp (C05 / C14 / C15):
  imprun      sighex|L:labelhex  basever  basehex  kind  hops  mtu  uptime  seed  [dbhex]
              runs the REAL impersonate_tcp on a Scapy base packet (kind: d dissected, e dissected under Ethernet,
              p Ethernet + trailing frame padding) with the global RNG seeded; answers
              `out <ver> <hex> hints=<mss,ws,ts1,ts2>` or the exception category.  Implementation only.
  impexplain  sighex basever basehex hints hops mtu uptime maxdist outver outhex
              judges the output: implementation side = its own fingerprint_tcp against a one-record database
              (+ tcp_signatures_match on the extracted signature); model side = Lean matcher on the bytes + explanation.
  imperr      (model only) does the model raise for this input
"""
import os
import random
import tempfile

from . import impl
from .impl import P
from .ops_wire import scapy_from


def base_packet(ver, raw, kind):
    from scapy.layers.l2 import Ether
    if kind in "ep":
        hdr = bytes.fromhex("020000000001" "020000000002") + (b"\x08\x00" if ver == "4" else b"\x86\xdd")
        return Ether(hdr + raw + (b"\x00" * 6 if kind == "p" else b""))
    pkt = scapy_from(ver, raw)
    if kind == "r":
        # as dissected, but the application attached an (empty) data layer: IP()/TCP()/Raw(load=b"") - no payload bytes
        from scapy.layers.inet import TCP
        from scapy.packet import Raw
        if not bytes(pkt[TCP].payload):
            pkt[TCP].remove_payload()
            pkt = pkt / Raw(load=b"")
        return pkt
    if kind == "c":
        # built field by field, the IPv4 id left to Scapy's default (1): the generator writes id 1 into the bytes for this kind
        from scapy.layers.inet import IP, TCP
        from scapy.layers.inet6 import IPv6
        t = pkt[TCP]
        nt = TCP(sport=t.sport, dport=t.dport, seq=t.seq, ack=t.ack, flags=int(t.flags), window=t.window, urgptr=t.urgptr, options=list(t.options))
        top = IP(src=pkt.src, dst=pkt.dst, ttl=pkt.ttl, tos=pkt.tos, flags=int(pkt.flags)) if ver == "4" else IPv6(src=pkt.src, dst=pkt.dst, hlim=pkt.hlim, fl=pkt.fl, tc=pkt.tc)
        new = top / nt
        if t.payload:
            new = new / t.payload.copy()
        return new
    return pkt


def hints_of(pkt):
    from scapy.layers.inet import TCP
    d = dict(pkt[TCP].options)

    def io(v):
        return str(v) if isinstance(v, int) and not isinstance(v, bool) else "-"
    ts = d.get("Timestamp", (None, None))
    if not isinstance(ts, tuple) or len(ts) != 2:
        ts = (None, None)
    return ",".join([io(d.get("MSS")), io(d.get("WScale")), io(ts[0]), io(ts[1])])


_GLOBAL = [False]


def _load_global():
    """applications usually have the shipped database loaded in the global DATABASE; a call that is given its own
    database must never fall back to it"""
    if not _GLOBAL[0]:
        from pyp0f.database import DATABASE
        DATABASE.load()
        _GLOBAL[0] = True


def op_imprun(f):
    p = P()
    from scapy.layers.inet import IP
    ver, raw, kind = f[2], bytes.fromhex(f[3]), f[4]
    pkt = base_packet(ver, raw, kind)
    hints = hints_of(pkt)
    hops, mtu = int(f[5]), int(f[6])
    uptime = None if f[7] in ("-", "") else int(f[7])
    kw = {}
    if f[1].startswith("L:"):
        from .ops_hist import do_load
        _load_global()
        db = p["Database"]()
        do_load(db, f[9], False)
        kw = dict(raw_label=bytes.fromhex(f[1][2:]).decode("latin-1"), database=db)
        # earlier impersonations on the same Database object (a long-lived database serves many calls, of both IP
        # versions): "ver.kind.hex,ver.kind.hex,..."; what they return or raise is not judged here
        for w in (f[10].split(",") if len(f) > 10 and f[10] else []):
            wv, wk, wh = w.split(".")
            st0 = random.getstate()
            random.seed(int(f[8]) ^ 0x5a5a)
            try:
                p["I"].impersonate_tcp(base_packet(wv, bytes.fromhex(wh), wk), extra_hops=len(wh) % 4, **kw)
            except impl.Hang:
                raise
            except Exception:  # noqa
                pass
            finally:
                random.setstate(st0)
    else:
        kw = dict(raw_signature=bytes.fromhex(f[1]).decode("latin-1"))
    st = random.getstate()
    random.seed(int(f[8]))
    try:
        out = p["I"].impersonate_tcp(pkt, mtu=mtu, extra_hops=hops, uptime=uptime, **kw)
        ob = bytes(out)
    finally:
        random.setstate(st)
    over = "4" if isinstance(out, IP) or out.__class__.__name__ == "IP" else "6"
    return f"out {over} {ob.hex()} hints={hints}"


def op_impexplain(f):
    p = P()
    sig_text = bytes.fromhex(f[1]).decode("latin-1")
    sig = p["TCPSignature"].parse(sig_text)
    out = scapy_from(f[9], bytes.fromhex(f[10]))
    maxd = int(f[8])
    pk = p["parse_packet"](out)
    k = p["TCPPacketSignature"].from_packet(pk)
    opts = p["Options"](max_dist=maxd)
    m = p["FT"].tcp_signatures_match(sig, k, opts)
    direct = f"{impl.mt_str(m)} {sig.ttl - k.ttl}"
    # the same through the public API against a database that holds only this signature
    try:
        from .ops_wire import db_from_text
        sec = "request" if pk.tcp.type == p["TCPFlag"].SYN else "response"
        db = db_from_text(f"[tcp:{sec}]\nlabel = s:unix:X:\nsig = {sig_text}\n")
        r = p["F"].fingerprint_tcp(out, options=p["Options"](database=db, max_dist=maxd))
        api = "none" if r.match is None else impl.mt_str(r.match.type)
        api_d = r.distance
    except p["E"].PacketError:
        api, api_d = "ERR_packet", None
    if api != impl.mt_str(m) or (m is not None and m.name == "EXACT" and api_d != sig.ttl - k.ttl):
        return f"{direct} BUT fingerprint_tcp says {api} {api_d}"
    return direct


impl.OPS["imprun"] = op_imprun
impl.OPS["impexplain"] = op_impexplain
