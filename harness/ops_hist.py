"""
ops: db, hist -- public-API histories against ONE Database object per op:
load / dump / len / fingerprint_tcp / fingerprint_mtu / fingerprint_http / get_random / impersonate.
During every load a reader (sys.settrace, line events - and opcode events when VERIF_OPCODES=1 -
inside pyp0f frames) snapshots the shared database through its public API; the sequence of snapshots
must be old* new* with `new` only for a load that succeeds (C11).
"""
import os
import random
import sys
import tempfile
import zlib

from . import impl
from .impl import P
from .ops_db import sig_str, hx
from .ops_wire import scapy_from

TMP = "/dev/shm" if os.path.isdir("/dev/shm") else None


def label_str(l):
    p = P()
    if l is None:
        return "nolabel"
    if isinstance(l, p["Label"]):
        return f"l{hx(l.dump())}/{1 if l.is_generic else 0}/{1 if l.is_user_app else 0}/sys{len(l.sys)}:{','.join(hx(x) for x in l.sys)}"
    return "m" + hx(l.dump())


def http_sig_str(s):
    from .ops_http import opt_bytes
    hs = ",".join(("?" if h.is_optional else "") + h.name.hex() + opt_bytes(h.value) for h in s.headers)
    ab = ",".join(sorted(a.hex() for a in s.absent_headers))
    return f"v={s.version} h=[{hs}] absent=[{ab}] sw={opt_bytes(s.expected_software)}"


def dbsig_str(s):
    p = P()
    if isinstance(s, p["TCPSignature"]):
        return "T(" + sig_str(s) + ")"
    if isinstance(s, p["MTUSignature"]):
        return f"M{s.mtu}"
    return "H(" + http_sig_str(s) + ")"


def rec_str(r):
    return f"{r.line_number}~{label_str(r.label)}~{hx(r.raw_signature)}~{dbsig_str(r.signature)}"


def sections():
    p = P()
    D = p["Direction"]
    return [("mtu", p["MTURecord"], None), ("tcpreq", p["TCPRecord"], D.CLIENT_TO_SERVER), ("tcpresp", p["TCPRecord"], D.SERVER_TO_CLIENT),
            ("httpreq", p["HTTPRecord"], D.CLIENT_TO_SERVER), ("httpresp", p["HTTPRecord"], D.SERVER_TO_CLIENT)]


def db_str(db):
    p = P()
    parts = [f"len={len(db)}"]
    for name, cls, d in sections():
        try:
            recs = list(db.iter_values(cls, d))
            parts.append(f"{name}=[" + ";".join(rec_str(r) for r in recs) + "]")
        except p["E"].DatabaseError:
            parts.append(f"{name}=-")
    return " ".join(parts)


def snapshot(db):
    """cheap identity snapshot through the public API"""
    p = P()
    out = [len(db)]
    for name, cls, d in sections():
        try:
            out.append(tuple(map(id, db.iter_values(cls, d))))
        except p["E"].DatabaseError:
            out.append(None)
    return tuple(out)


class Reader:
    """observes `db` at every line (and opcode) event executed in pyp0f frames"""

    def __init__(self, db):
        self.db = db
        import pyp0f
        self.root = os.path.dirname(os.path.realpath(pyp0f.__file__))
        self.seq = []          # run-length encoded snapshots
        self.points = 0
        self.opcodes = os.environ.get("VERIF_OPCODES") == "1"

    def _obs(self):
        s = snapshot(self.db)
        self.points += 1
        if not self.seq or self.seq[-1] != s:
            self.seq.append(s)

    def _local(self, frame, event, arg):
        if event in ("line", "opcode", "return"):
            self._obs()
        return self._local

    def _global(self, frame, event, arg):
        if frame.f_code.co_filename.startswith(self.root):
            if self.opcodes:
                frame.f_trace_opcodes = True
            self._obs()
            return self._local
        return None

    def __enter__(self):
        self.old = sys.gettrace()
        sys.settrace(self._global)
        return self

    def __exit__(self, *a):
        sys.settrace(self.old)


def do_load(db, arg, watch=True):
    p = P()
    path = None
    cleanup = None
    if arg.startswith("!d"):
        path = tempfile.mkdtemp(prefix="verif-dir-", dir=TMP)
        cleanup = lambda: os.rmdir(path)
    elif arg.startswith("!f"):
        # a path that runs through a regular file (NotADirectoryError)
        fd, base = tempfile.mkstemp(prefix="verif-file-", dir=TMP)
        os.close(fd)
        path = os.path.join(base, "p0f.fp")
        cleanup = lambda: os.unlink(base)
    elif arg.startswith("!l"):
        # a symbolic link that points at itself (OSError ELOOP)
        path = os.path.join(TMP or "/tmp", "verif-loop-%d-%d" % (os.getpid(), random.getrandbits(30)))
        os.symlink(path, path)
        cleanup = lambda: os.unlink(path)
    elif arg.startswith("!n"):
        # a file name longer than the file system allows (OSError ENAMETOOLONG)
        path = os.path.join(TMP or "/tmp", "n" * 300 + ".fp")
    elif arg.startswith("!"):
        path = os.path.join(TMP or "/tmp", "verif-missing-%d-%d.fp" % (os.getpid(), random.getrandbits(30)))
    else:
        raw = bytes.fromhex(arg[1:]) if arg.startswith("x") else bytes.fromhex(arg)
        if zlib.crc32(raw) % 10 < 7:
            # the usual way a database changes: the SAME path is edited and loaded again (one path per worker,
            # rewritten for every load), so a load that is skipped or cached by path shows up
            path = os.path.join(TMP or "/tmp", "verif-db-same-%d.fp" % os.getpid())
            same = False
            try:
                with open(path, "rb") as fh:
                    same = fh.read() == raw
            except OSError:
                pass
            if not same:
                # an unchanged file is NOT rewritten (its mtime / size stay), so a load that is skipped or answered from a cache
                # keyed on the file's identity is reached with a database that was touched in between
                with open(path, "wb") as fh:
                    fh.write(raw)
            _SAME_PATHS.add(path)
            cleanup = None
        else:
            fd, path = tempfile.mkstemp(prefix="verif-db-", suffix=".fp", dir=TMP)
            with os.fdopen(fd, "wb") as fh:
                fh.write(raw)
            cleanup = lambda: os.unlink(path)
    before = snapshot(db)
    before_full = db_str(db)
    rd = Reader(db)
    try:
        if watch:
            with rd:
                db.load(path)
        else:
            db.load(path)
        res = "ok"
    except impl.Hang:
        raise
    except Exception as e:  # noqa
        res = impl.exc_cat(e)
    finally:
        if cleanup:
            cleanup()
    after = snapshot(db)
    during = "ok"
    if res != "ok":
        if after != before or db_str(db) != before_full:
            during = "BAD(failed load changed the database)"
    if watch:
        # allowed: before* after* (after only differs from before when the load succeeded)
        seq = list(rd.seq)
        i = 0
        while i < len(seq) and seq[i] == before:
            i += 1
        while i < len(seq) and seq[i] == after and res == "ok":
            i += 1
        if i != len(seq):
            bad = seq[i]
            during = f"BAD(reader saw a state that is neither old nor new: len={bad[0]} sections={[None if s is None else len(s) for s in bad[1:]]}; {rd.points} points)"
        _STATS["points"] += rd.points
        _STATS["loads"] += 1
    return f"{res} during={during}"


_STATS = {"points": 0, "loads": 0}
_SAME_PATHS = set()


def _rm_same_paths():
    for q in list(_SAME_PATHS):
        try:
            os.unlink(q)
        except OSError:
            pass


import atexit  # noqa: E402
atexit.register(_rm_same_paths)


def do_add(db):
    """the public `add()` between two loads: one more MTU record in the live database"""
    p = P()
    from pyp0f.database.records import MTURecord
    from pyp0f.database.labels import MTULabel
    from pyp0f.database.signatures import MTUSignature
    try:
        db.add(MTURecord(MTULabel("added by the application"), MTUSignature(1400), "1400", 0))
    except p["E"].DatabaseError:
        pass        # a database without an [mtu] section has no list to add to; the step is only a perturbation before the next load
    return "added"


def mt_line(m, res):
    if m is None:
        return f"none {res.distance}"
    return f"{m.record.line_number} {impl.mt_str(m.type)} {res.distance}"


def do_fptcp(db, a):
    p = P()
    pkt = scapy_from(a[1], bytes.fromhex(a[2]))
    opts = p["Options"](database=db, max_dist=int(a[4] or 35))
    mode = a[5] if len(a) > 5 else ""
    synmss = int(a[3] or 0)
    target = p["parse_packet"](pkt) if "p" in mode else pkt
    r = p["F"].fingerprint_tcp(target, syn_mss=synmss, options=opts)
    ans = mt_line(r.match, r)
    if len(a) > 6 and a[6]:
        # the caller edits the SAME Scapy object in place (TTL / hop limit) and asks again: the answer is the one for the
        # packet as it is now
        if a[1] == "4":
            pkt.ttl = int(a[6])
        else:
            pkt.hlim = int(a[6])
        target = p["parse_packet"](pkt) if "p" in mode else pkt
        r = p["F"].fingerprint_tcp(target, syn_mss=synmss, options=opts)
        ans = mt_line(r.match, r)
    if "r" in mode:
        r2 = p["F"].fingerprint_tcp(target, syn_mss=synmss, options=opts)
        a2 = mt_line(r2.match, r2)
        if a2 != ans:
            return f"UNSTABLE first={ans} second={a2}"
    return ans


def do_fpmtu(db, a):
    p = P()
    pkt = scapy_from(a[1], bytes.fromhex(a[2]))
    mode = a[3] if len(a) > 3 else ""
    target = p["parse_packet"](pkt) if "p" in mode else pkt
    r = p["F"].fingerprint_mtu(target, options=p["Options"](database=db))
    ans = f"mtu={r.packet_signature.mtu} match={'none' if r.match is None else r.match.line_number}"
    if "r" in mode:
        r2 = p["F"].fingerprint_mtu(target, options=p["Options"](database=db))
        a2 = f"mtu={r2.packet_signature.mtu} match={'none' if r2.match is None else r2.match.line_number}"
        if a2 != ans:
            return f"UNSTABLE first={ans} second={a2}"
    return ans


def do_fphttp(db, a):
    p = P()
    from pyp0f.net.layers.http.read import read_payload
    raw = bytes.fromhex(a[1])
    mode = a[2] if len(a) > 2 else ""
    buf = raw
    if "a" in mode:
        buf = bytearray(raw)
    elif "b" in mode:
        from h11._receivebuffer import ReceiveBuffer
        buf = ReceiveBuffer()
        buf += raw

    def once():
        r = p["F"].fingerprint_http(buf, options=p["Options"](database=db))
        d = read_payload(raw)[0]
        return f"{'req' if d == p['Direction'].CLIENT_TO_SERVER else 'resp'} {r.packet_signature.version} match={'none' if r.match is None else r.match.line_number} dishonest={1 if r.dishonest else 0}"
    ans = once()
    if "r" in mode:
        a2 = once()
        if a2 != ans:
            return f"UNSTABLE first={ans} second={a2}"
    return ans


def do_getrandom(db, a):
    p = P()
    cls = {"m": p["MTURecord"], "t": p["TCPRecord"], "h": p["HTTPRecord"]}[a[1]]
    d = {"q": p["Direction"].CLIENT_TO_SERVER, "s": p["Direction"].SERVER_TO_CLIENT, "n": None}[a[2]]
    label = bytes.fromhex(a[3]).decode("latin-1")
    seen = set()
    bad = []
    st = random.getstate()
    random.seed(hash((a[1], a[2], a[3])) & 0xffffffff)
    try:
        try:
            nsec = len(list(db.iter_values(cls, d)))
        except p["E"].DatabaseError:
            nsec = 0
        for _ in range(max(120, 40 * nsec)):
            r = db.get_random(label, cls, d)
            seen.add(r.line_number)
            if r.label.dump() != label or not isinstance(r, cls):
                bad.append(r.line_number)
    finally:
        random.setstate(st)
    if bad:
        return f"cands-with-wrong-label-or-kind={sorted(set(bad))}"
    return "cands=[" + ",".join(str(x) for x in sorted(seen)) + "]"


def do_impmtu_label(db, a):
    """impersonate_mtu(raw_label=...): the set of MTUs realised over many draws"""
    p = P()
    from scapy.layers.inet import TCP
    label = bytes.fromhex(a[3]).decode("latin-1")
    raw = bytes.fromhex(a[2])
    try:
        n = len(list(db.iter_values(p["MTURecord"])))
    except p["E"].DatabaseError:
        n = 0
    seen = set()
    st = random.getstate()
    random.seed(hash((a[2], a[3])) & 0xffffffff)
    try:
        for _ in range(max(120, 40 * n)):
            pkt = scapy_from(a[1], raw)
            out = p["I"].impersonate_mtu(pkt, raw_label=label, database=db)
            mss = dict(out[TCP].options)["MSS"]
            seen.add(mss + (40 if a[1] == "4" else 60))
    finally:
        random.setstate(st)
    return "mtus=[" + ",".join(str(x) for x in sorted(seen)) + "]"


def do_imp(db, a):
    """impersonations interleaved in a history: whatever they return or raise, they must not change
    what later fingerprints answer"""
    p = P()
    pkt = scapy_from(a[1], bytes.fromhex(a[2]))
    try:
        hops = int(a[5]) if len(a) > 5 and a[5] else 0
        if a[3] == "sig":
            p["I"].impersonate_tcp(pkt, raw_signature=bytes.fromhex(a[4]).decode("latin-1"), extra_hops=hops)
        elif a[3] == "label":
            p["I"].impersonate_tcp(pkt, raw_label=bytes.fromhex(a[4]).decode("latin-1"), database=db, extra_hops=hops)
        elif a[3] == "mtulabel":
            p["I"].impersonate_mtu(pkt, raw_label=bytes.fromhex(a[4]).decode("latin-1"), database=db)
        elif a[3] == "mtusig":
            p["I"].impersonate_mtu(pkt, raw_signature=bytes.fromhex(a[4]).decode("latin-1"))
    except impl.Hang:
        raise
    except Exception:  # noqa
        pass
    return "-"


def hist_step(db, step, watch):
    a = step.split(":")
    k = a[0]
    try:
        if k == "L":
            return do_load(db, a[1], watch)
        if k == "D":
            return db_str(db)
        if k == "N":
            return f"len={len(db)}"
        if k == "T":
            return do_fptcp(db, a + [""] * 4)
        if k == "M":
            return do_fpmtu(db, a + [""] * 2)
        if k == "H":
            return do_fphttp(db, a + [""] * 2)
        if k == "R":
            return do_getrandom(db, a)
        if k == "I":
            return do_imp(db, a + [""] * 5)
        if k == "J":
            return do_impmtu_label(db, a)
        if k == "A":
            return do_add(db)
        return "?step"
    except impl.Hang:
        raise
    except Exception as e:  # noqa
        return impl.exc_cat(e)


def op_hist(f):
    p = P()
    db = p["Database"]()
    steps = [s for s in f[1:] if s != ""]
    return " ; ".join(hist_step(db, s, True) for s in steps)


def op_db(f):
    p = P()
    db = p["Database"]()
    return " ; ".join(hist_step(db, s, False) for s in ["L:" + f[1], "D"])


def op_histq(f):
    """the same without the reader (for streams that are not about atomicity)"""
    p = P()
    db = p["Database"]()
    steps = [s for s in f[1:] if s != ""]
    return " ; ".join(hist_step(db, s, False) for s in steps)


impl.OPS["hist"] = op_hist
impl.OPS["histq"] = op_histq
impl.OPS["db"] = op_db
