"""
Translator for the finite tables pyp0f's behaviour hangs on.  Imports pyp0f from the working tree
and prints them as Lean literals into lean/P0f/Generated/Tables.lean.  `P0f/TablesOk.lean` proves
`Generated.x = Expected.x` by `decide`; the table-dependent theorems are proved over `Expected`.
A source edit that changes a table therefore breaks a proof obligation at build time.
"""
import os
import sys

VERIF = os.path.dirname(os.path.dirname(os.path.abspath(__file__)))
OUT = os.path.join(os.environ.get("VERIF_LEAN") or os.path.join(VERIF, "lean"), "P0f", "Generated", "Tables.lean")


def lstr(s):
    return '"' + s.replace("\\", "\\\\").replace('"', '\\"').replace("\n", "\\n").replace("\t", "\\t").replace("\r", "\\r") + '"'


UNAVAILABLE = []   # tables the translator could not read off the working tree in this run


def _tables():
    """(lean name, lean type, doc, thunk -> lean literal); every thunk imports what it needs itself"""
    def quirk_values():
        from pyp0f.net.quirks import Quirk
        return "[" + ", ".join(f"({lstr(q.name)}, {q.value})" for q in Quirk) + "]"

    def quirk_strings():
        from pyp0f.net.quirks import QUIRK_STRINGS
        return "[" + ", ".join(f"({k.value}, {lstr(v)})" for k, v in QUIRK_STRINGS.items()) + "]"

    def option_values():
        from pyp0f.net.layers.tcp.options import TCPOption
        return "[" + ", ".join(f"({lstr(m.name)}, {int(m)})" for m in sorted(TCPOption, key=int)) + "]"

    def option_strings():
        from pyp0f.net.layers.tcp.options import OPTION_STRINGS
        return "[" + ", ".join(f"({int(k)}, {lstr(v)})" for k, v in sorted(OPTION_STRINGS.items(), key=lambda kv: int(kv[0]))) + "]"

    def option_sizes():
        from pyp0f.net.layers.tcp.options import OPTION_FORMATS
        return "[" + ", ".join(f"({int(k)}, {v.size})" for k, v in sorted(OPTION_FORMATS.items(), key=lambda kv: int(kv[0]))) + "]"

    def tcp_flags():
        from pyp0f.net.layers.tcp import TCPFlag
        return "[" + ", ".join(f"({lstr(m.name)}, {int(m)})" for m in sorted(TCPFlag, key=int)) + "]"

    def min_tcp4():
        from pyp0f.net.layers.tcp import MIN_TCP4
        return str(int(MIN_TCP4))

    def min_tcp6():
        from pyp0f.net.layers.tcp import MIN_TCP6
        return str(int(MIN_TCP6))

    def wildcard():
        from pyp0f.database.parse.wildcard import WILDCARD
        return str(int(WILDCARD))

    def wildcard_field():
        from pyp0f.database.parse.wildcard import _WILDCARD_FIELD
        return lstr(_WILDCARD_FIELD)

    def invalid_quirks():
        from pyp0f.database.signatures import tcp as ST
        return "[" + ", ".join(f"({k}, {v.value})" for k, v in sorted(ST._INVALID_QUIRKS.items())) + "]"

    def skipped_params():
        from pyp0f.database.parse import parser as P
        return "[" + ", ".join(lstr(x) for x in sorted(P.SKIPPED_PARAMS)) + "]"

    def skipped_lines():
        from pyp0f.database.parse import parser as P
        return "[" + ", ".join(lstr(x) for x in sorted(P.SKIPPED_LINES)) + "]"

    def directions():
        from pyp0f.net.packet import Direction
        return "[" + ", ".join(lstr(d.name) for d in Direction) + "]"

    def opt(attr):
        def f():
            from pyp0f.options import Options
            return str(int(getattr(Options(), attr)))
        return f

    def scale(attr):
        def f():
            from fractions import Fraction
            from pyp0f.options import Options
            v = Fraction(str(getattr(Options(), attr)))
            return f"({v.numerator}, {v.denominator})"
        return f

    return [
        ("quirkValues", "List (String × Nat)", "`Quirk` members: (name, value), declaration order", quirk_values),
        ("quirkStrings", "List (Nat × String)", "`QUIRK_STRINGS` in dict order (the order `dump_quirks` prints): (value, text)", quirk_strings),
        ("optionValues", "List (String × Nat)", "`TCPOption` members sorted by value", option_values),
        ("optionStrings", "List (Nat × String)", "`OPTION_STRINGS` sorted by key", option_strings),
        ("optionSizes", "List (Nat × Nat)", "`OPTION_FORMATS` payload sizes sorted by key", option_sizes),
        ("tcpFlags", "List (String × Nat)", None, tcp_flags),
        ("minTcp4", "Nat", None, min_tcp4),
        ("minTcp6", "Nat", None, min_tcp6),
        ("wildcard", "Int", None, wildcard),
        ("wildcardField", "String", None, wildcard_field),
        ("invalidQuirks", "List (Nat × Nat)", None, invalid_quirks),
        ("skippedParams", "List String", None, skipped_params),
        ("skippedLines", "List String", None, skipped_lines),
        ("directions", "List String", None, directions),
        ("maxDist", "Int", None, opt("max_dist")),
        ("minWait", "Int", None, opt("min_timestamp_wait")),
        ("maxWait", "Int", None, opt("max_timestamp_wait")),
        ("grace", "Int", None, opt("timestamp_grace")),
        ("minScale", "Nat × Nat", None, scale("min_timestamp_scale")),
        ("maxScale", "Nat × Nat", None, scale("max_timestamp_scale")),
    ]


def render():
    """A table whose source constant is no longer there (renamed, inlined, re-shaped by a refactoring)
    cannot be translated; it is then *aliased* to the expected one and listed in UNAVAILABLE: the
    translator tie is reported as not available for it and the differential correspondence is the
    tie that remains (the runner writes this into the evidence)."""
    repo = os.environ.get("PYP0F_REPO", "/repo")
    if repo not in sys.path:
        sys.path.insert(0, repo)
    del UNAVAILABLE[:]
    L = []
    L.append("import P0f.Expected")
    L.append("/- GENERATED by harness/gen_tables.py from the pyp0f working tree - do not edit -/")
    L.append("namespace P0f.Generated")
    L.append("")
    for name, ty, doc, thunk in _tables():
        try:
            lit = thunk()
        except (AttributeError, ImportError, KeyError, TypeError, ValueError) as e:  # the constant is not there any more
            if isinstance(e, ModuleNotFoundError) and not (e.name or "").startswith("pyp0f"):
                raise  # a missing third-party module is a broken environment, not a re-shaped source
            UNAVAILABLE.append(f"{name}: {type(e).__name__}: {e}")
            lit = f"P0f.Expected.{name}   -- NOT TRANSLATED: {type(e).__name__}"
        if doc:
            L.append(f"/-- {doc} -/")
        L.append(f"def {name} : {ty} := {lit}")
    L.append("")
    L.append("end P0f.Generated")
    if len(UNAVAILABLE) > len(_tables()) // 2:
        raise RuntimeError("pyp0f cannot be imported from the working tree: " + "; ".join(UNAVAILABLE[:3]))
    return "\n".join(L) + "\n"


def regenerate():
    new = render()
    old = open(OUT).read() if os.path.exists(OUT) else None
    if new != old:
        os.makedirs(os.path.dirname(OUT), exist_ok=True)
        open(OUT, "w").write(new)
        return old is not None
    return False


if __name__ == "__main__":
    sys.stdout.write(render())
