"""
Common machinery of the checks: Lean build + proof audit, driver and implementation runners,
comparison, violation reports, evidence.
"""
import fcntl
import hashlib
import json
import multiprocessing as mp
import os
import random
import re
import subprocess
import sys
import time

VERIF = os.path.dirname(os.path.dirname(os.path.abspath(__file__)))
LEAN = os.environ.get("VERIF_LEAN") or os.path.join(VERIF, "lean")          # dev: a scratch copy for mutant runs
OUT = os.environ.get("VERIF_OUT") or VERIF                                    # dev: where evidence/ and replays/ go
REPO = os.environ.get("PYP0F_REPO", "/repo")
DRIVER = os.path.join(LEAN, ".lake", "build", "bin", "p0fdrv")
STD_AXIOMS = {"propext", "Classical.choice", "Quot.sound"}
FORBIDDEN = re.compile(r"\b(sorry|admit|native_decide|bv_decide|implemented_by)\b|^\s*axiom\s|\bunsafe\s|maxHeartbeats\s+0")

TRUSTED_BASE = [
    "Lean 4.33.0 kernel (thorough tier: re-checked with leanchecker)",
    "axioms per theorem as printed by #print axioms, required to be a subset of {propext, Classical.choice, Quot.sound}; no native_decide, bv_decide, sorry, added axioms",
    "the declarative specs in lean/P0f/Spec as a reading of the property text",
    "model-to-code tie: harness/gen_tables.py (tables regenerated from the source and re-proved equal to the expected ones) and the differential correspondence harness (harness/*.py) - testing, not proof",
    "the compiled Lean driver evaluates the model definitions faithfully (Lean compiler / runtime)",
    "modelled rather than verified: Scapy 2.7.0 dissection/building, h11 maybe_extract_lines, the `re` module, CPython float, `random`, open()/universal newlines, atomic attribute store",
]


class Infra(Exception):
    """infrastructure failure (exit 2), never reported as a violation"""


def log(*a):
    print(*a, file=sys.stderr, flush=True)


# --------------------------------------------------------------------------------------------
# Lean side
# --------------------------------------------------------------------------------------------

def strip_comments(src: str) -> str:
    out, i, depth = [], 0, 0
    while i < len(src):
        if src.startswith("/-", i):
            depth += 1
            i += 2
        elif depth and src.startswith("-/", i):
            depth -= 1
            i += 2
        elif depth:
            i += 1
        elif src.startswith("--", i):
            j = src.find("\n", i)
            i = len(src) if j < 0 else j
        else:
            out.append(src[i])
            i += 1
    return "".join(out)


def grep_forbidden():
    hits = []
    for root, _, files in os.walk(LEAN):
        if ".lake" in root:
            continue
        for f in files:
            if f.endswith(".lean"):
                p = os.path.join(root, f)
                for n, line in enumerate(strip_comments(open(p).read()).splitlines(), 1):
                    if FORBIDDEN.search(line):
                        hits.append(f"{os.path.relpath(p, VERIF)}:{n}: {line.strip()}")
    return hits


def _run(cmd, cwd=LEAN, timeout=3600, env=None):
    e = dict(os.environ)
    if env:
        e.update(env)
    p = subprocess.run(cmd, cwd=cwd, stdout=subprocess.PIPE, stderr=subprocess.STDOUT, text=True, timeout=timeout, env=e)
    return p.returncode, p.stdout


class LeanState:
    def __init__(self):
        self.tables_changed = False
        self.tables_unavailable = []
        self.logic_changed = False
        self.logic_unavailable = []
        self.logic_targets = []
        self.driver_ok = False
        self.proofs_ok = False
        self.build_log = ""
        self.failed_modules = []


def lean_build(clean=False) -> LeanState:
    """regenerate tables from /repo, build the driver (model only) and the proofs."""
    st = LeanState()
    os.makedirs(os.path.join(LEAN, ".lake"), exist_ok=True)
    lock = open(os.path.join(LEAN, ".lake", "verif.lock"), "w")
    fcntl.flock(lock, fcntl.LOCK_EX)
    try:
        from . import gen_tables
        try:
            st.tables_changed = gen_tables.regenerate()
        except Exception as e:  # noqa
            raise Infra(f"table translator cannot run: {type(e).__name__}: {e}")
        st.tables_unavailable = list(gen_tables.UNAVAILABLE)
        for u in st.tables_unavailable:
            log("table not translatable from the working tree, tie falls back to the correspondence:", u)
        from . import py2lean, py2lean_targets
        try:
            st.logic_changed = py2lean.regenerate()
        except Exception as e:  # noqa
            raise Infra(f"logic translator cannot run: {type(e).__name__}: {e}")
        st.logic_unavailable = list(py2lean.UNAVAILABLE)
        st.logic_targets = [f"{t['module']}.{t['func']}" for t in py2lean_targets.TARGETS]
        for u in st.logic_unavailable:
            log("function not translatable from the working tree, tie falls back to the correspondence:", u)
        if clean:
            _run(["rm", "-rf", os.path.join(LEAN, ".lake", "build")])
        rc, out = _run(["lake", "build", "p0fdrv"])
        st.driver_ok = rc == 0 and os.path.exists(DRIVER)
        st.build_log = out
        if not st.driver_ok:
            return st
        rc, out = _run(["lake", "build", "P0f"])
        st.proofs_ok = rc == 0
        st.build_log += out
        st.failed_modules = re.findall(r"^- (P0f\.[\w.]+)", out, re.M)
    finally:
        fcntl.flock(lock, fcntl.LOCK_UN)
        lock.close()
    return st


def obligations(prop):
    ob = json.load(open(os.path.join(VERIF, "obligations.json")))
    return ob.get(prop, [])


def audit(prop, st: LeanState):
    """returns (n_obligations, n_discharged, problems, details)"""
    obs = obligations(prop)
    problems = []
    hits = grep_forbidden()
    if hits:
        problems.append("forbidden constructs in Lean sources: " + "; ".join(hits[:5]))
    if not st.proofs_ok:
        # find which of this property's modules still build
        pass
    mods = sorted({o["module"] for o in obs})
    src = "".join(f"import {m}\n" for m in mods) + "".join(f"#print axioms {o['theorem']}\n" for o in obs)
    path = os.path.join(LEAN, ".lake", f"Audit_{prop}.lean")
    open(path, "w").write(src)
    rc, out = _run(["lake", "env", "lean", path])
    details = {}
    cur = None
    text = out.replace("\n  ", " ")
    for o in obs:
        name = o["theorem"]
        m = re.search(r"'" + re.escape(name) + r"' (does not depend on any axioms|depends on axioms: \[([^\]]*)\])", text)
        if not m:
            details[name] = "MISSING"
            problems.append(f"theorem {name} does not check (missing or its module fails to build)")
            continue
        axs = set(a.strip() for a in (m.group(2) or "").split(",") if a.strip())
        details[name] = sorted(axs)
        if not axs <= STD_AXIOMS:
            problems.append(f"theorem {name} depends on non-standard axioms {sorted(axs - STD_AXIOMS)}")
    discharged = sum(1 for o in obs if isinstance(details.get(o["theorem"]), list) and set(details[o["theorem"]]) <= STD_AXIOMS)
    if hits:
        discharged = 0
    return len(obs), discharged, problems, details


def leanchecker(mods):
    rc, out = _run(["lake", "env", "leanchecker"] + mods, timeout=3600)
    return rc == 0, out[-2000:]


def run_driver(lines):
    if not lines:
        return []
    p = subprocess.run([DRIVER], input="".join(l + "\n" for l in lines), stdout=subprocess.PIPE, stderr=subprocess.PIPE, text=True)
    if p.returncode != 0:
        raise Infra(f"driver crashed: rc={p.returncode} {p.stderr[-500:]}")
    out = p.stdout.split("\n")
    if out and out[-1] == "":
        out.pop()
    if len(out) != len(lines):
        raise Infra(f"driver answered {len(out)} lines for {len(lines)} ops")
    return out


# --------------------------------------------------------------------------------------------
# implementation side (real pyp0f from the working tree, in worker processes)
# --------------------------------------------------------------------------------------------

def _worker_init():
    import resource
    # a runaway allocation in the code under test must not take the machine down
    lim = 6 * 1024**3
    try:
        resource.setrlimit(resource.RLIMIT_AS, (lim, lim))
    except (ValueError, OSError):
        pass


def _impl_chunk(lines):
    from . import impl
    return [impl.answer(l) for l in lines]


_POOL = None


def pool():
    global _POOL
    if _POOL is None:
        n = min(16, os.cpu_count() or 4)
        # pyp0f and every Scapy layer are loaded ONCE, here, before the workers are forked: no worker ever imports them under
        # its per-op watchdog (on a cold machine 16 concurrent imports of scapy.all took longer than an op's work budget, and a
        # Hang raised inside Scapy's layer loader is swallowed there); impl.answer() also loads them before arming its timers
        try:
            from . import impl
            impl.P()
        except Exception:      # a working tree that does not import: every op reports it
            pass
        _POOL = mp.get_context("fork").Pool(n, initializer=_worker_init)
    return _POOL


def run_impl(lines, chunk=400):
    if not lines:
        return []
    chunk = max(1, min(chunk, -(-len(lines) // (4 * min(16, os.cpu_count() or 4)))))
    chunks = [lines[i:i + chunk] for i in range(0, len(lines), chunk)]
    try:
        res = pool().map_async(_impl_chunk, chunks).get(timeout=7200)
    except mp.TimeoutError:
        raise Infra("implementation workers did not answer within 7200 s")
    return [a for r in res for a in r]


# --------------------------------------------------------------------------------------------
# reports
# --------------------------------------------------------------------------------------------

def write_replay(prop, payload):
    os.makedirs(os.path.join(OUT, "replays"), exist_ok=True)
    blob = json.dumps(payload, sort_keys=True, indent=1)
    h = hashlib.sha1(blob.encode()).hexdigest()[:10]
    path = os.path.join("replays", f"{prop}-{h}.json")
    open(os.path.join(OUT, path), "w").write(blob + "\n")
    return path


def known_findings(prop):
    p = os.path.join(VERIF, "known_findings.json")
    if not os.path.exists(p):
        return []
    return [f for f in json.load(open(p)) if (f.get("property") == prop or prop in f.get("also_seen_by", [])) and f.get("status") == "open"]


def write_evidence(prop, tier, seed, coverage, assumptions, wall, violations):
    level = "proof"
    if coverage.get("discharged", 0) < 1:
        # nothing of the proof checks on this tree (a violation is being reported): what is left is the exploration
        level = "exploration"
        coverage = dict(coverage)
        coverage["proof_obligations"] = coverage.pop("obligations", 0)
        coverage["proof_discharged"] = coverage.pop("discharged", 0)
    ev = {
        "property_id": prop, "tier": tier, "seed": seed, "level": level,
        "coverage": coverage, "assumptions": assumptions, "wall_s": round(wall, 2), "violations": violations,
    }
    os.makedirs(os.path.join(OUT, "evidence"), exist_ok=True)
    path = os.path.join(OUT, "evidence", f"{prop}.json")
    open(path, "w").write(json.dumps(ev, indent=1, default=str) + "\n")
    schema = "/root/.vp/EVIDENCE.schema.json"
    if os.path.exists(schema) and subprocess.run(["which", "python3-vt"], capture_output=True).returncode == 0:
        r = subprocess.run(["python3-vt", "-c", "import json,sys,jsonschema; jsonschema.validate(json.load(open(sys.argv[1])), json.load(open(sys.argv[2])))", path, schema], capture_output=True, text=True)
        if r.returncode != 0:
            raise Infra("evidence file does not validate: " + r.stderr[-800:])
