import P0f.Model.Wirefmt
import P0f.Model.Match
import P0f.Model.Find
import P0f.Model.Uptime
import P0f.Model.TcpOptions
import P0f.Model.SigParse
import P0f.Model.Wire
import P0f.Model.Render
import P0f.Model.Mtu
import P0f.Model.Http
import P0f.Model.DbParse
import P0f.Model.Api
import P0f.Model.Effects
import P0f.Model.ImpExplain
import P0f.Model.ImpExtract
/-
  Line-protocol driver: one tab-separated op per input line, one answer line per op.
  Every op is answered by the *model* definitions that the theorems in `P0f/Props` are about.
-/
open P0f P0f.Fmt

def wtypeOf (s : String) : WinType :=
  match s with
  | "0" => .normal | "1" => .any | "2" => .mod | "3" => .mss | _ => .mtu

def mtStr : Option MatchType → String
  | none => "none" | some .exact => "exact" | some .fuzzyTtl => "fuzzy_ttl"
  | some .fuzzyQuirks => "fuzzy_quirks"

def sigOf (f : Array String) (o : Nat) : Sig :=
  { ipVer := parseOptNat f[o]!, olen := parseNat f[o+1]!, ttl := parseNat f[o+2]!,
    badTtl := parseBool f[o+3]!, wtype := wtypeOf f[o+4]!, wsize := parseNat f[o+5]!,
    scale := parseOptNat f[o+6]!, layout := parseNatList f[o+7]!, mss := parseOptNat f[o+8]!,
    eolPad := parseNat f[o+9]!, payClass := parseOptBool f[o+10]!,
    quirks := QSet.ofMask (parseNat f[o+11]!) }

def pktSigOf (f : Array String) (o : Nat) : PktSig :=
  { ipVer := parseNat f[o]!, olen := parseInt f[o+1]!, ttl := parseNat f[o+2]!,
    win := parseNat f[o+3]!, layout := parseNatList f[o+4]!, mss := parseNat f[o+5]!,
    wscale := parseNat f[o+6]!, ts := parseNat f[o+7]!, eolPad := parseNat f[o+8]!,
    hdrLen := parseNat f[o+9]!, hasPayload := parseBool f[o+10]!,
    quirks := QSet.ofMask (parseNat f[o+11]!), synMss := parseNat f[o+12]! }

def optNatStr : Option Nat → String
  | none => "-1" | some n => toString n
def optBoolStr : Option Bool → String
  | none => "-1" | some true => "1" | some false => "0"
def wtypeStr : WinType → String
  | .normal => "0" | .any => "1" | .mod => "2" | .mss => "3" | .mtu => "4"

def sigStr (s : Sig) : String :=
  " ".intercalate [optNatStr s.ipVer, toString s.olen, toString s.ttl, if s.badTtl then "1" else "0",
    wtypeStr s.wtype, if s.wtype == .any then "-1" else toString s.wsize, optNatStr s.scale,
    "[" ++ natList s.layout ++ "]", optNatStr s.mss, toString s.eolPad, optBoolStr s.payClass,
    toString s.quirks.toMask]

def pktStr (p : PktL) (synMss : Nat) : String :=
  let k := pktSigOfPkt p synMss
  let m := windowMult k.wIn
  s!"ip v={p.ip.version} ttl={p.ip.ttl} tos={p.ip.tos} olen={p.ip.olen} hl={p.ip.hdrLen} frag={if p.ip.isFragment then 1 else 0} q={p.ip.quirks.toMask} src={hexOfBytes p.ip.src} dst={hexOfBytes p.ip.dst} | " ++
  s!"tcp type={p.tcp.type} sp={p.tcp.sport} dp={p.tcp.dport} win={p.tcp.window} seq={p.tcp.seq} hl={p.tcp.hdrLen} pay={hexOfBytes p.tcp.payload} q={p.tcp.quirks.toMask} | " ++
  s!"opt [{natList p.tcp.opts.layout}] mss={p.tcp.opts.mss} ws={p.tcp.opts.ws} ts={p.tcp.opts.ts} pad={p.tcp.opts.eolPad} q={p.tcp.opts.quirks.toMask} | " ++
  s!"sig hdr={k.hdrLen} pay={if k.hasPayload then 1 else 0} syn={k.synMss} q={k.quirks.toMask} mult={m.1},{if m.2 then 1 else 0} | " ++
  s!"gate sf={if shouldFingerprint p.ip.isFragment p.tcp.type then 1 else 0} tcp={if validTcp p.ip.isFragment p.tcp.type then 1 else 0} up={if validUptime p.ip.isFragment p.tcp.type then 1 else 0}"

def soptOfTok (t : String) : SOpt :=
  let rest := (t.drop 1).toString
  match t.front with
  | 'E' => .eol | 'N' => .nop | 'S' => .sackok
  | 'M' => .mss (parseNat rest)
  | 'W' => .ws (parseNat rest)
  | 'K' => .sack (parseNat rest)
  | 'T' => match rest.splitOn "." with
    | [a, b] => .ts (parseNat a) (parseNat b)
    | _ => .nop
  | 'R' => match rest.splitOn "." with
    | [a, b] => .raw (parseNat a) (parseNat b)
    | _ => .nop
  | _ => .nop

def tokOfSopt : SOpt → String
  | .eol => "E" | .nop => "N" | .sackok => "S" | .mss v => s!"M{v}" | .ws v => s!"W{v}" | .sack n => s!"K{n}"
  | .ts a b => s!"T{a}.{b}" | .raw k n => s!"R{k}.{n}"

def soptsOf (s : String) : List SOpt := if s.isEmpty then [] else (s.splitOn ",").map soptOfTok

def hdrsStr (hs : List Hdr) : String :=
  "[" ++ ",".intercalate (hs.map fun h => hexOfText h.name ++ "=" ++ hexOfText h.value) ++ "]"

def readStr : ReadOut → String
  | .packetError => "ERR packet"
  | .indexError => "EXC IndexError"
  | .ok isReq minor hs => s!"{if isReq then "req" else "resp"} {minor} {hdrsStr hs}"

def optBytesStr : Option Bytes → String
  | none => "-" | some b => "=" ++ hexOfText b

def httpSigStr (s : HttpSig) : String :=
  s!"v={optNatStr s.version} h=[{",".intercalate (s.headers.map fun h => (if h.optional then "?" else "") ++ hexOfText h.name ++ optBytesStr h.value)}] " ++
  s!"absent=[{",".intercalate (s.absent.map hexOfText)}] sw={optBytesStr s.software}"

/-! ### database / history ops -/

def labelStr : Option DbLabel → String
  | none => "nolabel"
  | some (.mtu n) => s!"m{hexOfText n}"
  | some (.os l sys) =>
    s!"l{hexOfText l.dump}/{if l.generic then 1 else 0}/{if l.isUserApp then 1 else 0}/sys{sys.length}:{",".intercalate (sys.map hexOfText)}"

def dbSigStr : DbSig → String
  | .mtu m => s!"M{m}"
  | .tcp s => "T(" ++ sigStr s ++ ")"
  | .http s => "H(" ++ httpSigStr s ++ ")"

def recStr (r : DbRec) : String := s!"{r.line}~{labelStr r.label}~{hexOfText r.raw}~{dbSigStr r.sig}"

def secStr (db : Db) (s : Section) : String :=
  match db s with
  | none => "-"
  | some l => "[" ++ ";".intercalate (l.map recStr) ++ "]"

def dbStr (db : Db) : String :=
  s!"len={db.len} mtu={secStr db .mtu} tcpreq={secStr db .tcpReq} tcpresp={secStr db .tcpResp} httpreq={secStr db .httpReq} httpresp={secStr db .httpResp}"

def loadErrStr : LoadErr → String
  | .parsing n => s!"ERR parsing {n}"
  | .database => "ERR database"
  | .indexError => "EXC IndexError"

def apiErrStr : ApiErr → String
  | .packet => "ERR packet"
  | .database => "ERR database"

def fileArgOf (s : String) : FileArg :=
  if s.startsWith "!" || s.startsWith "x" then .unreadable else .text (parseHexText s)

def decodeAny (ver : String) (hex : String) : Option PktL :=
  let b := parseHex hex
  if ver == "4" then decodeV4 b else decodeV6 b

/-- the datagram with its TTL / hop-limit byte replaced (a caller editing the packet object in place between two calls) -/
def decodeEdited (ver : String) (hex : String) (newTtl : String) : Option PktL :=
  let b := parseHex hex
  if newTtl == "" then (if ver == "4" then decodeV4 b else decodeV6 b)
  else
    let i := if ver == "4" then 8 else 7
    let b' := b.take i ++ [parseNat newTtl % 256] ++ b.drop (i + 1)
    if ver == "4" then decodeV4 b' else decodeV6 b'

/-- one step of a `hist` op: new live database and the answer -/
def histStep (db : Db) (step : String) : Db × String :=
  let a := (step.splitOn ":").toArray ++ Array.replicate 8 ""
  match a[0]! with
  | "L" =>
    match apiStep db (.load (fileArgOf a[1]!)) with
    | (db', .loaded) => (db', "ok during=ok")
    | (db', .loadErr e) => (db', loadErrStr e ++ " during=ok")
    | (db', _) => (db', "?")
  | "D" => (db, dbStr db)
  | "N" => (db, s!"len={db.len}")
  | "T" =>
    match decodeEdited a[1]! a[2]! a[6]! with
    | none => (db, "SKIP illframed")
    | some p =>
      match apiFpTcp db p (parseNat a[3]!) (parseInt a[4]!) with
      | .error e => (db, apiErrStr e)
      | .ok (none, dist) => (db, s!"none {dist}")
      | .ok (some (mt, r), dist) => (db, s!"{r.line} {mtStr (some mt)} {dist}")
  | "M" =>
    match decodeAny a[1]! a[2]! with
    | none => (db, "SKIP illframed")
    | some p =>
      match apiFpMtu db p with
      | .error e => (db, apiErrStr e)
      | .ok (mtu, m) => (db, s!"mtu={mtu} match={match m with | none => "none" | some l => toString l}")
  | "H" =>
    match apiFpHttp db (parseHexText a[1]!) with
    | .error e => (db, apiErrStr e)
    | .ok (isReq, minor, m, dis) =>
      (db, s!"{if isReq then "req" else "resp"} {minor} match={match m with | none => "none" | some r => toString r.line} dishonest={if dis then 1 else 0}")
  | "R" =>
    let k : RecKind := match a[1]! with | "m" => .mtu | "t" => .tcp | _ => .http
    let d : Option Dir := match a[2]! with | "q" => some .req | "s" => some .resp | _ => none
    match db.candidates (parseHexText a[3]!) k d with
    | .error e => (db, loadErrStr e)
    | .ok l => (db, s!"cands=[{natList (l.map (·.line))}]")
  | "J" =>
    -- impersonate_mtu by label: the MTU is that of one of the records filed under the label
    match db.candidates (parseHexText a[3]!) .mtu none with
    | .error e => (db, loadErrStr e)
    | .ok l => (db, s!"mtus=[{natList ((l.filterMap DbRec.mtuOf).eraseDups.mergeSort (· ≤ ·))}]")
  | "I" => (db, "-")
  | "A" => (db, "added")     -- `Database.add` between two loads: the histories only observe after the next load, which replaces everything
  | _ => (db, "?step")

def histRun (db : Db) : List String → List String → List String
  | [], acc => acc.reverse
  | s :: ss, acc =>
    let (db', a) := histStep db s
    histRun db' ss (a :: acc)

/-! ### impersonation: explain a run of the real code and judge its output -/

def parseOptInt (s : String) : Option Int := if s == "-" || s == "" then none else some (parseInt s)

def impExplain (f : Array String) : String :=
  match parseTcpSig (parseHexText f[1]!) with
  | none => "ERR field"
  | some s =>
    let bver := parseNat f[2]!
    let braw := rawOf bver (parseHex f[3]!)
    let hints := (f[4]!.splitOn ",").toArray ++ Array.replicate 4 "-"
    let base := baseOfRaw braw (parseOptInt hints[0]!) (parseOptInt hints[1]!) (parseOptInt hints[2]!) (parseOptInt hints[3]!)
    let hops := parseInt f[5]!
    let mtu := parseNat f[6]!
    let uptime := parseOptInt f[7]!
    let maxDist := parseInt f[8]!
    let over := parseNat f[9]!
    let obytes := parseHex f[10]!
    match (if over == 4 then decodeV4 obytes else decodeV6 obytes) with
    | none => "out-illframed"
    | some po =>
      let k := pktSigOfPkt po 0
      let verdict := s!"{mtStr (tcpMatchPkt s k maxDist)} {(s.ttl : Int) - (k.ttl : Int)}"
      let oraw := rawOf over obytes
      let ch := choicesOfOut s oraw
      let expl :=
        match impTcp s base hops mtu uptime ch with
        | .error .valueError => "model=ERR_value"
        | .error .fieldError => "model=ERR_field"
        | .ok mo =>
          let mb := mo.toBytes
          -- bytes beyond the IP datagram (link-layer padding carried along with a Raw payload) are not part of the packet
          let dlen := if over == 4 then u16 obytes 2 else 40 + u16 obytes 4
          let ab := zeroChecksums over (obytes.take dlen)
          match firstDiff mb ab 0 with
          | some i => s!"DIFF@{i}(model={mb.getD i 999},actual={ab.getD i 999},tcpoff={if over == 4 then (obytes.getD 0 0 % 16) * 4 else 40})"
          | none =>
            if !choicesOk s base uptime ch then "RANGE"
            else
              -- the field-level extraction the C05 theorem is about must agree with decoding the bytes
              let e := extractOut mo
              if e.ipVer == k.ipVer && e.olen == k.olen && e.ttl == k.ttl && e.win == k.win && e.layout == k.layout
                  && e.mss == k.mss && e.wscale == k.wscale && e.ts == k.ts && e.eolPad == k.eolPad && e.hdrLen == k.hdrLen
                  && e.hasPayload == k.hasPayload && e.quirks.toMask == k.quirks.toMask then "ok"
              else s!"EXTRACT(model={e.quirks.toMask},{natList e.layout},{e.mss},{e.wscale},{e.hdrLen};bytes={k.quirks.toMask},{natList k.layout},{k.mss},{k.wscale},{k.hdrLen})"
      let covered := admissibleB base && supportedB s base && decide (0 ≤ hops) && decide (hops < (s.ttl : Int)) && decide (hops ≤ maxDist)
      s!"{verdict} | explain={expl} thm={if covered then 1 else 0}"

/-- what the model does with inputs on which the real code raised: does the model raise too -/
def impModelErr (f : Array String) : String :=
  match parseTcpSig (parseHexText f[1]!) with
  | none => "ERR field"
  | some s =>
    let bver := parseNat f[2]!
    let braw := rawOf bver (parseHex f[3]!)
    let base := baseOfRaw braw none none none none
    let ch : Choices := { id := 1, fl := 1, ecn := 1, seq := 1, ack := 1, urp := 1, winMul := 1, payload := [65], opt := s.layout.map fun _ => (100, 1) }
    match impTcp s base (parseInt f[5]!) (parseNat f[6]!) none ch with
    | .error .valueError => "EXC ValueError"
    | .error .fieldError => "ERR field"
    | .ok _ => "returns"

def handle (f : Array String) : String :=
  match f[0]! with
  | "match" =>
    let s := sigOf f 1
    let k := pktSigOf f 13
    let d := parseInt f[26]!
    mtStr (tcpMatchPkt s k d)
  | "match2" =>
    -- the signature object was used once as (fields 1..12) and then edited in place to (fields 27..38): the verdict is
    -- that of the signature as it is now
    let s := sigOf f 27
    let k := pktSigOf f 13
    let d := parseInt f[26]!
    mtStr (tcpMatchPkt s k d)
  | "wmult" =>
    let w : WIn := { win := parseNat f[1]!, mss := parseNat f[2]!, ts := parseNat f[3]!,
                     ipVer := parseNat f[4]!, hdrLen := parseNat f[5]!, synMss := parseNat f[6]! }
    let m := windowMult w
    s!"{m.1} {if m.2 then 1 else 0}"
  | "find" =>
    let isSyn := parseBool f[1]!
    let d := parseInt f[2]!
    let k := pktSigOf f 3
    let nreq := parseNat f[16]!
    let nresp := parseNat f[17]!
    let recAt (i : Nat) : Rec :=
      let o := 18 + 14 * i
      { generic := parseBool f[o]!, userApp := parseBool f[o+1]!, sig := sigOf f (o+2), line := i + 1 }
    let db : TcpDb := { req := (List.range nreq).map recAt,
                        resp := (List.range nresp).map fun i => recAt (nreq + i) }
    let (m, dist) := fingerprintTcp db k isSyn d
    match m with
    | none => s!"none {dist}"
    | some (mt, r) => s!"{r.line} {mtStr (some mt)} {dist}"
  | "uptime" =>
    let o : UpOpts := { minScaleN := parseNat f[6]!, minScaleD := parseNat f[7]!, maxScaleN := parseNat f[8]!,
                        maxScaleD := parseNat f[9]!, minWait := parseInt f[10]!, maxWait := parseInt f[11]!,
                        grace := parseInt f[12]! }
    match fingerprintUptime o (parseNat f[1]!) (parseNat f[2]! != 0) (parseNat f[3]!) (parseNat f[4]!) (parseInt f[5]!) with
    | .packetError => "ERR packet"
    | .noVerdict => "none"
    | .badTps => "bad"
    | .outOfDomain => "outofdomain"
    | .verdict n d fr mi da => s!"v {n}/{d} {fr} {mi} {da}"
  | "roundfreq" => toString (roundFrequency (parseNat f[1]!))
  | "opts" =>
    let o := parseOpts (parseHex f[1]!) (parseBool f[2]!)
    s!"{natList o.layout} q={o.quirks.toMask} mss={o.mss} ws={o.ws} ts={o.ts} pad={o.eolPad} dump={String.ofList (dumpLayout o.layout o.eolPad)} quirks={String.ofList (dumpQuirks o.quirks)}"
  | "sigtcp" =>
    match parseTcpSig (parseHexText f[1]!) with
    | none => "ERR field"
    | some s => sigStr s
  | "sigmtu" =>
    match parseMtuSig (parseHexText f[1]!) with
    | none => "ERR field"
    | some m => toString m
  | "label" =>
    match parseLabel (parseHexText f[1]!) with
    | none => "ERR field"
    | some l => s!"{if l.generic then 1 else 0} {hexOfText l.osClass} {hexOfText l.name} {hexOfText l.flavor} dump={hexOfText l.dump} app={if l.isUserApp then 1 else 0}"
  | "wire" =>
    let b := parseHex f[2]!
    match (if f[1]! == "4" then decodeV4 b else decodeV6 b) with
    | none => "SKIP illframed"
    | some p => pktStr p (parseNat f[3]!)
  | "fpall" =>
    -- which fingerprint functions accept a well-framed packet (the small database has every section)
    let b := parseHex f[2]!
    match (if f[1]! == "4" then decodeV4 b else decodeV6 b) with
    | none => "SKIP illframed"
    | some p =>
      let g (c : Bool) := if c then "ok" else "ERR_packet"
      let sf := shouldFingerprint p.ip.isFragment p.tcp.type
      let synish := p.tcp.type == F_SYN || p.tcp.type == (F_SYN ||| F_ACK)
      s!"tcp={g (validTcp p.ip.isFragment p.tcp.type)} mtu={g (sf && decide (p.tcp.opts.mss > 0) && synish)} up={g (validUptime p.ip.isFragment p.tcp.type)}"
  | "optwork" =>
    let b := parseHex f[1]!
    let o := parseOpts b (parseBool f[2]!)
    s!"layout={o.layout.length} len={b.length}"
  | "fpmtu" =>
    let b := parseHex f[2]!
    match (if f[1]! == "4" then decodeV4 b else decodeV6 b) with
    | none => "SKIP illframed"
    | some p =>
      match fingerprintMtu (parseNatList f[3]!) p with
      | none => "ERR packet"
      | some (mtu, m) => s!"mtu={mtu} match={match m with | none => "none" | some i => toString i}"
  | "impmtu" =>
    let ver := parseNat f[1]!
    let out := impersonateMtu (soptsOf f[2]!) (parseNat f[3]!) ver
    let bytes := encodeOpts out
    if bytes.length > 40 then "SKIP options-do-not-fit"
    else
      let o := parseOpts bytes true
      let fp := if o.mss > 0 then s!"{o.mss + mtuHdr ver}" else "ERR_packet"
      s!"opts={",".intercalate (out.map tokOfSopt)} same=1 fp={fp}"
  | "httpread" => readStr (readPayload (parseHexText f[1]!))
  | "httpall" =>
    match readPayload (parseHexText f[1]!) with
    | .ok _ _ _ => "http=ok"
    | .packetError => "http=ERR_packet"
    | .indexError => "http=EXC_IndexError"
  | "sighttp" =>
    match parseHttpSig (parseHexText f[1]!) with
    | none => "ERR field"
    | some s => httpSigStr s
  | "hmatch" =>
    match parseHttpSig (parseHexText f[1]!), readPayload (parseHexText f[2]!) with
    | some s, .ok _ minor hs =>
      s!"sig={if httpSigMatch s minor hs then 1 else 0} hdr={if headersMatch s.headers hs then 1 else 0}"
    | none, _ => "ERR field"
    | _, r => readStr r
  | "fphttp" =>
    let nreq := parseNat f[2]!
    let nresp := parseNat f[3]!
    let recAt (i : Nat) : Option HttpRec :=
      (parseHttpSig (parseHexText f[5 + 2 * i]!)).map fun s => { sig := s, generic := parseBool f[4 + 2 * i]!, line := i }
    let all := (List.range (nreq + nresp)).map recAt
    if all.any Option.isNone then "ERR sig"
    else
      let recs := all.filterMap id
      match readPayload (parseHexText f[1]!) with
      | .ok isReq minor hs =>
        let m := findHttpMatch (if isReq then recs.take nreq else recs.drop nreq) minor hs
        s!"{if isReq then "req" else "resp"} {minor} match={match m with | none => "none" | some r => toString r.line} dishonest={if dishonest m hs then 1 else 0}"
      | r => readStr r
  | "printsig" =>
    let b := parseHex f[2]!
    match (if f[1]! == "4" then decodeV4 b else decodeV6 b) with
    | none => "SKIP illframed"
    | some p =>
      let k := pktSigOfPkt p 0
      let text := renderTcpSig (sigOfPktSig k)
      match parseTcpSig text with
      | none => s!"{String.ofList text} -> ERR field"
      | some s => s!"{String.ofList text} -> {sigStr s} -> {mtStr (tcpMatchPkt s k 35)}"
  | "dumprt" =>
    -- layout, pad, quirk mask, version text: print with the model of dump()/dump_quirks, parse back
    let layout := parseNatList f[1]!
    let pad := parseNat f[2]!
    let q := QSet.ofMask (parseNat f[3]!)
    let text := f[4]!.toList ++ ":64:0:*:*,*:".toList ++ dumpLayout layout pad ++ [':'] ++ dumpQuirks q ++ ":*".toList
    match parseTcpSig text with
    | none => s!"{String.ofList text} -> ERR field"
    | some s => s!"{String.ofList text} -> [{natList s.layout}] pad={s.eolPad} q={s.quirks.toMask}"
  | "db" =>
    " ; ".intercalate (histRun Db.empty ["L:" ++ f[1]!, "D"] [])
  | "frame" =>
    -- C12: footprint of each call on the caller's objects (`wStep`): only impersonate_mtu may touch its packet's options
    " ; ".intercalate (((f.toList.drop 2).filter (· != "")).map fun st =>
      let w : World Unit := { pkts := [{ opts := [], rest := () }], bufs := [], db := Db.empty }
      let c : WCall := if st.startsWith "J" then .impMtu 0 1500 4 else if st.startsWith "H" then .fpHttp 0
        else if st.startsWith "I" || st.startsWith "K" then .impTcp 0 else .fpTcp 0
      let w' := wStep w c
      if (w'.pkts.map (·.opts.length)) == (w.pkts.map (·.opts.length)) then "same" else "opts")
  | "impexplain" => impExplain f
  | "imperr" => impModelErr f
  | "histq" =>
    " ; ".intercalate (histRun Db.empty ((f.toList.drop 1).filter (· != "")) [])
  | "hist" =>
    " ; ".intercalate (histRun Db.empty ((f.toList.drop 1).filter (· != "")) [])
  | op => s!"ERR unknown-op {op}"

partial def loop (h : IO.FS.Stream) (out : IO.FS.Stream) : IO Unit := do
  let line ← h.getLine
  if line.isEmpty then return ()
  let line := if line.endsWith "\n" then (line.dropEnd 1).toString else line
  let f := (line.splitOn "\t").toArray
  -- pad so that a short line cannot index out of range
  let f := f ++ Array.replicate 64 ""
  if f[0]! == "seq" then
    -- several ops answered one after the other in the same process (the model has no state between them; the
    -- implementation must not have any either): fields of each sub-op are separated by U+001F
    let parts := (f.toList.drop 1).filter (· != "")
    out.putStrLn (" ;; ".intercalate (parts.map fun p => handle ((p.splitOn "\x1f").toArray ++ Array.replicate 64 "")))
  else
    out.putStrLn (handle f)
  loop h out

def main : IO Unit := do
  let stdin ← IO.getStdin
  let stdout ← IO.getStdout
  loop stdin stdout
