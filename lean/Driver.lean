import P0f.Model.Wirefmt
import P0f.Model.Match
import P0f.Model.Find
import P0f.Model.Uptime
/-
  Line-protocol driver: one tab-separated op per input line, one answer line per op.
  Every op is answered by the *model* definitions that the theorems in `P0f/Props` are about.
-/
open P0f P0f.Fmt

def wtypeOf (s : String) : WinType :=
  match s with
  | "0" => .normal | "1" => .any | "2" => .mod | "3" => .mss | _ => .mtu

def mtStr : Option MatchType → String
  | none => "none" | some .exact => "exact" | some .fuzzyTtl => "fuzzy_ttl"
  | some .fuzzyQuirks => "fuzzy_quirks"

def sigOf (f : Array String) (o : Nat) : Sig :=
  { ipVer := parseOptNat f[o]!, olen := parseNat f[o+1]!, ttl := parseNat f[o+2]!,
    badTtl := parseBool f[o+3]!, wtype := wtypeOf f[o+4]!, wsize := parseNat f[o+5]!,
    scale := parseOptNat f[o+6]!, layout := parseNatList f[o+7]!, mss := parseOptNat f[o+8]!,
    eolPad := parseNat f[o+9]!, payClass := parseOptBool f[o+10]!,
    quirks := QSet.ofMask (parseNat f[o+11]!) }

def pktSigOf (f : Array String) (o : Nat) : PktSig :=
  { ipVer := parseNat f[o]!, olen := parseInt f[o+1]!, ttl := parseNat f[o+2]!,
    win := parseNat f[o+3]!, layout := parseNatList f[o+4]!, mss := parseNat f[o+5]!,
    wscale := parseNat f[o+6]!, ts := parseNat f[o+7]!, eolPad := parseNat f[o+8]!,
    hdrLen := parseNat f[o+9]!, hasPayload := parseBool f[o+10]!,
    quirks := QSet.ofMask (parseNat f[o+11]!), synMss := parseNat f[o+12]! }

def handle (f : Array String) : String :=
  match f[0]! with
  | "match" =>
    let s := sigOf f 1
    let k := pktSigOf f 13
    let d := parseInt f[26]!
    mtStr (tcpMatchPkt s k d)
  | "wmult" =>
    let w : WIn := { win := parseNat f[1]!, mss := parseNat f[2]!, ts := parseNat f[3]!,
                     ipVer := parseNat f[4]!, hdrLen := parseNat f[5]!, synMss := parseNat f[6]! }
    let m := windowMult w
    s!"{m.1} {if m.2 then 1 else 0}"
  | "find" =>
    let isSyn := parseBool f[1]!
    let d := parseInt f[2]!
    let k := pktSigOf f 3
    let nreq := parseNat f[16]!
    let nresp := parseNat f[17]!
    let recAt (i : Nat) : Rec :=
      let o := 18 + 14 * i
      { generic := parseBool f[o]!, userApp := parseBool f[o+1]!, sig := sigOf f (o+2), line := i + 1 }
    let db : TcpDb := { req := (List.range nreq).map recAt,
                        resp := (List.range nresp).map fun i => recAt (nreq + i) }
    let (m, dist) := fingerprintTcp db k isSyn d
    match m with
    | none => s!"none {dist}"
    | some (mt, r) => s!"{r.line} {mtStr (some mt)} {dist}"
  | "uptime" =>
    let o : UpOpts := { minScaleN := parseNat f[6]!, minScaleD := parseNat f[7]!, maxScaleN := parseNat f[8]!,
                        maxScaleD := parseNat f[9]!, minWait := parseInt f[10]!, maxWait := parseInt f[11]!,
                        grace := parseInt f[12]! }
    match fingerprintUptime o (parseNat f[1]!) (parseNat f[2]! != 0) (parseNat f[3]!) (parseNat f[4]!) (parseInt f[5]!) with
    | .packetError => "ERR packet"
    | .noVerdict => "none"
    | .badTps => "bad"
    | .outOfDomain => "outofdomain"
    | .verdict n d fr mi da => s!"v {n}/{d} {fr} {mi} {da}"
  | "roundfreq" => toString (roundFrequency (parseNat f[1]!))
  | op => s!"ERR unknown-op {op}"

partial def loop (h : IO.FS.Stream) (out : IO.FS.Stream) : IO Unit := do
  let line ← h.getLine
  if line.isEmpty then return ()
  let line := if line.endsWith "\n" then (line.dropEnd 1).toString else line
  let f := (line.splitOn "\t").toArray
  -- pad so that a short line cannot index out of range
  let f := f ++ Array.replicate 64 ""
  out.putStrLn (handle f)
  loop h out

def main : IO Unit := do
  let stdin ← IO.getStdin
  let stdout ← IO.getStdout
  loop stdin stdout
