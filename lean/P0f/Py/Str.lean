/-
  Python `str` / `bytes` operations used by pyp0f, on `List Char` (ASCII domain), with the
  partial ones returning `Option`.  Import-free.
-/
namespace P0f.Py

/-- `str.isspace` on ASCII: space, \t \n \v \f \r and the separators 0x1c..0x1f -/
def isSpace (c : Char) : Bool :=
  c == ' ' || c == '\t' || c == '\n' || c == '\r' || c.toNat == 0x0b || c.toNat == 0x0c
    || (0x1c ≤ c.toNat && c.toNat ≤ 0x1f)

/-- `bytes.isspace` / default `bytes.strip()` / `bytes.split()` whitespace: space \t \n \r \v \f -/
def isSpaceB (c : Char) : Bool :=
  c == ' ' || c == '\t' || c == '\n' || c == '\r' || c.toNat == 0x0b || c.toNat == 0x0c

def lstripP (p : Char → Bool) (s : List Char) : List Char := s.dropWhile p
def rstripP (p : Char → Bool) (s : List Char) : List Char := (s.reverse.dropWhile p).reverse
def stripP (p : Char → Bool) (s : List Char) : List Char := rstripP p (lstripP p s)

/-- `str.strip()` -/
def strip (s : List Char) : List Char := stripP isSpace s
/-- `bytes.strip()` -/
def stripB (s : List Char) : List Char := stripP isSpaceB s

/-- `s.startswith(p)` -/
def startsWith (s p : List Char) : Bool := p.isPrefixOf s
/-- `s.endswith(p)` -/
def endsWith (s p : List Char) : Bool := p.isSuffixOf s

/-- `s.partition(c)` for a one-character separator: (before, found, after) -/
def partition (c : Char) (s : List Char) : List Char × Bool × List Char :=
  match s.dropWhile (· != c) with
  | [] => (s.takeWhile (· != c), false, [])
  | _ :: b => (s.takeWhile (· != c), true, b)

/-- `s.split(c)` (one-character separator, no limit) -/
def split (c : Char) (s : List Char) : List (List Char) := s.splitOn c

/-- pyp0f's `split_parts(data, n, sep)`: the first `n` pieces of `data.split(sep, maxsplit=n)`,
    padded with `""`; a remainder piece after the `n`-th separator is dropped. -/
def splitParts (c : Char) (n : Nat) (s : List Char) : List (List Char) :=
  let ps := (s.splitOn c).take n
  ps ++ List.replicate (n - ps.length) []

/-- unsigned decimal with optional single underscores between digits (what `int()` accepts
    after sign and whitespace); exactly `String.toNat?` -/
def digitsNat? (s : List Char) : Option Nat := (String.ofList s).toNat?

/-- Python `int(s)` for a `str` in base 10: surrounding whitespace, optional sign, digits with
    single underscores.  `none` = ValueError. -/
def pyInt? (s : List Char) : Option Int :=
  let t := strip s
  if t.head? = some '+' then (digitsNat? t.tail).map fun n => (n : Int)
  else if t.head? = some '-' then (digitsNat? t.tail).map fun n => -(n : Int)
  else (digitsNat? t).map fun n => (n : Int)

/-- ASCII `bytes.lower()` / `str.lower()` -/
def lowerC (c : Char) : Char := if 'A' ≤ c ∧ c ≤ 'Z' then Char.ofNat (c.toNat + 32) else c
def lower (s : List Char) : List Char := s.map lowerC

/-- `sub in s` for sequences -/
def isInfix (sub s : List Char) : Bool :=
  match s with
  | [] => sub.isEmpty
  | _ :: t => sub.isPrefixOf s || isInfix sub t

end P0f.Py
