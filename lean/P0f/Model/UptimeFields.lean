import P0f.Model.Uptime
import P0f.Model.Q
/-
  The value view of `Model/Uptime.lean` for the logic translator: `Uptime.__post_init__` and `UptimeResult` as the
  tuples the definitions printed from the source build, and the translation of the model's `UpOut` into them.
-/
namespace P0f

/-- `Uptime(timestamp, raw_frequency)`: (raw_frequency, frequency, total_minutes, modulo_days) -/
def uptimePostInit (timestamp : Nat) (raw : Q) : Q × Int × Int × Int :=
  let f := roundFrequency (Q.trunc raw).toNat
  (raw, (f : Nat), (timestamp / f / 60 : Nat), (4294967295 / (f * 60 * 60 * 24) : Nat))

/-- `UptimeResult(packet, tps, uptime)` of a model outcome; `none` = PacketError -/
def ofUpOut : UpOut → Option (Option Int × Option (Q × Int × Int × Int))
  | .packetError => none
  | .noVerdict => some (none, none)
  | .badTps => some (some (-1), none)
  | .verdict num den f m d => some (some (f : Nat), some (⟨(num : Nat), den⟩, (f : Nat), (m : Nat), (d : Nat)))
  | .outOfDomain => none

def fingerprintUptimeFields (o : UpOpts) (isFragment : Bool) (t tsPrev tsNow : Nat) (ms : Int) :
    Option (Option Int × Option (Q × Int × Int × Int)) :=
  ofUpOut (fingerprintUptime o t isFragment tsPrev tsNow ms)

end P0f
