import P0f.Model.Gate
/-
  `fingerprint_uptime` (pyp0f/fingerprint/uptime.py), `Uptime.__post_init__`, `round_frequency`
  (pyp0f/fingerprint/results/uptime.py).

  Floats: `raw_frequency = ticks * 1000.0 / ms` is carried as the exact fraction `num / den`, the
  thresholds `min/max_timestamp_scale` as fractions; each float comparison and `int()` the code
  performs is modelled by the exact rational one (cross-multiplied).  The agreement argument is in
  DESIGN.md 3.4 and is exercised by the correspondence check on the equality cases; it is part of
  the trusted base, not a theorem.
-/
namespace P0f

structure UpOpts where
  minScaleN : Nat      -- min_timestamp_scale = minScaleN / minScaleD
  minScaleD : Nat
  maxScaleN : Nat      -- max_timestamp_scale = maxScaleN / maxScaleD
  maxScaleD : Nat
  minWait : Int
  maxWait : Int
  grace : Int

inductive UpOut
  | packetError
  | noVerdict                                     -- `UptimeResult(packet)`: tps None, uptime None
  | badTps                                        -- tps = BAD_TPS = -1, uptime None
  | verdict (num den freq minutes days : Nat)     -- raw_frequency = num/den, tps = freq
  | outOfDomain                                   -- options outside the documented domain
  deriving DecidableEq, Repr

/-- `round_frequency` on `frequency = int(raw_frequency)` -/
def roundFrequency (f : Nat) : Nat :=
  if f = 0 then 1
  else if f ≤ 10 then f
  else if f ≤ 50 then (f + 3) / 5 * 5
  else if f ≤ 100 then (f + 7) / 10 * 10
  else if f ≤ 500 then (f + 33) / 50 * 50
  else (f + 67) / 100 * 100

def TWO32 : Nat := 4294967296

/-- `(now - prev) & 0xFFFFFFFF` -/
def tsDiff (tsPrev tsNow : Nat) : Nat := (((tsNow : Int) - (tsPrev : Int)) % (TWO32 : Int)).toNat

/-- `~ts_diff & 0xFFFFFFFF` for `ts_diff` in `[0, 2^32)` -/
def tsInv (d : Nat) : Nat := TWO32 - 1 - d

/-- `UptimeResult(packet, tps=BAD_TPS if packet.tcp.type != SYN else None)` -/
def badReading (t : Nat) : UpOut := if t != F_SYN then .badTps else .noVerdict

def fingerprintUptime (o : UpOpts) (flags : Nat) (isFragment : Bool) (tsPrev tsNow : Nat) (ms : Int) : UpOut :=
  let t := tcpType flags
  if !validUptime isFragment t then .packetError else
  if tsNow = 0 ∨ tsPrev = 0 then .noVerdict else
  let d := tsDiff tsPrev tsNow
  let inv := tsInv d
  if ¬ (o.minWait ≤ ms ∧ ms ≤ o.maxWait)
      ∨ (d < 5 ∨ (ms < o.grace ∧ ((inv / 1000 : Nat) : Int) * o.maxScaleD * o.grace < o.maxScaleN)) then .noVerdict else
  if ms ≤ 0 then .outOfDomain else   -- Python would divide by zero / negative elapsed time
  let den := ms.toNat
  if d > inv then
    -- raw = -(inv*1000)/ms  (negative or zero): in range only if min_timestamp_scale <= 0
    if o.minScaleN = 0 ∧ inv = 0 then .outOfDomain else badReading t
  else
    let num := d * 1000
    if ¬ (o.minScaleN * den ≤ num * o.minScaleD ∧ num * o.maxScaleD ≤ o.maxScaleN * den) then badReading t
    else
      let f := roundFrequency (num / den)
      .verdict num den f (tsNow / f / 60) (4294967295 / (f * 60 * 60 * 24))

end P0f
