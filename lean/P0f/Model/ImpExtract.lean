import P0f.Model.Impersonate
import P0f.Model.Wire
/-
  What pyp0f's extraction reports for the packet the impersonator returns, computed from its fields
  (`IP._from_ipv4/_from_ipv6`, `TCP.from_packet`, `TCPPacketSignature.from_packet` applied to the
  field values instead of to bytes).  The driver checks on every explained run that this agrees with
  decoding the packet's bytes; the C05 theorem is about this definition.
-/
namespace P0f

/-! ### what extraction reports for the output packet -/

def outIsSyn (o : OutPkt) : Bool := tcpType o.flags == F_SYN

def outOpts (o : OutPkt) : Opts := parseOpts (encodeOpts o.opts) (outIsSyn o)

/-- `IP._from_ipv4` / `_from_ipv6` quirks, from the fields -/
def outIpQuirks (o : OutPkt) : QSet :=
  if o.ipVer == 6 then (qIf (o.fl != 0) .flow).union (qIf (o.tos % 4 != 0) .ecn)
  else
    let df := bit o.ipFlags 2
    (qIf (o.tos % 4 != 0) .ecn).union <| (qIf (bit o.ipFlags 4) .nzMbz).union <|
      (qIf df .df).union <| (qIf (df && o.ipId != 0) .nzId).union (qIf (!df && o.ipId == 0) .zeroId)

/-- `TCP.from_packet` quirks, from the fields -/
def outTcpQuirks (o : OutPkt) : QSet :=
  let aF := bit o.flags 16
  (qIf (bit o.flags 64 || bit o.flags 128 || bit o.flags 256) .ecn).union <|
    (qIf (o.seq == 0) .zeroSeq).union <|
    (qIf (aF && o.ack == 0) .zeroAck).union <| (qIf (!aF && o.ack != 0 && !bit o.flags 4) .nzAck).union <|
    (qIf (bit o.flags 32) .urg).union <| (qIf (!bit o.flags 32 && o.urp != 0) .nzUrg).union <|
    (qIf (bit o.flags 8) .push)

/-- `TCPPacketSignature.from_packet` of the output -/
def extractOut (o : OutPkt) : PktSig :=
  let op := outOpts o
  { ipVer := o.ipVer, olen := if o.ipVer == 6 then 0 else ((ipOptBytes o.ipOptLen).length : Int),
    ttl := o.ttl.toNat, win := o.window, layout := op.layout, mss := op.mss, wscale := op.ws, ts := op.ts,
    eolPad := op.eolPad,
    hdrLen := (if o.ipVer == 6 then 40 else 20 + (ipOptBytes o.ipOptLen).length) + 20 + (encodeOpts o.opts).length,
    hasPayload := !o.payload.isEmpty,
    quirks := (outIpQuirks o).union ((outTcpQuirks o).union op.quirks),
    synMss := 0 }


/-! ### decidable forms of the hypotheses of the C05 theorem (evaluated by the driver on every run) -/

def layoutLenB (l : List Nat) : Nat :=
  (l.map fun k => if k = 1 then 1 else if k = 2 then 4 else if k = 3 then 3 else if k = 4 then 2
    else if k = 5 ∨ k = 8 then 10 else 2).sum

/-- layout entries `_align_options` can stretch: SACK and the kinds unknown to p0f -/
def stretchable (k : Nat) : Bool := k != 1 && k != 2 && k != 3 && k != 4 && k != 8

/-- the class of signatures `imp_exact_partial` covers, as a Boolean (see `Supported` in P0f/Props/C05.lean) -/
def supportedB (s : Sig) (b : Base) : Bool :=
  let body := s.layout.takeWhile (· != 0)
  let ends := s.layout.contains 0
  (s.ipVer.isNone || s.ipVer == some b.ipVer)
  && body.all (fun k => decide (k ≤ 255))
  && (body.any stretchable || (layoutLenB body + (if ends then 1 + s.eolPad else 0)) % 4 == 0)
  && (ends || s.eolPad == 0)
  && (b.ipVer != 6 || s.olen == 0) && s.olen % 4 == 0
  && decide (1 ≤ s.ttl) && decide (s.ttl ≤ 255)
  && (match s.mss with | some m => decide (m < 65536) | none => true)
  && (match s.scale with | some w => decide (w < 256) | none => true)
  && (s.wtype != .normal || decide (s.wsize < 65536))
  && (s.wtype != .mod || (decide (2 ≤ s.wsize) && decide (s.wsize ≤ 65535)))
  && (s.wtype != .mss || (decide (1 ≤ s.wsize) && decide (s.wsize ≤ 655) && s.layout.contains 2
        && (match s.mss with | some m => decide (100 ≤ m) && decide (m * s.wsize ≤ 65535) | none => true)))
  && s.wtype != .mtu
  && !s.quirks .bad && (!s.quirks .eolNz || (ends && decide (0 < s.eolPad)))
  && (!s.quirks .nzId || s.quirks .df) && (!s.quirks .zeroId || !s.quirks .df)
  && !(s.quirks .nzAck && s.quirks .zeroAck) && !(s.quirks .nzUrg && s.quirks .urg)
  && (!(b.ipVer == 4 && s.ipVer == some 4) || !s.quirks .flow)
  && (!(b.ipVer == 6 && s.ipVer == some 6) || (!s.quirks .df && !s.quirks .nzId && !s.quirks .zeroId && !s.quirks .nzMbz))
  && (!s.quirks .exws || (s.layout.contains 3 && (match s.scale with | some w => decide (14 < w) | none => true)))
  && (s.quirks .exws || (match s.scale with | some w => decide (w ≤ 14) | none => true))
  && (match s.mss with | some m => s.layout.contains 2 || m == 0 | none => true)
  && (match s.scale with | some w => s.layout.contains 3 || w == 0 | none => true)
  && (!s.quirks .zeroTs1 || s.layout.contains 8)
  && (!s.quirks .nzTs2 || (s.layout.contains 8 && impTcpType s b == F_SYN))
  && s.layout == body ++ (if ends then [0] else [])
  && decide (s.olen ≤ 40) && decide (layoutLenB body + (if ends then 1 + s.eolPad else 0) ≤ 40)

/-- admissible base packet, as a Boolean (see `Admissible`) -/
def admissibleB (b : Base) : Bool :=
  decide (b.flags < 512) && bit b.flags F_SYN && !bit b.flags F_FIN && !bit b.flags F_RST
  && (bit b.flags F_ACK == (b.ack != 0)) && !bit b.flags F_URG && b.urp == 0
  && (b.ipVer == 4 || b.ipVer == 6) && decide (b.ipFlags < 8) && !bit b.ipFlags 1 && b.ipFrag == 0

end P0f
