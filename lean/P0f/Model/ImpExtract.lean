import P0f.Model.Impersonate
import P0f.Model.Wire
/-
  What pyp0f's extraction reports for the packet the impersonator returns, computed from its fields
  (`IP._from_ipv4/_from_ipv6`, `TCP.from_packet`, `TCPPacketSignature.from_packet` applied to the
  field values instead of to bytes).  The driver checks on every explained run that this agrees with
  decoding the packet's bytes; the C05 theorem is about this definition.
-/
namespace P0f

/-! ### what extraction reports for the output packet -/

def outIsSyn (o : OutPkt) : Bool := tcpType o.flags == F_SYN

def outOpts (o : OutPkt) : Opts := parseOpts (encodeOpts o.opts) (outIsSyn o)

/-- `IP._from_ipv4` / `_from_ipv6` quirks, from the fields -/
def outIpQuirks (o : OutPkt) : QSet :=
  if o.ipVer == 6 then (qIf (o.fl != 0) .flow).union (qIf (o.tos % 4 != 0) .ecn)
  else
    let df := bit o.ipFlags 2
    (qIf (o.tos % 4 != 0) .ecn).union <| (qIf (bit o.ipFlags 4) .nzMbz).union <|
      (qIf df .df).union <| (qIf (df && o.ipId != 0) .nzId).union (qIf (!df && o.ipId == 0) .zeroId)

/-- `TCP.from_packet` quirks, from the fields -/
def outTcpQuirks (o : OutPkt) : QSet :=
  let aF := bit o.flags 16
  (qIf (bit o.flags 64 || bit o.flags 128 || bit o.flags 256) .ecn).union <|
    (qIf (o.seq == 0) .zeroSeq).union <|
    (qIf (aF && o.ack == 0) .zeroAck).union <| (qIf (!aF && o.ack != 0 && !bit o.flags 4) .nzAck).union <|
    (qIf (bit o.flags 32) .urg).union <| (qIf (!bit o.flags 32 && o.urp != 0) .nzUrg).union <|
    (qIf (bit o.flags 8) .push)

/-- `TCPPacketSignature.from_packet` of the output -/
def extractOut (o : OutPkt) : PktSig :=
  let op := outOpts o
  { ipVer := o.ipVer, olen := if o.ipVer == 6 then 0 else ((ipOptBytes o.ipOptLen).length : Int),
    ttl := o.ttl.toNat, win := o.window, layout := op.layout, mss := op.mss, wscale := op.ws, ts := op.ts,
    eolPad := op.eolPad,
    hdrLen := (if o.ipVer == 6 then 40 else 20 + (ipOptBytes o.ipOptLen).length) + 20 + (encodeOpts o.opts).length,
    hasPayload := !o.payload.isEmpty,
    quirks := (outIpQuirks o).union ((outTcpQuirks o).union op.quirks),
    synMss := 0 }


end P0f
