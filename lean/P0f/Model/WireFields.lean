import P0f.Model.Wire
import P0f.Model.Q
/-
  The header-field view of `Model/Wire.lean`: what Scapy's dissected layers expose to `IP._from_ipv4/_from_ipv6` and
  `TCP.from_packet` (`Ip4F`, `Ip6F`, `TcpF`), read off the wire bytes (modelled from RFC 791 / 8200 / 793), and the
  model functions restated over those fields.  `LogicOk/Wire.lean` proves (i) the restatement agrees with the
  byte-level model and (ii) the definitions printed from the working tree's source equal the restatement.
-/
namespace P0f

def ip4FieldsOf (b : List Nat) : Ip4F :=
  let fl := b.getD 6 0 / 32
  { version := b.getD 0 0 / 16, ihl := b.getD 0 0 % 16, tos := b.getD 1 0, ident := u16 b 4,
    evil := fl / 4 % 2 == 1, df := fl / 2 % 2 == 1, mf := fl % 2 == 1,
    frag := (b.getD 6 0 % 32) * 256 + b.getD 7 0, ttl := b.getD 8 0 }

def ip6FieldsOf (b : List Nat) : Ip6F :=
  { version := b.getD 0 0 / 16, tc := (b.getD 0 0 % 16) * 16 + b.getD 1 0 / 16,
    fl := ((b.getD 1 0 % 16) * 256 + b.getD 2 0) * 256 + b.getD 3 0, hlim := b.getD 7 0 }

def tcpFieldsOf (t : List Nat) : TcpF :=
  { flags := tcpFlags9 t, seq := u32 t 4, ack := u32 t 8, urgptr := u16 t 18, dataofs := t.getD 12 0 / 16 }

/-- `IP._from_ipv4` over the dissected fields: (version, ttl, tos >> 2, options_length, header_length, is_fragment, quirks) -/
def ipv4Fields (ip : Ip4F) : Nat × Nat × Nat × Int × Int × Bool × QSet :=
  let q := (qIf (ip.tos % 4 != 0) .ecn).union <| (qIf ip.evil .nzMbz).union <|
    (qIf ip.df .df).union <| (qIf (ip.df && ip.ident != 0) .nzId).union (qIf (!ip.df && ip.ident == 0) .zeroId)
  (ip.version, ip.ttl, ip.tos / 4, (ip.ihl * 4 : Nat) - (20 : Int), (ip.ihl * 4 : Nat), ip.mf || ip.frag != 0, q)

/-- `IP._from_ipv6` over the dissected fields -/
def ipv6Fields (ip : Ip6F) : Nat × Nat × Nat × Int × Int × Bool × QSet :=
  (ip.version, ip.hlim, ip.tc / 4, 0, 40, false, (qIf (ip.fl != 0) .flow).union (qIf (ip.tc % 4 != 0) .ecn))

/-- `TCP.from_packet` over the dissected fields: (flags as stored in `type` before masking, is_syn handed to the option
    parser, header_length, TCP quirks before the option quirks are OR-ed in) -/
def tcpFields (tcp : TcpF) : Nat × Bool × Int × QSet :=
  let flags := tcp.flags
  let aF := bit flags 16
  let q := (qIf (bit flags 64 || bit flags 128 || bit flags 256) .ecn).union <|
    (qIf (tcp.seq == 0) .zeroSeq).union <|
    (qIf (aF && tcp.ack == 0) .zeroAck).union <| (qIf (!aF && tcp.ack != 0 && !bit flags 4) .nzAck).union <|
    (qIf (bit flags 32) .urg).union <| (qIf (!bit flags 32 && tcp.urgptr != 0) .nzUrg).union <|
    (qIf (bit flags 8) .push)
  (flags, tcpType flags == F_SYN, (tcp.dataofs * 4 : Nat), q)

end P0f

namespace P0f
/-- `TCPOptions(...)` as the tuple of its fields (layout, quirks, mss, timestamp, window_scale, eol_padding_length) -/
def optsTuple (o : Opts) : List Nat × QSet × Nat × Nat × Nat × Int :=
  (o.layout, o.quirks, o.mss, o.ts, o.ws, (o.eolPad : Int))
end P0f
