import P0f.Model.ScapyOpts
import P0f.Model.Wire
/-
  `fingerprint_mtu` (pyp0f/fingerprint/mtu.py), `MTUPacketSignature.from_mss`
  (pyp0f/net/signatures/mtu.py), `impersonate_mtu` (pyp0f/impersonate/mtu.py).
-/
namespace P0f

/-- `MIN_TCP4 if ip_version == IPV4 else MIN_TCP6` -/
def mtuHdr (ipVer : Nat) : Nat := if ipVer = 4 then 40 else 60

/-- `valid_for_mtu_fingerprint` -/
def validMtu (isFragment : Bool) (t : Nat) (mss : Nat) : Bool :=
  shouldFingerprint isFragment t && decide (mss > 0) && (t == F_SYN || t == (F_SYN ||| F_ACK))

/-- `find_mtu_match`: index of the earliest record with exactly that MTU -/
def findMtu (db : List Nat) (mtu : Nat) : Option Nat := db.findIdx? (· == mtu)

/-- `fingerprint_mtu` on a parsed packet: `none` = PacketError, else (mtu, match) -/
def fingerprintMtu (db : List Nat) (p : PktL) : Option (Nat × Option Nat) :=
  if !validMtu p.ip.isFragment p.tcp.type p.tcp.opts.mss then none
  else
    let mtu := p.tcp.opts.mss + mtuHdr p.ip.version
    some (mtu, findMtu db mtu)

/-- `impersonate_mtu` on the option list: replace every MSS entry in place, or prepend one -/
def impersonateMtu (opts : List SOpt) (mtu : Nat) (ipVer : Nat) : List SOpt :=
  let v := SOpt.mss (mtu - mtuHdr ipVer)
  if opts.any SOpt.isMss then opts.map fun o => if o.isMss then v else o
  else v :: opts

end P0f
