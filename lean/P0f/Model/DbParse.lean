import P0f.Model.SigParse
import P0f.Model.Http
/-
  The database file parser and the record store:
  pyp0f/database/parse/parser.py (`parse_file`, `_parse_file`, `_parse_section`, `ParserState`),
  pyp0f/database/records_database.py (`RecordsDatabase.create/add/_get/iter_values/__len__/get_random`),
  pyp0f/database/database.py (`Database.load` = parse into a fresh object, then one `_replace`),
  pyp0f/database/labels (`Label`, `MTULabel`).
  Import-free.  Errors are explicit (`LoadErr`): which of them can escape is a theorem (C10).
-/
namespace P0f
open P0f.Py

/-- what `Database.load` can raise in the model.  `indexError` stands for the Python `IndexError`
    of `line[0]` on an empty string; C10 proves it unreachable. -/
inductive LoadErr
  | parsing (line : Nat)      -- `ParsingError(…, line_number)` (a `DatabaseError`)
  | database                  -- plain `DatabaseError` (unreadable file, missing section)
  | indexError
  deriving DecidableEq, Repr

/-- the five record lists of a p0f database = (record class, direction) -/
inductive Section | mtu | tcpReq | tcpResp | httpReq | httpResp
  deriving DecidableEq, Repr

def Section.all : List Section := [.mtu, .tcpReq, .tcpResp, .httpReq, .httpResp]

/-- record class (`MTURecord` / `TCPRecord` / `HTTPRecord`) -/
inductive RecKind | mtu | tcp | http deriving DecidableEq, Repr
/-- `Direction.CLIENT_TO_SERVER` (`request`) / `SERVER_TO_CLIENT` (`response`) -/
inductive Dir | req | resp deriving DecidableEq, Repr

def Section.kind : Section → RecKind
  | .mtu => .mtu | .tcpReq => .tcp | .tcpResp => .tcp | .httpReq => .http | .httpResp => .http

def Section.dir : Section → Option Dir
  | .mtu => none | .tcpReq => some .req | .tcpResp => some .resp | .httpReq => some .req | .httpResp => some .resp

/-- `MTULabel` / `Label` (+ its `sys` tuple) -/
inductive DbLabel
  | mtu (name : List Char)
  | os (l : LabelM) (sys : List (List Char))
  deriving DecidableEq, Repr

/-- `label.dump()` -/
def DbLabel.dump : DbLabel → List Char
  | .mtu n => n
  | .os l _ => l.dump

def DbLabel.isUserApp : DbLabel → Bool
  | .mtu _ => false
  | .os l _ => l.isUserApp

/-- `label.sys = tuple(value.split(","))` (only `Label` objects have the attribute) -/
def DbLabel.withSys (sys : List (List Char)) : DbLabel → DbLabel
  | .mtu n => .mtu n
  | .os l _ => .os l sys

/-- structured signature of a record -/
inductive DbSig
  | mtu (m : Nat)
  | tcp (s : Sig)
  | http (s : HttpSig)

/-- a `Record`: label, structured signature, raw signature text, 1-based line number -/
structure DbRec where
  label : Option DbLabel
  sig : DbSig
  raw : List Char
  line : Nat

/-- `RecordsDatabase._map`: for each section either no list (never created) or its records in
    insertion order -/
abbrev Db := Section → Option (List DbRec)

def Db.empty : Db := fun _ => none

def Db.set (db : Db) (s : Section) (v : Option (List DbRec)) : Db :=
  fun t => if t = s then v else db t

/-- `create(record_cls, direction)`: an existing list is kept (`setdefault`) -/
def Db.create (db : Db) (s : Section) : Db :=
  match db s with
  | some _ => db
  | none => db.set s (some [])

/-- `add(record, direction)`: `_get` then `append`; a missing list is a `DatabaseError` -/
def Db.add (db : Db) (s : Section) (r : DbRec) : Except LoadErr Db :=
  match db s with
  | some l => .ok (db.set s (some (l ++ [r])))
  | none => .error .database

/-- which list `_get(key, direction)` addresses: the MTU list ignores the direction argument, the
    directional ones need one -/
def secOf (k : RecKind) (d : Option Dir) : Option Section :=
  match k, d with
  | .mtu, _ => some .mtu
  | .tcp, some .req => some .tcpReq
  | .tcp, some .resp => some .tcpResp
  | .http, some .req => some .httpReq
  | .http, some .resp => some .httpResp
  | _, none => none

/-- `create(record_cls, direction)` addressed the way the parser does (class, optional direction).  A directional class
    without a direction has no list in this model (`_parse_section` never produces that pair): left unchanged. -/
def Db.createKD (db : Db) (k : RecKind) (d : Option Dir) : Db :=
  match secOf k d with
  | some s => db.create s
  | none => db

/-- `add(record, direction)` with the record's class; `none` = `DatabaseError` -/
def Db.addKD (db : Db) (k : RecKind) (d : Option Dir) (r : DbRec) : Option Db :=
  match secOf k d with
  | some s => (match db.add s r with | .ok db' => some db' | .error _ => none)
  | none => none

/-- `isinstance(label, Label)` -/
def DbLabel.isOs : DbLabel → Bool
  | .mtu _ => false
  | .os _ _ => true

/-- `iter_values(key, direction)` / `_get`: anything missing is a `DatabaseError` -/
def Db.iter (db : Db) (k : RecKind) (d : Option Dir) : Except LoadErr (List DbRec) :=
  match secOf k d with
  | none => .error .database
  | some s => match db s with
    | some l => .ok l
    | none => .error .database

/-- `len(database)` -/
def Db.len (db : Db) : Nat := (Section.all.map fun s => ((db s).getD []).length).sum

/-- `raw_label == record.label.dump()` -/
def DbRec.labelIs (r : DbRec) (raw : List Char) : Bool :=
  match r.label with
  | some lb => raw == lb.dump
  | none => false

/-- `get_random(raw_label, key, direction)`: the candidate list `random.choice` draws from;
    empty = `DatabaseError` -/
def Db.candidates (db : Db) (raw : List Char) (k : RecKind) (d : Option Dir) : Except LoadErr (List DbRec) :=
  match db.iter k d with
  | .error e => .error e
  | .ok l =>
    let c := l.filter (·.labelIs raw)
    if c.isEmpty then .error .database else .ok c

/-! ### the parser -/

/-- universal-newline iteration over a text file: `\n`, `\r\n` and `\r` each end a line; a final
    unterminated non-empty piece is a line too.  Lines are returned without their terminator (the
    parser strips every line first). -/
def pyLinesGo : List Char → List Char → List (List Char)
  | [], cur => if cur.isEmpty then [] else [cur.reverse]
  | '\n' :: t, cur => cur.reverse :: pyLinesGo t []
  | '\r' :: '\n' :: t, cur => cur.reverse :: pyLinesGo t []
  | '\r' :: t, cur => cur.reverse :: pyLinesGo t []
  | c :: t, cur => pyLinesGo t (c :: cur)

def pyLines (s : List Char) : List (List Char) := pyLinesGo s []

inductive PState | needSection | needLabel | needSys | needSig
  deriving DecidableEq, Repr

/-- local variables of `_parse_file` -/
structure PSt where
  db : Db
  state : PState
  label : Option DbLabel
  sec : Option Section        -- (`record_cls`, `direction`)

def PSt.init : PSt := { db := Db.empty, state := .needSection, label := none, sec := none }

/-- `_parse_section`; `none` = FieldError -/
def parseSection (line : List Char) : Option Section :=
  if !endsWith line [']'] then none
  else
    let (ty, _, dir) := partition ':' ((line.drop 1).dropLast)
    if ty == "mtu".toList then (if dir.isEmpty then some .mtu else none)
    else if ty == "tcp".toList then
      (if dir == "request".toList then some .tcpReq else if dir == "response".toList then some .tcpResp else none)
    else if ty == "http".toList then
      (if dir == "request".toList then some .httpReq else if dir == "response".toList then some .httpResp else none)
    else none

/-- `record_cls._signature_cls.parse(value)`; `none` = FieldError -/
def parseSigFor (k : RecKind) (v : List Char) : Option DbSig :=
  match k with
  | .mtu => (parseMtuSig v).map .mtu
  | .tcp => (parseTcpSig v).map .tcp
  | .http => (parseHttpSig v).map .http

/-- `record_cls._label_cls.parse(value)`; `none` = FieldError -/
def parseLabelFor (k : RecKind) (v : List Char) : Option DbLabel :=
  match k with
  | .mtu => some (.mtu v)
  | _ => (parseLabel v).map fun l => .os l []

def isSkippedParam (p : List Char) : Bool := p == "classes".toList || p == "ua_os".toList

/-- one iteration of the `for line_number, line in enumerate(file, start=1)` loop -/
def stepLine (st : PSt) (n : Nat) (raw : List Char) : Except LoadErr PSt :=
  let line := strip raw
  if line.isEmpty then .ok st
  else
    match line.head? with
    | none => .error .indexError          -- `line[0]`
    | some c =>
      if c == ';' || c == '\n' then .ok st
      else if c == '[' then
        match parseSection line with
        | none => .error (.parsing n)
        | some s => .ok { st with db := st.db.create s, state := .needLabel, sec := some s }
      else
        let (p, _, v) := partition '=' line
        let param := strip p
        let value := strip v
        if param == "sig".toList then
          match st.state, st.sec with
          | .needSig, some s =>
            match parseSigFor s.kind value with
            | none => .error (.parsing n)
            | some sg =>
              match st.db.add s { label := st.label, sig := sg, raw := value, line := n } with
              | .ok db => .ok { st with db := db }
              | .error e => .error e
          | _, _ => .error (.parsing n)
        else if param == "label".toList then
          match st.sec with
          | none => .error (.parsing n)
          | some s =>
            if st.state == .needLabel || st.state == .needSig then
              match parseLabelFor s.kind value with
              | none => .error (.parsing n)
              | some lb =>
                .ok { st with label := some lb, state := if lb.isUserApp then .needSys else .needSig }
            else .error (.parsing n)
        else if param == "sys".toList then
          match st.state, st.label with
          | .needSys, some (.os l _) =>
            .ok { st with label := some (.os l (split ',' value)), state := .needSig }
          | _, _ => .error (.parsing n)
        else if isSkippedParam param then .ok st
        else .error (.parsing n)

/-- the line loop, `n` = number of the next line -/
def parseGo : List (List Char) → Nat → PSt → Except LoadErr PSt
  | [], _, st => .ok st
  | l :: ls, n, st =>
    match stepLine st n l with
    | .ok st' => parseGo ls (n + 1) st'
    | .error e => .error e

/-- `_parse_file` on the lines of the file -/
def parseLines (ls : List (List Char)) : Except LoadErr Db :=
  match parseGo ls 1 PSt.init with
  | .ok st => .ok st.db
  | .error e => .error e

/-- `parse_file` on the text of a readable file -/
def parseText (text : List Char) : Except LoadErr Db := parseLines (pyLines text)

/-- what `open()` + decoding give: an unreadable path (missing, a directory, not UTF-8) or a text -/
inductive FileArg
  | unreadable
  | text (t : List Char)

/-- `parse_file` -/
def parseFile : FileArg → Except LoadErr Db
  | .unreadable => .error .database
  | .text t => parseText t

/-- `Database.load`: the live map is replaced only after `parse_file` has returned -/
def dbLoad (cur : Db) (f : FileArg) : Except LoadErr Db × Db :=
  match parseFile f with
  | .ok db => (.ok db, db)
  | .error e => (.error e, cur)

end P0f
