import P0f.Model.Basic
/-
  `TCPOptions.parse` and `TCPOptions.dump` (pyp0f/net/layers/tcp/options.py).

  The `while i < options_end` loop over the buffer is a recursion over the bytes still to read
  (the list from index `i` on).  Termination: every iteration consumes at least the kind byte; the
  jump `i = current_option_end` lands at `kind position + length` with `length ≥ 2` (the
  `option_length < 2` guard), so the remaining list gets strictly shorter.  Lean accepts the
  definition only because of that guard - the termination proof is part of C04.
-/
namespace P0f

structure Opts where
  layout : List Nat
  quirks : QSet
  mss : Nat
  ts : Nat           -- own timestamp (`timestamp`)
  ws : Nat           -- `window_scale`
  eolPad : Nat       -- `eol_padding_length`

def Opts.init : Opts := { layout := [], quirks := QSet.empty, mss := 0, ts := 0, ws := 0, eolPad := 0 }

def Opts.addQuirk (o : Opts) (q : Quirk) : Opts := { o with quirks := o.quirks.insert q }

/-- payload size of the fixed-format options: `OPTION_FORMATS[kind].size` -/
def optSize (kind : Nat) : Option Nat :=
  if kind = 2 then some 2 else if kind = 3 then some 1 else if kind = 4 then some 0
  else if kind = 8 then some 8 else none

def be16 (b : List Nat) : Nat := b.getD 0 0 * 256 + b.getD 1 0
def be32 (b : List Nat) : Nat := ((b.getD 0 0 * 256 + b.getD 1 0) * 256 + b.getD 2 0) * 256 + b.getD 3 0

def Opts.pushKind (o : Opts) (k : Nat) : Opts := { o with layout := o.layout ++ [k] }
def Opts.setMss (o : Opts) (v : Nat) : Opts := { o with mss := v }
def Opts.setWs (o : Opts) (v : Nat) : Opts := { o with ws := v }
def Opts.setTs (o : Opts) (v : Nat) : Opts := { o with ts := v }
def Opts.setEolPad (o : Opts) (v : Nat) : Opts := { o with eolPad := v }
def Opts.addQuirkIf (o : Opts) (c : Bool) (q : Quirk) : Opts := if c then o.addQuirk q else o

/-- update for a well-formed fixed-format option whose payload is `body` -/
def applyValue (isSyn : Bool) (kind : Nat) (body : List Nat) (o : Opts) : Opts :=
  if kind = 2 then o.setMss (be16 body)
  else if kind = 3 then (o.setWs (body.getD 0 0)).addQuirkIf (decide (body.getD 0 0 > 14)) .exws
  else if kind = 8 then
    ((o.setTs (be32 body)).addQuirkIf (be32 body == 0) .zeroTs1).addQuirkIf
      (be32 (body.drop 4) != 0 && isSyn) .nzTs2
  else o

def parseOptsGo (isSyn : Bool) : List Nat → Opts → Opts
  | [], o => o
  | kind :: rest, o =>
    if kind = 0 then
      -- EOL: count the bytes left, flag any non-zero one, stop
      ((o.pushKind kind).setEolPad rest.length).addQuirkIf (rest.any (· != 0)) .eolNz
    else if kind = 1 then parseOptsGo isSyn rest (o.pushKind kind)
    else
      match rest with
      | [] => (o.pushKind kind).addQuirk .bad                         -- no room for the length byte
      | len :: rest' =>
        if len > 2 + rest'.length then (o.pushKind kind).addQuirk .bad   -- would end past the end of the header
        else if len < 2 then (o.pushKind kind).addQuirk .bad             -- shorter than kind + length bytes
        else if kind = 5 then
          if ¬ (10 ≤ len ∧ len ≤ 34) then (o.pushKind kind).addQuirk .bad
          else parseOptsGo isSyn (rest'.drop (len - 2)) (o.pushKind kind)
        else
          match optSize kind with
          | some sz =>
            if len ≠ 2 + sz then
              parseOptsGo isSyn (rest'.drop (len - 2)) ((o.pushKind kind).addQuirk .bad)   -- bad, but go on
            else
              parseOptsGo isSyn (rest'.drop (len - 2)) (applyValue isSyn kind (rest'.take (len - 2)) (o.pushKind kind))
          | none =>
            if ¬ (2 ≤ len ∧ len ≤ 40) then (o.pushKind kind).addQuirk .bad
            else parseOptsGo isSyn (rest'.drop (len - 2)) (o.pushKind kind)
termination_by l => l.length
decreasing_by
  all_goals simp only [List.length_cons, List.length_drop]
  all_goals omega

/-- `TCPOptions.parse(buffer, is_syn=…)` -/
def parseOpts (buf : List Nat) (isSyn : Bool) : Opts := parseOptsGo isSyn buf Opts.init

/-! `TCPOptions.dump` -/

def natStr (n : Nat) : List Char := (Nat.repr n).toList

/-- `OPTION_STRINGS.get(option, f"?{option}")` for non-EOL kinds -/
def optName (kind : Nat) : List Char :=
  if kind = 1 then "nop".toList else if kind = 2 then "mss".toList else if kind = 3 then "ws".toList
  else if kind = 4 then "sok".toList else if kind = 5 then "sack".toList else if kind = 8 then "ts".toList
  else '?' :: natStr kind

def dumpOption (eolPad : Nat) (kind : Nat) : List Char :=
  if kind = 0 then "eol+".toList ++ natStr eolPad else optName kind

/-- `",".join(…)` -/
def joinComma (parts : List (List Char)) : List Char := [','].intercalate parts

def dumpLayout (layout : List Nat) (eolPad : Nat) : List Char :=
  joinComma (layout.map (dumpOption eolPad))

/-- `dump_quirks`: names in `QUIRK_STRINGS` order -/
def Quirk.str : Quirk → List Char
  | .ecn => "ecn".toList | .df => "df".toList | .nzId => "id+".toList | .zeroId => "id-".toList
  | .nzMbz => "0+".toList | .flow => "flow".toList | .zeroSeq => "seq-".toList | .nzAck => "ack+".toList
  | .zeroAck => "ack-".toList | .nzUrg => "uptr+".toList | .urg => "urgf+".toList | .push => "pushf+".toList
  | .zeroTs1 => "ts1-".toList | .nzTs2 => "ts2+".toList | .eolNz => "opt+".toList | .exws => "exws".toList
  | .bad => "bad".toList

def dumpQuirks (q : QSet) : List Char := joinComma (q.toList.map Quirk.str)

end P0f
