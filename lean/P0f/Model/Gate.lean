/-
  Packet gates shared by the fingerprint functions:
  `TCP.__post_init__` (type mask), `Packet.should_fingerprint`, `valid_for_*_fingerprint`.
  TCP flags are the 9-bit value Scapy reports (FIN 1, SYN 2, RST 4, PSH 8, ACK 16, URG 32, ECE 64, CWR 128, NS 256).
-/
namespace P0f

def F_FIN : Nat := 0x01
def F_SYN : Nat := 0x02
def F_RST : Nat := 0x04
def F_PSH : Nat := 0x08
def F_ACK : Nat := 0x10
def F_URG : Nat := 0x20
def F_ECE : Nat := 0x40
def F_CWR : Nat := 0x80
def F_NS : Nat := 0x100

/-- `self.type &= SYN | ACK | FIN | RST` -/
def tcpType (flags : Nat) : Nat := flags &&& (F_SYN ||| F_ACK ||| F_FIN ||| F_RST)

/-- `mask in value` for `IntFlag`s: all bits of the mask are set -/
def hasAll (t m : Nat) : Bool := t &&& m == m

/-- `Packet.should_fingerprint` -/
def shouldFingerprint (isFragment : Bool) (t : Nat) : Bool :=
  !isFragment && t != 0 && !hasAll t (F_SYN ||| F_FIN) && !hasAll t (F_SYN ||| F_RST)
    && !hasAll t (F_FIN ||| F_RST)

/-- `valid_for_tcp_fingerprint` (SYN or SYN+ACK) -/
def validTcp (isFragment : Bool) (t : Nat) : Bool :=
  shouldFingerprint isFragment t && (t == F_SYN || t == (F_SYN ||| F_ACK))

/-- `valid_for_uptime_fingerprint` (SYN, SYN+ACK or ACK) -/
def validUptime (isFragment : Bool) (t : Nat) : Bool :=
  shouldFingerprint isFragment t && (t == F_SYN || t == (F_SYN ||| F_ACK) || t == F_ACK)

end P0f
