import P0f.Model.SigParse
import P0f.Model.Q
/-
  `TCPSignature(...)` as the model's `Sig`, from the Python field values (WILDCARD = -1 for the wildcardable ones):
  the constructor the printed `TCPSignature.parse` calls.
-/
namespace P0f

def sigOfFields (ipVer olen ttl : Int) (badTtl : Bool) (win : WinType × Int × Int) (opt : List Int × Int × Int)
    (pay : Int) (q : QSet) : Sig :=
  { ipVer := intToOpt ipVer, olen := olen.toNat, ttl := ttl.toNat, badTtl := badTtl,
    wtype := win.1, wsize := win.2.1.toNat, scale := intToOpt win.2.2,
    layout := opt.1.map Int.toNat, mss := intToOpt opt.2.1, eolPad := opt.2.2.toNat,
    payClass := if pay < 0 then none else some (decide (pay ≠ 0)), quirks := q }

end P0f
