import P0f.Model.Impersonate
import P0f.Model.SigParse
/-
  Explaining a run of the real `impersonate_tcp` (C05 / C14 correspondence): read the raw header
  fields of the base packet and of the output packet from their bytes, read off the output the
  values the run must have drawn from `random`, and re-run the model with exactly those choices.
  Not part of the modelled behaviour; used by the driver only.
-/
namespace P0f

/-- raw header fields of a well-framed IPv4 / IPv6 TCP packet -/
structure RawPkt where
  ipVer : Nat
  src : List Nat
  dst : List Nat
  tos : Nat
  ipId : Nat
  ipFlags : Nat
  ipFrag : Nat
  ttl : Nat
  fl : Nat
  ipOptLen : Nat
  sport : Nat
  dport : Nat
  seq : Nat
  ack : Nat
  flags : Nat
  urp : Nat
  window : Nat
  optBytes : List Nat
  payload : List Nat

def rawTcp (t : List Nat) : Nat × Nat × Nat × Nat × Nat × Nat × Nat × List Nat × List Nat :=
  let hl := (t.getD 12 0 / 16) * 4
  (u16 t 0, u16 t 2, u32 t 4, u32 t 8, tcpFlags9 t, u16 t 18, u16 t 14, (t.take hl).drop 20, t.drop hl)

def rawOf (ver : Nat) (b : List Nat) : RawPkt :=
  if ver == 4 then
    let ihl := b.getD 0 0 % 16
    let total := u16 b 2
    let t := (b.take total).drop (ihl * 4)
    let (sp, dp, seq, ack, fl, urp, win, ob, pay) := rawTcp t
    { ipVer := 4, src := (b.drop 12).take 4, dst := (b.drop 16).take 4, tos := b.getD 1 0, ipId := u16 b 4,
      ipFlags := b.getD 6 0 / 32, ipFrag := (b.getD 6 0 % 32) * 256 + b.getD 7 0, ttl := b.getD 8 0, fl := 0,
      ipOptLen := ihl * 4 - 20, sport := sp, dport := dp, seq := seq, ack := ack, flags := fl, urp := urp,
      window := win, optBytes := ob, payload := pay }
  else
    let plen := u16 b 4
    let t := (b.take (40 + plen)).drop 40
    let (sp, dp, seq, ack, fl, urp, win, ob, pay) := rawTcp t
    { ipVer := 6, src := (b.drop 8).take 16, dst := (b.drop 24).take 16,
      tos := (b.getD 0 0 % 16) * 16 + b.getD 1 0 / 16, ipId := 0, ipFlags := 0, ipFrag := 0, ttl := b.getD 7 0,
      fl := ((b.getD 1 0 % 16) * 256 + b.getD 2 0) * 256 + b.getD 3 0, ipOptLen := 0,
      sport := sp, dport := dp, seq := seq, ack := ack, flags := fl, urp := urp, window := win,
      optBytes := ob, payload := pay }

/-- generic walk over option bytes into Scapy-style tuples (used only to read drawn values) -/
def walkOpts : Nat → List Nat → List SOpt
  | 0, _ => []
  | _, [] => []
  | fuel + 1, 0 :: t => .eol :: walkOpts fuel t
  | fuel + 1, 1 :: t => .nop :: walkOpts fuel t
  | fuel + 1, k :: l :: t =>
    let body := t.take (l - 2)
    let rest := t.drop (l - 2)
    let o : SOpt :=
      if k == 2 && l == 4 then .mss (u16 body 0)
      else if k == 3 && l == 3 then .ws (body.getD 0 0)
      else if k == 4 && l == 2 then .sackok
      else if k == 8 && l == 10 then .ts (u32 body 0) (u32 body 4)
      else if k == 5 then .sack (l - 2)
      else .raw k (l - 2)
    if l < 2 then [o] else o :: walkOpts fuel rest
  | _ + 1, [_] => []

def optValue : SOpt → Nat × Nat
  | .mss v => (v, 0)
  | .ws v => (v, 0)
  | .ts a b => (a, b)
  | _ => (0, 0)

def baseOfRaw (r : RawPkt) (mss ws ts1 ts2 : Option Int) : Base :=
  { ipVer := r.ipVer, src := r.src, dst := r.dst, ipFlags := r.ipFlags, ipId := r.ipId, ipFrag := r.ipFrag,
    sport := r.sport, dport := r.dport, seq := r.seq, ack := r.ack, flags := r.flags, urp := r.urp,
    window := r.window, mssHint := mss, wsHint := ws, ts1Hint := ts1, ts2Hint := ts2, payload := r.payload }

/-- the values the run must have drawn, read off its output -/
def choicesOfOut (s : Sig) (o : RawPkt) : Choices :=
  let ol := walkOpts 64 o.optBytes
  { id := o.ipId, fl := o.fl, ecn := o.tos, seq := o.seq, ack := o.ack, urp := o.urp,
    winMul := if s.wsize == 0 then 0 else o.window / s.wsize, payload := o.payload,
    opt := (List.range s.layout.length).map fun i => optValue (ol.getD i .nop) }

/-- zero the IP header checksum (IPv4) and the TCP checksum -/
def zeroChecksums (ver : Nat) (b : List Nat) : List Nat :=
  let tcpOff := if ver == 4 then (b.getD 0 0 % 16) * 4 else 40
  let z (l : List Nat) (i : Nat) : List Nat := l.set i 0
  let b1 := if ver == 4 then z (z b 10) 11 else b
  z (z b1 (tcpOff + 16)) (tcpOff + 17)

def firstDiff : List Nat → List Nat → Nat → Option Nat
  | [], [], _ => none
  | a :: as, b :: bs, i => if a == b then firstDiff as bs (i + 1) else some i
  | _, _, i => some i

end P0f
