import P0f.Py.Str
import P0f.Model.TcpOptions
/-
  Signature / label text parsers:
  pyp0f/database/parse/utils.py (`split_parts`, `parse_number_in_range`, `parse_from_options`),
  pyp0f/database/signatures/tcp.py (`TCPSignature.parse`, `_parse_*`),
  pyp0f/database/signatures/mtu.py, pyp0f/database/labels/label.py.
  `none` = `FieldError` (the only exception these functions can raise, see C10 theorems).
-/
namespace P0f
open P0f.Py

/-- `parse_number_in_range(field, min, max, wildcard)`; the wildcard answer is `none` inside -/
def parseNumber (field : List Char) (lo hi : Int) : Option Int :=
  match pyInt? field with
  | some v => if lo ≤ v ∧ v ≤ hi then some v else none
  | none => none

def isWildcardStr (s : List Char) : Bool := s == ['*']

/-- number or `*`; result `some none` = WILDCARD -/
def parseNumberW (field : List Char) (lo hi : Int) : Option (Option Nat) :=
  if isWildcardStr field then some none
  else (parseNumber field lo hi).map fun v => some v.toNat

def parseNumberN (field : List Char) (lo hi : Int) : Option Nat :=
  (parseNumber field lo hi).map Int.toNat

/-- `_parse_ip_version` -/
def parseIpVersion (f : List Char) : Option (Option Nat) :=
  if isWildcardStr f then some none
  else if f == ['4'] then some (some 4) else if f == ['6'] then some (some 6) else none

/-- `_parse_payload_class` -/
def parsePayloadClass (f : List Char) : Option (Option Bool) :=
  if isWildcardStr f then some none
  else if f == ['0'] then some (some false) else if f == ['+'] then some (some true) else none

/-- `_parse_ttl`: (ttl, is_bad_ttl) -/
def parseTtl (field : List Char) : Option (Nat × Bool) :=
  if endsWith field ['-'] then
    (parseNumberN field.dropLast 1 255).map fun t => (t, true)
  else if field.contains '+' then
    let (rawTtl, _, rawDist) := partition '+' field
    match parseNumberN rawDist 0 255, parseNumberN rawTtl 1 255 with
    | some d, some t => if t + d > 255 then none else some (t + d, false)
    | _, _ => none
  else (parseNumberN field 1 255).map fun t => (t, false)

/-- `_parse_window`: (type, size, scale) -/
def parseWindow (field : List Char) : Option (WinType × Nat × Option Nat) :=
  let (rawWindow, _, rawScale) := partition ',' field
  let tw : Option (WinType × Nat) :=
    if isWildcardStr rawWindow then some (.any, 0)
    else if startsWith rawWindow "mss*".toList then (parseNumberN (rawWindow.drop 4) 1 1000).map fun n => (.mss, n)
    else if startsWith rawWindow "mtu*".toList then (parseNumberN (rawWindow.drop 4) 1 1000).map fun n => (.mtu, n)
    else if startsWith rawWindow ['%'] then (parseNumberN (rawWindow.drop 1) 2 65535).map fun n => (.mod, n)
    else (parseNumberN rawWindow 0 65535).map fun n => (.normal, n)
  match tw, parseNumberW rawScale 0 255 with
  | some (t, n), some sc => some (t, n, sc)
  | _, _ => none

/-- `_STRING_OPTIONS` lookup (the EOL key `eol+{padding_length}` is unreachable: it starts with
    `eol+` and is taken by the branch before) -/
def optionOfName (s : List Char) : Option Nat :=
  if s == "nop".toList then some 1 else if s == "mss".toList then some 2 else if s == "ws".toList then some 3
  else if s == "sok".toList then some 4 else if s == "sack".toList then some 5 else if s == "ts".toList then some 8
  else none

/-- one item of the options field: (kind, new eol padding if this item sets it) -/
def parseOptionItem (raw : List Char) : Option (Nat × Option Nat) :=
  if startsWith raw ['?'] then (parseNumberN (raw.drop 1) 0 255).map fun k => (k, none)
  else if startsWith raw "eol+".toList then (parseNumberN (raw.drop 4) 0 255).map fun n => (0, some n)
  else (optionOfName raw).map fun k => (k, none)

/-- `_parse_options`: (layout, eol_padding_length); the last `eol+n` item wins -/
def optionsStep (acc : List Nat × Nat) (raw : List Char) : Option (List Nat × Nat) :=
  match parseOptionItem raw with
  | some kp => some (acc.1 ++ [kp.1], kp.2.getD acc.2)
  | none => none

def parseOptionsField (field : List Char) : Option (List Nat × Nat) :=
  (if field.isEmpty then [] else split ',' field).foldlM optionsStep ([], 0)

/-- `_STRING_QUIRKS` lookup -/
def quirkOfName (s : List Char) : Option Quirk := Quirk.all.find? fun q => q.str == s

/-- `_INVALID_QUIRKS.get(ip_version)` containment -/
def quirkInvalidFor (ver : Option Nat) (q : Quirk) : Bool :=
  match ver with
  | some 4 => q == .flow
  | some 6 => q == .df || q == .nzId || q == .zeroId || q == .nzMbz
  | _ => false

/-- `_parse_quirks` -/
def quirksStep (ver : Option Nat) (acc : QSet) (raw : List Char) : Option QSet :=
  match quirkOfName raw with
  | some q => if quirkInvalidFor ver q then none else some (acc.insert q)
  | none => none

def parseQuirksField (field : List Char) (ver : Option Nat) : Option QSet :=
  (if field.isEmpty then [] else split ',' field).foldlM (quirksStep ver) QSet.empty

/-- `TCPSignature.parse` -/
def parseTcpSig (raw : List Char) : Option Sig :=
  match splitParts ':' 8 raw with
  | [rVer, rTtl, rOlen, rMss, rWin, rOpts, rQuirks, rPay] =>
    match parseIpVersion rVer, parseTtl rTtl, parseNumberN rOlen 0 255, parseNumberW rMss 0 65535,
          parseWindow rWin, parseOptionsField rOpts, parsePayloadClass rPay with
    | some ver, some (ttl, bad), some olen, some mss, some (wt, wsz, sc), some (layout, pad), some pay =>
      (parseQuirksField rQuirks ver).map fun q =>
        { ipVer := ver, olen := olen, ttl := ttl, badTtl := bad, wtype := wt, wsize := wsz, scale := sc,
          layout := layout, mss := mss, eolPad := pad, payClass := pay, quirks := q }
    | _, _, _, _, _, _, _ => none
  | _ => none

/-- `MTUSignature.parse` -/
def parseMtuSig (raw : List Char) : Option Nat := parseNumberN raw 1 65535

/-- `Label` -/
structure LabelM where
  generic : Bool
  osClass : List Char
  name : List Char
  flavor : List Char
  deriving DecidableEq, Repr

/-- `Label.parse` -/
def parseLabel (raw : List Char) : Option LabelM :=
  match splitParts ':' 4 raw with
  | [ty, cls, name, flavor] =>
    if ty == ['s'] then some { generic := false, osClass := cls, name := name, flavor := flavor }
    else if ty == ['g'] then some { generic := true, osClass := cls, name := name, flavor := flavor }
    else none
  | _ => none

/-- `Label.dump` -/
def LabelM.dump (l : LabelM) : List Char :=
  [':'].intercalate [[if l.generic then 'g' else 's'], l.osClass, l.name, l.flavor]

def LabelM.isUserApp (l : LabelM) : Bool := l.osClass == ['!']

end P0f
