import P0f.Model.Basic
/-
  Helpers for the line protocol of the driver (not part of the modelled behaviour).
-/
namespace P0f.Fmt

def parseNat (s : String) : Nat := s.toNat?.getD 0

def parseInt (s : String) : Int :=
  if s.startsWith "-" then -((s.drop 1).toNat?.getD 0 : Nat) else (s.toNat?.getD 0 : Nat)

/-- `-1` encodes `none` -/
def parseOptNat (s : String) : Option Nat :=
  if s.startsWith "-" then none else some (s.toNat?.getD 0)

def parseBool (s : String) : Bool := s == "1"

def parseOptBool (s : String) : Option Bool :=
  if s.startsWith "-" then none else some (s == "1")

def parseNatList (s : String) : List Nat :=
  if s.isEmpty then [] else (s.splitOn ",").map parseNat

def hexDigit (c : Char) : Nat :=
  if '0' ≤ c ∧ c ≤ '9' then c.toNat - '0'.toNat
  else if 'a' ≤ c ∧ c ≤ 'f' then c.toNat - 'a'.toNat + 10
  else if 'A' ≤ c ∧ c ≤ 'F' then c.toNat - 'A'.toNat + 10 else 0

/-- hex string to byte list -/
def parseHex (s : String) : List Nat :=
  let rec go : List Char → List Nat
    | a :: b :: rest => (hexDigit a * 16 + hexDigit b) :: go rest
    | _ => []
  go s.toList

def toHexDigit (n : Nat) : Char :=
  if n < 10 then Char.ofNat ('0'.toNat + n) else Char.ofNat ('a'.toNat + n - 10)

def hexOfBytes (l : List Nat) : String :=
  String.ofList (l.flatMap fun b => [toHexDigit (b / 16), toHexDigit (b % 16)])

/-- hex-encoded ASCII/latin-1 text to `List Char` -/
def parseHexText (s : String) : List Char := (parseHex s).map Char.ofNat

def hexOfText (l : List Char) : String := hexOfBytes (l.map Char.toNat)

def natList (l : List Nat) : String := ",".intercalate (l.map toString)

end P0f.Fmt
