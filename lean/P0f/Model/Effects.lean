import P0f.Model.Find
import P0f.Model.Mtu
import P0f.Model.DbParse
/-
  Where pyp0f keeps state while fingerprinting (C16): the only mutable slot is the window
  multiplier cache `_window_multiplier` of the per-call `TCPPacketSignature` object
  (pyp0f/net/signatures/tcp.py).  `tcp_signatures_match` reads the `window_multiplier` property -
  filling the cache on first use - only when it reaches the window block of an `mss*N` / `mtu*N`
  signature.  This file threads that object through matching and the record loop exactly as the
  code does; P0f/Props/C16.lean proves the threaded version equal to the pure one.
-/
namespace P0f

/-- a `TCPPacketSignature` object: its (never reassigned) fields and the cache slot -/
structure SigObj where
  k : PktSig
  cache : Option (Int × Bool)

/-- `__post_init__`: `self._window_multiplier = None` -/
def SigObj.fresh (k : PktSig) : SigObj := { k := k, cache := none }

/-- the `window_multiplier` property: compute on first use, then return the cached value -/
def SigObj.mult (o : SigObj) : (Int × Bool) × SigObj :=
  match o.cache with
  | some c => (c, o)
  | none => let c := windowMult o.k.wIn; (c, { o with cache := some c })

/-- the cache never holds anything but the value computed from the object's own fields -/
def SigObj.Coherent (o : SigObj) : Prop := o.cache = none ∨ o.cache = some (windowMult o.k.wIn)

/-- what matching reads, with a given multiplier value in place -/
def PktSig.toPSigWith (k : PktSig) (m : Int × Bool) : PSig :=
  { ipVer := k.ipVer, olen := k.olen, ttl := k.ttl, win := k.win, layout := k.layout, mss := k.mss,
    wscale := k.wscale, eolPad := k.eolPad, hasPayload := k.hasPayload, quirks := k.quirks,
    multVal := m.1, multMtu := m.2 }

/-- every criterion of `tcp_signatures_match` before the window block (none of them reads the multiplier) -/
def tcpMatchPre (s : Sig) (p : PSig) (maxDist : Int) : Option MatchType :=
  if s.layout != p.layout then none else
  if s.ipVer.isSome && s.ipVer != some p.ipVer then none else
  match quirkStep (maskedQ s p) p.quirks with
  | none => none
  | some mt0 =>
    if s.eolPad != p.eolPad || (s.olen : Int) != p.olen then none else
    let ttlStep : Option MatchType :=
      if s.badTtl then (if s.ttl < p.ttl then none else some mt0)
      else if s.ttl < p.ttl || (s.ttl : Int) - p.ttl > maxDist then some .fuzzyTtl else some mt0
    match ttlStep with
    | none => none
    | some mt =>
      if (s.mss.isSome && s.mss != some p.mss) || (s.scale.isSome && s.scale != some p.wscale)
          || (s.payClass.isSome && s.payClass != some p.hasPayload) then none else some mt

/-- `tcp_signatures_match(signature, packet_signature_object, options)`: the property is evaluated
    (and the cache possibly written) only in the `mss*N` / `mtu*N` window branches -/
def tcpMatchObj (s : Sig) (o : SigObj) (d : Int) : Option MatchType × SigObj :=
  match tcpMatchPre s (o.k.toPSigWith (0, false)) d with
  | none => (none, o)
  | some mt =>
    if s.wtype == .mss || s.wtype == .mtu then
      let r := o.mult
      (if windowBad s (o.k.toPSigWith r.1) then none else some mt, r.2)
    else (if windowBad s (o.k.toPSigWith (0, false)) then none else some mt, o)

/-- the record loop of `find_tcp_match`, with the packet-signature object threaded through -/
def findLoopObj (d : Int) : List Rec → SigObj → Option TcpMatch → Option TcpMatch → Option TcpMatch × SigObj
  | [], o, fuzzy, generic => (findFinish fuzzy generic, o)
  | r :: rs, o, fuzzy, generic =>
    match tcpMatchObj r.sig o d with
    | (none, o') => findLoopObj d rs o' fuzzy generic
    | (some .exact, o') =>
      if !r.generic then (some (.exact, r), o')
      else findLoopObj d rs o' fuzzy (if generic.isNone then some (.exact, r) else generic)
    | (some mt, o') => findLoopObj d rs o' (if fuzzy.isNone then some (mt, r) else fuzzy) generic

/-- `fingerprint_tcp` after packet parsing: a FRESH signature object per call -/
def fingerprintTcpObj (db : TcpDb) (k : PktSig) (isSyn : Bool) (d : Int) : Option TcpMatch × Int :=
  let r := findLoopObj d (if isSyn then db.req else db.resp) (SigObj.fresh k) none none
  (r.1, distance r.1 k.ttl)

end P0f

/-! ### caller-owned objects (C12) -/
namespace P0f

/-- a Scapy packet the caller holds: its TCP option list and everything else about it (all other
    fields of all layers, explicit or unset, raw caches, payload) as one opaque value -/
structure CallerPkt (α : Type) where
  opts : List SOpt
  rest : α

/-- a payload buffer the caller holds: its bytes and how much of it has been consumed -/
structure CallerBuf where
  data : List Char
  consumed : Nat

/-- everything the caller owns plus the shared database -/
structure World (α : Type) where
  pkts : List (CallerPkt α)
  bufs : List CallerBuf
  db : Db

/-- calls that receive caller objects -/
inductive WCall
  | fpTcp (i : Nat) | fpMtu (i : Nat) | fpUptime (i : Nat)   -- work on `copy_packet(packet, assemble=True)`
  | fpHttp (j : Nat)                                          -- works on `copy_buffer(buffer)`
  | impTcp (i : Nat)                                          -- builds fresh IP / TCP layers from field reads
  | impMtu (i : Nat) (mtu ver : Nat)                          -- rewrites `tcp.options` of the packet it is given

/-- effect of a call on the caller's objects and the database -/
def wStep {α : Type} (w : World α) : WCall → World α
  | .impMtu i mtu ver =>
    { w with pkts := w.pkts.modify i fun p => { p with opts := impersonateMtu p.opts mtu ver } }
  | _ => w

def wRun {α : Type} (w : World α) (cs : List WCall) : World α := cs.foldl wStep w

end P0f
