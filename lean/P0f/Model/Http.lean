import P0f.Py.Str
/-
  HTTP: h11 0.16.0 `ReceiveBuffer.maybe_extract_lines` (modelled from its source, not verified),
  pyp0f/net/layers/http/read.py (`read_first_line`, `read_headers`, `read_payload`),
  pyp0f/database/signatures/http.py (`HTTPSignature.parse`, `_parse_headers`),
  pyp0f/fingerprint/http.py (`headers_match`, `http_signatures_match`, `find_http_match`),
  pyp0f/net/layers/http/http.py (`software`), pyp0f/fingerprint/results/http.py (`dishonest`).
  Byte strings are `List Char` (code points 0..255).
-/
namespace P0f
open P0f.Py

abbrev Bytes := List Char

/-! ### h11: everything up to the first blank line, as lines -/

/-- delete one trailing `\r` -/
def dropCr (l : Bytes) : Bytes := if l.getLast? = some '\r' then l.dropLast else l

/-- scan up to the first match of `\n\r?\n`: `cur` = current line (reversed), `acc` = finished
    lines (reversed).  The line that ends at the first `\n` of the match is the last one; the two
    empty pieces `split(b"\n")` leaves after it are dropped (`del lines[-2:]`). -/
def scanLines : Bytes → Bytes → List Bytes → Option (List Bytes)
  | [], _, _ => none
  | '\n' :: rest, cur, acc =>
    match rest with
    | '\n' :: _ => some (dropCr cur.reverse :: acc).reverse
    | '\r' :: '\n' :: _ => some (dropCr cur.reverse :: acc).reverse
    | _ => scanLines rest [] (dropCr cur.reverse :: acc)
  | c :: rest, cur, acc => scanLines rest (c :: cur) acc

/-- `maybe_extract_lines()` on a fresh buffer: `none` = None (no blank line yet) -/
def extractLines (data : Bytes) : Option (List Bytes) :=
  if data.take 1 == ['\n'] then some []
  else if data.take 2 == ['\r', '\n'] then some []
  else scanLines data [] []

/-! ### read_first_line -/

/-- `bytes.split(None, maxsplit)`: pieces separated by whitespace runs; after `maxsplit` splits the
    remainder (leading whitespace removed, trailing kept) is the last piece -/
def splitWs : Nat → Bytes → List Bytes
  | 0, s =>
    let s := s.dropWhile isSpaceB
    if s.isEmpty then [] else [s]
  | n + 1, s =>
    let s := s.dropWhile isSpaceB
    if s.isEmpty then []
    else s.takeWhile (fun c => !isSpaceB c) :: splitWs n (s.dropWhile (fun c => !isSpaceB c))

def isAsciiDigit (c : Char) : Bool := '0' ≤ c && c ≤ '9'

/-- `^HTTP/1\.(\d)$` (a trailing `\n` cannot occur: lines never contain `\n`) -/
def minorVersion (v : Bytes) : Option Nat :=
  match v with
  | ['H', 'T', 'T', 'P', '/', '1', '.', d] => if isAsciiDigit d then some (d.toNat - '0'.toNat) else none
  | _ => none

/-- (is_request, minor version); `none` = PacketError -/
def readFirstLine (line : Bytes) : Option (Bool × Nat) :=
  let parts := splitWs 2 line
  match parts[0]? with
  | none => none                                             -- IndexError
  | some p0 =>
    if p0 == "GET".toList || p0 == "HEAD".toList then
      match parts[2]? with
      | none => none                                         -- IndexError
      | some v => (minorVersion v).map (true, ·)
    else (minorVersion p0).map (false, ·)

/-! ### read_headers -/

structure Hdr where
  name : Bytes
  value : Bytes
  deriving DecidableEq, Repr

instance : Inhabited Hdr := ⟨⟨[], []⟩⟩

/-- error kinds of the header loop: `packetError`, or `indexError` for `line[0]` on an empty line
    (shown unreachable for extracted lines) -/
inductive HdrErr | packetError | indexError deriving DecidableEq, Repr

def readHeadersGo : List Bytes → List Hdr → Except HdrErr (List Hdr)
  | [], acc => .ok acc
  | line :: rest, acc =>
    match line with
    | [] => .error .indexError
    | c :: _ =>
      if c == ' ' || c == '\t' then
        match acc.getLast? with
        | none => .error .packetError
        | some h => readHeadersGo rest (acc.dropLast ++ [{ name := h.name, value := h.value ++ ['\r', '\n', ' '] ++ stripB line }])
      else
        let (name, found, value) := partition ':' line
        if !found then .error .packetError        -- unpacking ValueError
        else if name.isEmpty then .error .packetError
        else readHeadersGo rest (acc ++ [{ name := name, value := stripB value }])

inductive ReadOut
  | ok (isRequest : Bool) (minor : Nat) (headers : List Hdr)
  | packetError
  | indexError
  deriving DecidableEq, Repr

/-- `read_payload` -/
def readPayload (data : Bytes) : ReadOut :=
  match extractLines data with
  | none => .packetError
  | some [] => .packetError                       -- `if not lines`
  | some (first :: rest) =>
    match readFirstLine first with
    | none => .packetError
    | some (isReq, minor) =>
      match readHeadersGo rest [] with
      | .ok hs => .ok isReq minor hs
      | .error .packetError => .packetError
      | .error .indexError => .indexError

/-! ### HTTP signatures -/

structure SigHdr where
  name : Bytes            -- as written (without the `?`)
  optional : Bool
  value : Option Bytes
  deriving DecidableEq, Repr

structure HttpSig where
  version : Option Nat
  headers : List SigHdr
  absent : List Bytes            -- lower-cased names
  software : Option Bytes
  deriving Repr

/-- is the text right after a comma "inside brackets": a `]` comes before any `[` -/
def closesBracket : Bytes → Bool
  | [] => false
  | ']' :: _ => true
  | '[' :: _ => false
  | _ :: rest => closesBracket rest

/-- `re.split(rb",(?![^\[]*\])", field)` -/
def splitHeadersGo : Bytes → Bytes → List Bytes
  | [], cur => [cur.reverse]
  | ',' :: rest, cur => if closesBracket rest then splitHeadersGo rest (',' :: cur) else cur.reverse :: splitHeadersGo rest []
  | c :: rest, cur => splitHeadersGo rest (c :: cur)

def splitHeaders (field : Bytes) : List Bytes := splitHeadersGo field []

/-- one item of `_parse_headers` -/
def parseSigHeader (item : Bytes) : SigHdr :=
  let (name, _, value) := partition '=' item
  let optional := name.take 1 == ['?']
  { name := if optional then name.drop 1 else name, optional := optional,
    value := if value.isEmpty then none else some ((value.drop 1).dropLast) }

def parseSigHeaders (field : Bytes) : List SigHdr :=
  ((splitHeaders field).filter (fun h => !h.isEmpty)).map parseSigHeader

/-- `HTTPSignature.parse`; `none` = FieldError -/
def parseHttpSig (raw : Bytes) : Option HttpSig :=
  match splitParts ':' 4 raw with
  | [rVer, rHeaders, rAbsent, rSoft] =>
    let ver : Option (Option Nat) :=
      if rVer == ['*'] then some none else if rVer == ['0'] then some (some 0)
      else if rVer == ['1'] then some (some 1) else none
    ver.map fun v =>
      { version := v, headers := parseSigHeaders rHeaders,
        absent := if rAbsent.isEmpty then [] else (split ',' rAbsent).map lower,
        software := if rSoft.isEmpty then none else some rSoft }
  | _ => none

/-! ### matching -/

/-- the inner `while i < len(packet_headers) and header.lower_name != packet_headers[i].lower_name: i += 1`:
    first index `≥ i` whose name matches, or `len` -/
def advance (all : List Hdr) (name : Bytes) (i : Nat) (fuel : Nat) : Nat :=
  match fuel with
  | 0 => i
  | fuel + 1 =>
    match all[i]? with
    | none => i
    | some ph => if lower name != lower ph.name then advance all name (i + 1) fuel else i

/-- `headers_match`, index based as in the code: `i` = index of the next packet header to look at -/
def headersMatchGo (all : List Hdr) : List SigHdr → Nat → Bool
  | [], _ => true
  | h :: hs, i =>
    let j := advance all h.name i (all.length - i)
    match all[j]? with
    | none =>
      -- `i == len(packet_headers)`: header not found from `original_index` on
      if !h.optional then false
      else if all.any (fun ph => lower h.name == lower ph.name) then false
      else headersMatchGo all hs i
    | some ph =>
      match h.value with
      | some v => if isInfix v ph.value then headersMatchGo all hs (j + 1) else false
      | none => headersMatchGo all hs (j + 1)

def headersMatch (sh : List SigHdr) (ph : List Hdr) : Bool := headersMatchGo ph sh 0

/-- `http_signatures_match` -/
def httpSigMatch (s : HttpSig) (minor : Nat) (ph : List Hdr) : Bool :=
  let names := ph.map fun h => lower h.name
  (s.version.isNone || s.version == some minor)
  && (s.headers.filter (fun h => !h.optional)).all (fun h => names.contains (lower h.name))
  && !(s.absent.any fun a => names.contains a)
  && headersMatch s.headers ph

structure HttpRec where
  sig : HttpSig
  generic : Bool
  line : Nat

/-- the `for http_record in …` loop of `find_http_match` with its `generic_match` variable -/
def findHttpLoop (minor : Nat) (ph : List Hdr) : List HttpRec → Option HttpRec → Option HttpRec
  | [], generic => generic
  | r :: rs, generic =>
    if !httpSigMatch r.sig minor ph then findHttpLoop minor ph rs generic
    else if !r.generic then some r
    else findHttpLoop minor ph rs (if generic.isNone then some r else generic)

/-- `find_http_match` -/
def findHttpMatch (recs : List HttpRec) (minor : Nat) (ph : List Hdr) : Option HttpRec :=
  findHttpLoop minor ph recs none

/-- `_get_header_value` -/
def headerValue (ph : List Hdr) (name : Bytes) : Option Bytes :=
  (ph.find? fun h => lower h.name == lower name).map (·.value)

/-- `software`: `UA_value or Server_value` -/
def softwareOf (ph : List Hdr) : Option Bytes :=
  match headerValue ph "User-Agent".toList with
  | some v => if v.isEmpty then headerValue ph "Server".toList else some v
  | none => headerValue ph "Server".toList

/-- `HTTPResult.dishonest` -/
def dishonest (m : Option HttpRec) (ph : List Hdr) : Bool :=
  match m, softwareOf ph with
  | some r, some sw =>
    match r.sig.software with
    | some exp => !isInfix exp sw
    | none => false
  | _, _ => false

end P0f
