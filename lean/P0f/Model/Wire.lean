import P0f.Model.TcpOptions
import P0f.Model.Gate
import P0f.Model.Match
/-
  Extraction from wire bytes: what Scapy's dissection of a *well-framed* IPv4 / IPv6 TCP segment
  yields (modelled from RFC 791 / 8200 / 793 offsets, not verified) followed by
  `IP._from_ipv4/_from_ipv6` (pyp0f/net/layers/ip.py), `TCP.from_packet` / `__post_init__`
  (pyp0f/net/layers/tcp/tcp.py) and `TCPPacketSignature.from_packet` (pyp0f/net/signatures/tcp.py).
  `none` = the bytes are not well-framed (outside C03; C04 covers them by runtime monitoring).
-/
namespace P0f

def u16 (b : List Nat) (i : Nat) : Nat := b.getD i 0 * 256 + b.getD (i + 1) 0
def u32 (b : List Nat) (i : Nat) : Nat :=
  ((b.getD i 0 * 256 + b.getD (i + 1) 0) * 256 + b.getD (i + 2) 0) * 256 + b.getD (i + 3) 0

/-- the `IP` layer object of pyp0f -/
structure IpL where
  version : Nat
  ttl : Nat
  tos : Nat            -- `tos >> 2`
  olen : Nat           -- `options_length`
  hdrLen : Nat
  isFragment : Bool
  quirks : QSet
  src : List Nat
  dst : List Nat

/-- the `TCP` layer object of pyp0f -/
structure TcpL where
  type : Nat           -- masked to SYN|ACK|FIN|RST
  sport : Nat
  dport : Nat
  window : Nat
  seq : Nat
  opts : Opts
  payload : List Nat
  hdrLen : Nat
  quirks : QSet        -- TCP quirks with the option quirks OR-ed in

structure PktL where
  ip : IpL
  tcp : TcpL

def qIf (c : Bool) (q : Quirk) : QSet := if c then QSet.ofList [q] else QSet.empty

/-- `IP._from_ipv4` on the header fields -/
def ipv4Layer (b : List Nat) : IpL :=
  let ihl := b.getD 0 0 % 16
  let tos := b.getD 1 0
  let ident := u16 b 4
  let fl := b.getD 6 0 / 32            -- 3 flag bits: evil 4, DF 2, MF 1
  let frag := (b.getD 6 0 % 32) * 256 + b.getD 7 0
  let df := fl / 2 % 2 == 1
  let q := (qIf (tos % 4 != 0) .ecn).union <| (qIf (fl / 4 % 2 == 1) .nzMbz).union <|
    (qIf df .df).union <| (qIf (df && ident != 0) .nzId).union (qIf (!df && ident == 0) .zeroId)
  { version := b.getD 0 0 / 16, ttl := b.getD 8 0, tos := tos / 4, olen := ihl * 4 - 20, hdrLen := ihl * 4,
    isFragment := fl % 2 == 1 || frag != 0, quirks := q, src := (b.drop 12).take 4, dst := (b.drop 16).take 4 }

/-- `IP._from_ipv6` -/
def ipv6Layer (b : List Nat) : IpL :=
  let tc := (b.getD 0 0 % 16) * 16 + b.getD 1 0 / 16
  let flow := ((b.getD 1 0 % 16) * 256 + b.getD 2 0) * 256 + b.getD 3 0
  { version := b.getD 0 0 / 16, ttl := b.getD 7 0, tos := tc / 4, olen := 0, hdrLen := 40, isFragment := false,
    quirks := (qIf (flow != 0) .flow).union (qIf (tc % 4 != 0) .ecn), src := (b.drop 8).take 16, dst := (b.drop 24).take 16 }

/-- 9-bit TCP flags from header bytes 12 and 13 -/
def tcpFlags9 (t : List Nat) : Nat := (t.getD 12 0 % 2) * 256 + t.getD 13 0

def bit (v : Nat) (m : Nat) : Bool := v / m % 2 == 1

/-- `TCP.from_packet` + `__post_init__`; `t` = the TCP segment (header, options, payload) -/
def tcpLayer (t : List Nat) : TcpL :=
  let flags := tcpFlags9 t
  let hl := (t.getD 12 0 / 16) * 4
  let ty := tcpType flags
  let opts := parseOpts ((t.take hl).drop 20) (ty == F_SYN)
  let seq := u32 t 4
  let ack := u32 t 8
  let urp := u16 t 18
  let aF := bit flags 16
  let q := (qIf (bit flags 64 || bit flags 128 || bit flags 256) .ecn).union <|
    (qIf (seq == 0) .zeroSeq).union <|
    (qIf (aF && ack == 0) .zeroAck).union <| (qIf (!aF && ack != 0 && !bit flags 4) .nzAck).union <|
    (qIf (bit flags 32) .urg).union <| (qIf (!bit flags 32 && urp != 0) .nzUrg).union <|
    (qIf (bit flags 8) .push)
  { type := ty, sport := u16 t 0, dport := u16 t 2, window := u16 t 14, seq := seq, opts := opts,
    payload := t.drop hl, hdrLen := hl, quirks := q.union opts.quirks }

/-- well-framed IPv4 datagram carrying a TCP segment that Scapy dissects as IP / TCP [/ Raw] [/ Padding] -/
def decodeV4 (b : List Nat) : Option PktL :=
  let ihl := b.getD 0 0 % 16
  let total := u16 b 2
  let frag := (b.getD 6 0 % 32) * 256 + b.getD 7 0
  if b.length < 20 ∨ b.getD 0 0 / 16 ≠ 4 ∨ ihl < 5 ∨ b.getD 9 0 ≠ 6 ∨ frag ≠ 0 then none
  else if total < ihl * 4 + 20 ∨ b.length < total then none
  else
    let t := (b.take total).drop (ihl * 4)
    let dofs := t.getD 12 0 / 16
    if dofs < 5 ∨ t.length < dofs * 4 then none
    else some { ip := ipv4Layer b, tcp := tcpLayer t }

def decodeV6 (b : List Nat) : Option PktL :=
  let plen := u16 b 4
  if b.length < 40 ∨ b.getD 0 0 / 16 ≠ 6 ∨ b.getD 6 0 ≠ 6 then none
  else if plen < 20 ∨ b.length < 40 + plen then none
  else
    let t := (b.take (40 + plen)).drop 40
    let dofs := t.getD 12 0 / 16
    if dofs < 5 ∨ t.length < dofs * 4 then none
    else some { ip := ipv6Layer b, tcp := tcpLayer t }

/-- `TCPPacketSignature.from_packet(packet, syn_mss)` -/
def pktSigOfPkt (p : PktL) (synMss : Nat) : PktSig :=
  { ipVer := p.ip.version, olen := p.ip.olen, ttl := p.ip.ttl, win := p.tcp.window, layout := p.tcp.opts.layout,
    mss := p.tcp.opts.mss, wscale := p.tcp.opts.ws, ts := p.tcp.opts.ts, eolPad := p.tcp.opts.eolPad,
    hdrLen := p.ip.hdrLen + p.tcp.hdrLen, hasPayload := !p.tcp.payload.isEmpty,
    quirks := p.ip.quirks.union p.tcp.quirks,
    synMss := if p.tcp.type == (F_SYN ||| F_ACK) then synMss else 0 }

end P0f
