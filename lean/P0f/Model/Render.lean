import P0f.Model.SigParse
import P0f.Model.Match
/-
  Canonical p0f text of a structured signature (`renderTcpSig`) and the signature one writes down
  from an observed packet (`sigOfPktSig`): option layout by `TCPOptions.dump`, quirks by
  `dump_quirks`, every other field literal.
-/
namespace P0f

def renderOptNat : Option Nat → List Char
  | none => ['*']
  | some n => natStr n

def renderWindow (t : WinType) (n : Nat) : List Char :=
  match t with
  | .normal => natStr n
  | .any => ['*']
  | .mod => '%' :: natStr n
  | .mss => "mss*".toList ++ natStr n
  | .mtu => "mtu*".toList ++ natStr n

def renderPay : Option Bool → List Char
  | none => ['*'] | some false => ['0'] | some true => ['+']

def renderTcpFields (s : Sig) : List (List Char) :=
  [renderOptNat s.ipVer,
   natStr s.ttl ++ (if s.badTtl then ['-'] else []),
   natStr s.olen,
   renderOptNat s.mss,
   renderWindow s.wtype s.wsize ++ [','] ++ renderOptNat s.scale,
   dumpLayout s.layout s.eolPad,
   dumpQuirks s.quirks,
   renderPay s.payClass]

def renderTcpSig (s : Sig) : List Char := [':'].intercalate (renderTcpFields s)

/-- the signature written from an observed packet signature -/
def sigOfPktSig (k : PktSig) : Sig :=
  { ipVer := some k.ipVer, olen := k.olen.toNat, ttl := max k.ttl 1, badTtl := false, wtype := .normal, wsize := k.win,
    scale := some k.wscale, layout := k.layout, mss := some k.mss, eolPad := k.eolPad,
    payClass := some k.hasPayload, quirks := k.quirks }

end P0f
