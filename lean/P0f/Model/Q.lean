/-
  Exact rationals for the float expressions pyp0f evaluates (`raw_frequency = ticks * 1000.0 / ms`,
  the `min/max_timestamp_scale` thresholds, `max_timestamp_scale / timestamp_grace`): numerator / denominator,
  not normalised.  `den = 0` only arises from a division by zero (ZeroDivisionError in Python).
  That every float comparison / `int()` the code performs agrees with the exact one on the documented domain is
  `P0f/Props/C13Float.lean`.  Import-free.
-/
namespace P0f

structure Q where
  num : Int
  den : Nat
  deriving Repr, DecidableEq

namespace Q
def mk' (n : Int) (d : Nat) : Q := ⟨n, d⟩
def ofInt (i : Int) : Q := ⟨i, 1⟩
def neg (a : Q) : Q := ⟨-a.num, a.den⟩
def add (a b : Q) : Q := ⟨a.num * b.den + b.num * a.den, a.den * b.den⟩
def sub (a b : Q) : Q := ⟨a.num * b.den - b.num * a.den, a.den * b.den⟩
def mul (a b : Q) : Q := ⟨a.num * b.num, a.den * b.den⟩
/-- `a / b`, denominator kept positive -/
def div (a b : Q) : Q :=
  if b.num > 0 then ⟨a.num * b.den, a.den * b.num.toNat⟩
  else if b.num < 0 then ⟨-(a.num * b.den), a.den * (-b.num).toNat⟩
  else ⟨0, 0⟩
def le (a b : Q) : Bool := decide (a.num * b.den ≤ b.num * a.den)
def lt (a b : Q) : Bool := decide (a.num * b.den < b.num * a.den)
def ge (a b : Q) : Bool := le b a
def gt (a b : Q) : Bool := lt b a
def eq (a b : Q) : Bool := a.num * b.den == b.num * a.den
def ne (a b : Q) : Bool := !(eq a b)
def isZero (a : Q) : Bool := a.num == 0
/-- Python `int(x)`: truncation toward zero -/
def trunc (a : Q) : Int := Int.tdiv a.num a.den
end Q

end P0f

namespace P0f
/-- a wildcardable numeric field as the Python int it is (`WILDCARD = -1`) -/
def optInt : Option Nat → Int
  | none => -1
  | some n => n
/-- the payload class (`0`, `1`, or `-1` for `*`) -/
def optBoolInt : Option Bool → Int
  | none => -1
  | some true => 1
  | some false => 0
end P0f

namespace P0f
/-- `for x in l: if p(x): return hit(x)` followed by `miss` -/
def firstHit {α β : Type} (l : List α) (p : α → Bool) (hit : α → β) (miss : β) : β :=
  match l.find? p with
  | some x => hit x
  | none => miss
end P0f

namespace P0f
/-- the fields of Scapy's dissected IPv4 header that `IP._from_ipv4` reads -/
structure Ip4F where
  version : Nat
  ihl : Nat
  tos : Nat
  ident : Nat
  evil : Bool
  df : Bool
  mf : Bool
  frag : Nat
  ttl : Nat

/-- the fields of Scapy's dissected IPv6 header that `IP._from_ipv6` reads -/
structure Ip6F where
  version : Nat
  tc : Nat
  fl : Nat
  hlim : Nat

/-- the fields of Scapy's dissected TCP header that the quirk derivation of `TCP.from_packet` reads -/
structure TcpF where
  flags : Nat       -- 9 bits
  seq : Nat
  ack : Nat
  urgptr : Nat
  dataofs : Nat

end P0f

namespace P0f
/-- a Python int with WILDCARD (-1) back to the model's optional natural -/
def intToOpt (x : Int) : Option Nat := if x < 0 then none else some x.toNat
end P0f
