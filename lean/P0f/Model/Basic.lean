/-
  Basic types of the pyp0f model: quirks (pyp0f/net/quirks.py), window types and the
  structured TCP signature (pyp0f/database/signatures/tcp.py) / packet signature
  (pyp0f/net/signatures/tcp.py).  Import-free so that the driver links as a plain executable.
-/
namespace P0f

/-- `pyp0f.net.quirks.Quirk`, in declaration (= bit) order. -/
inductive Quirk
  | ecn | df | nzId | zeroId | nzMbz | flow
  | zeroSeq | nzAck | zeroAck | nzUrg | urg | push
  | zeroTs1 | nzTs2 | eolNz | exws | bad
  deriving DecidableEq, Repr, Inhabited

/-- every quirk, in bit order (bit `i` of the Python `Flag` value is `Quirk.all[i]`). -/
def Quirk.all : List Quirk :=
  [.ecn, .df, .nzId, .zeroId, .nzMbz, .flow, .zeroSeq, .nzAck, .zeroAck, .nzUrg, .urg, .push,
   .zeroTs1, .nzTs2, .eolNz, .exws, .bad]

theorem Quirk.mem_all (q : Quirk) : q ∈ Quirk.all := by cases q <;> simp [Quirk.all]

/-- A set of quirks.  Pointwise representation: all set algebra stays propositional. -/
abbrev QSet := Quirk → Bool

namespace QSet
def empty : QSet := fun _ => false
def beq (a b : QSet) : Bool := Quirk.all.all fun q => a q == b q
def isEmpty (a : QSet) : Bool := Quirk.all.all fun q => !a q
def inter (a b : QSet) : QSet := fun q => a q && b q
def union (a b : QSet) : QSet := fun q => a q || b q
def xor (a b : QSet) : QSet := fun q => a q != b q
def compl (a : QSet) : QSet := fun q => !a q
def ofList (l : List Quirk) : QSet := fun q => l.contains q
def insert (a : QSet) (x : Quirk) : QSet := fun q => a q || q == x
def toList (a : QSet) : List Quirk := Quirk.all.filter a
/-- bit mask as used by the Python `Flag` (bit `i` = `Quirk.all[i]`) -/
def toMask (a : QSet) : Nat :=
  (Quirk.all.zipIdx.map fun (q, i) => if a q then 2 ^ i else 0).sum
def ofMask (m : Nat) : QSet := fun q =>
  match Quirk.all.idxOf? q with
  | some i => m.testBit i
  | none => false
end QSet

inductive WinType | normal | any | mod | mss | mtu deriving DecidableEq, Repr, Inhabited
inductive MatchType | exact | fuzzyTtl | fuzzyQuirks deriving DecidableEq, Repr, Inhabited

/-- `TCPSignature` (+ `WindowSignature`, `OptionsSignature`).  `none` = WILDCARD (-1). -/
structure Sig where
  ipVer : Option Nat
  olen : Nat
  ttl : Nat
  badTtl : Bool
  wtype : WinType
  wsize : Nat          -- meaningless for `.any` (Python stores -1)
  scale : Option Nat
  layout : List Nat
  mss : Option Nat
  eolPad : Nat
  payClass : Option Bool
  quirks : QSet

/-- the part of `TCPPacketSignature` that `tcp_signatures_match` reads, with the window
    multiplier (`WindowMultiplier(value, is_mtu)`, value `none` = WILDCARD) already computed. -/
structure PSig where
  ipVer : Nat
  olen : Int
  ttl : Nat
  win : Nat
  layout : List Nat
  mss : Nat
  wscale : Nat
  eolPad : Nat
  hasPayload : Bool
  quirks : QSet
  multVal : Int          -- `-1` = WILDCARD (no multiplier)
  multMtu : Bool

end P0f

namespace P0f
/-- `a in b` for `Flag` values: every member of `a` is in `b` -/
def QSet.subsetOf (a b : QSet) : Bool := (a.inter b).beq a
end P0f
