import P0f.Model.TcpOptions
/-
  Scapy's TCP option tuples and their wire encoding (`TCPOptionsField.i2m`, Scapy 2.7.0), as far
  as pyp0f's impersonators produce or carry them.  Modelled, not verified.
-/
namespace P0f

/-- an entry of `TCP.options` -/
inductive SOpt
  | eol                      -- ("EOL", None)
  | nop                      -- ("NOP", None)
  | mss (v : Nat)            -- ("MSS", v)
  | ws (v : Nat)             -- ("WScale", v)
  | sackok                   -- ("SAckOK", b"")
  | ts (a b : Nat)           -- ("Timestamp", (a, b))
  | sack (n : Nat)           -- ("SAck", b"\x00" * n)   (raw bytes value)
  | raw (kind n : Nat)       -- (kind, b"\x00" * n)     (unknown kind, raw bytes value)
  deriving DecidableEq, Repr

def SOpt.isMss : SOpt → Bool
  | .mss _ => true
  | _ => false

def beBytes16 (v : Nat) : List Nat := [v / 256 % 256, v % 256]
def beBytes32 (v : Nat) : List Nat := [v / 16777216 % 256, v / 65536 % 256, v / 256 % 256, v % 256]

/-- wire bytes of one option -/
def SOpt.encode : SOpt → List Nat
  | .eol => [0]
  | .nop => [1]
  | .mss v => 2 :: 4 :: beBytes16 v
  | .ws v => [3, 3, v % 256]
  | .sackok => [4, 2]
  | .ts a b => 8 :: 10 :: (beBytes32 a ++ beBytes32 b)
  | .sack n => 5 :: (2 + n) :: List.replicate n 0
  | .raw k n => k :: (2 + n) :: List.replicate n 0

/-- `i2m`: concatenation, then zero padding to a multiple of four bytes -/
def encodeOpts (l : List SOpt) : List Nat :=
  let b := l.flatMap SOpt.encode
  b ++ List.replicate ((4 - b.length % 4) % 4) 0

end P0f
