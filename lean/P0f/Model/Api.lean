import P0f.Model.DbParse
import P0f.Model.Find
import P0f.Model.Mtu
import P0f.Model.Wire
/-
  The public entry points on top of a loaded database:
  `fingerprint_tcp` / `fingerprint_mtu` / `fingerprint_http` with `options.database`,
  `Database.load` / `get_random` / `len`, as one state machine over call histories
  (the only state pyp0f keeps between calls is the live record map, C11 / C16).
-/
namespace P0f

inductive ApiErr | packet | database
  deriving DecidableEq, Repr

/-- what matching reads of a `TCPRecord` -/
def DbRec.toRec (r : DbRec) : Option Rec :=
  match r.sig with
  | .tcp s =>
    some { sig := s,
           generic := match r.label with | some (.os l _) => l.generic | _ => false,
           userApp := match r.label with | some lb => lb.isUserApp | none => false,
           line := r.line }
  | _ => none

def DbRec.toHttpRec (r : DbRec) : Option HttpRec :=
  match r.sig with
  | .http s =>
    some { sig := s, generic := match r.label with | some (.os l _) => l.generic | _ => false, line := r.line }
  | _ => none

def DbRec.mtuOf (r : DbRec) : Option Nat :=
  match r.sig with
  | .mtu m => some m
  | _ => none

/-- `fingerprint_tcp(packet, syn_mss=…, options=Options(database=db, max_dist=d))` on a parsed
    packet: `PacketError` before the database is consulted -/
def apiFpTcp (db : Db) (p : PktL) (synMss : Nat) (d : Int) : Except ApiErr (Option TcpMatch × Int) :=
  if !validTcp p.ip.isFragment p.tcp.type then .error .packet
  else
    let isSyn := p.tcp.type == F_SYN
    match db.iter .tcp (some (if isSyn then .req else .resp)) with
    | .error _ => .error .database
    | .ok l =>
      let k := pktSigOfPkt p synMss
      let m := findTcpMatch (l.filterMap DbRec.toRec) k.toPSig d
      .ok (m, distance m k.ttl)

/-- `fingerprint_mtu`: (mtu, line of the matched record) -/
def apiFpMtu (db : Db) (p : PktL) : Except ApiErr (Nat × Option Nat) :=
  if !validMtu p.ip.isFragment p.tcp.type p.tcp.opts.mss then .error .packet
  else
    match db.iter .mtu none with
    | .error _ => .error .database
    | .ok l =>
      let mtu := p.tcp.opts.mss + mtuHdr p.ip.version
      .ok (mtu, (l.find? fun r => r.mtuOf == some mtu).map (·.line))

/-- `fingerprint_http`: (is request, minor version, matched record, dishonest) -/
def apiFpHttp (db : Db) (payload : Bytes) : Except ApiErr (Bool × Nat × Option HttpRec × Bool) :=
  match readPayload payload with
  | .ok isReq minor hs =>
    match db.iter .http (some (if isReq then .req else .resp)) with
    | .error _ => .error .database
    | .ok l =>
      let m := findHttpMatch (l.filterMap DbRec.toHttpRec) minor hs
      .ok (isReq, minor, m, dishonest m hs)
  | _ => .error .packet

/-! ### call histories -/

/-- one public call -/
inductive Call
  | load (f : FileArg)
  | fpTcp (p : PktL) (synMss : Nat) (maxDist : Int)
  | fpMtu (p : PktL)
  | fpHttp (payload : Bytes)
  | getRandom (raw : List Char) (k : RecKind) (d : Option Dir)
  | len
  | other          -- impersonation and anything else that must not touch the database

/-- what a call returns, as far as the properties observe it -/
inductive Ret
  | loaded
  | loadErr (e : LoadErr)
  | tcp (r : Except ApiErr (Option TcpMatch × Int))
  | mtu (r : Except ApiErr (Nat × Option Nat))
  | http (r : Except ApiErr (Bool × Nat × Option HttpRec × Bool))
  | cands (r : Except LoadErr (List DbRec))
  | len (n : Nat)
  | unit

/-- one call against the live database -/
def apiStep (db : Db) : Call → Db × Ret
  | .load f =>
    match dbLoad db f with
    | (.ok _, db') => (db', .loaded)
    | (.error e, db') => (db', .loadErr e)
  | .fpTcp p s d => (db, .tcp (apiFpTcp db p s d))
  | .fpMtu p => (db, .mtu (apiFpMtu db p))
  | .fpHttp b => (db, .http (apiFpHttp db b))
  | .getRandom raw k d => (db, .cands (db.candidates raw k d))
  | .len => (db, .len db.len)
  | .other => (db, .unit)

/-- run a history from a given live database; returns the final database and every result -/
def apiRun : Db → List Call → Db × List Ret
  | db, [] => (db, [])
  | db, c :: cs =>
    let (db', r) := apiStep db c
    let (db'', rs) := apiRun db' cs
    (db'', r :: rs)

/-! ### micro-steps of one load (C11): what a concurrent reader of the shared object can see -/

/-- the live map at every line-read point of `load f` (before the first line, after each line the
    parser consumed, and after the final assignment): the parser writes into a private
    `RecordsDatabase`, the live map changes in the single `_replace` assignment. -/
def loadObservations (cur : Db) (f : FileArg) : List Db :=
  match f with
  | .unreadable => [cur]
  | .text t =>
    let ls := pyLines t
    let during := (List.range (ls.length + 1)).map fun _ => cur
    during ++ [(dbLoad cur f).2]

end P0f
