import P0f.Model.Basic
/-
  `TCPPacketSignature.calculate_window_multiplier` (pyp0f/net/signatures/tcp.py).
  Mirrors the code: the list of (divisor, use_mtu) pairs is built in source order and the first
  pair with `div and not window % div` wins.  Python `%`/`//` on ints are floor operations; a
  zero remainder and an exact quotient do not depend on the rounding convention, so `Int.emod` /
  `Int.ediv` give the same answers here (a peer MSS below 12 gives a negative divisor).
-/
namespace P0f

def MIN_TCP4 : Int := 40
def MIN_TCP6 : Int := 60
def WILDCARD : Int := -1

/-- the fields `calculate_window_multiplier` reads -/
structure WIn where
  win : Nat
  mss : Nat
  ts : Nat          -- own timestamp (`options.timestamp`), truthiness = non-zero
  ipVer : Nat
  hdrLen : Nat      -- `headers_length` = IP header + TCP header
  synMss : Nat      -- peer MSS, already zeroed unless the packet is a SYN+ACK
  deriving Repr

def divisors (p : WIn) : List (Int × Bool) :=
  [((p.mss : Int), false)]
  ++ (if p.ts ≠ 0 then [((p.mss : Int) - 12, false)] else [])
  ++ [(1500 - MIN_TCP4, false), (1500 - MIN_TCP4 - 12, false)]
  ++ (if p.ipVer = 6 then [(1500 - MIN_TCP6, false), (1500 - MIN_TCP6 - 12, false)] else [])
  ++ [((p.mss : Int) + MIN_TCP4, true), ((p.mss : Int) + p.hdrLen, true)]
  ++ (if p.ipVer = 6 then [((p.mss : Int) + MIN_TCP6, true)] else [])
  ++ [(1500, true)]
  ++ (if p.synMss ≠ 0 then [((p.synMss : Int), false), ((p.synMss : Int) - 12, false)] else [])

/-- `div and not window % div` -/
def divides (win : Nat) (d : Int × Bool) : Bool := d.1 != 0 && (win : Int) % d.1 == 0

/-- returns `(value, is_mtu)`; `value = -1` is WILDCARD (no multiplier) -/
def windowMult (p : WIn) : Int × Bool :=
  if p.win = 0 ∨ p.mss < 100 then (WILDCARD, false)
  else match (divisors p).find? (divides p.win) with
    | some (d, useMtu) => ((p.win : Int) / d, useMtu)
    | none => (WILDCARD, false)

end P0f
