import P0f.Model.ScapyOpts
import P0f.Model.Wire
/-
  `impersonate_tcp` (pyp0f/impersonate/tcp.py): `_impersonate_ip`, `_impersonate_options`,
  `_align_options`, `_impersonate_window`, `_impersonate_tcp`, `_impersonate_payload`, and the
  packet Scapy 2.7.0 builds from the result (modelled: header layout, option encoding, padding).

  Every `random.*` call is a field of `Choices`; `choicesOk` says which of them the run actually
  draws and from which range.  The model is therefore a function
  `(signature, base packet, parameters, choices) ↦ output packet`, and a run of the real code is
  *explained* by the model if some in-range choices reproduce its output byte for byte.
-/
namespace P0f

/-- what the impersonator reads of the base packet (`packet[IP]`/`packet[IPv6]`, `packet[TCP]`) -/
structure Base where
  ipVer : Nat
  src : List Nat
  dst : List Nat
  ipFlags : Nat            -- IPv4: 3 flag bits (MF 1, DF 2, evil 4)
  ipId : Nat
  ipFrag : Nat
  sport : Nat
  dport : Nat
  seq : Nat
  ack : Nat
  flags : Nat              -- 9 bits
  urp : Nat
  window : Nat
  mssHint : Option Int     -- `int_only(dict(tcp.options).get("MSS"))`
  wsHint : Option Int
  ts1Hint : Option Int
  ts2Hint : Option Int
  payload : List Nat       -- `bytes(tcp.payload)`; truthiness = non-empty for dissected packets

/-- the values the `random` module returns during one run -/
structure Choices where
  id : Nat                 -- `randrange(1, 2**16)`
  fl : Nat                 -- `randrange(1, 2**20)`
  ecn : Nat                -- `randrange(1, 4)`
  seq : Nat                -- `randrange(1, 2**32)`
  ack : Nat
  urp : Nat                -- `randrange(1, 2**16)`
  winMul : Nat             -- `randint(1, 65535 // size)`
  payload : List Nat       -- `random_string(size=randint(1, 10))`
  opt : List (Nat × Nat)   -- per layout position: the value(s) drawn for that option

structure OutPkt where
  ipVer : Nat
  src : List Nat
  dst : List Nat
  ttl : Int
  tos : Nat                -- IPv4 tos / IPv6 traffic class
  ipId : Nat
  ipFlags : Nat
  ipFrag : Nat
  ipOptLen : Nat           -- number of one-byte NOP options
  fl : Nat
  sport : Nat
  dport : Nat
  seq : Nat
  ack : Nat
  flags : Nat
  urp : Nat
  window : Nat
  opts : List SOpt
  payload : List Nat

inductive ImpErr | valueError | fieldError
  deriving DecidableEq, Repr

def setBit (v m : Nat) : Nat := if bit v m then v else v + m
def clearBit (v m : Nat) : Nat := if bit v m then v - m else v

/-- the `tcp_type` used for the SYN / SYN+ACK decisions: base flags masked to SYN|ACK, with the ACK bit
    dictated by `ack+` / `ack-` -/
def impTcpType (s : Sig) (b : Base) : Nat :=
  let t := (if bit b.flags F_SYN then F_SYN else 0) + (if bit b.flags F_ACK then F_ACK else 0)
  if s.quirks .nzAck then clearBit t F_ACK
  else if s.quirks .zeroAck then setBit t F_ACK
  else t

def inRange (lo hi : Int) (h : Option Int) : Option Nat :=
  match h with
  | some v => if lo ≤ v ∧ v ≤ hi then some v.toNat else none
  | none => none

/-- bounds of an MSS value that can work with the signature's window form -/
def mssBounds (s : Sig) : Int × Int :=
  if s.wtype == .mss then (100, 65535 / (s.wsize : Int)) else (0, 65535)

/-- one option of the layout: the tuples appended to the list and whether the loop stops (`break`) -/
def impOption (s : Sig) (b : Base) (uptime : Option Int) (kind : Nat) (c : Nat × Nat) : List SOpt × Bool :=
  if kind == 2 then
    let (lo, hi) := mssBounds s
    match s.mss with
    | some m => ([.mss m], false)
    | none =>
      match inRange lo hi b.mssHint with
      | some h => ([.mss h], false)
      | none => ([.mss c.1], false)
  else if kind == 3 then
    match s.scale with
    | some w => ([.ws w], false)
    | none =>
      if s.quirks .exws then
        match inRange 15 255 b.wsHint with
        | some h => ([.ws h], false)
        | none => ([.ws c.1], false)
      else
        match inRange 0 14 b.wsHint with
        | some h => ([.ws h], false)
        | none => ([.ws c.1], false)
  else if kind == 8 then
    let ts1 : Nat :=
      if s.quirks .zeroTs1 then 0
      else match inRange 1 4294967295 uptime with
        | some u => u
        | none => match inRange 1 4294967295 b.ts1Hint with
          | some h => h
          | none => c.1
    let ts2 : Nat :=
      if impTcpType s b == F_SYN then
        (if !s.quirks .nzTs2 then 0
         else match inRange 1 4294967295 b.ts2Hint with
          | some h => h
          | none => c.2)
      else match inRange 0 4294967295 b.ts2Hint with
        | some h => h
        | none => 0
    ([.ts ts1 ts2], false)
  else if kind == 1 then ([.nop], false)
  else if kind == 4 then ([.sackok], false)
  else if kind == 0 then
    (.eol :: List.replicate s.eolPad (if s.quirks .eolNz then .nop else .eol), true)
  else if kind == 5 then ([.sack 8], false)
  else ([.raw kind 0], false)

/-- the `for option in signature.options.layout` loop -/
def impOptionsGo (s : Sig) (b : Base) (uptime : Option Int) : List Nat → List (Nat × Nat) → List SOpt
  | [], _ => []
  | k :: ks, cs =>
    let r := impOption s b uptime k (cs.headD (0, 0))
    if r.2 then r.1 else r.1 ++ impOptionsGo s b uptime ks cs.tail

def SOpt.wireLen (o : SOpt) : Nat := o.encode.length

/-- `_align_options`: stretch the first SACK / unknown-kind option so that the total is a multiple of 4 -/
def stretchFirst (missing : Nat) : List SOpt → List SOpt
  | [] => []
  | .sack n :: t => .sack (n + missing) :: t
  | .raw k n :: t => .raw k (n + missing) :: t
  | o :: t => o :: stretchFirst missing t

def alignOptions (l : List SOpt) : List SOpt :=
  let total := (l.map SOpt.wireLen).sum
  let missing := (4 - total % 4) % 4
  if missing == 0 then l else stretchFirst missing l

def impOptions (s : Sig) (b : Base) (uptime : Option Int) (c : Choices) : List SOpt :=
  alignOptions (impOptionsGo s b uptime s.layout c.opt)

/-- `dict(new_options).get("MSS")`: the last MSS tuple -/
def lastMssStep (acc : Option Nat) (o : SOpt) : Option Nat :=
  match o with
  | .mss v => some v
  | _ => acc

def lastMss (l : List SOpt) : Option Nat := l.foldl lastMssStep none

/-- `_impersonate_window` -/
def impWindow (s : Sig) (b : Base) (opts : List SOpt) (mtu : Nat) (c : Choices) : Except ImpErr Nat :=
  match s.wtype with
  | .normal => .ok s.wsize
  | .mss => match lastMss opts with
    | some m => .ok (m * s.wsize)
    | none => .error .valueError
  | .mod => .ok (s.wsize * c.winMul)
  | .mtu => .ok (mtu * s.wsize)
  | .any => .ok b.window

/-- `_impersonate_ip` (IPv4): the 3 flag bits; the two quirks that matter as Booleans -/
def impIpFlagsB (df mbz : Bool) (f : Nat) : Nat :=
  let f1 := if df then setBit f 2 else clearBit f 2
  if mbz then setBit f1 4 else clearBit f1 4

def impIpFlags (s : Sig) (f : Nat) : Nat := impIpFlagsB (s.quirks .df) (s.quirks .nzMbz) f

/-- `_impersonate_ip` (IPv4): the identification field -/
def impIpId (s : Sig) (b : Base) (c : Choices) : Nat :=
  if s.quirks .df then
    (if s.quirks .nzId then (if b.ipId == 0 then c.id else b.ipId) else 0)
  else
    (if s.quirks .zeroId then 0 else if b.ipId == 0 then c.id else b.ipId)

/-- `_impersonate_tcp`: sequence number -/
def impSeq (s : Sig) (b : Base) (c : Choices) : Nat :=
  if s.quirks .zeroSeq then 0 else if b.seq == 0 then c.seq else b.seq

/-- `_impersonate_tcp`: acknowledgement number -/
def impAck (s : Sig) (b : Base) (c : Choices) : Nat :=
  if s.quirks .nzAck then (if b.ack == 0 then c.ack else b.ack)
  else if s.quirks .zeroAck then 0
  else b.ack

/-- `_impersonate_tcp`: urgent pointer -/
def impUrp (s : Sig) (b : Base) (c : Choices) : Nat :=
  if s.quirks .nzUrg then (if b.urp == 0 then c.urp else b.urp) else b.urp

/-- `_impersonate_tcp`: the 9 flag bits, in the order the code adjusts them; the five quirks that matter as Booleans -/
def impFlagsB (nzAck zeroAck nzUrg urg push : Bool) (f : Nat) : Nat :=
  let fl1 := if nzAck then clearBit f F_ACK else if zeroAck then setBit f F_ACK else f
  let fl2 := if nzUrg then clearBit fl1 F_URG else if urg then setBit fl1 F_URG else fl1
  let fl3 := clearBit (clearBit (clearBit fl2 F_ECE) F_CWR) F_NS
  if push then setBit fl3 F_PSH else clearBit fl3 F_PSH

def impFlags (s : Sig) (f : Nat) : Nat :=
  impFlagsB (s.quirks .nzAck) (s.quirks .zeroAck) (s.quirks .nzUrg) (s.quirks .urg) (s.quirks .push) f

/-- `_impersonate_payload` -/
def impPayload (s : Sig) (b : Base) (c : Choices) : List Nat :=
  match s.payClass with
  | none => b.payload
  | some false => []
  | some true => if b.payload.isEmpty then c.payload else b.payload

/-- `_impersonate_ip` + `_impersonate_tcp` + `_impersonate_payload`, i.e. `impersonate(...)` after the
    signature has been obtained -/
def impTcp (s : Sig) (b : Base) (hops : Int) (mtu : Nat) (uptime : Option Int) (c : Choices) : Except ImpErr OutPkt :=
  if s.ipVer.isSome && s.ipVer != some b.ipVer then .error .valueError
  else
    let opts := impOptions s b uptime c
    match impWindow s b opts mtu c with
    | .error e => .error e
    | .ok win =>
      .ok { ipVer := b.ipVer, src := b.src, dst := b.dst, ttl := (s.ttl : Int) - hops,
            tos := if s.quirks .ecn then c.ecn else 0,
            ipId := if b.ipVer == 6 then 0 else impIpId s b c,
            ipFlags := if b.ipVer == 6 then 0 else impIpFlags s b.ipFlags,
            ipFrag := if b.ipVer == 6 then 0 else b.ipFrag,
            ipOptLen := if b.ipVer == 6 then 0 else s.olen,
            fl := if b.ipVer == 6 then (if s.quirks .flow then c.fl else 0) else 0,
            sport := b.sport, dport := b.dport, seq := impSeq s b c, ack := impAck s b c,
            flags := impFlags s b.flags, urp := impUrp s b c,
            window := win, opts := opts, payload := impPayload s b c }

/-! ### which choices a run draws, and from which ranges

  The ranges are the *admissible* ones (every value that cannot prevent the match), which contain the
  ranges the code draws from: the model over-approximates the code's behaviours, so a theorem for all
  in-range choices covers every run of the code, and a change of the code that draws from a different
  but still admissible range stays explainable. -/

def optChoiceOk (s : Sig) (b : Base) (uptime : Option Int) (kind : Nat) (c : Nat × Nat) : Bool :=
  if kind == 2 then
    match s.mss with
    | some _ => true
    | none =>
      let (lo, hi) := mssBounds s
      match inRange lo hi b.mssHint with
      | some _ => true
      | none => decide (lo ≤ (c.1 : Int) ∧ (c.1 : Int) ≤ hi)         -- code: `randint(100, max_mss)`, a subset
  else if kind == 3 then
    match s.scale with
    | some _ => true
    | none =>
      if s.quirks .exws then
        (inRange 15 255 b.wsHint).isSome || decide (15 ≤ c.1 ∧ c.1 ≤ 255)   -- `randrange(15, 256)`
      else (inRange 0 14 b.wsHint).isSome || decide (c.1 ≤ 14)                -- code: `randrange(1, 14)`, a subset
  else if kind == 8 then
    let ok1 :=
      s.quirks .zeroTs1 || (inRange 1 4294967295 uptime).isSome || (inRange 1 4294967295 b.ts1Hint).isSome
        || decide (1 ≤ c.1 ∧ c.1 ≤ 4294967295)                                 -- code: `randint(120, 100*60*60*24*365)`, a subset
    let ok2 :=
      if impTcpType s b == F_SYN then
        !s.quirks .nzTs2 || (inRange 1 4294967295 b.ts2Hint).isSome || decide (1 ≤ c.2 ∧ c.2 ≤ 4294967295)
      else true
    ok1 && ok2
  else true

def optChoicesOkGo (s : Sig) (b : Base) (uptime : Option Int) : List Nat → List (Nat × Nat) → Bool
  | [], _ => true
  | k :: ks, cs =>
    optChoiceOk s b uptime k (cs.headD (0, 0)) && (k == 0 || optChoicesOkGo s b uptime ks cs.tail)

def choicesOk (s : Sig) (b : Base) (uptime : Option Int) (c : Choices) : Bool :=
  -- IP
  (if b.ipVer == 6 then (!s.quirks .flow || decide (1 ≤ c.fl ∧ c.fl < 1048576))
   else ((b.ipId != 0 || (s.quirks .df && !s.quirks .nzId) || (!s.quirks .df && s.quirks .zeroId))
          || decide (1 ≤ c.id ∧ c.id < 65536)))
  && (!s.quirks .ecn || decide (1 ≤ c.ecn ∧ c.ecn < 4))
  -- TCP
  && (s.quirks .zeroSeq || b.seq != 0 || decide (1 ≤ c.seq ∧ c.seq < 4294967296))
  && (!s.quirks .nzAck || b.ack != 0 || decide (1 ≤ c.ack ∧ c.ack < 4294967296))
  && (!s.quirks .nzUrg || b.urp != 0 || decide (1 ≤ c.urp ∧ c.urp < 65536))
  && (s.wtype != .mod || decide (1 ≤ c.winMul ∧ c.winMul ≤ 65535 / s.wsize))
  && (s.payClass != some true || !b.payload.isEmpty || decide (1 ≤ c.payload.length ∧ c.payload.length ≤ 1000))
  && optChoicesOkGo s b uptime s.layout c.opt

/-! ### the packet Scapy builds (checksum fields zero) -/

def OutPkt.tcpBytes (o : OutPkt) : List Nat :=
  let ob := encodeOpts o.opts
  let dofs := 5 + ob.length / 4
  beBytes16 o.sport ++ beBytes16 o.dport ++ beBytes32 o.seq ++ beBytes32 o.ack
    ++ [(dofs % 16) * 16 + o.flags / 256 % 2, o.flags % 256] ++ beBytes16 o.window ++ [0, 0] ++ beBytes16 o.urp
    ++ ob ++ o.payload

/-- IPv4 options as Scapy builds them: the NOP bytes, zero padded to a multiple of four -/
def ipOptBytes (n : Nat) : List Nat := List.replicate n 1 ++ List.replicate ((4 - n % 4) % 4) 0

def OutPkt.toBytes (o : OutPkt) : List Nat :=
  let t := o.tcpBytes
  if o.ipVer == 6 then
    [6 * 16 + o.tos / 16, (o.tos % 16) * 16 + o.fl / 65536 % 16, o.fl / 256 % 256, o.fl % 256]
      ++ beBytes16 t.length ++ [6, o.ttl.toNat % 256] ++ o.src ++ o.dst ++ t
  else
    let io := ipOptBytes o.ipOptLen
    let ihl := 5 + io.length / 4
    [4 * 16 + ihl % 16, o.tos] ++ beBytes16 (ihl * 4 + t.length) ++ beBytes16 o.ipId
      ++ [(o.ipFlags % 8) * 32 + o.ipFrag / 256 % 32, o.ipFrag % 256, o.ttl.toNat % 256, 6, 0, 0] ++ o.src ++ o.dst ++ io ++ t

end P0f
