import P0f.Model.Impersonate
/-
  `_impersonate_ip` of the model as the tuple the logic translator prints:
  (ttl / hop limit, tos / traffic class, IPv4 id, IPv4 flag bits, number of IP options, flow label).
-/
namespace P0f

def impIpFields (s : Sig) (b : Base) (hops : Int) (c : Choices) : Int × Nat × Nat × Nat × Nat × Nat :=
  ((s.ttl : Int) - hops,
   (if s.quirks .ecn then c.ecn else 0),
   (if b.ipVer == 6 then 0 else impIpId s b c),
   (if b.ipVer == 6 then 0 else impIpFlags s b.ipFlags),
   (if b.ipVer == 6 then 0 else s.olen),
   (if b.ipVer == 6 then (if s.quirks .flow then c.fl else 0) else 0))

end P0f
