import P0f.Model.WMult
/-
  `tcp_signatures_match` (pyp0f/fingerprint/tcp.py), criteria in source order, as a chain of small
  named steps.  `none` = the Python `None` (no match).
-/
namespace P0f

def v4Only : QSet := QSet.ofList [.df, .nzId, .zeroId, .nzMbz]
def v6Only : QSet := QSet.ofList [.flow]

/-- quirks of a version-agnostic signature with the other family's quirks removed:
    `~FLOW` if the packet version `== 4`, else `~(DF|NZ_ID|ZERO_ID|NZ_MBZ)` -/
def maskedQ (s : Sig) (p : PSig) : QSet :=
  if s.ipVer.isNone then s.quirks.inter (if p.ipVer == 4 then v6Only.compl else v4Only.compl)
  else s.quirks

/-- the quirk comparison: `some exact`, `some fuzzyQuirks` or `none` -/
def quirkStep (sq pq : QSet) : Option MatchType :=
  if !(sq.beq pq) then
    let deleted := (sq.xor pq).inter sq
    let added := (sq.xor pq).inter pq
    if !(deleted.inter (QSet.ofList [.df, .nzId]).compl).isEmpty
        || !(added.inter (QSet.ofList [.zeroId, .ecn]).compl).isEmpty then none
    else some .fuzzyQuirks
  else some .exact

/-- the "Window size" block; `true` = return None.
    (`% wsize` with `wsize = 0` would be ZeroDivisionError in Python; the parser guarantees
    2 ≤ wsize for `%N`, see `Sig.WF`.) -/
def windowBad (s : Sig) (p : PSig) : Bool :=
  (s.wtype == .normal && s.wsize != p.win)
     || (s.wtype == .mod && p.win % s.wsize != 0)
     || (s.wtype == .mss && (p.multMtu || (s.wsize : Int) != p.multVal))
     || (s.wtype == .mtu && (!p.multMtu || (s.wsize : Int) != p.multVal))

def tcpMatch (s : Sig) (p : PSig) (maxDist : Int) : Option MatchType :=
  if s.layout != p.layout then none else
  if s.ipVer.isSome && s.ipVer != some p.ipVer then none else
  match quirkStep (maskedQ s p) p.quirks with
  | none => none
  | some mt0 =>
    if s.eolPad != p.eolPad || (s.olen : Int) != p.olen then none else
    let ttlStep : Option MatchType :=
      if s.badTtl then (if s.ttl < p.ttl then none else some mt0)
      else if s.ttl < p.ttl || (s.ttl : Int) - p.ttl > maxDist then some .fuzzyTtl else some mt0
    match ttlStep with
    | none => none
    | some mt =>
      if (s.mss.isSome && s.mss != some p.mss) || (s.scale.isSome && s.scale != some p.wscale)
          || (s.payClass.isSome && s.payClass != some p.hasPayload) then none else
      if windowBad s p then none else some mt

/-- full `TCPPacketSignature` (everything `from_packet` stores, except the receive time) -/
structure PktSig where
  ipVer : Nat
  olen : Int
  ttl : Nat
  win : Nat
  layout : List Nat
  mss : Nat
  wscale : Nat
  ts : Nat
  eolPad : Nat
  hdrLen : Nat
  hasPayload : Bool
  quirks : QSet
  synMss : Nat

def PktSig.wIn (k : PktSig) : WIn :=
  { win := k.win, mss := k.mss, ts := k.ts, ipVer := k.ipVer, hdrLen := k.hdrLen, synMss := k.synMss }

/-- what `tcp_signatures_match` sees, with the (cached) `window_multiplier` property evaluated -/
def PktSig.toPSig (k : PktSig) : PSig :=
  let m := windowMult k.wIn
  { ipVer := k.ipVer, olen := k.olen, ttl := k.ttl, win := k.win, layout := k.layout, mss := k.mss,
    wscale := k.wscale, eolPad := k.eolPad, hasPayload := k.hasPayload, quirks := k.quirks,
    multVal := m.1, multMtu := m.2 }

def tcpMatchPkt (s : Sig) (k : PktSig) (maxDist : Int) : Option MatchType :=
  tcpMatch s k.toPSig maxDist

end P0f
