import P0f.Model.Match
/-
  `find_tcp_match`, `fingerprint_tcp` (direction choice), `TCPResult.__post_init__`,
  `guess_distance`  (pyp0f/fingerprint/tcp.py, pyp0f/fingerprint/results/tcp.py).
-/
namespace P0f

/-- a `TCPRecord` as far as matching reads it -/
structure Rec where
  sig : Sig
  generic : Bool      -- `record.is_generic`
  userApp : Bool      -- `record.label.is_user_app` (class "!")
  line : Nat          -- `record.line_number`

abbrev TcpMatch := MatchType × Rec

/-- what happens after the loop -/
def findFinish (fuzzy generic : Option TcpMatch) : Option TcpMatch :=
  match generic with
  | some g => some g
  | none =>
    match fuzzy with
    | some f => if f.2.userApp then none else some f
    | none => none

/-- the `for tcp_record in …` loop with its two candidates -/
def findLoop (p : PSig) (d : Int) : List Rec → Option TcpMatch → Option TcpMatch → Option TcpMatch
  | [], fuzzy, generic => findFinish fuzzy generic
  | r :: rs, fuzzy, generic =>
    match tcpMatch r.sig p d with
    | none => findLoop p d rs fuzzy generic
    | some .exact =>
      if !r.generic then some (.exact, r)
      else findLoop p d rs fuzzy (if generic.isNone then some (.exact, r) else generic)
    | some mt => findLoop p d rs (if fuzzy.isNone then some (mt, r) else fuzzy) generic

def findTcpMatch (recs : List Rec) (p : PSig) (d : Int) : Option TcpMatch := findLoop p d recs none none

/-- `guess_distance` -/
def guessDistance (ttl : Nat) : Int :=
  if ttl ≤ 32 then 32 - (ttl : Int) else if ttl ≤ 64 then 64 - (ttl : Int)
  else if ttl ≤ 128 then 128 - (ttl : Int) else 255 - (ttl : Int)

/-- `TCPResult.distance` -/
def distance (m : Option TcpMatch) (pttl : Nat) : Int :=
  match m with
  | none => guessDistance pttl
  | some (.fuzzyTtl, _) => guessDistance pttl
  | some (_, r) => (r.sig.ttl : Int) - pttl

/-- the TCP part of a database: request and response sections in file order -/
structure TcpDb where
  req : List Rec
  resp : List Rec

/-- `fingerprint_tcp` after packet parsing: SYN uses the request section, SYN+ACK the response one -/
def fingerprintTcp (db : TcpDb) (k : PktSig) (isSyn : Bool) (d : Int) : Option TcpMatch × Int :=
  let m := findTcpMatch (if isSyn then db.req else db.resp) k.toPSig d
  (m, distance m k.ttl)

end P0f
