/-
  The tables the theorems are proved over.  `P0f/TablesOk.lean` re-proves on every run that the
  tables regenerated from the pyp0f working tree (`Generated/Tables.lean`) equal these.
-/
namespace P0f.Expected

def quirkValues : List (String × Nat) := [("ECN", 1), ("DF", 2), ("NZ_ID", 4), ("ZERO_ID", 8), ("NZ_MBZ", 16), ("FLOW", 32), ("ZERO_SEQ", 64), ("NZ_ACK", 128), ("ZERO_ACK", 256), ("NZ_URG", 512), ("URG", 1024), ("PUSH", 2048), ("OPT_ZERO_TS1", 4096), ("OPT_NZ_TS2", 8192), ("OPT_EOL_NZ", 16384), ("OPT_EXWS", 32768), ("OPT_BAD", 65536)]
def quirkStrings : List (Nat × String) := [(1, "ecn"), (2, "df"), (4, "id+"), (8, "id-"), (16, "0+"), (32, "flow"), (64, "seq-"), (128, "ack+"), (256, "ack-"), (512, "uptr+"), (1024, "urgf+"), (2048, "pushf+"), (4096, "ts1-"), (8192, "ts2+"), (16384, "opt+"), (32768, "exws"), (65536, "bad")]
def optionValues : List (String × Nat) := [("EOL", 0), ("NOP", 1), ("MSS", 2), ("WS", 3), ("SACKOK", 4), ("SACK", 5), ("TS", 8)]
def optionStrings : List (Nat × String) := [(0, "eol+{padding_length}"), (1, "nop"), (2, "mss"), (3, "ws"), (4, "sok"), (5, "sack"), (8, "ts")]
def optionSizes : List (Nat × Nat) := [(2, 2), (3, 1), (4, 0), (8, 8)]
def tcpFlags : List (String × Nat) := [("FIN", 1), ("SYN", 2), ("RST", 4), ("PSH", 8), ("ACK", 16), ("URG", 32), ("ECE", 64), ("CWR", 128)]
def minTcp4 : Nat := 40
def minTcp6 : Nat := 60
def wildcard : Int := -1
def wildcardField : String := "*"
def invalidQuirks : List (Nat × Nat) := [(4, 32), (6, 30)]
def skippedParams : List String := ["classes", "ua_os"]
def skippedLines : List String := ["\n", ";"]
def directions : List String := ["CLIENT_TO_SERVER", "SERVER_TO_CLIENT"]
def maxDist : Int := 35
def minWait : Int := 25
def maxWait : Int := 600000
def grace : Int := 100
def minScale : Nat × Nat := (7, 10)
def maxScale : Nat × Nat := (1500, 1)

end P0f.Expected
