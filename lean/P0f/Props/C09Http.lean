import P0f.Props.C09Sig
import P0f.Props.C06
/-
  C09 (denotation clause, HTTP and MTU signatures): `HTTPSignature.parse` / `MTUSignature.parse` applied
  to the canonical text of a well-formed signature give back exactly that signature.  The interesting part
  is the regular expression `,(?![^\[]*\])` that splits the header field: commas inside a `[value]` do not
  separate headers, every other comma does.
-/
namespace P0f
open P0f.Py

/-! ### MTU -/

theorem parseMtuSig_render (n : Nat) (h : 1 ≤ n ∧ n ≤ 65535) : parseMtuSig (natStr n) = some n := by
  unfold parseMtuSig
  exact parseNumberN_natStr n 1 65535 (by omega) (by omega)

/-! ### HTTP -/

def renderSigHdr (h : SigHdr) : Bytes :=
  (if h.optional then ['?'] else []) ++ h.name ++
    (match h.value with
     | none => []
     | some v => '=' :: '[' :: (v ++ [']']))

def renderHttpVer : Option Nat → Bytes
  | none => ['*'] | some 0 => ['0'] | some _ => ['1']

def renderHttpSig (s : HttpSig) : Bytes :=
  [':'].intercalate [renderHttpVer s.version, joinComma (s.headers.map renderSigHdr), joinComma s.absent,
    s.software.getD []]

def NameOk (n : Bytes) : Prop :=
  n ≠ [] ∧ n.head? ≠ some '?' ∧ ∀ c ∈ n, c ≠ ',' ∧ c ≠ '=' ∧ c ≠ ':' ∧ c ≠ '[' ∧ c ≠ ']'

def ValOk (v : Bytes) : Prop := ∀ c ∈ v, c ≠ ':' ∧ c ≠ '[' ∧ c ≠ ']'

def SigHdr.WF (h : SigHdr) : Prop := NameOk h.name ∧ ∀ v, h.value = some v → ValOk v

structure HttpSig.WF (s : HttpSig) : Prop where
  ver : s.version = none ∨ s.version = some 0 ∨ s.version = some 1
  hdrs : ∀ h ∈ s.headers, h.WF
  absent : (∀ a ∈ s.absent, ',' ∉ a ∧ ':' ∉ a ∧ lower a = a) ∧ s.absent ≠ [[]]
  soft : ∀ v, s.software = some v → v ≠ [] ∧ ':' ∉ v

/-- characters that are neither a comma nor a bracket pass through the splitter -/
theorem splitHeadersGo_plain (p r cur : Bytes) (hp : ∀ c ∈ p, c ≠ ',') :
    splitHeadersGo (p ++ r) cur = splitHeadersGo r (p.reverse ++ cur) := by
  induction p generalizing cur with
  | nil => rfl
  | cons c t ih =>
    have hc : c ≠ ',' := hp c (by simp)
    have : splitHeadersGo (c :: (t ++ r)) cur = splitHeadersGo (t ++ r) (c :: cur) := by
      rw [splitHeadersGo.eq_def]
      split
      · rename_i h; cases h
      · rename_i h; injection h with h1 h2; exact absurd h1 hc
      · rename_i h; injection h with h1 h2; subst h1 h2; rfl
    rw [List.cons_append, this, ih _ (fun x hx => hp x (by simp [hx]))]
    simp

theorem closesBracket_plain (p r : Bytes) (hp : ∀ c ∈ p, c ≠ '[' ∧ c ≠ ']') :
    closesBracket (p ++ r) = closesBracket r := by
  induction p with
  | nil => rfl
  | cons c t ih =>
    have hc := hp c (by simp)
    have : closesBracket (c :: (t ++ r)) = closesBracket (t ++ r) := by
      rw [closesBracket.eq_def]
      split
      · rename_i h; cases h
      · rename_i h; injection h with h1 h2; exact absurd h1 hc.2
      · rename_i h; injection h with h1 h2; exact absurd h1 hc.1
      · rename_i h; injection h with h1 h2; subst h2; rfl
    rw [List.cons_append, this, ih (fun x hx => hp x (by simp [hx]))]

theorem closesBracket_val (v r : Bytes) (hv : ValOk v) : closesBracket (v ++ ']' :: r) = true := by
  rw [closesBracket_plain v _ (fun c hc => (hv c hc).2)]
  rfl

/-- inside a `[value]` commas are kept -/
theorem splitHeadersGo_val (v r cur : Bytes) (hv : ValOk v) :
    splitHeadersGo (v ++ ']' :: r) cur = splitHeadersGo (']' :: r) (v.reverse ++ cur) := by
  induction v generalizing cur with
  | nil => rfl
  | cons c t ih =>
    have ht : ValOk t := fun x hx => hv x (by simp [hx])
    by_cases hc : c = ','
    · subst hc
      have : splitHeadersGo (',' :: (t ++ ']' :: r)) cur = splitHeadersGo (t ++ ']' :: r) (',' :: cur) := by
        rw [splitHeadersGo.eq_def]
        simp only [closesBracket_val t r ht, ↓reduceIte]
      rw [List.cons_append, this, ih _ ht]
      simp
    · have := splitHeadersGo_plain [c] (t ++ ']' :: r) cur (by simpa using hc)
      simp only [List.singleton_append, List.reverse_cons, List.reverse_nil, List.nil_append] at this
      rw [List.cons_append, this, ih _ ht]
      simp

theorem splitHeadersGo_item (h : SigHdr) (hw : h.WF) (r cur : Bytes) :
    splitHeadersGo (renderSigHdr h ++ r) cur = splitHeadersGo r ((renderSigHdr h).reverse ++ cur) := by
  obtain ⟨⟨_, _, hn⟩, hv⟩ := hw
  unfold renderSigHdr
  have hpre : ∀ c ∈ (if h.optional then ['?'] else []) ++ h.name, c ≠ ',' := by
    intro c hc
    simp only [List.mem_append] at hc
    rcases hc with hc | hc
    · have : c = '?' := by cases ho : h.optional <;> simp [ho] at hc; exact hc
      subst this; decide
    · exact (hn c hc).1
  cases hval : h.value with
  | none =>
    simp only [List.append_nil]
    exact splitHeadersGo_plain _ r cur hpre
  | some v =>
    have hvo := hv v hval
    simp only
    rw [List.append_assoc, splitHeadersGo_plain _ _ cur hpre]
    have e1 : ('=' :: '[' :: (v ++ [']'])) ++ r = ['=', '['] ++ (v ++ ']' :: r) := by simp
    rw [e1, splitHeadersGo_plain ['=', '['] _ _ (by decide), splitHeadersGo_val v r _ hvo,
      show (']' :: r) = [']'] ++ r from rfl, splitHeadersGo_plain [']'] r _ (by decide)]
    simp

/-- the text after a separating comma never "closes a bracket" -/
theorem closesBracket_items (hs : List SigHdr) (hw : ∀ h ∈ hs, h.WF) :
    closesBracket (joinComma (hs.map renderSigHdr)) = false := by
  induction hs with
  | nil => rfl
  | cons h t ih =>
    obtain ⟨⟨_, _, hn⟩, hv⟩ := hw h (by simp)
    have hpre : ∀ c ∈ (if h.optional then ['?'] else []) ++ h.name, c ≠ '[' ∧ c ≠ ']' := by
      intro c hc
      simp only [List.mem_append] at hc
      rcases hc with hc | hc
      · have : c = '?' := by cases ho : h.optional <;> simp [ho] at hc; exact hc
        subst this; decide
      · exact ⟨(hn c hc).2.2.2.1, (hn c hc).2.2.2.2⟩
    have iht := ih (fun x hx => hw x (by simp [hx]))
    unfold joinComma at iht ⊢
    cases hval : h.value with
    | some v =>
      have : ∀ rest, closesBracket (renderSigHdr h ++ rest) = false := by
        intro rest
        unfold renderSigHdr
        rw [hval, List.append_assoc, closesBracket_plain _ _ hpre]
        rfl
      cases t with
      | nil => simpa using this []
      | cons h2 t' =>
        rw [List.map_cons, List.map_cons, List.intercalate_cons_cons, List.append_assoc]
        exact this _
    | none =>
      have hr : renderSigHdr h = (if h.optional then ['?'] else []) ++ h.name := by
        unfold renderSigHdr; rw [hval]; simp
      cases t with
      | nil =>
        simp only [List.map_cons, List.map_nil, List.intercalate_singleton]
        rw [hr]
        have := closesBracket_plain _ [] hpre
        rw [List.append_nil] at this
        rw [this]; rfl
      | cons h2 t' =>
        rw [List.map_cons, List.map_cons, List.intercalate_cons_cons, List.append_assoc, hr,
          closesBracket_plain _ _ hpre]
        rw [List.map_cons] at iht
        show closesBracket (',' :: _) = false
        rw [closesBracket.eq_def]
        exact iht

theorem splitHeaders_join (hs : List SigHdr) (hne : hs ≠ []) (hw : ∀ h ∈ hs, h.WF) (cur : Bytes) :
    splitHeadersGo (joinComma (hs.map renderSigHdr)) cur =
      match hs.map renderSigHdr with
      | [] => []
      | a :: t => (cur.reverse ++ a) :: t := by
  induction hs generalizing cur with
  | nil => exact absurd rfl hne
  | cons h t ih =>
    have hwh := hw h (by simp)
    unfold joinComma at ih ⊢
    cases t with
    | nil =>
      simp only [List.map_cons, List.map_nil, List.intercalate_singleton]
      have := splitHeadersGo_item h hwh [] cur
      rw [List.append_nil] at this
      rw [this]
      simp [splitHeadersGo]
    | cons h2 t' =>
      have hcb := closesBracket_items (h2 :: t') (fun x hx => hw x (by simp [hx]))
      unfold joinComma at hcb
      rw [List.map_cons, List.map_cons, List.intercalate_cons_cons, List.append_assoc,
        splitHeadersGo_item h hwh]
      rw [List.map_cons] at hcb
      have : ∀ rest c2, closesBracket rest = false →
          splitHeadersGo ([','] ++ rest) c2 = c2.reverse :: splitHeadersGo rest [] := by
        intro rest c2 hc
        show splitHeadersGo (',' :: rest) c2 = _
        rw [splitHeadersGo.eq_def]
        simp only [hc, Bool.false_eq_true, ↓reduceIte]
      rw [this _ _ hcb]
      have := ih (by simp) (fun x hx => hw x (by simp [hx])) []
      rw [List.map_cons] at this
      rw [this]
      simp

theorem partition_absent (c : Char) (s : Bytes) (h : c ∉ s) : partition c s = (s, false, []) := by
  unfold partition
  have : s.dropWhile (· != c) = [] ∧ s.takeWhile (· != c) = s := by
    induction s with
    | nil => simp
    | cons a t ih =>
      have ha : a ≠ c := fun e => h (by simp [e])
      obtain ⟨i1, i2⟩ := ih (fun e => h (by simp [e]))
      simp [List.takeWhile_cons, List.dropWhile_cons, ha, i1, i2]
  rw [this.1, this.2]

theorem renderSigHdr_ne_nil (h : SigHdr) (hw : h.WF) : renderSigHdr h ≠ [] := by
  obtain ⟨⟨hne, _, _⟩, _⟩ := hw
  unfold renderSigHdr
  intro e
  simp only [List.append_eq_nil_iff] at e
  exact hne e.1.2

theorem parseSigHeader_render (h : SigHdr) (hw : h.WF) : parseSigHeader (renderSigHdr h) = h := by
  obtain ⟨⟨hne, hq, hn⟩, hv⟩ := hw
  obtain ⟨name, optional, value⟩ := h
  simp only at hne hq hn hv
  have hnoeq : '=' ∉ (if optional then ['?'] else []) ++ name := by
    intro hc
    simp only [List.mem_append] at hc
    rcases hc with hc | hc
    · cases optional <;> simp at hc
    · exact (hn _ hc).2.1 rfl
  have hopt : (((if optional then ['?'] else []) ++ name).take 1 == ['?']) = optional := by
    cases optional with
    | true => simp
    | false =>
      cases name with
      | nil => exact absurd rfl hne
      | cons c t =>
        have : c ≠ '?' := fun e => hq (by simp [e])
        simp [this]
  unfold parseSigHeader renderSigHdr
  cases value with
  | none =>
    have hp : partition '=' ((if optional then ['?'] else []) ++ name ++ []) =
        ((if optional then ['?'] else []) ++ name, false, []) := by
      rw [List.append_nil]
      exact partition_absent '=' _ hnoeq
    simp only [hp, hopt]
    cases optional <;> simp
  | some v =>
    have hp : partition '=' ((if optional then ['?'] else []) ++ name ++ '=' :: '[' :: (v ++ [']'])) =
        ((if optional then ['?'] else []) ++ name, true, '[' :: (v ++ [']'])) := by
      unfold partition
      obtain ⟨h1, h2⟩ := takeWhile_ne_append '=' _ ('[' :: (v ++ [']'])) hnoeq
      rw [h2, h1]
    simp only [hp, hopt]
    cases optional <;> simp

theorem parseSigHeaders_render (hs : List SigHdr) (hw : ∀ h ∈ hs, h.WF) :
    parseSigHeaders (joinComma (hs.map renderSigHdr)) = hs := by
  unfold parseSigHeaders splitHeaders
  cases hs with
  | nil => simp [joinComma, splitHeadersGo]
  | cons h t =>
    rw [splitHeaders_join (h :: t) (by simp) hw []]
    simp only [List.map_cons, List.reverse_nil, List.nil_append]
    have hfil : ((renderSigHdr h :: t.map renderSigHdr).filter fun x => !x.isEmpty) = renderSigHdr h :: t.map renderSigHdr := by
      rw [List.filter_eq_self]
      intro x hx
      have : x ∈ (h :: t).map renderSigHdr := by simpa using hx
      obtain ⟨y, hy, rfl⟩ := List.mem_map.mp this
      have := renderSigHdr_ne_nil y (hw y hy)
      cases hr : renderSigHdr y with
      | nil => exact absurd hr this
      | cons _ _ => rfl
    rw [hfil]
    have : (renderSigHdr h :: t.map renderSigHdr) = (h :: t).map renderSigHdr := by simp
    rw [this, List.map_map]
    calc (h :: t).map (parseSigHeader ∘ renderSigHdr) = (h :: t).map id := by
            apply List.map_congr_left; intro x hx; exact parseSigHeader_render x (hw x hx)
      _ = h :: t := by simp

theorem not_mem_joinComma (c : Char) (items : List Bytes) (hc : c ≠ ',') (h : ∀ l ∈ items, c ∉ l) :
    c ∉ joinComma items := not_mem_intercalate c ',' items hc h

theorem renderSigHdr_no_colon (h : SigHdr) (hw : h.WF) : ':' ∉ renderSigHdr h := by
  obtain ⟨⟨_, _, hn⟩, hv⟩ := hw
  unfold renderSigHdr
  intro hc
  simp only [List.mem_append] at hc
  rcases hc with (hc | hc) | hc
  · cases h.optional <;> simp at hc
  · exact (hn _ hc).2.2.1 rfl
  · cases hval : h.value with
    | none => simp [hval] at hc
    | some v =>
      simp only [hval, List.mem_cons, List.mem_append, List.not_mem_nil, or_false] at hc
      rcases hc with hc | hc | hc | hc
      · exact absurd hc (by decide)
      · exact absurd hc (by decide)
      · exact (hv v hval _ hc).1 rfl
      · exact absurd hc (by decide)

/-- **C09, HTTP signatures**: for every well-formed structured HTTP signature (version 0 / 1 / wildcard,
    any sequence of required and optional headers with or without a `[value]` - values may contain commas -,
    any set of absent header names, with or without expected software), `HTTPSignature.parse` of its
    canonical text gives back exactly its version, headers (names, optional marks, values, order), absent
    names and software. -/
theorem parseHttpSig_render (s : HttpSig) (h : s.WF) :
    ∃ r, parseHttpSig (renderHttpSig s) = some r ∧ r.version = s.version ∧ r.headers = s.headers ∧
      r.absent = s.absent ∧ r.software = s.software := by
  have hsplit : splitParts ':' 4 (renderHttpSig s) =
      [renderHttpVer s.version, joinComma (s.headers.map renderSigHdr), joinComma s.absent, s.software.getD []] := by
    unfold renderHttpSig
    apply splitParts_join4
    · rcases h.ver with e | e | e <;> rw [e] <;> decide
    · apply not_mem_joinComma _ _ (by decide)
      intro l hl
      obtain ⟨y, hy, rfl⟩ := List.mem_map.mp hl
      exact renderSigHdr_no_colon y (h.hdrs y hy)
    · exact not_mem_joinComma _ _ (by decide) (fun l hl => (h.absent.1 l hl).2.1)
    · cases hs : s.software with
      | none => simp
      | some v => exact (h.soft v hs).2
  unfold parseHttpSig
  rw [hsplit]
  have hver : (if renderHttpVer s.version == ['*'] then some (none : Option Nat)
      else if renderHttpVer s.version == ['0'] then some (some 0)
      else if renderHttpVer s.version == ['1'] then some (some 1) else none) = some s.version := by
    rcases h.ver with e | e | e <;> rw [e] <;> decide
  simp only [hver, Option.map_some]
  refine ⟨_, rfl, rfl, parseSigHeaders_render _ h.hdrs, ?_, ?_⟩
  · simp only
    by_cases hab : s.absent = []
    · simp [hab, joinComma]
    · have hne : (joinComma s.absent).isEmpty = false := by
        unfold joinComma
        cases ha : s.absent with
        | nil => exact absurd ha hab
        | cons a t =>
          cases t with
          | nil =>
            have : a ≠ [] := fun e => h.absent.2 (by rw [ha, e])
            cases a with
            | nil => exact absurd rfl this
            | cons _ _ => rfl
          | cons b t' =>
            rw [List.intercalate_cons_cons]
            cases a <;> rfl
      simp only [hne, Bool.false_eq_true, ↓reduceIte]
      rw [split_joinComma _ hab (fun l hl => (h.absent.1 l hl).1)]
      calc s.absent.map lower = s.absent.map id := by
              apply List.map_congr_left; intro x hx; exact (h.absent.1 x hx).2.2
        _ = s.absent := by simp
  · simp only
    cases hs : s.software with
    | none => simp
    | some v =>
      have := (h.soft v hs).1
      cases v with
      | nil => exact absurd rfl this
      | cons _ _ => simp

/-! non-vacuity: a signature of the shape the shipped database uses -/
def exHttp : HttpSig :=
  { version := some 1,
    headers := [⟨"Host".toList, false, none⟩, ⟨"Accept".toList, false, some "text/html,*/*;q=0.8".toList⟩,
      ⟨"Cache-Control".toList, true, none⟩, ⟨"User-Agent".toList, false, some []⟩],
    absent := ["accept-charset".toList, "keep-alive".toList], software := some "Firefox/".toList }
example : String.ofList (renderHttpSig exHttp) =
    "1:Host,Accept=[text/html,*/*;q=0.8],?Cache-Control,User-Agent=[]:accept-charset,keep-alive:Firefox/" := by decide
example : (parseHttpSig (renderHttpSig exHttp)).map (·.headers) = some exHttp.headers := by decide

end P0f
