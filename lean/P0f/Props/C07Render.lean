import P0f.Props.C07
/-
  C07 — the whole-message theorem: a rendered HTTP message (first line, header lines, blank line, any body;
  every line terminated by CRLF or by a bare LF, chosen per line) is read back as exactly its first line and
  its headers.  Composes the blank-line scan of h11 (`scanLines`, modelled) with the per-line theorems of C07.
-/
namespace P0f
open P0f.Py

/-- one line of a message and how it is terminated -/
structure MsgLine where
  text : Bytes
  crlf : Bool

def MsgLine.term (l : MsgLine) : Bytes := if l.crlf then ['\r', '\n'] else ['\n']

/-- a line the scan returns unchanged: non-empty, no LF inside, and - when it is terminated by a bare LF - not ending in
    CR (h11 deletes one trailing CR per line) -/
def LineOk (l : MsgLine) : Prop :=
  l.text ≠ [] ∧ '\n' ∉ l.text ∧ (l.crlf = false → l.text.getLast? ≠ some '\r')

def renderLines (ls : List MsgLine) : Bytes := ls.flatMap fun l => l.text ++ l.term

def blankLine (crlf : Bool) : Bytes := if crlf then ['\r', '\n'] else ['\n']

theorem scan_lf_lf (rest cur : Bytes) (acc : List Bytes) :
    scanLines ('\n' :: '\n' :: rest) cur acc = some (dropCr cur.reverse :: acc).reverse := by
  simp [scanLines]

theorem scan_lf_crlf (rest cur : Bytes) (acc : List Bytes) :
    scanLines ('\n' :: '\r' :: '\n' :: rest) cur acc = some (dropCr cur.reverse :: acc).reverse := by
  simp [scanLines]

theorem scan_char (c : Char) (rest cur : Bytes) (acc : List Bytes) (h : c ≠ '\n') :
    scanLines (c :: rest) cur acc = scanLines rest (c :: cur) acc := by
  rw [scanLines]
  intro h1; exact absurd h1 h

theorem scan_lf_other (d : Char) (rest cur : Bytes) (acc : List Bytes) (h1 : d ≠ '\n')
    (h2 : d = '\r' → rest.head? ≠ some '\n') :
    scanLines ('\n' :: d :: rest) cur acc = scanLines (d :: rest) [] (dropCr cur.reverse :: acc) := by
  rw [scanLines]
  · intro tail ht
    simp only [List.cons.injEq] at ht
    exact h1 ht.1
  · intro tail ht
    simp only [List.cons.injEq] at ht
    obtain ⟨hd, hr⟩ := ht
    exact h2 hd (by rw [hr]; rfl)

/-- scanning the characters of a line (none of them LF) just collects them -/
theorem scan_chars (l rest cur : Bytes) (acc : List Bytes) (h : '\n' ∉ l) :
    scanLines (l ++ rest) cur acc = scanLines rest (l.reverse ++ cur) acc := by
  induction l generalizing cur with
  | nil => simp
  | cons c t ih =>
    have hc : c ≠ '\n' := fun e => h (by simp [e])
    have ht : '\n' ∉ t := fun e => h (by simp [e])
    simp only [List.cons_append]
    rw [scan_char c _ cur acc hc, ih (c :: cur) ht]
    simp

theorem dropCr_of_not_cr (l : Bytes) (h : l.getLast? ≠ some '\r') : dropCr l = l := by
  unfold dropCr; simp [h]

theorem dropCr_append_cr (l : Bytes) : dropCr (l ++ ['\r']) = l := by
  unfold dropCr; simp

/-- the collected line at its terminator: what `dropCr` leaves is the line's text -/
theorem line_at_term (l : MsgLine) (hok : LineOk l) :
    (l.crlf = false → dropCr l.text = l.text) ∧ (l.crlf = true → dropCr (l.text ++ ['\r']) = l.text) :=
  ⟨fun h => dropCr_of_not_cr _ (hok.2.2 h), fun _ => dropCr_append_cr _⟩

/-- after the LF that ends a line: if a good line follows, the scan goes on with that line; it is not taken for the
    blank line -/
theorem scan_after_lf_line (l2 : MsgLine) (hok : LineOk l2) (rest cur : Bytes) (acc : List Bytes) :
    scanLines ('\n' :: (l2.text ++ l2.term ++ rest)) cur acc =
      scanLines (l2.text ++ l2.term ++ rest) [] (dropCr cur.reverse :: acc) := by
  obtain ⟨hne, hnl, hcr⟩ := hok
  cases ht : l2.text with
  | nil => exact absurd ht hne
  | cons c t =>
    have hc : c ≠ '\n' := fun e => hnl (by rw [ht]; simp [e])
    simp only [List.cons_append]
    apply scan_lf_other c _ cur acc hc
    intro hcr'
    subst hcr'
    cases t with
    | nil =>
      -- the line is a lone CR: then it is terminated by CR LF, so CR CR LF follows
      have hcrlf : l2.crlf = true := by
        cases hb : l2.crlf with
        | true => rfl
        | false => have := hcr hb; rw [ht] at this; simp at this
      simp [MsgLine.term, hcrlf]
    | cons d t' =>
      have hd : d ≠ '\n' := fun e => hnl (by rw [ht]; simp [e])
      simp [hd]

theorem scan_after_lf_blank (c : Bool) (body cur : Bytes) (acc : List Bytes) :
    scanLines ('\n' :: (blankLine c ++ body)) cur acc = some (dropCr cur.reverse :: acc).reverse := by
  cases c
  · simp only [blankLine, Bool.false_eq_true, ↓reduceIte, List.cons_append, List.nil_append]
    exact scan_lf_lf body cur acc
  · simp only [blankLine, ↓reduceIte, List.cons_append, List.nil_append]
    exact scan_lf_crlf body cur acc

/-- **the scan**: for every list of good lines, every choice of terminators, either blank-line form and any body, the
    scan returns exactly the lines' texts -/
theorem scan_render (ls : List MsgLine) (hok : ∀ l ∈ ls, LineOk l) (hne : ls ≠ []) (c : Bool) (body : Bytes)
    (acc : List Bytes) :
    scanLines (renderLines ls ++ blankLine c ++ body) [] acc = some (acc.reverse ++ ls.map (·.text)) := by
  induction ls generalizing acc with
  | nil => exact absurd rfl hne
  | cons l rest ih =>
    have hl := hok l (by simp)
    obtain ⟨k1, k2⟩ := line_at_term l hl
    have hnl1 : '\n' ∉ l.text := hl.2.1
    simp only [renderLines, List.flatMap_cons, List.append_assoc]
    rw [scan_chars l.text _ [] acc hnl1]
    simp only [List.append_nil]
    cases rest with
    | nil =>
      simp only [List.flatMap_nil, List.nil_append, List.map_cons, List.map_nil]
      cases hcr : l.crlf with
      | false =>
        have hterm : l.term = ['\n'] := by simp [MsgLine.term, hcr]
        rw [hterm]
        simp only [List.cons_append, List.nil_append]
        rw [scan_after_lf_blank, List.reverse_reverse, k1 hcr]
        simp
      | true =>
        have hterm : l.term = ['\r', '\n'] := by simp [MsgLine.term, hcr]
        rw [hterm]
        simp only [List.cons_append, List.nil_append]
        rw [scan_char '\r' _ _ acc (by decide), scan_after_lf_blank]
        simp only [List.reverse_cons, List.reverse_reverse]
        rw [k2 hcr]
    | cons l2 rest2 =>
      have hl2 := hok l2 (by simp)
      have ih' := ih (fun x hx => hok x (by simp [hx])) (by simp) (l.text :: acc)
      simp only [renderLines, List.flatMap_cons, List.append_assoc] at ih'
      simp only [List.flatMap_cons, List.append_assoc, List.map_cons]
      cases hcr : l.crlf with
      | false =>
        have hterm : l.term = ['\n'] := by simp [MsgLine.term, hcr]
        rw [hterm]
        simp only [List.cons_append, List.nil_append]
        have := scan_after_lf_line l2 hl2 (rest2.flatMap (fun l => l.text ++ l.term) ++ (blankLine c ++ body)) l.text.reverse acc
        simp only [List.append_assoc, List.reverse_reverse] at this
        rw [this, k1 hcr, ih']
        simp
      | true =>
        have hterm : l.term = ['\r', '\n'] := by simp [MsgLine.term, hcr]
        rw [hterm]
        simp only [List.cons_append, List.nil_append]
        rw [scan_char '\r' _ _ acc (by decide)]
        have := scan_after_lf_line l2 hl2 (rest2.flatMap (fun l => l.text ++ l.term) ++ (blankLine c ++ body)) ('\r' :: l.text.reverse) acc
        simp only [List.append_assoc, List.reverse_cons, List.reverse_reverse] at this
        rw [this, k2 hcr, ih']
        simp

/-- `maybe_extract_lines` on a rendered message -/
theorem extractLines_render (ls : List MsgLine) (hok : ∀ l ∈ ls, LineOk l) (hne : ls ≠ []) (c : Bool) (body : Bytes) :
    extractLines (renderLines ls ++ blankLine c ++ body) = some (ls.map (·.text)) := by
  unfold extractLines
  cases ls with
  | nil => exact absurd rfl hne
  | cons l rest =>
    have hl := hok l (by simp)
    obtain ⟨hne1, hnl1, hcr1⟩ := hl
    cases ht : l.text with
    | nil => exact absurd ht hne1
    | cons ch t =>
      have hc : ch ≠ '\n' := fun e => hnl1 (by rw [ht]; simp [e])
      have h1 : ((renderLines (l :: rest) ++ blankLine c ++ body).take 1 == ['\n']) = false := by
        simp [renderLines, ht, hc]
      have h2 : ((renderLines (l :: rest) ++ blankLine c ++ body).take 2 == ['\r', '\n']) = false := by
        simp only [renderLines, List.flatMap_cons, ht, List.cons_append, List.append_assoc]
        cases t with
        | nil =>
          by_cases hcr : ch = '\r'
          · subst hcr
            have hcrlf : l.crlf = true := by
              cases hb : l.crlf with
              | true => rfl
              | false => have := hcr1 hb; rw [ht] at this; simp at this
            simp [MsgLine.term, hcrlf]
          · simp [hcr]
        | cons d t' =>
          have hd : d ≠ '\n' := fun e => hnl1 (by rw [ht]; simp [e])
          simp [hd]
      rw [h1, h2]
      simp only [Bool.false_eq_true, ↓reduceIte]
      have := scan_render (l :: rest) hok hne c body []
      simpa using this

/-! ### headers -/

/-- a header as sent: name and raw value -/
structure SentHdr where
  name : Bytes
  value : Bytes

def SentHdr.line (h : SentHdr) : Bytes := h.name ++ ':' :: h.value

def SentHdr.Ok (h : SentHdr) : Prop :=
  h.name ≠ [] ∧ ':' ∉ h.name ∧ h.name.head? ≠ some ' ' ∧ h.name.head? ≠ some '\t'

theorem readHeaders_sent (hs : List SentHdr) (hok : ∀ h ∈ hs, h.Ok) (acc : List Hdr) :
    readHeadersGo (hs.map SentHdr.line) acc =
      .ok (acc ++ hs.map fun h => { name := h.name, value := stripB h.value }) := by
  induction hs generalizing acc with
  | nil => simp [readHeadersGo]
  | cons h t ih =>
    obtain ⟨h1, h2, h3, h4⟩ := hok h (by simp)
    simp only [List.map_cons, SentHdr.line]
    rw [header_line h.name h.value _ acc h1 h2 ⟨h3, h4⟩]
    rw [ih (fun x hx => hok x (by simp [hx]))]
    simp

/-- **C07, whole message**: a message made of a first line, header lines `name ":" value` (name non-empty, without
    colon or LF, not starting with SP / HT; value without LF), a blank line and any body - every line terminated by CRLF
    or bare LF, chosen per line, either blank-line form - is read as the direction and minor version of its first line
    and exactly its headers, in order, names as sent, values stripped. -/
theorem read_render (first : MsgLine) (hs : List (SentHdr × Bool)) (c : Bool) (body : Bytes)
    (isReq : Bool) (minor : Nat)
    (hfirst : LineOk first) (hfl : readFirstLine first.text = some (isReq, minor))
    (hok : ∀ h ∈ hs, h.1.Ok ∧ LineOk { text := h.1.line, crlf := h.2 }) :
    readPayload (renderLines (first :: hs.map fun h => { text := h.1.line, crlf := h.2 }) ++ blankLine c ++ body) =
      .ok isReq minor (hs.map fun h => { name := h.1.name, value := stripB h.1.value }) := by
  unfold readPayload
  rw [extractLines_render _ (by
        intro l hl
        simp only [List.mem_cons, List.mem_map] at hl
        rcases hl with rfl | ⟨h, hh, rfl⟩
        · exact hfirst
        · exact (hok h hh).2) (by simp)]
  simp only [List.map_cons, List.map_map, hfl]
  have hmap : (List.map ((fun x => x.text) ∘ fun h => ({ text := h.1.line, crlf := h.2 } : MsgLine)) hs)
      = (hs.map (·.1)).map SentHdr.line := by
    simp [List.map_map, Function.comp]
  rw [hmap, readHeaders_sent (hs.map (·.1)) (by
        intro h hh
        obtain ⟨x, hx, rfl⟩ := List.mem_map.mp hh
        exact (hok x hx).1) []]
  simp [List.map_map, Function.comp]

/-! non-vacuity: a request with CRLF and LF mixed -/
example : readPayload "GET / HTTP/1.1\r\nHost: example.org\nUser-Agent:  curl/8 \r\n\nbody".toList =
    .ok true 1 [{ name := "Host".toList, value := "example.org".toList }, { name := "User-Agent".toList, value := "curl/8".toList }] := by
  decide

end P0f
