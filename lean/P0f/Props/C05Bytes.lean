import P0f.Props.C05
import P0f.Props.C18Match
/-
  C05 / C14, byte level: the packet `impersonate_tcp` builds, serialised the way Scapy serialises it
  (`OutPkt.toBytes`, checksums zero) and read back by the verified extraction (`decodeV4` / `decodeV6`,
  `pktSigOfPkt`), gives exactly the field-level signature `extractOut` the C05 theorem is about.
-/
namespace P0f

/-- the fields fit the header fields they are written into -/
structure OutPkt.Fits (o : OutPkt) : Prop where
  tos : o.tos < 256
  ipId : o.ipId < 65536
  ipFlags : o.ipFlags < 8
  ipFrag : o.ipFrag = 0
  ttl : 0 ≤ o.ttl ∧ o.ttl ≤ 255
  fl : o.fl < 1048576
  ipOpt : o.ipOptLen ≤ 40
  sport : o.sport < 65536
  dport : o.dport < 65536
  seq : o.seq < 4294967296
  ack : o.ack < 4294967296
  flags : o.flags < 512
  window : o.window < 65536
  urp : o.urp < 65536
  opts : (encodeOpts o.opts).length ≤ 40
  payload : o.payload.length ≤ 60000

theorem encodeOpts_len4 (l : List SOpt) : (encodeOpts l).length % 4 = 0 := by
  unfold encodeOpts
  simp only [List.length_append, List.length_replicate]
  omega

theorem u16_beBytes16 (v : Nat) (h : v < 65536) (pre rest : List Nat) :
    u16 (pre ++ beBytes16 v ++ rest) pre.length = v := by
  unfold u16 beBytes16
  simp [List.getD_eq_getElem?_getD, List.getElem?_append_right]
  omega

theorem take_drop_mid (a b c : List Nat) (n : Nat) (hn : n = a.length + b.length) :
    ((a ++ b ++ c).take n).drop a.length = b := by
  subst hn
  rw [List.take_left' (l₁ := a ++ b) (by simp), List.drop_left' rfl]

/-- the TCP segment: every field `TCP.from_packet` reads is the field that was written -/
theorem tcpLayer_tcpBytes (o : OutPkt) (h : o.Fits) :
    (tcpLayer o.tcpBytes).type = tcpType o.flags ∧
    (tcpLayer o.tcpBytes).window = o.window ∧
    (tcpLayer o.tcpBytes).opts = outOpts o ∧
    (tcpLayer o.tcpBytes).payload = o.payload ∧
    (tcpLayer o.tcpBytes).hdrLen = 20 + (encodeOpts o.opts).length ∧
    (tcpLayer o.tcpBytes).quirks = (outTcpQuirks o).union (outOpts o).quirks := by
  have hl4 := encodeOpts_len4 o.opts
  have hlo := h.opts
  obtain ⟨ob, hob⟩ : ∃ ob, ob = encodeOpts o.opts := ⟨_, rfl⟩
  rw [← hob] at hl4 hlo
  have hf := h.flags
  have hdofs : (5 + ob.length / 4) % 16 = 5 + ob.length / 4 := by omega
  -- the segment as explicit header cells followed by options and payload
  have hbytes : o.tcpBytes =
      [o.sport / 256 % 256, o.sport % 256, o.dport / 256 % 256, o.dport % 256,
       o.seq / 16777216 % 256, o.seq / 65536 % 256, o.seq / 256 % 256, o.seq % 256,
       o.ack / 16777216 % 256, o.ack / 65536 % 256, o.ack / 256 % 256, o.ack % 256,
       (5 + ob.length / 4) * 16 + o.flags / 256 % 2, o.flags % 256,
       o.window / 256 % 256, o.window % 256, 0, 0, o.urp / 256 % 256, o.urp % 256] ++ (ob ++ o.payload) := by
    unfold OutPkt.tcpBytes
    simp only [← hob, hdofs, beBytes16, beBytes32, List.cons_append, List.nil_append, List.append_assoc]
  have hflags : tcpFlags9 o.tcpBytes = o.flags := by
    rw [hbytes]; unfold tcpFlags9
    simp only [List.cons_append, List.getD_cons_succ, List.getD_cons_zero]
    omega
  have hhl : (o.tcpBytes.getD 12 0 / 16) * 4 = 20 + ob.length := by
    rw [hbytes]
    simp only [List.cons_append, List.getD_cons_succ, List.getD_cons_zero]
    omega
  have hseq : u32 o.tcpBytes 4 = o.seq := by
    rw [hbytes]; unfold u32
    simp only [List.cons_append, List.getD_cons_succ, List.getD_cons_zero]
    have := h.seq; omega
  have hack : u32 o.tcpBytes 8 = o.ack := by
    rw [hbytes]; unfold u32
    simp only [List.cons_append, List.getD_cons_succ, List.getD_cons_zero]
    have := h.ack; omega
  have hurp : u16 o.tcpBytes 18 = o.urp := by
    rw [hbytes]; unfold u16
    simp only [List.cons_append, List.getD_cons_succ, List.getD_cons_zero]
    have := h.urp; omega
  have hwin : u16 o.tcpBytes 14 = o.window := by
    rw [hbytes]; unfold u16
    simp only [List.cons_append, List.getD_cons_succ, List.getD_cons_zero]
    have := h.window; omega
  have hoptb : (o.tcpBytes.take (20 + ob.length)).drop 20 = ob := by
    rw [hbytes]
    have := take_drop_mid [o.sport / 256 % 256, o.sport % 256, o.dport / 256 % 256, o.dport % 256,
       o.seq / 16777216 % 256, o.seq / 65536 % 256, o.seq / 256 % 256, o.seq % 256,
       o.ack / 16777216 % 256, o.ack / 65536 % 256, o.ack / 256 % 256, o.ack % 256,
       (5 + ob.length / 4) * 16 + o.flags / 256 % 2, o.flags % 256,
       o.window / 256 % 256, o.window % 256, 0, 0, o.urp / 256 % 256, o.urp % 256] ob o.payload (20 + ob.length) (by simp)
    simpa [List.append_assoc] using this
  have hpay : o.tcpBytes.drop (20 + ob.length) = o.payload := by
    rw [hbytes]
    have : ∀ (a : List Nat), a.length = 20 → (a ++ (ob ++ o.payload)).drop (20 + ob.length) = o.payload := by
      intro a ha
      rw [← List.append_assoc]
      exact List.drop_left' (by simp [ha])
    exact this _ (by simp)
  unfold tcpLayer
  simp only [hflags, hhl, hseq, hack, hurp, hwin, hoptb, hpay]
  subst hob
  unfold outOpts outIsSyn outTcpQuirks
  exact ⟨trivial, trivial, rfl, trivial, rfl, rfl⟩

theorem length4 (l : List Nat) (h : l.length = 4) : ∃ a b c d, l = [a, b, c, d] := by
  match l, h with
  | [a, b, c, d], _ => exact ⟨a, b, c, d, rfl⟩

theorem ipOptBytes_len (n : Nat) : (ipOptBytes n).length % 4 = 0 ∧ (n ≤ 40 → (ipOptBytes n).length ≤ 40) := by
  unfold ipOptBytes
  simp only [List.length_append, List.length_replicate]
  omega

theorem tcpBytes_length (o : OutPkt) :
    o.tcpBytes.length = 20 + (encodeOpts o.opts).length + o.payload.length := by
  unfold OutPkt.tcpBytes
  simp [beBytes16, beBytes32]
  omega

/-- **IPv4, byte level**: the datagram built from the output fields is well framed, and reading it back gives
    exactly the field-level signature -/
theorem decodeV4_toBytes (o : OutPkt) (h : o.Fits) (hv : o.ipVer = 4) (hs : o.src.length = 4) (hd : o.dst.length = 4) :
    ∃ p, decodeV4 o.toBytes = some p ∧ pktSigOfPkt p 0 = extractOut o := by
  obtain ⟨s0, s1, s2, s3, hsrc⟩ := length4 _ hs
  obtain ⟨d0, d1, d2, d3, hdst⟩ := length4 _ hd
  obtain ⟨io, hio⟩ : ∃ io, io = ipOptBytes o.ipOptLen := ⟨_, rfl⟩
  obtain ⟨t, ht⟩ : ∃ t, t = o.tcpBytes := ⟨_, rfl⟩
  have hio4 := (ipOptBytes_len o.ipOptLen).1
  have hio40 := (ipOptBytes_len o.ipOptLen).2 h.ipOpt
  rw [← hio] at hio4 hio40
  have htl := tcpBytes_length o
  rw [← ht] at htl
  have hob4 := encodeOpts_len4 o.opts
  have hob40 := h.opts
  have hpl := h.payload
  have hihl : (5 + io.length / 4) % 16 = 5 + io.length / 4 := by omega
  have hihl4 : (5 + io.length / 4) * 4 = 20 + io.length := by omega
  have hv6 : (o.ipVer == 6) = false := by rw [hv]; rfl
  have hbytes : o.toBytes =
      [4 * 16 + (5 + io.length / 4), o.tos,
       ((5 + io.length / 4) * 4 + t.length) / 256 % 256, ((5 + io.length / 4) * 4 + t.length) % 256,
       o.ipId / 256 % 256, o.ipId % 256, (o.ipFlags % 8) * 32 + o.ipFrag / 256 % 32, o.ipFrag % 256,
       o.ttl.toNat % 256, 6, 0, 0, s0, s1, s2, s3, d0, d1, d2, d3] ++ (io ++ t) := by
    unfold OutPkt.toBytes
    simp only [hv6, Bool.false_eq_true, ↓reduceIte, ← hio, ← ht, hihl, hsrc, hdst, beBytes16, List.cons_append,
      List.nil_append, List.append_assoc]
  have hlen : o.toBytes.length = 20 + io.length + t.length := by rw [hbytes]; simp; omega
  have hfrag := h.ipFrag
  have hfl := h.ipFlags
  have htot : u16 o.toBytes 2 = 20 + io.length + t.length := by
    rw [hbytes]; unfold u16
    simp only [List.cons_append, List.getD_cons_succ, List.getD_cons_zero]
    omega
  have hb0 : o.toBytes.getD 0 0 = 4 * 16 + (5 + io.length / 4) := by rw [hbytes]; rfl
  have hb1 : o.toBytes.getD 1 0 = o.tos := by rw [hbytes]; rfl
  have hb6 : o.toBytes.getD 6 0 = o.ipFlags * 32 := by
    rw [hbytes]; simp only [List.cons_append, List.getD_cons_succ, List.getD_cons_zero]; omega
  have hb7 : o.toBytes.getD 7 0 = 0 := by
    rw [hbytes]; simp only [List.cons_append, List.getD_cons_succ, List.getD_cons_zero]; omega
  have hb8 : o.toBytes.getD 8 0 = o.ttl.toNat := by
    rw [hbytes]; simp only [List.cons_append, List.getD_cons_succ, List.getD_cons_zero]
    have := h.ttl; omega
  have hb9 : o.toBytes.getD 9 0 = 6 := by rw [hbytes]; rfl
  have hid : u16 o.toBytes 4 = o.ipId := by
    rw [hbytes]; unfold u16
    simp only [List.cons_append, List.getD_cons_succ, List.getD_cons_zero]
    have := h.ipId; omega
  have hseg : (o.toBytes.take (20 + io.length + t.length)).drop (20 + io.length) = t := by
    rw [hbytes]
    have : ∀ a : List Nat, a.length = 20 →
        ((a ++ (io ++ t)).take (20 + io.length + t.length)).drop (20 + io.length) = t := by
      intro a ha
      rw [List.take_of_length_le (by simp [ha]; omega), ← List.append_assoc]
      exact List.drop_left' (by simp [ha])
    exact this _ (by simp)
  obtain ⟨g1, g2, g3, g4, g5, g6⟩ := tcpLayer_tcpBytes o h
  rw [← ht] at g1 g2 g3 g4 g5 g6
  have ht12 : t.getD 12 0 / 16 = 5 + (encodeOpts o.opts).length / 4 := by
    have : (tcpLayer t).hdrLen = (t.getD 12 0 / 16) * 4 := by unfold tcpLayer; rfl
    rw [this] at g5
    omega
  refine ⟨{ ip := ipv4Layer o.toBytes, tcp := tcpLayer t }, ?_, ?_⟩
  · unfold decodeV4
    simp only [hb0, hb6, hb7, hb9, htot, hlen]
    have e1 : (4 * 16 + (5 + io.length / 4)) / 16 = 4 := by omega
    have e2 : (4 * 16 + (5 + io.length / 4)) % 16 = 5 + io.length / 4 := by omega
    have e3 : o.ipFlags * 32 % 32 * 256 + 0 = 0 := by omega
    simp only [e1, e2, e3, hihl4, hseg, ht12]
    have c1 : ¬ (20 + io.length + t.length < 20 ∨ (4 : Nat) ≠ 4 ∨ 5 + io.length / 4 < 5 ∨ (6 : Nat) ≠ 6 ∨ (0 : Nat) ≠ 0) := by omega
    have c2 : ¬ (20 + io.length + t.length < 20 + io.length + 20 ∨ 20 + io.length + t.length < 20 + io.length + t.length) := by omega
    have c3 : ¬ (5 + (encodeOpts o.opts).length / 4 < 5 ∨ t.length < (5 + (encodeOpts o.opts).length / 4) * 4) := by omega
    simp only [c1, c2, c3, ↓reduceIte]
  · have hipq : (ipv4Layer o.toBytes).quirks = outIpQuirks o := by
      unfold ipv4Layer outIpQuirks
      simp only [hb1, hb6, hid, hv6, Bool.false_eq_true, ↓reduceIte]
      have e : o.ipFlags * 32 / 32 = o.ipFlags := by omega
      simp only [e, bit]
    have hiph : (ipv4Layer o.toBytes).hdrLen = 20 + io.length := by
      unfold ipv4Layer; simp only [hb0]; omega
    have hipo : (ipv4Layer o.toBytes).olen = io.length := by
      unfold ipv4Layer; simp only [hb0]; omega
    have hipt : (ipv4Layer o.toBytes).ttl = o.ttl.toNat := by unfold ipv4Layer; simp only [hb8]
    have hipv : (ipv4Layer o.toBytes).version = 4 := by unfold ipv4Layer; simp only [hb0]; omega
    unfold pktSigOfPkt extractOut
    simp only [hipq, hiph, hipo, hipt, hipv, g2, g3, g4, g5, g6, hv6, hv, Bool.false_eq_true, ↓reduceIte, ← hio, ite_self]
    have e46 : ((4 : Nat) == 6) = false := rfl
    simp only [e46, Bool.false_eq_true, ↓reduceIte, Nat.add_assoc]

/-- **IPv6, byte level** -/
theorem decodeV6_toBytes (o : OutPkt) (h : o.Fits) (hv : o.ipVer = 6) (hs : o.src.length = 16) (hd : o.dst.length = 16) :
    ∃ p, decodeV6 o.toBytes = some p ∧ pktSigOfPkt p 0 = extractOut o := by
  obtain ⟨t, ht⟩ : ∃ t, t = o.tcpBytes := ⟨_, rfl⟩
  have htl := tcpBytes_length o
  rw [← ht] at htl
  have hob4 := encodeOpts_len4 o.opts
  have hob40 := h.opts
  have hpl := h.payload
  have hv6 : (o.ipVer == 6) = true := by rw [hv]; rfl
  have htos := h.tos
  have hflr := h.fl
  have hbytes : o.toBytes =
      [6 * 16 + o.tos / 16, (o.tos % 16) * 16 + o.fl / 65536 % 16, o.fl / 256 % 256, o.fl % 256,
       t.length / 256 % 256, t.length % 256, 6, o.ttl.toNat % 256] ++ (o.src ++ o.dst ++ t) := by
    unfold OutPkt.toBytes
    simp only [hv6, ↓reduceIte, ← ht, beBytes16, List.cons_append, List.nil_append, List.append_assoc]
  have hlen : o.toBytes.length = 40 + t.length := by rw [hbytes]; simp [hs, hd]; omega
  have hplen : u16 o.toBytes 4 = t.length := by
    rw [hbytes]; unfold u16
    simp only [List.cons_append, List.getD_cons_succ, List.getD_cons_zero]
    omega
  have hb0 : o.toBytes.getD 0 0 = 6 * 16 + o.tos / 16 := by rw [hbytes]; rfl
  have hb1 : o.toBytes.getD 1 0 = (o.tos % 16) * 16 + o.fl / 65536 % 16 := by rw [hbytes]; rfl
  have hb2 : o.toBytes.getD 2 0 = o.fl / 256 % 256 := by rw [hbytes]; rfl
  have hb3 : o.toBytes.getD 3 0 = o.fl % 256 := by rw [hbytes]; rfl
  have hb6 : o.toBytes.getD 6 0 = 6 := by rw [hbytes]; rfl
  have hb7 : o.toBytes.getD 7 0 = o.ttl.toNat := by
    rw [hbytes]; simp only [List.cons_append, List.getD_cons_succ, List.getD_cons_zero]
    have := h.ttl; omega
  have hseg : (o.toBytes.take (40 + t.length)).drop 40 = t := by
    rw [hbytes]
    have : ∀ a : List Nat, a.length = 40 → ((a ++ t).take (40 + t.length)).drop 40 = t := by
      intro a ha
      rw [List.take_of_length_le (by simp [ha])]
      exact List.drop_left' ha
    have := this ([6 * 16 + o.tos / 16, (o.tos % 16) * 16 + o.fl / 65536 % 16, o.fl / 256 % 256, o.fl % 256,
       t.length / 256 % 256, t.length % 256, 6, o.ttl.toNat % 256] ++ (o.src ++ o.dst)) (by simp [hs, hd])
    simpa [List.append_assoc] using this
  obtain ⟨g1, g2, g3, g4, g5, g6⟩ := tcpLayer_tcpBytes o h
  rw [← ht] at g1 g2 g3 g4 g5 g6
  have ht12 : t.getD 12 0 / 16 = 5 + (encodeOpts o.opts).length / 4 := by
    have : (tcpLayer t).hdrLen = (t.getD 12 0 / 16) * 4 := by unfold tcpLayer; rfl
    rw [this] at g5
    omega
  refine ⟨{ ip := ipv6Layer o.toBytes, tcp := tcpLayer t }, ?_, ?_⟩
  · unfold decodeV6
    simp only [hb0, hb6, hplen, hlen, hseg, ht12]
    have e1 : (6 * 16 + o.tos / 16) / 16 = 6 := by omega
    simp only [e1]
    have c1 : ¬ (40 + t.length < 40 ∨ (6 : Nat) ≠ 6 ∨ (6 : Nat) ≠ 6) := by omega
    have c2 : ¬ (t.length < 20 ∨ 40 + t.length < 40 + t.length) := by omega
    have c3 : ¬ (5 + (encodeOpts o.opts).length / 4 < 5 ∨ t.length < (5 + (encodeOpts o.opts).length / 4) * 4) := by omega
    simp only [c1, c2, c3, ↓reduceIte]
  · have etc : (6 * 16 + o.tos / 16) % 16 * 16 + ((o.tos % 16) * 16 + o.fl / 65536 % 16) / 16 = o.tos := by omega
    have efl : (((o.tos % 16) * 16 + o.fl / 65536 % 16) % 16 * 256 + o.fl / 256 % 256) * 256 + o.fl % 256 = o.fl := by omega
    have hipq : (ipv6Layer o.toBytes).quirks = outIpQuirks o := by
      unfold ipv6Layer outIpQuirks
      simp only [hb0, hb1, hb2, hb3, etc, efl, hv6, ↓reduceIte]
    have hipt : (ipv6Layer o.toBytes).ttl = o.ttl.toNat := by unfold ipv6Layer; simp only [hb7]
    have hipv : (ipv6Layer o.toBytes).version = 6 := by unfold ipv6Layer; simp only [hb0]; omega
    have hiph : (ipv6Layer o.toBytes).hdrLen = 40 := by unfold ipv6Layer; rfl
    have hipo : (ipv6Layer o.toBytes).olen = 0 := by unfold ipv6Layer; rfl
    unfold pktSigOfPkt extractOut
    simp only [hipq, hiph, hipo, hipt, hipv, g2, g3, g4, g5, g6, hv6, hv, ↓reduceIte, ite_self]
    have e66 : ((6 : Nat) == 6) = true := rfl
    simp only [e66, ↓reduceIte, Nat.add_assoc]
    rfl

/-! ### the packet `impersonate_tcp` returns fits its header fields -/

/-- the base packet's own fields fit (it was dissected from, or can be built into, a datagram) -/
structure Base.Fits (b : Base) : Prop where
  addr4 : b.ipVer = 4 → b.src.length = 4 ∧ b.dst.length = 4
  addr6 : b.ipVer = 6 → b.src.length = 16 ∧ b.dst.length = 16
  ipId : b.ipId < 65536
  sport : b.sport < 65536
  dport : b.dport < 65536
  seq : b.seq < 4294967296
  ack : b.ack < 4294967296
  window : b.window < 65536
  payload : b.payload.length ≤ 59000

theorem impTcp_fits (s : Sig) (b : Base) (hops : Int) (mtu : Nat) (up : Option Int) (c : Choices) (o : OutPkt)
    (hadm : Admissible b) (hsup : Supported s b) (hbf : b.Fits) (hc : choicesOk s b up c = true)
    (hh0 : 0 ≤ hops) (hh1 : hops < s.ttl) (hr : RunFacts s b hops mtu up c o) : o.Fits := by
  obtain ⟨win, _, ho⟩ := impTcp_ok s b hops mtu up c o hr.run
  have hoptLen := hr.optLen
  have hwfacts := hr.window
  have hc' := hc
  unfold choicesOk at hc'
  simp only [Bool.and_eq_true] at hc'
  obtain ⟨⟨⟨⟨⟨⟨⟨c1, c2⟩, c3⟩, c4⟩, c5⟩, c7⟩, c8⟩, _⟩ := hc'
  have hwin : o.window < 65536 := by
    cases hw : s.wtype with
    | normal => rw [hwfacts.1 hw]; exact hsup.winOk.1 hw
    | mod =>
      rw [hwfacts.2.1 hw]
      have h2 := hsup.winOk.2.1 hw
      simp only [hw, bne_self_eq_false, Bool.false_or, decide_eq_true_eq] at c7
      have : s.wsize * c.winMul ≤ s.wsize * (65535 / s.wsize) := Nat.mul_le_mul_left _ c7.2
      have := Nat.mul_div_le 65535 s.wsize
      omega
    | mss =>
      obtain ⟨e, v, hv⟩ := hwfacts.2.2.1 hw
      rw [e]
      rcases lastMssOf_mem (bodyOpts s b up c) 0 with hm | ⟨_, hno⟩
      · obtain ⟨k, c', _, hio, hok⟩ := hr.facts _ hm
        have := ((plain_option_facts s b up hsup _ k c' hio hok).1 _ rfl).2 hw
        omega
      · exact absurd hv (hno v)
    | mtu => exact absurd hw hsup.winOk.2.2.2
    | any => rw [hwfacts.2.2.2 hw]; exact hbf.window
  subst ho
  have hflags := (impFlagsB_facts b.flags hadm.flagsLt (s.quirks .nzAck) (s.quirks .zeroAck) (s.quirks .nzUrg)
    (s.quirks .urg) (s.quirks .push)).1
  have hipf := (impIpFlagsB_facts b.ipFlags hadm.ipFlagsLt (s.quirks .df) (s.quirks .nzMbz)).1
  refine { tos := ?_, ipId := ?_, ipFlags := ?_, ipFrag := ?_, ttl := ?_, fl := ?_, ipOpt := ?_, sport := hbf.sport,
           dport := hbf.dport, seq := ?_, ack := ?_, flags := hflags, window := hwin, urp := ?_, opts := hoptLen,
           payload := ?_ }
  · simp only
    cases he : s.quirks .ecn with
    | false => simp
    | true => simp only [he, Bool.not_true, Bool.false_or, decide_eq_true_eq] at c2; simp; omega
  · simp only
    split
    · omega
    · rename_i h6
      have h6' : (b.ipVer == 6) = false := by simpa using h6
      simp only [h6', Bool.false_eq_true, ↓reduceIte] at c1
      have hb := hbf.ipId
      have key : b.ipId = 0 → (s.quirks .df = true ∧ s.quirks .nzId = true) ∨ (s.quirks .df = false ∧ s.quirks .zeroId = false) →
          c.id < 65536 := by
        intro h0 hq
        simp only [h0, bne_self_eq_false, Bool.false_or, Bool.or_eq_true, Bool.and_eq_true, Bool.not_eq_true',
          decide_eq_true_eq] at c1
        rcases hq with ⟨q1, q2⟩ | ⟨q1, q2⟩ <;> simp [q1, q2] at c1 <;> omega
      unfold impIpId
      by_cases h0 : b.ipId = 0
      · have hb0 : (b.ipId == 0) = true := by simpa using h0
        simp only [hb0, ↓reduceIte]
        cases hdf : s.quirks .df <;> cases hnz : s.quirks .nzId <;> cases hz : s.quirks .zeroId <;> simp <;>
          first | omega | exact key h0 (by simp [hdf, hnz, hz])
      · have hb0 : (b.ipId == 0) = false := by simpa using h0
        simp only [hb0]
        cases s.quirks .df <;> cases s.quirks .nzId <;> cases s.quirks .zeroId <;> simp <;> omega
  · simp only
    split
    · omega
    · exact hipf
  · simp only
    split
    · rfl
    · exact hadm.noFrag
  · simp only; have := hsup.ttlOk; omega
  · simp only
    split
    · rename_i h6
      simp only [h6, ↓reduceIte] at c1
      cases hf : s.quirks .flow with
      | false => simp
      | true => simp only [hf, Bool.not_true, Bool.false_or, decide_eq_true_eq] at c1; simp; omega
    · omega
  · simp only
    split
    · omega
    · exact hsup.sizeOk.1
  · simp only
    have := hbf.seq
    unfold impSeq
    cases hz : s.quirks .zeroSeq with
    | true => simp
    | false =>
      simp only [hz, Bool.false_or, Bool.or_eq_true, bne_iff_ne, ne_eq, decide_eq_true_eq] at c3
      by_cases hb0 : b.seq = 0
      · rcases c3 with h | h
        · exact absurd hb0 h
        · simp [hb0]; omega
      · have : (b.seq == 0) = false := by simpa using hb0
        simp [this]; omega
  · simp only
    have := hbf.ack
    unfold impAck
    cases hn : s.quirks .nzAck with
    | true =>
      simp only [hn, Bool.not_true, Bool.false_or, Bool.or_eq_true, bne_iff_ne, ne_eq, decide_eq_true_eq] at c4
      by_cases hb0 : b.ack = 0
      · rcases c4 with h | h
        · exact absurd hb0 h
        · simp [hb0]; omega
      · have : (b.ack == 0) = false := by simpa using hb0
        simp [this]; omega
    | false =>
      cases hz : s.quirks .zeroAck <;> simp <;> omega
  · simp only
    unfold impUrp
    rw [hadm.urp0]
    cases hn : s.quirks .nzUrg with
    | true =>
      simp only [hn, Bool.not_true, Bool.false_or, hadm.urp0, bne_self_eq_false, decide_eq_true_eq] at c5
      simp; omega
    | false => simp
  · simp only
    have := hbf.payload
    unfold impPayload
    cases hp : s.payClass with
    | none => simp; omega
    | some p =>
      cases p with
      | false => simp
      | true =>
        simp only
        cases he : b.payload.isEmpty with
        | false => simp; omega
        | true =>
          simp only [hp, bne_self_eq_false, Bool.false_or, he, Bool.not_true, decide_eq_true_eq] at c8
          simp; omega

/-- **C05, down to the bytes**: under the hypotheses of `imp_exact_partial` and for a base packet whose own fields fit
    a datagram, the packet `impersonate_tcp` returns, *serialised* (`OutPkt.toBytes`) and *dissected again* by the
    verified extraction (`decodeV4` / `decodeV6`, `pktSigOfPkt` - the C03 model of what pyp0f reads off the wire),
    is well framed and matches the requested signature exactly at TTL distance `extra_hops`. -/
theorem imp_exact_bytes (s : Sig) (b : Base) (hops d : Int) (mtu : Nat) (up : Option Int) (c : Choices)
    (hadm : Admissible b) (hsup : Supported s b) (hbf : b.Fits) (hc : choicesOk s b up c = true)
    (hh0 : 0 ≤ hops) (hh1 : hops < s.ttl) (hh2 : hops ≤ d) :
    ∃ o p, impTcp s b hops mtu up c = .ok o ∧
      (if b.ipVer = 4 then decodeV4 o.toBytes else decodeV6 o.toBytes) = some p ∧
      tcpMatchPkt s (pktSigOfPkt p 0) d = some .exact ∧
      (s.ttl : Int) - ((pktSigOfPkt p 0).ttl : Int) = hops := by
  obtain ⟨o, hrun, hmatch, hdist⟩ := imp_exact_partial s b hops d mtu up c hadm hsup hc hh0 hh1 hh2
  obtain ⟨o', hr⟩ := run_facts s b hops mtu up c hsup hc
  have : o' = o := by have := hr.run; rw [hrun] at this; exact (Except.ok.inj this).symm
  subst this
  have hfits := impTcp_fits s b hops mtu up c o' hadm hsup hbf hc hh0 hh1 hr
  obtain ⟨win, _, ho⟩ := impTcp_ok s b hops mtu up c o' hrun
  have hver : o'.ipVer = b.ipVer := by rw [ho]
  have hsrc : o'.src = b.src := by rw [ho]
  have hdst : o'.dst = b.dst := by rw [ho]
  rcases hadm.ver with h4 | h6
  · obtain ⟨p, hp, hsig⟩ := decodeV4_toBytes o' hfits (by rw [hver, h4]) (by rw [hsrc]; exact (hbf.addr4 h4).1)
      (by rw [hdst]; exact (hbf.addr4 h4).2)
    refine ⟨o', p, hrun, by simp only [h4, ↓reduceIte]; exact hp, ?_, ?_⟩
    · rw [hsig]; exact hmatch
    · rw [hsig]; exact hdist
  · obtain ⟨p, hp, hsig⟩ := decodeV6_toBytes o' hfits (by rw [hver, h6]) (by rw [hsrc]; exact (hbf.addr6 h6).1)
      (by rw [hdst]; exact (hbf.addr6 h6).2)
    have hne : ¬ (b.ipVer = 4) := by omega
    refine ⟨o', p, hrun, by simp only [hne, ↓reduceIte]; exact hp, ?_, ?_⟩
    · rw [hsig]; exact hmatch
    · rw [hsig]; exact hdist

end P0f
