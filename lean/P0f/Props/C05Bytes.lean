import P0f.Props.C05
import P0f.Props.C18Match
/-
  C05 / C14, byte level: the packet `impersonate_tcp` builds, serialised the way Scapy serialises it
  (`OutPkt.toBytes`, checksums zero) and read back by the verified extraction (`decodeV4` / `decodeV6`,
  `pktSigOfPkt`), gives exactly the field-level signature `extractOut` the C05 theorem is about.
-/
namespace P0f

/-- the fields fit the header fields they are written into -/
structure OutPkt.Fits (o : OutPkt) : Prop where
  tos : o.tos < 256
  ipId : o.ipId < 65536
  ipFlags : o.ipFlags < 8
  ipFrag : o.ipFrag = 0
  ttl : 0 ≤ o.ttl ∧ o.ttl ≤ 255
  fl : o.fl < 1048576
  ipOpt : o.ipOptLen ≤ 40
  sport : o.sport < 65536
  dport : o.dport < 65536
  seq : o.seq < 4294967296
  ack : o.ack < 4294967296
  flags : o.flags < 512
  window : o.window < 65536
  urp : o.urp < 65536
  opts : (encodeOpts o.opts).length ≤ 40
  payload : o.payload.length ≤ 60000

theorem encodeOpts_len4 (l : List SOpt) : (encodeOpts l).length % 4 = 0 := by
  unfold encodeOpts
  simp only [List.length_append, List.length_replicate]
  omega

theorem u16_beBytes16 (v : Nat) (h : v < 65536) (pre rest : List Nat) :
    u16 (pre ++ beBytes16 v ++ rest) pre.length = v := by
  unfold u16 beBytes16
  simp [List.getD_eq_getElem?_getD, List.getElem?_append_right]
  omega

theorem take_drop_mid (a b c : List Nat) (n : Nat) (hn : n = a.length + b.length) :
    ((a ++ b ++ c).take n).drop a.length = b := by
  subst hn
  rw [List.take_left' (l₁ := a ++ b) (by simp), List.drop_left' rfl]

/-- the TCP segment: every field `TCP.from_packet` reads is the field that was written -/
theorem tcpLayer_tcpBytes (o : OutPkt) (h : o.Fits) :
    (tcpLayer o.tcpBytes).type = tcpType o.flags ∧
    (tcpLayer o.tcpBytes).window = o.window ∧
    (tcpLayer o.tcpBytes).opts = outOpts o ∧
    (tcpLayer o.tcpBytes).payload = o.payload ∧
    (tcpLayer o.tcpBytes).hdrLen = 20 + (encodeOpts o.opts).length ∧
    (tcpLayer o.tcpBytes).quirks = (outTcpQuirks o).union (outOpts o).quirks := by
  have hl4 := encodeOpts_len4 o.opts
  have hlo := h.opts
  obtain ⟨ob, hob⟩ : ∃ ob, ob = encodeOpts o.opts := ⟨_, rfl⟩
  rw [← hob] at hl4 hlo
  have hf := h.flags
  have hdofs : (5 + ob.length / 4) % 16 = 5 + ob.length / 4 := by omega
  -- the segment as explicit header cells followed by options and payload
  have hbytes : o.tcpBytes =
      [o.sport / 256 % 256, o.sport % 256, o.dport / 256 % 256, o.dport % 256,
       o.seq / 16777216 % 256, o.seq / 65536 % 256, o.seq / 256 % 256, o.seq % 256,
       o.ack / 16777216 % 256, o.ack / 65536 % 256, o.ack / 256 % 256, o.ack % 256,
       (5 + ob.length / 4) * 16 + o.flags / 256 % 2, o.flags % 256,
       o.window / 256 % 256, o.window % 256, 0, 0, o.urp / 256 % 256, o.urp % 256] ++ (ob ++ o.payload) := by
    unfold OutPkt.tcpBytes
    simp only [← hob, hdofs, beBytes16, beBytes32, List.cons_append, List.nil_append, List.append_assoc]
  have hflags : tcpFlags9 o.tcpBytes = o.flags := by
    rw [hbytes]; unfold tcpFlags9
    simp only [List.cons_append, List.getD_cons_succ, List.getD_cons_zero]
    omega
  have hhl : (o.tcpBytes.getD 12 0 / 16) * 4 = 20 + ob.length := by
    rw [hbytes]
    simp only [List.cons_append, List.getD_cons_succ, List.getD_cons_zero]
    omega
  have hseq : u32 o.tcpBytes 4 = o.seq := by
    rw [hbytes]; unfold u32
    simp only [List.cons_append, List.getD_cons_succ, List.getD_cons_zero]
    have := h.seq; omega
  have hack : u32 o.tcpBytes 8 = o.ack := by
    rw [hbytes]; unfold u32
    simp only [List.cons_append, List.getD_cons_succ, List.getD_cons_zero]
    have := h.ack; omega
  have hurp : u16 o.tcpBytes 18 = o.urp := by
    rw [hbytes]; unfold u16
    simp only [List.cons_append, List.getD_cons_succ, List.getD_cons_zero]
    have := h.urp; omega
  have hwin : u16 o.tcpBytes 14 = o.window := by
    rw [hbytes]; unfold u16
    simp only [List.cons_append, List.getD_cons_succ, List.getD_cons_zero]
    have := h.window; omega
  have hoptb : (o.tcpBytes.take (20 + ob.length)).drop 20 = ob := by
    rw [hbytes]
    have := take_drop_mid [o.sport / 256 % 256, o.sport % 256, o.dport / 256 % 256, o.dport % 256,
       o.seq / 16777216 % 256, o.seq / 65536 % 256, o.seq / 256 % 256, o.seq % 256,
       o.ack / 16777216 % 256, o.ack / 65536 % 256, o.ack / 256 % 256, o.ack % 256,
       (5 + ob.length / 4) * 16 + o.flags / 256 % 2, o.flags % 256,
       o.window / 256 % 256, o.window % 256, 0, 0, o.urp / 256 % 256, o.urp % 256] ob o.payload (20 + ob.length) (by simp)
    simpa [List.append_assoc] using this
  have hpay : o.tcpBytes.drop (20 + ob.length) = o.payload := by
    rw [hbytes]
    have : ∀ (a : List Nat), a.length = 20 → (a ++ (ob ++ o.payload)).drop (20 + ob.length) = o.payload := by
      intro a ha
      rw [← List.append_assoc]
      exact List.drop_left' (by simp [ha])
    exact this _ (by simp)
  unfold tcpLayer
  simp only [hflags, hhl, hseq, hack, hurp, hwin, hoptb, hpay]
  subst hob
  unfold outOpts outIsSyn outTcpQuirks
  exact ⟨trivial, trivial, rfl, trivial, rfl, rfl⟩

theorem length4 (l : List Nat) (h : l.length = 4) : ∃ a b c d, l = [a, b, c, d] := by
  match l, h with
  | [a, b, c, d], _ => exact ⟨a, b, c, d, rfl⟩

theorem ipOptBytes_len (n : Nat) : (ipOptBytes n).length % 4 = 0 ∧ (n ≤ 40 → (ipOptBytes n).length ≤ 40) := by
  unfold ipOptBytes
  simp only [List.length_append, List.length_replicate]
  omega

theorem tcpBytes_length (o : OutPkt) :
    o.tcpBytes.length = 20 + (encodeOpts o.opts).length + o.payload.length := by
  unfold OutPkt.tcpBytes
  simp [beBytes16, beBytes32]
  omega

/-- **IPv4, byte level**: the datagram built from the output fields is well framed, and reading it back gives
    exactly the field-level signature -/
theorem decodeV4_toBytes (o : OutPkt) (h : o.Fits) (hv : o.ipVer = 4) (hs : o.src.length = 4) (hd : o.dst.length = 4) :
    ∃ p, decodeV4 o.toBytes = some p ∧ pktSigOfPkt p 0 = extractOut o := by
  obtain ⟨s0, s1, s2, s3, hsrc⟩ := length4 _ hs
  obtain ⟨d0, d1, d2, d3, hdst⟩ := length4 _ hd
  obtain ⟨io, hio⟩ : ∃ io, io = ipOptBytes o.ipOptLen := ⟨_, rfl⟩
  obtain ⟨t, ht⟩ : ∃ t, t = o.tcpBytes := ⟨_, rfl⟩
  have hio4 := (ipOptBytes_len o.ipOptLen).1
  have hio40 := (ipOptBytes_len o.ipOptLen).2 h.ipOpt
  rw [← hio] at hio4 hio40
  have htl := tcpBytes_length o
  rw [← ht] at htl
  have hob4 := encodeOpts_len4 o.opts
  have hob40 := h.opts
  have hpl := h.payload
  have hihl : (5 + io.length / 4) % 16 = 5 + io.length / 4 := by omega
  have hihl4 : (5 + io.length / 4) * 4 = 20 + io.length := by omega
  have hv6 : (o.ipVer == 6) = false := by rw [hv]; rfl
  have hbytes : o.toBytes =
      [4 * 16 + (5 + io.length / 4), o.tos,
       ((5 + io.length / 4) * 4 + t.length) / 256 % 256, ((5 + io.length / 4) * 4 + t.length) % 256,
       o.ipId / 256 % 256, o.ipId % 256, (o.ipFlags % 8) * 32 + o.ipFrag / 256 % 32, o.ipFrag % 256,
       o.ttl.toNat % 256, 6, 0, 0, s0, s1, s2, s3, d0, d1, d2, d3] ++ (io ++ t) := by
    unfold OutPkt.toBytes
    simp only [hv6, Bool.false_eq_true, ↓reduceIte, ← hio, ← ht, hihl, hsrc, hdst, beBytes16, List.cons_append,
      List.nil_append, List.append_assoc]
  have hlen : o.toBytes.length = 20 + io.length + t.length := by rw [hbytes]; simp; omega
  have hfrag := h.ipFrag
  have hfl := h.ipFlags
  have htot : u16 o.toBytes 2 = 20 + io.length + t.length := by
    rw [hbytes]; unfold u16
    simp only [List.cons_append, List.getD_cons_succ, List.getD_cons_zero]
    omega
  have hb0 : o.toBytes.getD 0 0 = 4 * 16 + (5 + io.length / 4) := by rw [hbytes]; rfl
  have hb1 : o.toBytes.getD 1 0 = o.tos := by rw [hbytes]; rfl
  have hb6 : o.toBytes.getD 6 0 = o.ipFlags * 32 := by
    rw [hbytes]; simp only [List.cons_append, List.getD_cons_succ, List.getD_cons_zero]; omega
  have hb7 : o.toBytes.getD 7 0 = 0 := by
    rw [hbytes]; simp only [List.cons_append, List.getD_cons_succ, List.getD_cons_zero]; omega
  have hb8 : o.toBytes.getD 8 0 = o.ttl.toNat := by
    rw [hbytes]; simp only [List.cons_append, List.getD_cons_succ, List.getD_cons_zero]
    have := h.ttl; omega
  have hb9 : o.toBytes.getD 9 0 = 6 := by rw [hbytes]; rfl
  have hid : u16 o.toBytes 4 = o.ipId := by
    rw [hbytes]; unfold u16
    simp only [List.cons_append, List.getD_cons_succ, List.getD_cons_zero]
    have := h.ipId; omega
  have hseg : (o.toBytes.take (20 + io.length + t.length)).drop (20 + io.length) = t := by
    rw [hbytes]
    have : ∀ a : List Nat, a.length = 20 →
        ((a ++ (io ++ t)).take (20 + io.length + t.length)).drop (20 + io.length) = t := by
      intro a ha
      rw [List.take_of_length_le (by simp [ha]; omega), ← List.append_assoc]
      exact List.drop_left' (by simp [ha])
    exact this _ (by simp)
  obtain ⟨g1, g2, g3, g4, g5, g6⟩ := tcpLayer_tcpBytes o h
  rw [← ht] at g1 g2 g3 g4 g5 g6
  have ht12 : t.getD 12 0 / 16 = 5 + (encodeOpts o.opts).length / 4 := by
    have : (tcpLayer t).hdrLen = (t.getD 12 0 / 16) * 4 := by unfold tcpLayer; rfl
    rw [this] at g5
    omega
  refine ⟨{ ip := ipv4Layer o.toBytes, tcp := tcpLayer t }, ?_, ?_⟩
  · unfold decodeV4
    simp only [hb0, hb6, hb7, hb9, htot, hlen]
    have e1 : (4 * 16 + (5 + io.length / 4)) / 16 = 4 := by omega
    have e2 : (4 * 16 + (5 + io.length / 4)) % 16 = 5 + io.length / 4 := by omega
    have e3 : o.ipFlags * 32 % 32 * 256 + 0 = 0 := by omega
    simp only [e1, e2, e3, hihl4, hseg, ht12]
    have c1 : ¬ (20 + io.length + t.length < 20 ∨ (4 : Nat) ≠ 4 ∨ 5 + io.length / 4 < 5 ∨ (6 : Nat) ≠ 6 ∨ (0 : Nat) ≠ 0) := by omega
    have c2 : ¬ (20 + io.length + t.length < 20 + io.length + 20 ∨ 20 + io.length + t.length < 20 + io.length + t.length) := by omega
    have c3 : ¬ (5 + (encodeOpts o.opts).length / 4 < 5 ∨ t.length < (5 + (encodeOpts o.opts).length / 4) * 4) := by omega
    simp only [c1, c2, c3, ↓reduceIte]
  · have hipq : (ipv4Layer o.toBytes).quirks = outIpQuirks o := by
      unfold ipv4Layer outIpQuirks
      simp only [hb1, hb6, hid, hv6, Bool.false_eq_true, ↓reduceIte]
      have e : o.ipFlags * 32 / 32 = o.ipFlags := by omega
      simp only [e, bit]
    have hiph : (ipv4Layer o.toBytes).hdrLen = 20 + io.length := by
      unfold ipv4Layer; simp only [hb0]; omega
    have hipo : (ipv4Layer o.toBytes).olen = io.length := by
      unfold ipv4Layer; simp only [hb0]; omega
    have hipt : (ipv4Layer o.toBytes).ttl = o.ttl.toNat := by unfold ipv4Layer; simp only [hb8]
    have hipv : (ipv4Layer o.toBytes).version = 4 := by unfold ipv4Layer; simp only [hb0]; omega
    unfold pktSigOfPkt extractOut
    simp only [hipq, hiph, hipo, hipt, hipv, g2, g3, g4, g5, g6, hv6, hv, Bool.false_eq_true, ↓reduceIte, ← hio, ite_self]
    have e46 : ((4 : Nat) == 6) = false := rfl
    simp only [e46, Bool.false_eq_true, ↓reduceIte, Nat.add_assoc]

/-- **IPv6, byte level** -/
theorem decodeV6_toBytes (o : OutPkt) (h : o.Fits) (hv : o.ipVer = 6) (hs : o.src.length = 16) (hd : o.dst.length = 16) :
    ∃ p, decodeV6 o.toBytes = some p ∧ pktSigOfPkt p 0 = extractOut o := by
  obtain ⟨t, ht⟩ : ∃ t, t = o.tcpBytes := ⟨_, rfl⟩
  have htl := tcpBytes_length o
  rw [← ht] at htl
  have hob4 := encodeOpts_len4 o.opts
  have hob40 := h.opts
  have hpl := h.payload
  have hv6 : (o.ipVer == 6) = true := by rw [hv]; rfl
  have htos := h.tos
  have hflr := h.fl
  have hbytes : o.toBytes =
      [6 * 16 + o.tos / 16, (o.tos % 16) * 16 + o.fl / 65536 % 16, o.fl / 256 % 256, o.fl % 256,
       t.length / 256 % 256, t.length % 256, 6, o.ttl.toNat % 256] ++ (o.src ++ o.dst ++ t) := by
    unfold OutPkt.toBytes
    simp only [hv6, ↓reduceIte, ← ht, beBytes16, List.cons_append, List.nil_append, List.append_assoc]
  have hlen : o.toBytes.length = 40 + t.length := by rw [hbytes]; simp [hs, hd]; omega
  have hplen : u16 o.toBytes 4 = t.length := by
    rw [hbytes]; unfold u16
    simp only [List.cons_append, List.getD_cons_succ, List.getD_cons_zero]
    omega
  have hb0 : o.toBytes.getD 0 0 = 6 * 16 + o.tos / 16 := by rw [hbytes]; rfl
  have hb1 : o.toBytes.getD 1 0 = (o.tos % 16) * 16 + o.fl / 65536 % 16 := by rw [hbytes]; rfl
  have hb2 : o.toBytes.getD 2 0 = o.fl / 256 % 256 := by rw [hbytes]; rfl
  have hb3 : o.toBytes.getD 3 0 = o.fl % 256 := by rw [hbytes]; rfl
  have hb6 : o.toBytes.getD 6 0 = 6 := by rw [hbytes]; rfl
  have hb7 : o.toBytes.getD 7 0 = o.ttl.toNat := by
    rw [hbytes]; simp only [List.cons_append, List.getD_cons_succ, List.getD_cons_zero]
    have := h.ttl; omega
  have hseg : (o.toBytes.take (40 + t.length)).drop 40 = t := by
    rw [hbytes]
    have : ∀ a : List Nat, a.length = 40 → ((a ++ t).take (40 + t.length)).drop 40 = t := by
      intro a ha
      rw [List.take_of_length_le (by simp [ha])]
      exact List.drop_left' ha
    have := this ([6 * 16 + o.tos / 16, (o.tos % 16) * 16 + o.fl / 65536 % 16, o.fl / 256 % 256, o.fl % 256,
       t.length / 256 % 256, t.length % 256, 6, o.ttl.toNat % 256] ++ (o.src ++ o.dst)) (by simp [hs, hd])
    simpa [List.append_assoc] using this
  obtain ⟨g1, g2, g3, g4, g5, g6⟩ := tcpLayer_tcpBytes o h
  rw [← ht] at g1 g2 g3 g4 g5 g6
  have ht12 : t.getD 12 0 / 16 = 5 + (encodeOpts o.opts).length / 4 := by
    have : (tcpLayer t).hdrLen = (t.getD 12 0 / 16) * 4 := by unfold tcpLayer; rfl
    rw [this] at g5
    omega
  refine ⟨{ ip := ipv6Layer o.toBytes, tcp := tcpLayer t }, ?_, ?_⟩
  · unfold decodeV6
    simp only [hb0, hb6, hplen, hlen, hseg, ht12]
    have e1 : (6 * 16 + o.tos / 16) / 16 = 6 := by omega
    simp only [e1]
    have c1 : ¬ (40 + t.length < 40 ∨ (6 : Nat) ≠ 6 ∨ (6 : Nat) ≠ 6) := by omega
    have c2 : ¬ (t.length < 20 ∨ 40 + t.length < 40 + t.length) := by omega
    have c3 : ¬ (5 + (encodeOpts o.opts).length / 4 < 5 ∨ t.length < (5 + (encodeOpts o.opts).length / 4) * 4) := by omega
    simp only [c1, c2, c3, ↓reduceIte]
  · have etc : (6 * 16 + o.tos / 16) % 16 * 16 + ((o.tos % 16) * 16 + o.fl / 65536 % 16) / 16 = o.tos := by omega
    have efl : (((o.tos % 16) * 16 + o.fl / 65536 % 16) % 16 * 256 + o.fl / 256 % 256) * 256 + o.fl % 256 = o.fl := by omega
    have hipq : (ipv6Layer o.toBytes).quirks = outIpQuirks o := by
      unfold ipv6Layer outIpQuirks
      simp only [hb0, hb1, hb2, hb3, etc, efl, hv6, ↓reduceIte]
    have hipt : (ipv6Layer o.toBytes).ttl = o.ttl.toNat := by unfold ipv6Layer; simp only [hb7]
    have hipv : (ipv6Layer o.toBytes).version = 6 := by unfold ipv6Layer; simp only [hb0]; omega
    have hiph : (ipv6Layer o.toBytes).hdrLen = 40 := by unfold ipv6Layer; rfl
    have hipo : (ipv6Layer o.toBytes).olen = 0 := by unfold ipv6Layer; rfl
    unfold pktSigOfPkt extractOut
    simp only [hipq, hiph, hipo, hipt, hipv, g2, g3, g4, g5, g6, hv6, hv, ↓reduceIte, ite_self]
    have e66 : ((6 : Nat) == 6) = true := rfl
    simp only [e66, ↓reduceIte, Nat.add_assoc]
    rfl

end P0f
