import P0f.Props.C18
import P0f.Model.Render
import P0f.Props.C15
import P0f.Props.C07
import P0f.Props.C10
/-
  C09 (second clause) / C18 — a structured TCP signature and its canonical text denote each other:
  `TCPSignature.parse` applied to the canonical text of any well-formed signature gives back exactly that
  signature (every field, wildcard, window form, option layout, quirk set, payload class).
-/
namespace P0f
open P0f.Py

/-- the ranges and keyword sets of the p0f grammar (what `parseTcpSig_ranges` shows every accepted text satisfies) -/
structure Sig.WF (s : Sig) : Prop where
  ver : s.ipVer = none ∨ s.ipVer = some 4 ∨ s.ipVer = some 6
  ttl : 1 ≤ s.ttl ∧ s.ttl ≤ 255
  olen : s.olen ≤ 255
  mss : ∀ m, s.mss = some m → m ≤ 65535
  win : (s.wtype = .normal → s.wsize ≤ 65535) ∧ (s.wtype = .mod → 2 ≤ s.wsize ∧ s.wsize ≤ 65535) ∧
    ((s.wtype = .mss ∨ s.wtype = .mtu) → 1 ≤ s.wsize ∧ s.wsize ≤ 1000) ∧ (s.wtype = .any → s.wsize = 0)
  scale : ∀ c, s.scale = some c → c ≤ 255
  kinds : ∀ k ∈ s.layout, k ≤ 255
  pad : s.eolPad ≤ 255 ∧ (0 ∉ s.layout → s.eolPad = 0)
  quirks : ∀ q, s.quirks q = true → quirkInvalidFor s.ipVer q = false

/-! ### small string facts -/

theorem natStr_no (n : Nat) (c : Char) (hc : c.isDigit = false) : c ∉ natStr n := natStr_not_mem n c hc

theorem natStr_head_digit (n : Nat) : ∃ c t, natStr n = c :: t ∧ c.isDigit = true := by
  cases h : natStr n with
  | nil => exact absurd h (natStr_ne_nil n)
  | cons c t => exact ⟨c, t, rfl, natStr_digits n c (by rw [h]; simp)⟩

theorem natStr_not_wild (n : Nat) : isWildcardStr (natStr n) = false := by
  obtain ⟨c, t, h, hd⟩ := natStr_head_digit n
  unfold isWildcardStr
  rw [h]
  have : c ≠ '*' := by rintro rfl; exact absurd hd (by decide)
  simp [this]

theorem isSuffixOf_singleton_append (l : List Char) (c : Char) : ([c] : List Char).isSuffixOf (l ++ [c]) = true := by
  simp [List.isSuffixOf]

theorem getLast_digit (n : Nat) : ∃ c, (natStr n).getLast? = some c ∧ c.isDigit = true := by
  have hne := natStr_ne_nil n
  obtain ⟨c, hc⟩ : ∃ c, (natStr n).getLast? = some c := by
    cases h : (natStr n).getLast? with
    | none => simp [List.getLast?_eq_none_iff] at h; exact absurd h hne
    | some c => exact ⟨c, rfl⟩
  exact ⟨c, hc, natStr_digits n c (List.mem_of_getLast? hc)⟩

theorem endsWith_dash_natStr (n : Nat) : endsWith (natStr n) ['-'] = false := by
  unfold endsWith
  obtain ⟨c, hc, hd⟩ := getLast_digit n
  cases h : (['-'] : List Char).isSuffixOf (natStr n) with
  | false => rfl
  | true =>
    have := List.isSuffixOf_iff_suffix.mp h
    obtain ⟨t, ht⟩ := this
    have : (natStr n).getLast? = some '-' := by rw [← ht]; simp
    rw [hc] at this
    have : c = '-' := Option.some.inj this
    subst this
    exact absurd hd (by decide)

/-! ### every field -/

theorem parseIpVersion_render (v : Option Nat) (h : v = none ∨ v = some 4 ∨ v = some 6) :
    parseIpVersion (renderOptNat v) = some v := by
  rcases h with rfl | rfl | rfl <;> decide

theorem parsePayloadClass_render (p : Option Bool) : parsePayloadClass (renderPay p) = some p := by
  cases p with
  | none => decide
  | some b => cases b <;> decide

theorem parseTtl_render (t : Nat) (bad : Bool) (h : 1 ≤ t ∧ t ≤ 255) :
    parseTtl (natStr t ++ (if bad then ['-'] else [])) = some (t, bad) := by
  unfold parseTtl
  cases bad with
  | true =>
    have h1 : endsWith (natStr t ++ ['-']) ['-'] = true := isSuffixOf_singleton_append _ _
    simp only [↓reduceIte, h1, List.dropLast_concat]
    rw [parseNumberN_natStr t 1 255 (by omega) (by omega)]
    rfl
  | false =>
    simp only [Bool.false_eq_true, ↓reduceIte, List.append_nil, endsWith_dash_natStr]
    have hplus : (natStr t).contains '+' = false := by
      cases h : (natStr t).contains '+' with
      | false => rfl
      | true => exact absurd (by simpa using h) (natStr_no t '+' (by decide))
    simp only [hplus, Bool.false_eq_true, ↓reduceIte]
    rw [parseNumberN_natStr t 1 255 (by omega) (by omega)]
    rfl

theorem parseNumberW_render (m : Option Nat) (hi : Int) (h : ∀ v, m = some v → (v : Int) ≤ hi) :
    parseNumberW (renderOptNat m) 0 hi = some m := by
  unfold parseNumberW
  cases m with
  | none => simp [renderOptNat, isWildcardStr]
  | some v =>
    simp only [renderOptNat, natStr_not_wild, Bool.false_eq_true, ↓reduceIte]
    have := parseNumberN_natStr v 0 hi (by omega) (h v rfl)
    unfold parseNumberN at this
    cases hp : parseNumber (natStr v) 0 hi with
    | none => simp [hp] at this
    | some x =>
      simp only [hp, Option.map_some, Option.some.injEq] at this ⊢
      rw [this]

theorem partition_comma (a b : List Char) (h : ',' ∉ a) : partition ',' (a ++ ',' :: b) = (a, true, b) := by
  unfold partition
  obtain ⟨h1, h2⟩ := takeWhile_ne_append ',' a b h
  rw [h2, h1]

theorem renderWindow_no_comma (t : WinType) (n : Nat) : ',' ∉ renderWindow t n := by
  have := natStr_no n ',' (by decide)
  cases t <;> simp [renderWindow, this]

theorem parseWindow_render (t : WinType) (n : Nat) (sc : Option Nat)
    (hn : (t = .normal → n ≤ 65535) ∧ (t = .mod → 2 ≤ n ∧ n ≤ 65535) ∧ ((t = .mss ∨ t = .mtu) → 1 ≤ n ∧ n ≤ 1000) ∧ (t = .any → n = 0))
    (hs : ∀ c, sc = some c → c ≤ 255) :
    parseWindow (renderWindow t n ++ [','] ++ renderOptNat sc) = some (t, n, sc) := by
  unfold parseWindow
  have hp : partition ',' (renderWindow t n ++ [','] ++ renderOptNat sc) = (renderWindow t n, true, renderOptNat sc) := by
    rw [List.append_assoc]
    exact partition_comma _ _ (renderWindow_no_comma t n)
  simp only [hp]
  have hsc := parseNumberW_render sc 255 (fun c hc => by have := hs c hc; omega)
  rw [hsc]
  obtain ⟨c0, t0, hns, hd0⟩ := natStr_head_digit n
  have c0ne : ∀ x : Char, x.isDigit = false → c0 ≠ x := fun x hx e => by subst e; simp [hd0] at hx
  cases t with
  | any =>
    have : n = 0 := hn.2.2.2 rfl
    subst this
    simp [renderWindow, isWildcardStr]
  | normal =>
    have h1 : isWildcardStr (natStr n) = false := natStr_not_wild n
    have h2 : startsWith (natStr n) "mss*".toList = false := by
      rw [hns]; simp [startsWith, List.isPrefixOf]
      intro e; exact absurd e.symm (c0ne 'm' (by decide))
    have h3 : startsWith (natStr n) "mtu*".toList = false := by
      rw [hns]; simp [startsWith, List.isPrefixOf]
      intro e; exact absurd e.symm (c0ne 'm' (by decide))
    have h4 : startsWith (natStr n) ['%'] = false := by
      rw [hns]; simp [startsWith, List.isPrefixOf]
      intro e; exact absurd e.symm (c0ne '%' (by decide))
    simp only [renderWindow, h1, h2, h3, h4, Bool.false_eq_true, ↓reduceIte]
    rw [parseNumberN_natStr n 0 65535 (by omega) (by have := hn.1 rfl; omega)]
    rfl
  | mod =>
    have hr := hn.2.1 rfl
    simp only [renderWindow]
    have h1 : isWildcardStr ('%' :: natStr n) = false := by simp [isWildcardStr]
    have h2 : startsWith ('%' :: natStr n) "mss*".toList = false := by simp [startsWith, List.isPrefixOf]
    have h3 : startsWith ('%' :: natStr n) "mtu*".toList = false := by simp [startsWith, List.isPrefixOf]
    have h4 : startsWith ('%' :: natStr n) ['%'] = true := by simp [startsWith, List.isPrefixOf]
    simp only [h1, h2, h3, h4, Bool.false_eq_true, ↓reduceIte, List.drop_succ_cons, List.drop_zero]
    rw [parseNumberN_natStr n 2 65535 (by omega) (by omega)]
    rfl
  | mss =>
    have hr := hn.2.2.1 (Or.inl rfl)
    simp only [renderWindow]
    have h1 : isWildcardStr ("mss*".toList ++ natStr n) = false := by simp [isWildcardStr]
    have h2 : startsWith ("mss*".toList ++ natStr n) "mss*".toList = true := by simp [startsWith, List.isPrefixOf]
    have hd : ("mss*".toList ++ natStr n).drop 4 = natStr n := by simp
    simp only [h1, h2, Bool.false_eq_true, ↓reduceIte, hd]
    rw [parseNumberN_natStr n 1 1000 (by omega) (by omega)]
    rfl
  | mtu =>
    have hr := hn.2.2.1 (Or.inr rfl)
    simp only [renderWindow]
    have h1 : isWildcardStr ("mtu*".toList ++ natStr n) = false := by simp [isWildcardStr]
    have h2 : startsWith ("mtu*".toList ++ natStr n) "mss*".toList = false := by simp [startsWith, List.isPrefixOf]
    have h3 : startsWith ("mtu*".toList ++ natStr n) "mtu*".toList = true := by simp [startsWith, List.isPrefixOf]
    have hd : ("mtu*".toList ++ natStr n).drop 4 = natStr n := by simp
    simp only [h1, h2, h3, Bool.false_eq_true, ↓reduceIte, hd]
    rw [parseNumberN_natStr n 1 1000 (by omega) (by omega)]
    rfl

/-! ### the eight fields come apart again at the colons -/

theorem not_mem_intercalate (c sep : Char) (items : List (List Char)) (hs : c ≠ sep) (h : ∀ l ∈ items, c ∉ l) :
    c ∉ [sep].intercalate items := by
  induction items with
  | nil => simp
  | cons a t ih =>
    cases t with
    | nil => simpa using h a (by simp)
    | cons b t' =>
      rw [List.intercalate_cons_cons]
      simp only [List.mem_append, List.mem_cons, List.not_mem_nil, or_false, not_or]
      exact ⟨⟨h a (by simp), hs⟩, ih (fun l hl => h l (by simp [hl]))⟩

theorem dumpOption_no_colon (pad k : Nat) : ':' ∉ dumpOption pad k := by
  unfold dumpOption optName
  have hn := fun n => natStr_not_mem n ':' (by decide)
  repeat' split
  all_goals simp [hn]

theorem quirk_str_no_colon (q : Quirk) : ':' ∉ q.str := by cases q <;> decide

theorem renderOptNat_no_colon (v : Option Nat) : ':' ∉ renderOptNat v := by
  cases v with
  | none => decide
  | some n => exact natStr_no n ':' (by decide)

theorem renderWindow_no_colon (t : WinType) (n : Nat) : ':' ∉ renderWindow t n := by
  have := natStr_no n ':' (by decide)
  cases t <;> simp [renderWindow, this]

theorem renderFields_no_colon (s : Sig) : ∀ l ∈ renderTcpFields s, ':' ∉ l := by
  intro l hl
  simp only [renderTcpFields, List.mem_cons, List.not_mem_nil, or_false] at hl
  have hnat := fun n => natStr_no n ':' (by decide)
  rcases hl with rfl | rfl | rfl | rfl | rfl | rfl | rfl | rfl
  · exact renderOptNat_no_colon _
  · cases s.badTtl <;> simp [hnat]
  · exact hnat _
  · exact renderOptNat_no_colon _
  · simp only [List.mem_append, List.mem_cons, List.not_mem_nil, or_false, not_or]
    exact ⟨⟨renderWindow_no_colon _ _, by decide⟩, renderOptNat_no_colon _⟩
  · exact not_mem_intercalate ':' ',' _ (by decide) (by
      intro l hl; obtain ⟨k, _, rfl⟩ := List.mem_map.mp hl; exact dumpOption_no_colon _ k)
  · exact not_mem_intercalate ':' ',' _ (by decide) (by
      intro l hl; obtain ⟨k, _, rfl⟩ := List.mem_map.mp hl; exact quirk_str_no_colon k)
  · cases s.payClass with
    | none => decide
    | some b => cases b <;> decide

theorem splitParts_render (s : Sig) : splitParts ':' 8 (renderTcpSig s) = renderTcpFields s := by
  unfold splitParts renderTcpSig
  rw [List.splitOn_intercalate ':' (renderFields_no_colon s) (by simp [renderTcpFields])]
  simp [renderTcpFields]

/-- **C09/C18, whole signature**: for every well-formed structured TCP signature - any IP version or
    wildcard, any TTL with or without the bad-TTL mark, any options length, fixed or wildcard MSS, each of
    the five window forms with fixed or wildcard scale, any option layout over kinds 0..255 with any EOL
    padding, any set of quirks legal for the version, any payload class - `TCPSignature.parse` accepts the
    canonical text and returns exactly that signature. -/
theorem parseTcpSig_render (s : Sig) (h : s.WF) :
    ∃ r, parseTcpSig (renderTcpSig s) = some r ∧
      r.ipVer = s.ipVer ∧ r.olen = s.olen ∧ r.ttl = s.ttl ∧ r.badTtl = s.badTtl ∧ r.wtype = s.wtype ∧
      r.wsize = s.wsize ∧ r.scale = s.scale ∧ r.layout = s.layout ∧ r.mss = s.mss ∧
      r.eolPad = s.eolPad ∧ r.payClass = s.payClass ∧ ∀ q, r.quirks q = s.quirks q := by
  obtain ⟨q, hq, hqs⟩ := dumpQuirks_parse s.quirks s.ipVer h.quirks
  unfold parseTcpSig
  rw [splitParts_render]
  simp only [renderTcpFields]
  rw [parseIpVersion_render _ h.ver, parseTtl_render _ _ h.ttl,
    parseNumberN_natStr s.olen 0 255 (by omega) (by have := h.olen; omega),
    parseNumberW_render s.mss 65535 (fun v hv => by have := h.mss v hv; omega),
    parseWindow_render _ _ _ h.win h.scale, dumpLayout_parse _ _ h.kinds h.pad.1, parsePayloadClass_render]
  simp only [hq, Option.map_some]
  refine ⟨_, rfl, rfl, rfl, rfl, rfl, rfl, rfl, rfl, rfl, rfl, ?_, rfl, hqs⟩
  by_cases h0 : 0 ∈ s.layout
  · simp [h0]
  · simp [h0, h.pad.2 h0]

/-- the same with structural equality (`QSet` is a function; equality by extensionality) -/
theorem parseTcpSig_render_eq (s : Sig) (h : s.WF) : parseTcpSig (renderTcpSig s) = some s := by
  obtain ⟨r, hr, h1, h2, h3, h4, h5, h6, h7, h8, h9, h10, h11, h12⟩ := parseTcpSig_render s h
  rw [hr]
  have hq : r.quirks = s.quirks := funext h12
  cases r; cases s
  simp only at h1 h2 h3 h4 h5 h6 h7 h8 h9 h10 h11 hq
  subst h1 h2 h3 h4 h5 h6 h7 h8 h9 h10 h11 hq
  rfl

/-! ### `Sig.WF` is exactly what the parser produces -/

theorem parseWindow_any (f : List Char) (n : Nat) (sc : Option Nat)
    (h : parseWindow f = some (.any, n, sc)) : n = 0 := by
  unfold parseWindow at h
  simp only at h
  generalize partition ',' f = pr at h
  split at h
  · rename_i t' n' sc' htw hsc
    simp only [Option.some.injEq, Prod.mk.injEq] at h
    obtain ⟨rfl, rfl, rfl⟩ := h
    split at htw
    · simp only [Option.some.injEq, Prod.mk.injEq] at htw; exact htw.2.symm
    · split at htw
      · cases hn : parseNumberN (List.drop 4 pr.1) 1 1000 <;> simp [hn] at htw
      · split at htw
        · cases hn : parseNumberN (List.drop 4 pr.1) 1 1000 <;> simp [hn] at htw
        · split at htw
          · cases hn : parseNumberN (List.drop 1 pr.1) 2 65535 <;> simp [hn] at htw
          · cases hn : parseNumberN pr.1 0 65535 <;> simp [hn] at htw
  · simp at h

theorem parseOptionItem_pad (raw : List Char) (k n : Nat) (h : parseOptionItem raw = some (k, some n)) : k = 0 := by
  unfold parseOptionItem at h
  split at h
  · cases hn : parseNumberN (List.drop 1 raw) 0 255 <;> simp [hn] at h
  · split at h
    · cases hn : parseNumberN (List.drop 4 raw) 0 255 with
      | none => simp [hn] at h
      | some v => simp [hn] at h; exact h.1.symm
    · cases hn : optionOfName raw <;> simp [hn] at h

theorem optionsFold_pad (items : List (List Char)) (acc r : List Nat × Nat)
    (hacc : 0 ∉ acc.1 → acc.2 = 0) (h : items.foldlM optionsStep acc = some r) :
    0 ∉ r.1 → r.2 = 0 := by
  induction items generalizing acc with
  | nil => simp only [List.foldlM_nil, Option.pure_def, Option.some.injEq] at h; subst h; exact hacc
  | cons it rest ih =>
    simp only [List.foldlM_cons, Option.bind_eq_bind] at h
    cases hs : optionsStep acc it with
    | none => simp [hs] at h
    | some acc' =>
      simp only [hs, Option.bind_some] at h
      refine ih acc' ?_ h
      unfold optionsStep at hs
      cases hp : parseOptionItem it with
      | none => simp [hp] at hs
      | some kp =>
        simp only [hp, Option.some.injEq] at hs
        subst hs
        obtain ⟨k, po⟩ := kp
        intro h0
        simp only [List.mem_append, List.mem_cons, List.not_mem_nil, or_false, not_or] at h0
        cases po with
        | none => simpa using hacc h0.1
        | some n => exact absurd (parseOptionItem_pad it k n hp).symm h0.2

theorem parseOptionsField_pad (f : List Char) (l : List Nat) (p : Nat)
    (h : parseOptionsField f = some (l, p)) : 0 ∉ l → p = 0 := by
  unfold parseOptionsField at h
  exact optionsFold_pad _ ([], 0) (l, p) (fun _ => rfl) h

/-- every signature the parser produces is well-formed -/
theorem parseTcpSig_wf (t : List Char) (s : Sig) (h : parseTcpSig t = some s) : s.WF := by
  have hr := parseTcpSig_ranges t s h
  obtain ⟨h0, h1, h2, h3, h4, h5, h6, h7, h8, h9, h10, h11⟩ := hr
  have extra : (s.wtype = .any → s.wsize = 0) ∧ (0 ∉ s.layout → s.eolPad = 0) := by
    unfold parseTcpSig at h
    split at h
    · rename_i rVer rTtl rOlen rMss rWin rOpts rQuirks rPay _
      split at h
      · rename_i ver ttl bad olen mss wt wsz sc layout pad pay hver httl holen hmss hwin hopts hpay
        cases hq : parseQuirksField rQuirks ver with
        | none => simp [hq] at h
        | some q =>
          simp only [hq, Option.map_some, Option.some.injEq] at h
          subst h
          refine ⟨?_, parseOptionsField_pad _ _ _ hopts⟩
          intro hw
          simp only at hw
          subst hw
          exact parseWindow_any _ _ _ hwin
      · simp at h
    · simp at h
  exact ⟨h0, ⟨h1, h2⟩, h3, h4, ⟨h5, h6, h7, extra.1⟩, h8, h9, ⟨h10, extra.2⟩, h11⟩

/-- **C09, canonical text**: whatever text a signature was loaded from, the structured signature the
    parser built is exactly the denotation of its canonical p0f text - so the structure adds and loses
    nothing with respect to the grammar. -/
theorem parseTcpSig_canonical (t : List Char) (s : Sig) (h : parseTcpSig t = some s) :
    parseTcpSig (renderTcpSig s) = some s :=
  parseTcpSig_render_eq s (parseTcpSig_wf t s h)

/-- two texts denote the same signature exactly when they have the same canonical text -/
theorem parseTcpSig_same_iff (t u : List Char) (a b : Sig) (ha : parseTcpSig t = some a) (hb : parseTcpSig u = some b) :
    a = b ↔ renderTcpSig a = renderTcpSig b := by
  constructor
  · intro e; rw [e]
  · intro e
    have h1 := parseTcpSig_canonical t a ha
    have h2 := parseTcpSig_canonical u b hb
    rw [e, h2] at h1
    exact (Option.some.inj h1).symm

/-! non-vacuity -/
def exS : Sig :=
  { ipVer := some 4, olen := 0, ttl := 64, badTtl := true, wtype := .mss, wsize := 20, scale := some 7,
    layout := [2, 4, 8, 1, 3, 77, 0], mss := none, eolPad := 3, payClass := some false,
    quirks := QSet.ofList [.df, .nzId] }
theorem exS_wf : exS.WF :=
  ⟨by decide, by decide, by decide, by intro m hm; simp [exS] at hm, by decide, by intro c hc; simp [exS] at hc; omega,
   by decide, by decide, by intro q hq; cases q <;> simp_all [exS, QSet.ofList, quirkInvalidFor] <;> revert hq <;> decide⟩
example : String.ofList (renderTcpSig exS) = "4:64-:0:*:mss*20,7:mss,sok,ts,nop,ws,?77,eol+3:df,id+:0" := by decide
example : parseTcpSig (renderTcpSig exS) = some exS := parseTcpSig_render_eq exS exS_wf

end P0f
