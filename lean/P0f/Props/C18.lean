import P0f.Lemmas.Dump
import P0f.Props.C01
/-
  C18 — printed option layouts and quirk lists parse back to the same signature fields.
-/
namespace P0f
open P0f.Py

theorem foldl_options_dump (pad : Nat) (hp : pad ≤ 255) (l : List Nat) (hk : ∀ k ∈ l, k ≤ 255)
    (acc : List Nat × Nat) :
    (l.map (dumpOption pad)).foldlM optionsStep acc
      = some (acc.1 ++ l, if 0 ∈ l then pad else acc.2) := by
  induction l generalizing acc with
  | nil => simp
  | cons k t ih =>
    have hk' : k ≤ 255 := hk k (by simp)
    simp only [List.map_cons, List.foldlM_cons, optionsStep, parseOptionItem_dump pad k hk' hp,
      Option.bind_eq_bind, Option.bind_some]
    rw [ih (fun x hx => hk x (by simp [hx]))]
    by_cases h0 : k = 0
    · subst h0; simp
    · have : ¬ (0 = k) := fun h => h0 h.symm
      simp [h0, this]

/-- **C18, layouts**: for every layout over kinds 0..255 (unknown kinds included) and every EOL
    padding length 0..255, the text `TCPOptions.dump` prints is accepted by `_parse_options` and
    denotes exactly that layout and padding. -/
theorem dumpLayout_parse (l : List Nat) (pad : Nat) (hk : ∀ k ∈ l, k ≤ 255) (hp : pad ≤ 255) :
    parseOptionsField (dumpLayout l pad) = some (l, if 0 ∈ l then pad else 0) := by
  unfold parseOptionsField dumpLayout
  by_cases hl : l = []
  · subst hl; simp [joinComma]
  · have hne : l.map (dumpOption pad) ≠ [] := by simpa using hl
    have hemp : (joinComma (l.map (dumpOption pad))).isEmpty = false := by
      rw [joinComma_isEmpty _ (by intro x hx; obtain ⟨k, _, rfl⟩ := List.mem_map.mp hx; exact dumpOption_ne_nil pad k)]
      cases l with
      | nil => exact absurd rfl hl
      | cons a t => rfl
    simp only [hemp, Bool.false_eq_true, ↓reduceIte]
    rw [split_joinComma _ hne (by intro x hx; obtain ⟨k, _, rfl⟩ := List.mem_map.mp hx; exact dumpOption_no_comma pad k)]
    have := foldl_options_dump pad hp l hk ([], 0)
    simpa using this

theorem foldl_quirks_dump (ver : Option Nat) (L : List Quirk) (hv : ∀ q ∈ L, quirkInvalidFor ver q = false)
    (acc : QSet) :
    (L.map Quirk.str).foldlM (quirksStep ver) acc
      = some (L.foldl QSet.insert acc) := by
  induction L generalizing acc with
  | nil => simp
  | cons q t ih =>
    simp only [List.map_cons, List.foldlM_cons, quirksStep, quirkOfName_str, hv q (by simp), Bool.false_eq_true,
      ↓reduceIte, Option.bind_eq_bind, Option.bind_some, List.foldl_cons]
    exact ih (fun x hx => hv x (by simp [hx])) _

theorem foldl_insert_apply (L : List Quirk) (acc : QSet) (q : Quirk) :
    (L.foldl QSet.insert acc) q = (acc q || L.contains q) := by
  induction L generalizing acc with
  | nil => simp
  | cons a t ih =>
    simp only [List.foldl_cons, ih, QSet.insert, List.contains_cons]
    cases acc q <;> cases h : (q == a) <;> simp

/-- **C18, quirks**: for every one of the 2^17 quirk sets whose members are legal for the stated IP
    version, the text `dump_quirks` prints is accepted by `_parse_quirks` and denotes exactly that set. -/
theorem dumpQuirks_parse (qs : QSet) (ver : Option Nat)
    (hv : ∀ q, qs q = true → quirkInvalidFor ver q = false) :
    ∃ r, parseQuirksField (dumpQuirks qs) ver = some r ∧ ∀ q, r q = qs q := by
  unfold parseQuirksField dumpQuirks
  have hmem : ∀ q, q ∈ qs.toList ↔ qs q = true := by
    intro q; simp [QSet.toList, Quirk.mem_all]
  by_cases hl : qs.toList = []
  · refine ⟨QSet.empty, ?_, ?_⟩
    · simp [hl, joinComma]
    · intro q
      have : ¬ qs q = true := fun h => by have := (hmem q).mpr h; simp [hl] at this
      simp [QSet.empty]; cases h : qs q <;> simp_all
  · have hne : qs.toList.map Quirk.str ≠ [] := by simpa using hl
    have hemp : (joinComma (qs.toList.map Quirk.str)).isEmpty = false := by
      rw [joinComma_isEmpty _ (by intro x hx; obtain ⟨k, _, rfl⟩ := List.mem_map.mp hx; exact quirk_str_ne_nil k)]
      cases h : qs.toList with
      | nil => exact absurd h hl
      | cons a t => rfl
    simp only [hemp, Bool.false_eq_true, ↓reduceIte]
    rw [split_joinComma _ hne (by intro x hx; obtain ⟨k, _, rfl⟩ := List.mem_map.mp hx; exact quirk_str_no_comma k)]
    rw [foldl_quirks_dump ver qs.toList (fun q hq => hv q ((hmem q).mp hq))]
    refine ⟨_, rfl, ?_⟩
    intro q
    rw [foldl_insert_apply]
    simp only [QSet.empty, Bool.false_or]
    cases h : qs q with
    | true => simpa using (hmem q).mpr h
    | false =>
      have : q ∉ qs.toList := fun hq => by have := (hmem q).mp hq; simp [h] at this
      simpa using this

/-! Non-vacuity -/
example : parseOptionsField (dumpLayout [2, 4, 8, 1, 3, 77, 0] 3) = some ([2, 4, 8, 1, 3, 77, 0], 3) := by
  simpa using dumpLayout_parse [2, 4, 8, 1, 3, 77, 0] 3 (by decide) (by decide)
example : String.ofList (dumpLayout [2, 4, 8, 1, 3, 77, 0] 3) = "mss,sok,ts,nop,ws,?77,eol+3" := by decide
example : String.ofList (dumpQuirks (QSet.ofList [.bad, .df, .nzId])) = "df,id+,bad" := by decide

end P0f
