import P0f.Spec.Wire
import P0f.Lemmas.TcpOptions
/-
  C03 — the signature extracted from wire bytes is what the IP/TCP headers actually say.
-/
namespace P0f

/-- **Option area**: `TCPOptions.parse` is the per-token interpretation of the option-area grammar,
    for every byte string. -/
theorem parseOptsGo_eq_interp (isSyn : Bool) (l : List Nat) (o : Opts) :
    parseOptsGo isSyn l o = interp isSyn (tokenize l) o := by
  fun_induction parseOptsGo isSyn l o
  all_goals (unfold tokenize)
  all_goals simp_all [interp]
  all_goals (try omega)
  all_goals (split <;> simp_all [interp, wellFormed, stopsAt, applyValue_of_optSize_none] <;> (try omega))

theorem parseOpts_eq_interp (buf : List Nat) (isSyn : Bool) :
    parseOpts buf isSyn = interp isSyn (tokenize buf) Opts.init := parseOptsGo_eq_interp _ _ _

/-- the tokens partition the option area in wire order (nothing skipped, nothing invented) -/
theorem tokenize_bytes (l : List Nat) : (tokenize l).flatMap Tok.bytes = l := by
  fun_induction tokenize l <;> simp_all [Tok.bytes]

/-- the layout is the list of kinds of the tokens read, in wire order (a prefix of all tokens) -/
theorem interp_layout_prefix (isSyn : Bool) (ts : List Tok) (o : Opts) :
    ∃ n, (interp isSyn ts o).layout = o.layout ++ (ts.take n).map Tok.kind := by
  induction ts generalizing o with
  | nil => exact ⟨0, by simp [interp]⟩
  | cons t ts ih =>
    cases t with
    | nop =>
      obtain ⟨n, hn⟩ := ih (o.pushKind 1)
      exact ⟨n + 1, by simp [interp, hn, Tok.kind]⟩
    | eol rest => exact ⟨1, by simp [interp, Tok.kind]⟩
    | trunc k => exact ⟨1, by simp [interp, Tok.kind]⟩
    | overrun k len rest => exact ⟨1, by simp [interp, Tok.kind]⟩
    | opt k len body =>
      simp only [interp]
      split
      · obtain ⟨n, hn⟩ := ih (applyValue isSyn k body (o.pushKind k))
        exact ⟨n + 1, by simp [hn, Tok.kind]⟩
      · split
        · exact ⟨1, by simp [Tok.kind]⟩
        · obtain ⟨n, hn⟩ := ih ((o.pushKind k).addQuirk .bad)
          exact ⟨n + 1, by simp [hn, Tok.kind]⟩

/-- "A malformed option … is never turned into an MSS, scale or timestamp value": a token changes
    a value only if it is a complete option of exactly the right kind and length, and then the
    value is the big-endian content of its body. -/
theorem value_only_from_wellformed (isSyn : Bool) (k len : Nat) (body : List Nat) (o : Opts) :
    let o' := if wellFormed k len then applyValue isSyn k body (o.pushKind k) else (o.pushKind k).addQuirk .bad
    (o'.mss ≠ o.mss → k = 2 ∧ len = 4 ∧ o'.mss = be16 body) ∧
    (o'.ws ≠ o.ws → k = 3 ∧ len = 3 ∧ o'.ws = body.getD 0 0) ∧
    (o'.ts ≠ o.ts → k = 8 ∧ len = 10 ∧ o'.ts = be32 body) := by
  simp only
  by_cases hw : wellFormed k len = true
  · simp only [hw, ↓reduceIte]
    unfold applyValue
    by_cases h2 : k = 2
    · subst h2; simp [wellFormed, optSize] at hw; simp [Opts.setMss, Opts.pushKind, hw]
    · by_cases h3 : k = 3
      · subst h3; simp [wellFormed, optSize] at hw
        simp [Opts.setWs, Opts.pushKind, Opts.addQuirkIf, hw]
        split <;> simp [Opts.addQuirk]
      · by_cases h8 : k = 8
        · subst h8; simp [wellFormed, optSize] at hw
          simp only [h2, h3, ↓reduceIte, Opts.setTs, Opts.pushKind, Opts.addQuirkIf]
          repeat' split
          all_goals simp [Opts.addQuirk, hw]
        · simp [h2, h3, h8, Opts.pushKind]
  · simp [hw, Opts.pushKind, Opts.addQuirk]


/-! header quirks -/

def AllBytes (l : List Nat) : Prop := ∀ x ∈ l, x < 256

theorem getD_lt {l : List Nat} (h : AllBytes l) (i : Nat) : l.getD i 0 < 256 := by
  unfold List.getD
  cases hi : l[i]? with
  | none => simp
  | some v => simpa using h v (List.mem_of_getElem? hi)

theorem qIf_apply (c : Bool) (q q' : Quirk) : qIf c q q' = (c && decide (q' = q)) := by
  unfold qIf; cases c <;> simp [QSet.ofList, QSet.empty]

/-- **IPv4 quirks** are exactly the documented ones: df, id+, id-, 0+, ecn -/
theorem ipv4_quirks (b : List Nat) (q : Quirk) : (ipv4Layer b).quirks q = specV4Quirk b q := by
  unfold ipv4Layer specV4Quirk v4DF v4Id v4Reserved v4Ecn u16
  generalize b.getD 6 0 = x
  generalize b.getD 1 0 = tos
  have e1 : x / 32 / 2 % 2 = x / 64 % 2 := by omega
  have e2 : x / 32 / 4 % 2 = x / 128 % 2 := by omega
  cases q <;> simp [QSet.union, qIf_apply, e1, e2]

/-- IPv4 fragment status: MF set or fragment offset non-zero -/
theorem ipv4_fragment (b : List Nat) : (ipv4Layer b).isFragment = (v4MF b || v4FragOff b != 0) := by
  unfold ipv4Layer v4MF v4FragOff
  simp

/-- **IPv6 quirks**: flow, ecn -/
theorem ipv6_quirks (b : List Nat) (q : Quirk) : (ipv6Layer b).quirks q = specV6Quirk b q := by
  unfold ipv6Layer specV6Quirk v6Flow v6TrafficClass
  cases q <;> simp [QSet.union, qIf_apply]

/-- the masked packet type is SYN exactly for an initial SYN, whatever PSH/URG/ECE/CWR/NS say -/
theorem tcpType_syn_iff (t : List Nat) (h : AllBytes t) :
    (tcpType (tcpFlags9 t) == F_SYN) = isInitialSyn t := by
  have h12 := getD_lt h 12
  have h13 := getD_lt h 13
  unfold tcpType tcpFlags9 isInitialSyn tSYN tACK tFIN tRST F_SYN F_ACK F_FIN F_RST
  generalize t.getD 12 0 = a at *
  generalize t.getD 13 0 = c at *
  have : ∀ c < 256, ∀ n < 2, (((n * 256 + c) &&& (2 ||| 16 ||| 1 ||| 4) == 2) =
      (c / 2 % 2 == 1 && !(c / 16 % 2 == 1) && !(c % 2 == 1) && !(c / 4 % 2 == 1))) := by decide +kernel
  exact this c h13 (a % 2) (by omega)

/-- **TCP quirks**: the header quirks are the documented conditions on the flag bits and fields;
    the rest comes from the option walk, run as "initial SYN" exactly when the masked type is SYN -/
theorem tcp_quirks (t : List Nat) (h : AllBytes t) (q : Quirk) :
    (tcpLayer t).quirks q =
      (specTcpQuirk t q ||
        (parseOpts ((t.take ((t.getD 12 0 / 16) * 4)).drop 20) (isInitialSyn t)).quirks q) := by
  have h12 := getD_lt h 12
  have h13 := getD_lt h 13
  have hs := tcpType_syn_iff t h
  have hdr : ∀ q, ((qIf (bit (tcpFlags9 t) 64 || bit (tcpFlags9 t) 128 || bit (tcpFlags9 t) 256) .ecn).union <|
      (qIf (u32 t 4 == 0) .zeroSeq).union <|
      (qIf (bit (tcpFlags9 t) 16 && u32 t 8 == 0) .zeroAck).union <|
      (qIf (!bit (tcpFlags9 t) 16 && u32 t 8 != 0 && !bit (tcpFlags9 t) 4) .nzAck).union <|
      (qIf (bit (tcpFlags9 t) 32) .urg).union <| (qIf (!bit (tcpFlags9 t) 32 && u16 t 18 != 0) .nzUrg).union <|
      (qIf (bit (tcpFlags9 t) 8) .push)) q = specTcpQuirk t q := by
    intro q
    unfold specTcpQuirk tECE tCWR tNS tSeq tAck tACK tRST tURG tUrp tPSH tcpFlags9 bit
    generalize t.getD 12 0 = a at *
    generalize t.getD 13 0 = c at *
    have b4 : (a % 2 * 256 + c) / 4 % 2 = c / 4 % 2 := by omega
    have b8 : (a % 2 * 256 + c) / 8 % 2 = c / 8 % 2 := by omega
    have b16 : (a % 2 * 256 + c) / 16 % 2 = c / 16 % 2 := by omega
    have b32 : (a % 2 * 256 + c) / 32 % 2 = c / 32 % 2 := by omega
    have b64 : (a % 2 * 256 + c) / 64 % 2 = c / 64 % 2 := by omega
    have b128 : (a % 2 * 256 + c) / 128 % 2 = c / 128 % 2 := by omega
    have b256 : (a % 2 * 256 + c) / 256 % 2 = a % 2 := by omega
    cases q <;> simp [QSet.union, qIf_apply, b4, b8, b16, b32, b64, b128, b256]
  unfold tcpLayer
  simp only [hs]
  show (QSet.union _ _) q = _
  simp only [QSet.union] at hdr ⊢
  rw [hdr q]

/-- the packet signature's quirk set is the union of the IP and TCP ones; its other fields are the
    layer fields -/
theorem sig_fields (p : PktL) (s : Nat) (q : Quirk) :
    (pktSigOfPkt p s).quirks q = (p.ip.quirks q || p.tcp.quirks q) ∧
    (pktSigOfPkt p s).ttl = p.ip.ttl ∧ (pktSigOfPkt p s).win = p.tcp.window ∧
    (pktSigOfPkt p s).layout = p.tcp.opts.layout ∧ (pktSigOfPkt p s).mss = p.tcp.opts.mss ∧
    (pktSigOfPkt p s).hasPayload = !p.tcp.payload.isEmpty := by
  simp [pktSigOfPkt, QSet.union]

/-! Non-vacuity: a concrete SYN+PSH with a peer timestamp keeps ts2+ (the F02 witness) -/
private def synPshTs : List Nat :=
  [0, 20, 0, 80, 0, 0, 0, 1, 0, 0, 0, 0, 128, 10, 32, 0, 0, 0, 0, 0,
   8, 10, 0, 0, 0, 5, 0, 0, 0, 7, 1, 1]
example : (tcpLayer synPshTs).quirks .nzTs2 = true ∧ (tcpLayer synPshTs).quirks .push = true := by decide +kernel
example : tokenize [2, 4, 5, 180, 1, 3, 3, 7, 0, 0] =
    [.opt 2 4 [5, 180], .nop, .opt 3 3 [7], .eol [0]] := by decide +kernel

end P0f
