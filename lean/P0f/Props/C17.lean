import P0f.Spec.WMult
import P0f.Props.C01
/-
  C17 — window size is classified as MSS or MTU multiple by the documented divisor order.
-/
namespace P0f

/-- the code's divisor list is the documented one (1500-40 = 1460, 1500-40-12 = 1448,
    1500-60 = 1440, 1500-60-12 = 1428, MIN_TCP4 = 40, MIN_TCP6 = 60) -/
theorem divisors_documented (p : WIn) : divisors p = specDivisors p := by
  unfold divisors specDivisors MIN_TCP4 MIN_TCP6
  rfl

theorem divides_iff (win : Nat) (x : Int × Bool) : divides win x = true ↔ Divides win x.1 := by
  unfold divides Divides
  simp [Int.dvd_iff_emod_eq_zero]

/-- **C17, first half**: with a non-zero window and MSS ≥ 100 the multiplier is `window / d`
    (an exact quotient) for the first documented divisor `d` that divides the window, classified
    MSS / MTU by that divisor's group. -/
theorem windowMult_first (p : WIn) (d : Int) (m : Bool) (hb : HasBase p) (h : FirstDivisor p d m) :
    windowMult p = ((p.win : Int) / d, m) ∧ ((p.win : Int) / d) * d = p.win := by
  obtain ⟨before, after, hl, hd, hbefore⟩ := h
  unfold windowMult
  have hb' : ¬ (p.win = 0 ∨ p.mss < 100) := by unfold HasBase at hb; omega
  rw [if_neg hb', divisors_documented, hl]
  have : List.find? (divides p.win) (before ++ (d, m) :: after) = some (d, m) := by
    rw [List.find?_append]
    have hn : List.find? (divides p.win) before = none := by
      rw [List.find?_eq_none]
      intro x hx
      have := hbefore x hx
      rw [← divides_iff] at this
      simpa using this
    rw [hn]
    simp [(divides_iff p.win (d, m)).mpr hd]
  rw [this]
  exact ⟨rfl, Int.ediv_mul_cancel hd.2⟩

/-- **C17, second half**: "Otherwise (zero window, MSS < 100, no divisor) there is no multiplier". -/
theorem windowMult_none (p : WIn) (h : ¬ HasBase p ∨ NoDivisor p) : windowMult p = (WILDCARD, false) := by
  unfold windowMult
  by_cases hb : p.win = 0 ∨ p.mss < 100
  · rw [if_pos hb]
  · rw [if_neg hb]
    have hn : NoDivisor p := by
      rcases h with h | h
      · unfold HasBase at h; omega
      · exact h
    have : List.find? (divides p.win) (divisors p) = none := by
      rw [List.find?_eq_none, divisors_documented]
      intro x hx
      have := hn x hx
      rw [← divides_iff] at this
      simpa using this
    rw [this]

/-- the two cases are exhaustive: there is a first dividing divisor or there is none -/
theorem first_or_none (p : WIn) : (∃ d m, FirstDivisor p d m) ∨ NoDivisor p := by
  cases h : List.find? (divides p.win) (specDivisors p) with
  | none =>
    right
    intro x hx
    rw [List.find?_eq_none] at h
    have := h x hx
    rw [← divides_iff]; simpa using this
  | some x =>
    left
    obtain ⟨hx, as, bs, hl, hbefore⟩ := List.find?_eq_some_iff_append.mp h
    refine ⟨x.1, x.2, as, bs, hl, (divides_iff _ _).mp hx, ?_⟩
    intro y hy
    have := hbefore y hy
    rw [← divides_iff]; simpa using this

/-- an earlier divisor that divides wins over any later one -/
theorem earlier_divisor_wins (p : WIn) (d d' : Int) (m m' : Bool) (before mid after : List (Int × Bool))
    (hb : HasBase p) (hl : specDivisors p = before ++ (d, m) :: mid ++ (d', m') :: after)
    (hd : Divides p.win d) (hbefore : ∀ x ∈ before, ¬ Divides p.win x.1) :
    windowMult p = ((p.win : Int) / d, m) := by
  refine (windowMult_first p d m hb ⟨before, mid ++ (d', m') :: after, ?_, hd, hbefore⟩).1
  rw [hl]; simp

/-- without a multiplier neither `mss*N` nor `mtu*N` signatures can match (N ≥ 1 as parsed) -/
theorem no_mult_no_match (s : Sig) (k : PktSig) (dist : Int)
    (hw : s.wtype = .mss ∨ s.wtype = .mtu)
    (h : ¬ HasBase k.wIn ∨ NoDivisor k.wIn) : tcpMatchPkt s k dist = none := by
  have hm := windowMult_none k.wIn h
  have hbad : windowBad s k.toPSig = true := by
    unfold windowBad PktSig.toPSig
    simp only [hm, WILDCARD]
    rcases hw with hw | hw <;> simp [hw] <;> omega
  unfold tcpMatchPkt
  rw [tcpMatch_eq_bool]
  have : fixedB s k.toPSig = false := by unfold fixedB; simp [hbad]
  simp [this]

/-- the peer MSS is only ever consulted through `synMss`, which `from_packet` zeroes unless the
    packet is a SYN+ACK: with `synMss = 0` the peer divisors are absent -/
theorem no_peer_without_synmss (p : WIn) (h : p.synMss = 0) :
    specDivisors p = specDivisors { p with synMss := 0 } ∧
    ∀ x ∈ specDivisors p, x.1 = p.mss ∨ x.1 = (p.mss : Int) - 12 ∨ x.1 = 1460 ∨ x.1 = 1448 ∨ x.1 = 1440
      ∨ x.1 = 1428 ∨ x.1 = (p.mss : Int) + 40 ∨ x.1 = (p.mss : Int) + p.hdrLen ∨ x.1 = (p.mss : Int) + 60 ∨ x.1 = 1500 := by
  constructor
  · simp [specDivisors, h]
  · intro x hx
    unfold specDivisors at hx
    simp only [h, ne_eq, not_true_eq_false, ↓reduceIte, List.append_nil] at hx
    split at hx <;> split at hx <;> simp at hx <;> grind

/-! Non-vacuity -/
private def w1 : WIn := { win := 5840, mss := 1460, ts := 0, ipVer := 4, hdrLen := 60, synMss := 0 }
example : HasBase w1 := by simp [HasBase, w1]
example : windowMult w1 = (4, false) := by decide
example : windowMult { w1 with win := 6000 } = (4, true) := by decide   -- 1500 * 4 (MSS+40)
example : windowMult { w1 with win := 6001 } = (-1, false) := by decide
example : windowMult { w1 with win := 3000, mss := 1400, synMss := 1000 } = (2, true) := by decide  -- 1500 before the peer MSS
example : windowMult { w1 with mss := 99 } = (-1, false) := by decide

end P0f
