import P0f.Spec.Find
import P0f.Props.C01
/-
  C02 — fingerprint_tcp returns the best match in database order, with a sane distance.
-/
namespace P0f

/-- loop invariant: the loop from any accumulator state equals "first specific exact of the rest,
    else finish with the accumulators completed by the first fuzzy / first generic of the rest" -/
theorem findLoop_eq (p : PSig) (d : Int) (rs : List Rec) (fz gen : Option TcpMatch) :
    findLoop p d rs fz gen =
      match rs.find? (fun r => isExact p d r && !r.generic) with
      | some r => some (.exact, r)
      | none =>
        findFinish
          (if fz.isNone then (rs.find? (isFuzzy p d)).bind (fun r => (tcpMatch r.sig p d).map (·, r)) else fz)
          (if gen.isNone then (rs.find? (fun r => isExact p d r && r.generic)).map (MatchType.exact, ·) else gen) := by
  induction rs generalizing fz gen with
  | nil => cases fz <;> cases gen <;> simp [findLoop]
  | cons r rs ih =>
    unfold findLoop
    cases hm : tcpMatch r.sig p d with
    | none =>
      have he : isExact p d r = false := by simp [isExact, hm]
      have hf : isFuzzy p d r = false := by simp [isFuzzy, hm]
      simp only [List.find?_cons, he, hf, Bool.false_and]
      exact ih fz gen
    | some mt =>
      cases mt with
      | exact =>
        have he : isExact p d r = true := by simp [isExact, hm]
        have hf : isFuzzy p d r = false := by simp [isFuzzy, hm]
        cases hg : r.generic with
        | false => simp [he, hg]
        | true =>
          simp only [Bool.not_true, Bool.false_eq_true, ↓reduceIte]
          rw [ih]
          simp only [List.find?_cons, he, hf, hg, Bool.not_true, Bool.and_false, Bool.and_true]
          cases gen <;> simp
      | fuzzyTtl =>
        have he : isExact p d r = false := by simp [isExact, hm]
        have hf : isFuzzy p d r = true := by simp [isFuzzy, hm]
        simp only
        rw [ih]
        simp only [List.find?_cons, he, hf, Bool.false_and]
        cases fz <;> simp [hm]
      | fuzzyQuirks =>
        have he : isExact p d r = false := by simp [isExact, hm]
        have hf : isFuzzy p d r = true := by simp [isFuzzy, hm]
        simp only
        rw [ih]
        simp only [List.find?_cons, he, hf, Bool.false_and]
        cases fz <;> simp [hm]

/-- **C02, selection**: for every record list (any number / order of specific, generic and `!`
    records), every packet signature and every `max_dist`. -/
theorem findTcpMatch_eq_spec (recs : List Rec) (p : PSig) (d : Int) :
    findTcpMatch recs p d = specFind recs p d := by
  unfold findTcpMatch specFind
  rw [findLoop_eq]
  cases h1 : recs.find? (fun r => isExact p d r && !r.generic) with
  | some r => rfl
  | none =>
    simp only [Option.isNone_none, ↓reduceIte]
    cases h2 : recs.find? (fun r => isExact p d r && r.generic) with
    | some r => simp [findFinish]
    | none =>
      cases h3 : recs.find? (isFuzzy p d) with
      | none => simp [findFinish]
      | some r =>
        have hf : isFuzzy p d r = true := List.find?_some h3
        unfold isFuzzy at hf
        cases hm : tcpMatch r.sig p d with
        | none => simp [hm] at hf
        | some mt => simp [findFinish, hm]

/-- the match returned is a record of the list searched, and its type is what
    `tcp_signatures_match` says for it -/
theorem findTcpMatch_mem (recs : List Rec) (p : PSig) (d : Int) (mt : MatchType) (r : Rec)
    (h : findTcpMatch recs p d = some (mt, r)) : r ∈ recs ∧ tcpMatch r.sig p d = some mt := by
  rw [findTcpMatch_eq_spec] at h
  unfold specFind at h
  split at h
  · rename_i r' h1
    have := List.find?_some h1
    have hmem := List.mem_of_find?_eq_some h1
    simp only [Option.some.injEq, Prod.mk.injEq] at h
    obtain ⟨rfl, rfl⟩ := h
    simp only [isExact, Bool.and_eq_true, beq_iff_eq] at this
    exact ⟨hmem, this.1⟩
  · split at h
    · rename_i r' h2
      have := List.find?_some h2
      have hmem := List.mem_of_find?_eq_some h2
      simp only [Option.some.injEq, Prod.mk.injEq] at h
      obtain ⟨rfl, rfl⟩ := h
      simp only [isExact, Bool.and_eq_true, beq_iff_eq] at this
      exact ⟨hmem, this.1⟩
    · split at h
      · rename_i r' h3
        have hmem := List.mem_of_find?_eq_some h3
        split at h
        · simp at h
        · cases hm : tcpMatch r'.sig p d with
          | none => simp [hm] at h
          | some mt' =>
            simp only [hm, Option.map_some, Option.some.injEq, Prod.mk.injEq] at h
            obtain ⟨rfl, rfl⟩ := h
            exact ⟨hmem, hm⟩
      · simp at h

/-- "searches only the signatures of the packet's direction": the other section is irrelevant -/
theorem direction_only (db : TcpDb) (k : PktSig) (d : Int) (other : List Rec) :
    fingerprintTcp { db with resp := other } k true d = fingerprintTcp db k true d ∧
    fingerprintTcp { db with req := other } k false d = fingerprintTcp db k false d := by
  constructor <;> rfl

/-- **C02, distance**: the model's distance is the documented one -/
theorem distance_eq_spec (m : Option TcpMatch) (pttl : Nat) : distance m pttl = specDistance m pttl := by
  unfold distance specDistance guessDistance
  cases m with
  | none => rfl
  | some x => obtain ⟨mt, r⟩ := x; cases mt <;> rfl

/-- "hence always within 0..255": for packet TTLs 0..255 and records whose signature TTL is in
    the parser's range, the reported distance is within 0..255 -/
theorem distance_range (recs : List Rec) (p : PSig) (d : Int)
    (hp : p.ttl ≤ 255) (hs : ∀ r ∈ recs, r.sig.ttl ≤ 255) :
    0 ≤ distance (findTcpMatch recs p d) p.ttl ∧ distance (findTcpMatch recs p d) p.ttl ≤ 255 := by
  have hg : 0 ≤ guessDistance p.ttl ∧ guessDistance p.ttl ≤ 255 := by
    unfold guessDistance; split <;> (try split) <;> (try split) <;> omega
  cases h : findTcpMatch recs p d with
  | none => simpa [distance] using hg
  | some x =>
    obtain ⟨mt, r⟩ := x
    obtain ⟨hmem, hm⟩ := findTcpMatch_mem recs p d mt r h
    have hle := hs r hmem
    cases mt with
    | fuzzyTtl => simpa [distance] using hg
    | exact =>
      have := (exact_iff r.sig p d).mp hm
      have ht : p.ttl ≤ r.sig.ttl := by
        rcases this.2.2 with hb | hb
        · exact this.1.2.2.2.2.2.2.2.2 hb
        · exact hb.1
      simp only [distance]; omega
    | fuzzyQuirks =>
      have ht : p.ttl ≤ r.sig.ttl := by
        rw [tcpMatch_eq_spec] at hm
        unfold specMatch at hm
        by_cases hc : fixedOk r.sig p ∧ quirksFuzz r.sig p
        · simp only [hc, and_self, not_true_eq_false, ↓reduceIte] at hm
          by_cases he : quirksEqual r.sig p ∧ ttlWithin r.sig p d
          · simp [he] at hm
          · simp only [he, ↓reduceIte] at hm
            by_cases hw : ttlWithin r.sig p d
            · rcases hw with hb | hb
              · exact hc.1.2.2.2.2.2.2.2.2 hb
              · exact hb.1
            · simp [hw] at hm
        · simp [hc] at hm
      simp only [distance]; omega

/-! Non-vacuity: a database exhibiting each precedence rule. -/
private def sg (ttl : Nat) (q : List Quirk) : Sig :=
  { ipVer := none, olen := 0, ttl := ttl, badTtl := false, wtype := .any, wsize := 0, scale := none,
    layout := [2], mss := none, eolPad := 0, payClass := none, quirks := QSet.ofList q }
private def pk : PSig :=
  { ipVer := 4, olen := 0, ttl := 60, win := 100, layout := [2], mss := 1460, wscale := 0, eolPad := 0,
    hasPayload := false, quirks := QSet.ofList [.df], multVal := -1, multMtu := false }
private def rFuzzyApp : Rec := { sig := sg 64 [.df, .nzId], generic := false, userApp := true, line := 1 }
private def rFuzzy : Rec := { sig := sg 64 [.df, .nzId], generic := false, userApp := false, line := 2 }
private def rGen : Rec := { sig := sg 64 [.df], generic := true, userApp := false, line := 3 }
private def rSpec : Rec := { sig := sg 64 [.df], generic := false, userApp := false, line := 4 }

example : (findTcpMatch [rFuzzy, rGen, rSpec] pk 35).map (·.2.line) = some 4 := by decide
example : (findTcpMatch [rFuzzy, rGen] pk 35).map (·.2.line) = some 3 := by decide
example : (findTcpMatch [rFuzzy, rFuzzyApp] pk 35).map (·.2.line) = some 2 := by decide
example : (findTcpMatch [rFuzzyApp, rFuzzy] pk 35).map (·.2.line) = none := by decide
example : distance (findTcpMatch [rFuzzy] pk 35) pk.ttl = 4 := by decide
example : distance (findTcpMatch [rFuzzy] { pk with ttl := 20 } 35) 20 = 12 := by decide

end P0f
