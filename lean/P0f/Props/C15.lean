import P0f.Props.C09
/-
  C15 — records are addressable by the label text shown in the database.
-/
namespace P0f
open P0f.Py

/-- no piece of `splitOn a` contains the separator -/
theorem not_mem_of_mem_splitOn (a : Char) (xs : List Char) : ∀ l ∈ xs.splitOn a, a ∉ l := by
  induction xs with
  | nil => intro l hl; simp [List.splitOn_nil] at hl; subst hl; simp
  | cons x xs ih =>
    intro l hl
    rw [List.splitOn_cons_eq_if_modifyHead] at hl
    split at hl
    · rename_i hx
      simp only [List.mem_cons] at hl
      rcases hl with rfl | hl
      · simp
      · exact ih l hl
    · rename_i hx
      cases hs : xs.splitOn a with
      | nil => exact absurd hs (List.splitOn_ne_nil a xs)
      | cons h t =>
        rw [hs] at hl ih
        simp only [List.modifyHead_cons, List.mem_cons] at hl
        rcases hl with rfl | hl
        · have := ih h (by simp)
          simp only [List.mem_cons, not_or]
          refine ⟨?_, this⟩
          intro hax; subst hax; simp at hx
        · exact ih l (by simp [hl])

theorem splitParts_join4 (a b c d : List Char) (ha : ':' ∉ a) (hb : ':' ∉ b) (hc : ':' ∉ c) (hd : ':' ∉ d) :
    splitParts ':' 4 ([':'].intercalate [a, b, c, d]) = [a, b, c, d] := by
  unfold splitParts
  have := List.splitOn_intercalate (ls := [a, b, c, d]) ':'
    (by intro l hl; simp only [List.mem_cons, List.not_mem_nil, or_false] at hl
        rcases hl with rfl | rfl | rfl | rfl <;> assumption) (by simp)
  rw [this]
  simp

/-- **C15, label text round trip**: a four-part label text `type:class:name:flavour` (type `s`/`g`, any
    class, name and flavour - spaces and punctuation allowed, no colon, flavour possibly empty)
    parses to exactly those fields and dumps back to exactly that text. -/
theorem label_parse_dump (g : Bool) (cls name flav : List Char)
    (h1 : ':' ∉ cls) (h2 : ':' ∉ name) (h3 : ':' ∉ flav) :
    parseLabel ([':'].intercalate [[if g then 'g' else 's'], cls, name, flav])
        = some { generic := g, osClass := cls, name := name, flavor := flav } ∧
      LabelM.dump { generic := g, osClass := cls, name := name, flavor := flav }
        = [':'].intercalate [[if g then 'g' else 's'], cls, name, flav] := by
  refine ⟨?_, rfl⟩
  unfold parseLabel
  rw [splitParts_join4 _ _ _ _ (by cases g <;> simp) h1 h2 h3]
  cases g <;> simp

/-- whatever text `Label.parse` accepts, the dumped label is a four-part text without further colons
    and parses back to the same label: `dump` is the canonical address of the record -/
theorem parseLabel_dump_fixpoint (t : List Char) (l : LabelM) (h : parseLabel t = some l) :
    parseLabel l.dump = some l := by
  unfold parseLabel at h
  have hmem : ∀ p ∈ splitParts ':' 4 t, ':' ∉ p := by
    intro p hp
    unfold splitParts at hp
    simp only [List.mem_append, List.mem_replicate] at hp
    rcases hp with hp | ⟨_, rfl⟩
    · exact not_mem_of_mem_splitOn ':' t p (List.mem_of_mem_take hp)
    · simp
  split at h
  · rename_i ty cls name flavor heq
    have hc := hmem cls (by rw [heq]; simp)
    have hn := hmem name (by rw [heq]; simp)
    have hf := hmem flavor (by rw [heq]; simp)
    split at h
    · simp only [Option.some.injEq] at h; subst h
      exact (label_parse_dump false cls name flavor hc hn hf).1
    · split at h
      · simp only [Option.some.injEq] at h; subst h
        exact (label_parse_dump true cls name flavor hc hn hf).1
      · simp at h
  · simp at h

/-- **C15, lookup is sound and complete**: the candidates `get_random` draws from are exactly the
    records of the requested kind and direction whose dumped label equals the text (exact, hence
    case-sensitive, comparison) - nothing else can be returned and each of them can be. -/
theorem labelIs_iff (r : DbRec) (raw : List Char) :
    r.labelIs raw = true ↔ ∃ lb, r.label = some lb ∧ lb.dump = raw := by
  unfold DbRec.labelIs
  cases hl : r.label with
  | none => simp
  | some lb =>
    constructor
    · intro h
      exact ⟨lb, rfl, (by simpa using h : raw = lb.dump).symm⟩
    · rintro ⟨lb', h1, h2⟩
      cases h1
      simp [← h2]

theorem candidates_iff (db : Db) (raw : List Char) (k : RecKind) (d : Option Dir) (c : List DbRec)
    (h : db.candidates raw k d = .ok c) :
    ∃ l, db.iter k d = .ok l ∧ c ≠ [] ∧
      ∀ r, r ∈ c ↔ (r ∈ l ∧ ∃ lb, r.label = some lb ∧ lb.dump = raw) := by
  unfold Db.candidates at h
  cases hi : db.iter k d with
  | error e => simp [hi] at h
  | ok l =>
    simp only [hi] at h
    split at h
    · simp at h
    · rename_i hne
      simp only [Except.ok.injEq] at h
      subst h
      refine ⟨l, rfl, by simpa using hne, ?_⟩
      intro r
      rw [List.mem_filter, labelIs_iff]

/-- **C15, no candidate = DatabaseError** (also when the section was never loaded) -/
theorem candidates_error_iff (db : Db) (raw : List Char) (k : RecKind) (d : Option Dir) :
    (∃ e, db.candidates raw k d = .error e) ↔
      ((∃ e, db.iter k d = .error e) ∨
        ∃ l, db.iter k d = .ok l ∧ ∀ r ∈ l, ∀ lb, r.label = some lb → lb.dump ≠ raw) := by
  unfold Db.candidates
  cases hi : db.iter k d with
  | error e => simp
  | ok l =>
    simp only [reduceCtorEq, exists_false, false_or, Except.ok.injEq, exists_eq_left']
    constructor
    · intro ⟨e, he⟩
      split at he
      · rename_i hemp
        intro r hr lb hl hd
        have hm : r ∈ l.filter (·.labelIs raw) := by
          rw [List.mem_filter, labelIs_iff]; exact ⟨hr, lb, hl, hd⟩
        have : l.filter (·.labelIs raw) = [] := by simpa using hemp
        rw [this] at hm
        simp at hm
      · simp at he
    · intro hall
      have : l.filter (·.labelIs raw) = [] := by
        rw [List.filter_eq_nil_iff]
        intro r hr hlab
        obtain ⟨lb, hl, hd⟩ := (labelIs_iff r raw).mp hlab
        exact hall r hr lb hl hd
      exact ⟨.database, by simp [this]⟩

theorem iter_error_database (db : Db) (k : RecKind) (d : Option Dir) (e : LoadErr)
    (h : db.iter k d = .error e) : e = .database := by
  unfold Db.iter at h
  split at h
  · simp only [Except.error.injEq] at h; exact h.symm
  · split at h
    · simp at h
    · simp only [Except.error.injEq] at h; exact h.symm

/-- `get_random` errors are always `DatabaseError` -/
theorem candidates_error_database (db : Db) (raw : List Char) (k : RecKind) (d : Option Dir) (e : LoadErr)
    (h : db.candidates raw k d = .error e) : e = .database := by
  unfold Db.candidates at h
  cases hi : db.iter k d with
  | error e' =>
    simp only [hi, Except.error.injEq] at h; subst h
    exact iter_error_database db k d _ hi
  | ok l =>
    simp only [hi] at h
    split at h
    · simp only [Except.error.injEq] at h; exact h.symm
    · simp at h

/-- **C15, what a loaded record's label dumps to**: the record of a `sig` line carries the label of the
    most recent `label` line; if that line's text is a four-part label, dumping gives that text back. -/
theorem loaded_label_dump (pre : List LineKind) (g : Bool) (cls name flav : List Char) (s : Section)
    (hs : lastSection pre = some s) (hk : s.kind ≠ .mtu)
    (h1 : ':' ∉ cls) (h2 : ':' ∉ name) (h3 : ':' ∉ flav) :
    (lastLabel (.label ([':'].intercalate [[if g then 'g' else 's'], cls, name, flav]) :: pre)).map DbLabel.dump
      = some ([':'].intercalate [[if g then 'g' else 's'], cls, name, flav]) := by
  have hp := (label_parse_dump g cls name flav h1 h2 h3).1
  have hd := (label_parse_dump g cls name flav h1 h2 h3).2
  simp only [lastLabel, hs]
  unfold parseLabelFor
  cases hkk : s.kind with
  | mtu => exact absurd hkk hk
  | tcp => simp only [hp, Option.map_some, DbLabel.dump, hd]
  | http => simp only [hp, Option.map_some, DbLabel.dump, hd]

/-! non-vacuity -/
example : (parseLabel "s:unix:Linux:2.2.x-3.x (barebone)".toList).map LabelM.dump
    = some "s:unix:Linux:2.2.x-3.x (barebone)".toList := by decide +kernel
example : (parseLabel "g:!:a b:".toList).map LabelM.dump = some "g:!:a b:".toList := by decide +kernel

end P0f
