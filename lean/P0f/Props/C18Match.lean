import P0f.Props.C09Sig
import P0f.Props.C03
/-
  C18 (last clause) — "a signature written from an observed packet matches that packet exactly":
  the signature `sigOfPktSig k` printed in p0f notation, parsed by `TCPSignature.parse` and compared with
  the packet by `tcp_signatures_match` gives `exact`.
-/
namespace P0f
open P0f.Py

/-- what extraction guarantees about a packet signature (byte-sized header fields, 16-bit window and
    MSS, option kinds and padding from the wire, quirks of the packet's own IP family) -/
structure PktSig.Wire (k : PktSig) : Prop where
  ver : k.ipVer = 4 ∨ k.ipVer = 6
  olen : 0 ≤ k.olen ∧ k.olen ≤ 255
  ttl : k.ttl ≤ 255
  win : k.win ≤ 65535
  mss : k.mss ≤ 65535
  ws : k.wscale ≤ 255
  kinds : ∀ x ∈ k.layout, x ≤ 255
  pad : k.eolPad ≤ 255 ∧ (0 ∉ k.layout → k.eolPad = 0)
  quirks : ∀ q, k.quirks q = true → quirkInvalidFor (some k.ipVer) q = false

theorem sigOfPktSig_wf (k : PktSig) (h : k.Wire) : (sigOfPktSig k).WF := by
  refine ⟨?_, ?_, ?_, ?_, ?_, ?_, h.kinds, h.pad, h.quirks⟩
  · rcases h.ver with e | e <;> simp [sigOfPktSig, e]
  · have := h.ttl; simp only [sigOfPktSig]; omega
  · have := h.olen; simp only [sigOfPktSig]; omega
  · intro m hm; simp only [sigOfPktSig, Option.some.injEq] at hm; have := h.mss; omega
  · simp only [sigOfPktSig]
    exact ⟨fun _ => h.win, (fun c => by cases c), (fun c => by rcases c with c | c <;> cases c), (fun c => by cases c)⟩
  · intro c hc; simp only [sigOfPktSig, Option.some.injEq] at hc; have := h.ws; omega

theorem QSet.beq_self (a : QSet) : a.beq a = true := by simp [QSet.beq]

/-- **C18, written signature matches**: for every packet signature extraction can produce and every
    TTL tolerance of at least 1, the text written from it is accepted by the signature parser and the
    parsed signature matches the packet exactly. -/
theorem printed_sig_matches (k : PktSig) (h : k.Wire) (d : Int) (hd : 1 ≤ d) :
    ∃ s, parseTcpSig (renderTcpSig (sigOfPktSig k)) = some s ∧ tcpMatchPkt s k d = some .exact := by
  refine ⟨sigOfPktSig k, parseTcpSig_render_eq _ (sigOfPktSig_wf k h), ?_⟩
  have ho := h.olen
  have ht := h.ttl
  have holen : ((k.olen.toNat : Nat) : Int) = k.olen := Int.toNat_of_nonneg ho.1
  have hq : quirkStep k.quirks k.quirks = some .exact := by simp [quirkStep, QSet.beq_self]
  have httl1 : ¬ (max k.ttl 1 < k.ttl) := by omega
  have httl2 : ¬ (((max k.ttl 1 : Nat) : Int) - (k.ttl : Int) > d) := by omega
  simp [tcpMatchPkt, tcpMatch, sigOfPktSig, PktSig.toPSig, maskedQ, hq, holen, httl1, httl2, windowBad]

/-! ### extraction from wire bytes always yields such a packet signature -/

/-- the quirks the option walk can raise -/
def optQuirk (q : Quirk) : Bool := q == .exws || q == .zeroTs1 || q == .nzTs2 || q == .eolNz || q == .bad

def OptsOk (n : Nat) (o : Opts) : Prop :=
  (∀ k ∈ o.layout, k ≤ 255) ∧ o.mss ≤ 65535 ∧ o.ws ≤ 255 ∧ o.eolPad ≤ n ∧ (0 ∉ o.layout → o.eolPad = 0) ∧
    (∀ q, o.quirks q = true → optQuirk q = true)

theorem OptsOk.push {n : Nat} {o : Opts} (h : OptsOk n o) (k : Nat) (hk : k ≤ 255) (h0 : k ≠ 0) : OptsOk n (o.pushKind k) := by
  obtain ⟨h1, h2, h3, h4, h5, h6⟩ := h
  refine ⟨?_, h2, h3, h4, ?_, h6⟩
  · intro x hx; simp only [Opts.pushKind, List.mem_append, List.mem_cons, List.not_mem_nil, or_false] at hx
    rcases hx with hx | rfl
    · exact h1 x hx
    · exact hk
  · intro hn; simp only [Opts.pushKind, List.mem_append, List.mem_cons, List.not_mem_nil, or_false, not_or] at hn
    exact h5 hn.1

theorem OptsOk.quirk {n : Nat} {o : Opts} (h : OptsOk n o) (q : Quirk) (hq : optQuirk q = true) : OptsOk n (o.addQuirk q) := by
  obtain ⟨h1, h2, h3, h4, h5, h6⟩ := h
  refine ⟨h1, h2, h3, h4, h5, ?_⟩
  intro q' hq'
  simp only [Opts.addQuirk, QSet.insert, Bool.or_eq_true, beq_iff_eq] at hq'
  rcases hq' with hq' | rfl
  · exact h6 q' hq'
  · exact hq

theorem OptsOk.quirkIf {n : Nat} {o : Opts} (h : OptsOk n o) (c : Bool) (q : Quirk) (hq : optQuirk q = true) :
    OptsOk n (o.addQuirkIf c q) := by
  unfold Opts.addQuirkIf; cases c
  · exact h
  · exact h.quirk q hq

theorem be16_le (b : List Nat) (h : AllBytes b) : be16 b ≤ 65535 := by
  have h0 := getD_lt h 0; have h1 := getD_lt h 1; unfold be16; omega

theorem OptsOk.value {n : Nat} {o : Opts} (h : OptsOk n o) (isSyn : Bool) (k : Nat) (body : List Nat) (hb : AllBytes body) :
    OptsOk n (applyValue isSyn k body o) := by
  unfold applyValue
  split
  · obtain ⟨h1, h2, h3, h4, h5, h6⟩ := h
    exact ⟨h1, be16_le body hb, h3, h4, h5, h6⟩
  · split
    · refine OptsOk.quirkIf ?_ _ _ (by decide)
      obtain ⟨h1, h2, h3, h4, h5, h6⟩ := h
      have := getD_lt hb 0
      exact ⟨h1, h2, by simp only [Opts.setWs]; omega, h4, h5, h6⟩
    · split
      · refine OptsOk.quirkIf (OptsOk.quirkIf ?_ _ _ (by decide)) _ _ (by decide)
        obtain ⟨h1, h2, h3, h4, h5, h6⟩ := h
        exact ⟨h1, h2, h3, h4, h5, h6⟩
      · exact h

theorem AllBytes.drop {l : List Nat} (h : AllBytes l) (n : Nat) : AllBytes (l.drop n) :=
  fun x hx => h x (List.mem_of_mem_drop hx)
theorem AllBytes.take {l : List Nat} (h : AllBytes l) (n : Nat) : AllBytes (l.take n) :=
  fun x hx => h x (List.mem_of_mem_take hx)
theorem AllBytes.tail {a : Nat} {l : List Nat} (h : AllBytes (a :: l)) : AllBytes l :=
  fun x hx => h x (by simp [hx])
theorem AllBytes.head {a : Nat} {l : List Nat} (h : AllBytes (a :: l)) : a ≤ 255 := by
  have := h a (by simp); omega

theorem parseOptsGo_ok (isSyn : Bool) (n : Nat) (l : List Nat) (o : Opts)
    (hl : AllBytes l) (hn : l.length ≤ n) (h : OptsOk n o) : OptsOk n (parseOptsGo isSyn l o) := by
  fun_induction parseOptsGo isSyn l o
  case case1 => exact h
  case case2 rest o =>
    -- EOL
    refine OptsOk.quirkIf ?_ _ _ (by decide)
    obtain ⟨h1, h2, h3, h4, h5, h6⟩ := h
    refine ⟨?_, h2, h3, ?_, ?_, h6⟩
    · intro x hx
      simp only [Opts.setEolPad, Opts.pushKind, List.mem_append, List.mem_cons, List.not_mem_nil, or_false] at hx
      rcases hx with hx | rfl
      · exact h1 x hx
      · omega
    · simp only [Opts.setEolPad, List.length_cons] at hn ⊢; omega
    · intro h0; simp [Opts.setEolPad, Opts.pushKind] at h0
  all_goals
    (have hkind := hl.head
     have htl := hl.tail
     simp only [List.length_cons] at hn)
  case case3 rest o _ ih =>
    exact ih htl (by omega) (h.push 1 (by decide) (by decide))
  case case4 kind o h0 h1 =>
    exact (h.push kind hkind h0).quirk _ (by decide)
  case case5 kind o h0 h1 len rest' hlen =>
    exact (h.push kind hkind h0).quirk _ (by decide)
  case case6 kind o h0 h1 len rest' _ hlen =>
    exact (h.push kind hkind h0).quirk _ (by decide)
  case case7 o len rest' _ _ _ _ _ =>
    exact (h.push _ (by omega) (by omega)).quirk _ (by decide)
  case case8 o len rest' _ _ _ _ _ ih =>
    exact ih (htl.tail.drop _) (by simp only [List.length_drop]; omega) (h.push _ (by omega) (by omega))
  case case9 kind o h0 h1 len rest' _ _ _ sz _ _ ih =>
    exact ih (htl.tail.drop _) (by simp only [List.length_drop]; omega) ((h.push kind hkind h0).quirk _ (by decide))
  case case10 kind o h0 h1 len rest' _ _ _ sz _ _ ih =>
    exact ih (htl.tail.drop _) (by simp only [List.length_drop]; omega)
      ((h.push kind hkind h0).value isSyn kind _ (htl.tail.take _))
  case case11 kind o h0 h1 len rest' _ _ _ _ _ =>
    exact (h.push kind hkind h0).quirk _ (by decide)
  case case12 kind o h0 h1 len rest' _ _ _ _ _ ih =>
    exact ih (htl.tail.drop _) (by simp only [List.length_drop]; omega) (h.push kind hkind h0)

theorem u16_le (b : List Nat) (h : AllBytes b) (i : Nat) : u16 b i ≤ 65535 := by
  have h0 := getD_lt h i; have h1 := getD_lt h (i + 1); unfold u16; omega

theorem tcpLayer_opts_ok (t : List Nat) (h : AllBytes t) : OptsOk 255 (tcpLayer t).opts := by
  unfold tcpLayer
  simp only
  unfold parseOpts
  have h12 := getD_lt h 12
  refine parseOptsGo_ok _ 255 _ _ ((h.take _).drop _) ?_ ?_
  · simp only [List.length_drop, List.length_take]; omega
  · exact ⟨by simp [Opts.init], by simp [Opts.init], by simp [Opts.init], by simp [Opts.init], by simp [Opts.init],
      by intro q hq; simp [Opts.init, QSet.empty] at hq⟩

/-- family-specific quirks never come from the TCP layer -/
theorem tcpLayer_quirks_family (t : List Nat) (h : AllBytes t) (q : Quirk)
    (hq : q = .flow ∨ q = .df ∨ q = .nzId ∨ q = .zeroId ∨ q = .nzMbz) : (tcpLayer t).quirks q = false := by
  rw [tcp_quirks t h q]
  have ho : OptsOk 255 (tcpLayer t).opts := tcpLayer_opts_ok t h
  have hs := tcpType_syn_iff t h
  have hopt : (parseOpts ((t.take ((t.getD 12 0 / 16) * 4)).drop 20) (isInitialSyn t)).quirks q = false := by
    cases hv : (parseOpts ((t.take ((t.getD 12 0 / 16) * 4)).drop 20) (isInitialSyn t)).quirks q with
    | false => rfl
    | true =>
      have : (tcpLayer t).opts = parseOpts ((t.take ((t.getD 12 0 / 16) * 4)).drop 20) (isInitialSyn t) := by
        unfold tcpLayer; simp only [hs]
      rw [this] at ho
      have := ho.2.2.2.2.2 q hv
      rcases hq with rfl | rfl | rfl | rfl | rfl <;> simp [optQuirk] at this
  rw [hopt]
  rcases hq with rfl | rfl | rfl | rfl | rfl <;> simp [specTcpQuirk]

theorem wire_of_layers (ip : IpL) (t : List Nat) (s : Nat) (h : AllBytes t)
    (hv : ip.version = 4 ∨ ip.version = 6) (holen : ip.olen ≤ 255) (httl : ip.ttl ≤ 255)
    (hq : ∀ q, ip.quirks q = true → quirkInvalidFor (some ip.version) q = false) :
    (pktSigOfPkt { ip := ip, tcp := tcpLayer t } s).Wire := by
  have ho := tcpLayer_opts_ok t h
  obtain ⟨h1, h2, h3, h4, h5, _⟩ := ho
  refine ⟨hv, ?_, httl, ?_, h2, h3, h1, ⟨h4, h5⟩, ?_⟩
  · simp only [pktSigOfPkt]; omega
  · simp only [pktSigOfPkt]; unfold tcpLayer; exact u16_le t h 14
  · intro q hqq
    simp only [pktSigOfPkt, QSet.union, Bool.or_eq_true] at hqq ⊢
    rcases hqq with hqq | hqq
    · exact hq q hqq
    · cases hinv : quirkInvalidFor (some ip.version) q with
      | false => rfl
      | true =>
        have hfam : q = .flow ∨ q = .df ∨ q = .nzId ∨ q = .zeroId ∨ q = .nzMbz := by
          rcases hv with e | e <;> rw [e] at hinv <;> cases q <;> simp [quirkInvalidFor] at hinv <;> simp
        rw [tcpLayer_quirks_family t h q hfam] at hqq
        exact absurd hqq (by decide)

/-- **C18, every parsed IPv4 packet**: the signature of any well-framed IPv4/TCP datagram is one the
    written-signature theorem applies to. -/
theorem decodeV4_wire (b : List Nat) (p : PktL) (s : Nat) (hb : AllBytes b) (h : decodeV4 b = some p) :
    (pktSigOfPkt p s).Wire := by
  unfold decodeV4 at h
  simp only at h
  split at h
  · simp at h
  · rename_i hg
    split at h
    · simp at h
    · split at h
      · simp at h
      · simp only [Option.some.injEq] at h
        subst h
        have h0 := getD_lt hb 0
        have h8 := getD_lt hb 8
        have hver : b.getD 0 0 / 16 = 4 := by omega
        refine wire_of_layers _ _ s ((hb.take _).drop _) ?_ ?_ ?_ ?_
        · left; simp only [ipv4Layer]; exact hver
        · simp only [ipv4Layer]; omega
        · simp only [ipv4Layer]; omega
        · intro q hq
          rw [ipv4_quirks] at hq
          have : (ipv4Layer b).version = 4 := by simp only [ipv4Layer]; exact hver
          rw [this]
          cases q <;> simp [quirkInvalidFor] <;> simp [specV4Quirk] at hq

theorem decodeV6_wire (b : List Nat) (p : PktL) (s : Nat) (hb : AllBytes b) (h : decodeV6 b = some p) :
    (pktSigOfPkt p s).Wire := by
  unfold decodeV6 at h
  simp only at h
  split at h
  · simp at h
  · rename_i hg
    split at h
    · simp at h
    · split at h
      · simp at h
      · simp only [Option.some.injEq] at h
        subst h
        have h0 := getD_lt hb 0
        have h7 := getD_lt hb 7
        have hver : b.getD 0 0 / 16 = 6 := by omega
        refine wire_of_layers _ _ s ((hb.take _).drop _) ?_ ?_ ?_ ?_
        · right; simp only [ipv6Layer]; exact hver
        · simp only [ipv6Layer]; omega
        · simp only [ipv6Layer]; omega
        · intro q hq
          rw [ipv6_quirks] at hq
          have : (ipv6Layer b).version = 6 := by simp only [ipv6Layer]; exact hver
          rw [this]
          cases q <;> simp [quirkInvalidFor] <;> simp [specV6Quirk] at hq

/-- **C18, end to end**: for every well-framed IPv4 or IPv6 TCP datagram (any bytes), the signature
    written from its extracted fields parses and matches the packet exactly. -/
theorem printed_sig_matches_wire (b : List Nat) (p : PktL) (s : Nat) (d : Int) (hd : 1 ≤ d) (hb : AllBytes b)
    (h : decodeV4 b = some p ∨ decodeV6 b = some p) :
    ∃ g, parseTcpSig (renderTcpSig (sigOfPktSig (pktSigOfPkt p s))) = some g ∧
      tcpMatchPkt g (pktSigOfPkt p s) d = some .exact := by
  rcases h with h | h
  · exact printed_sig_matches _ (decodeV4_wire b p s hb h) d hd
  · exact printed_sig_matches _ (decodeV6_wire b p s hb h) d hd

end P0f
