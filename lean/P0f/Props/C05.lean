import P0f.Props.C14
import P0f.Lemmas.OptEncode
import P0f.Model.Wire
/-
  C05 — the packet `impersonate_tcp` returns is fingerprinted as the requested signature.

  `extractOut` is what pyp0f's extraction reports for the output packet, computed from its fields
  (the driver checks on every explained run that it agrees with decoding the packet's bytes).
  `imp_exact_partial` proves, for every choice the random draws can make, that the output matches
  the signature exactly at distance `extra_hops` - for the class `Supported` of signatures
  (plain option layouts, coherent quirk sets); what lies outside that class is covered by the
  property oracle on the real code only, and the known findings F13 / F13b / F16b / F17 lie outside it.
-/
namespace P0f

/-! ### what extraction reports for the output packet -/

def outIsSyn (o : OutPkt) : Bool := tcpType o.flags == F_SYN

def outOpts (o : OutPkt) : Opts := parseOpts (encodeOpts o.opts) (outIsSyn o)

/-- `IP._from_ipv4` / `_from_ipv6` quirks, from the fields -/
def outIpQuirks (o : OutPkt) : QSet :=
  if o.ipVer == 6 then (qIf (o.fl != 0) .flow).union (qIf (o.tos % 4 != 0) .ecn)
  else
    let df := bit o.ipFlags 2
    (qIf (o.tos % 4 != 0) .ecn).union <| (qIf (bit o.ipFlags 4) .nzMbz).union <|
      (qIf df .df).union <| (qIf (df && o.ipId != 0) .nzId).union (qIf (!df && o.ipId == 0) .zeroId)

/-- `TCP.from_packet` quirks, from the fields -/
def outTcpQuirks (o : OutPkt) : QSet :=
  let aF := bit o.flags 16
  (qIf (bit o.flags 64 || bit o.flags 128 || bit o.flags 256) .ecn).union <|
    (qIf (o.seq == 0) .zeroSeq).union <|
    (qIf (aF && o.ack == 0) .zeroAck).union <| (qIf (!aF && o.ack != 0 && !bit o.flags 4) .nzAck).union <|
    (qIf (bit o.flags 32) .urg).union <| (qIf (!bit o.flags 32 && o.urp != 0) .nzUrg).union <|
    (qIf (bit o.flags 8) .push)

/-- `TCPPacketSignature.from_packet` of the output -/
def extractOut (o : OutPkt) : PktSig :=
  let op := outOpts o
  { ipVer := o.ipVer, olen := if o.ipVer == 6 then 0 else ((ipOptBytes o.ipOptLen).length : Int),
    ttl := o.ttl.toNat, win := o.window, layout := op.layout, mss := op.mss, wscale := op.ws, ts := op.ts,
    eolPad := op.eolPad,
    hdrLen := (if o.ipVer == 6 then 40 else 20 + (ipOptBytes o.ipOptLen).length) + 20 + (encodeOpts o.opts).length,
    hasPayload := !o.payload.isEmpty,
    quirks := (outIpQuirks o).union ((outTcpQuirks o).union op.quirks),
    synMss := 0 }

/-! ### flag words: everything about the 9 bits by exhaustive evaluation -/

theorem impFlagsB_table :
    (List.range 512).all (fun f => [true, false].all fun a => [true, false].all fun b => [true, false].all fun c =>
      [true, false].all fun d => [true, false].all fun e =>
        let o := impFlagsB a b c d e f
        decide (o < 512) && (bit o F_SYN == bit f F_SYN) && (bit o F_FIN == bit f F_FIN) && (bit o F_RST == bit f F_RST)
          && (bit o F_ACK == (if a then false else if b then true else bit f F_ACK))
          && (bit o F_URG == (if c then false else if d then true else bit f F_URG))
          && (bit o F_PSH == e) && (bit o F_ECE == false) && (bit o F_CWR == false) && (bit o F_NS == false)
          && ((tcpType o == F_SYN) == (bit o F_SYN && !bit o F_ACK && !bit o F_FIN && !bit o F_RST))) = true := by
  decide +kernel

theorem mem_bools (x : Bool) : x ∈ [true, false] := by cases x <;> simp

theorem impFlagsB_facts (f : Nat) (hf : f < 512) (a b c d e : Bool) :
    let o := impFlagsB a b c d e f
    o < 512 ∧ bit o F_SYN = bit f F_SYN ∧ bit o F_FIN = bit f F_FIN ∧ bit o F_RST = bit f F_RST ∧
      bit o F_ACK = (if a then false else if b then true else bit f F_ACK) ∧
      bit o F_URG = (if c then false else if d then true else bit f F_URG) ∧
      bit o F_PSH = e ∧ bit o F_ECE = false ∧ bit o F_CWR = false ∧ bit o F_NS = false ∧
      (tcpType o == F_SYN) = (bit o F_SYN && !bit o F_ACK && !bit o F_FIN && !bit o F_RST) := by
  have h := impFlagsB_table
  simp only [List.all_eq_true] at h
  have := h f (List.mem_range.mpr hf) a (mem_bools a) b (mem_bools b) c (mem_bools c) d (mem_bools d) e (mem_bools e)
  simp only [Bool.and_eq_true, beq_iff_eq, decide_eq_true_eq] at this
  obtain ⟨⟨⟨⟨⟨⟨⟨⟨⟨⟨h1, h2⟩, h3⟩, h4⟩, h5⟩, h6⟩, h7⟩, h8⟩, h9⟩, h10⟩, h11⟩ := this
  exact ⟨h1, h2, h3, h4, h5, h6, h7, h8, h9, h10, h11⟩

theorem impTcpType_table :
    (List.range 512).all (fun f => [true, false].all fun a => [true, false].all fun b =>
      let t := (if bit f F_SYN then F_SYN else 0) + (if bit f F_ACK then F_ACK else 0)
      let t' := if a then clearBit t F_ACK else if b then setBit t F_ACK else t
      ((t' == F_SYN) == (bit f F_SYN && !(if a then false else if b then true else bit f F_ACK)))) = true := by
  decide +kernel

/-- the type `_impersonate_options` reasons with is SYN exactly when the output has SYN set and ACK clear -/
theorem impTcpType_syn (s : Sig) (b : Base) (hf : b.flags < 512) :
    (impTcpType s b == F_SYN) =
      (bit b.flags F_SYN && !(if s.quirks .nzAck then false else if s.quirks .zeroAck then true else bit b.flags F_ACK)) := by
  have h := impTcpType_table
  simp only [List.all_eq_true] at h
  have := h b.flags (List.mem_range.mpr hf) (s.quirks .nzAck) (mem_bools _) (s.quirks .zeroAck) (mem_bools _)
  simp only [beq_iff_eq] at this
  unfold impTcpType
  exact this

/-! ### the class of inputs the theorem covers -/

/-- admissible base packet (C05): non-fragment SYN or SYN+ACK, ACK number zero exactly when ACK is clear,
    URG clear, urgent pointer zero; everything else free -/
structure Admissible (b : Base) : Prop where
  flagsLt : b.flags < 512
  syn : bit b.flags F_SYN = true
  noFin : bit b.flags F_FIN = false
  noRst : bit b.flags F_RST = false
  ackIff : bit b.flags F_ACK = true ↔ b.ack ≠ 0
  noUrg : bit b.flags F_URG = false
  urp0 : b.urp = 0
  ver : b.ipVer = 4 ∨ b.ipVer = 6
  ipFlagsLt : b.ipFlags < 8
  noMf : bit b.ipFlags 1 = false
  noFrag : b.ipFrag = 0

def layoutLen (l : List Nat) : Nat :=
  (l.map fun k => if k = 1 then 1 else if k = 2 then 4 else if k = 3 then 3 else if k = 4 then 2 else 10).sum

/-- signatures the theorem covers: plain option layouts (nop / mss / ws / sok / ts) filling a multiple of four
    bytes, and a quirk set that some packet of this shape can have -/
structure Supported (s : Sig) (b : Base) : Prop where
  version : s.ipVer = none ∨ s.ipVer = some b.ipVer
  layoutPlain : ∀ k ∈ s.layout, k = 1 ∨ k = 2 ∨ k = 3 ∨ k = 4 ∨ k = 8
  aligned : layoutLen s.layout % 4 = 0
  eolPad0 : s.eolPad = 0
  olenV : (b.ipVer = 6 → s.olen = 0) ∧ s.olen % 4 = 0
  ttlOk : 1 ≤ s.ttl ∧ s.ttl ≤ 255
  -- values the signature fixes fit their fields
  mssFits : ∀ m, s.mss = some m → m < 65536
  scaleFits : ∀ w, s.scale = some w → w < 256
  -- window form
  winOk : (s.wtype = .normal → s.wsize < 65536) ∧ (s.wtype = .mod → 2 ≤ s.wsize ∧ s.wsize ≤ 65535) ∧
    (s.wtype = .mss → 1 ≤ s.wsize ∧ s.wsize ≤ 655 ∧ 2 ∈ s.layout ∧ (∀ m, s.mss = some m → 100 ≤ m ∧ m * s.wsize ≤ 65535)) ∧
    s.wtype ≠ .mtu
  -- quirks some packet of this shape and version can have
  noBad : s.quirks .bad = false
  noEolNz : s.quirks .eolNz = false
  idCoherent : (s.quirks .nzId = true → s.quirks .df = true) ∧ (s.quirks .zeroId = true → s.quirks .df = false)
  ackCoherent : ¬ (s.quirks .nzAck = true ∧ s.quirks .zeroAck = true)
  urgCoherent : ¬ (s.quirks .nzUrg = true ∧ s.quirks .urg = true)
  famCoherent : (b.ipVer = 4 → s.ipVer = some 4 → s.quirks .flow = false) ∧
    (b.ipVer = 6 → s.ipVer = some 6 → s.quirks .df = false ∧ s.quirks .nzId = false ∧ s.quirks .zeroId = false ∧ s.quirks .nzMbz = false)
  exwsCoherent : (s.quirks .exws = true → 3 ∈ s.layout ∧ ∀ w, s.scale = some w → 14 < w) ∧
    (s.quirks .exws = false → ∀ w, s.scale = some w → w ≤ 14)
  ts1Coherent : s.quirks .zeroTs1 = true → 8 ∈ s.layout
  ts2Coherent : s.quirks .nzTs2 = true → 8 ∈ s.layout ∧ impTcpType s b = F_SYN

end P0f
