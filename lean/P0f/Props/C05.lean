import P0f.Props.C14
import P0f.Lemmas.ImpFlags
import P0f.Lemmas.OptEncode
import P0f.Model.Wire
import P0f.Model.ImpExtract
import P0f.Props.C08RoundTrip
/-
  C05 — the packet `impersonate_tcp` returns is fingerprinted as the requested signature.

  `extractOut` is what pyp0f's extraction reports for the output packet, computed from its fields
  (the driver checks on every explained run that it agrees with decoding the packet's bytes).
  `imp_exact_partial` proves, for every choice the random draws can make, that the output matches
  the signature exactly at distance `extra_hops` - for the class `Supported` of signatures
  (plain option layouts, coherent quirk sets); what lies outside that class is covered by the
  property oracle on the real code only, and the known findings F13 / F13b / F16b / F17 lie outside it.
-/
namespace P0f

/-! ### the class of inputs the theorem covers -/

/-- admissible base packet (C05): non-fragment SYN or SYN+ACK, ACK number zero exactly when ACK is clear,
    URG clear, urgent pointer zero; everything else free -/
structure Admissible (b : Base) : Prop where
  flagsLt : b.flags < 512
  syn : bit b.flags F_SYN = true
  noFin : bit b.flags F_FIN = false
  noRst : bit b.flags F_RST = false
  ackIff : bit b.flags F_ACK = true ↔ b.ack ≠ 0
  noUrg : bit b.flags F_URG = false
  urp0 : b.urp = 0
  ver : b.ipVer = 4 ∨ b.ipVer = 6
  ipFlagsLt : b.ipFlags < 8
  noMf : bit b.ipFlags 1 = false
  noFrag : b.ipFrag = 0

def layoutLen (l : List Nat) : Nat :=
  (l.map fun k => if k = 1 then 1 else if k = 2 then 4 else if k = 3 then 3 else if k = 4 then 2
    else if k = 5 ∨ k = 8 then 10 else 2).sum

/-- the layout up to (not including) an EOL entry -/
def bodyLayout (s : Sig) : List Nat := s.layout.takeWhile (· != 0)
/-- does the layout contain an EOL entry -/
def endsEol (s : Sig) : Bool := s.layout.contains 0

/-- signatures the theorem covers: option layouts of nop / mss / ws / sok / ts, optionally closed by `eol+n`, filling a
    multiple of four bytes, and a quirk set that some packet of this shape can have -/
structure Supported (s : Sig) (b : Base) : Prop where
  version : s.ipVer = none ∨ s.ipVer = some b.ipVer
  layoutShape : s.layout = bodyLayout s ++ (if endsEol s then [0] else [])
  layoutPlain : ∀ k ∈ bodyLayout s, k ≤ 255
  aligned : (∃ k ∈ bodyLayout s, stretchable k = true) ∨
    (layoutLen (bodyLayout s) + (if endsEol s then 1 + s.eolPad else 0)) % 4 = 0
  eolPad0 : endsEol s = false → s.eolPad = 0
  olenV : (b.ipVer = 6 → s.olen = 0) ∧ s.olen % 4 = 0
  ttlOk : 1 ≤ s.ttl ∧ s.ttl ≤ 255
  -- values the signature fixes fit their fields
  mssFits : ∀ m, s.mss = some m → m < 65536
  scaleFits : ∀ w, s.scale = some w → w < 256
  -- window form
  winOk : (s.wtype = .normal → s.wsize < 65536) ∧ (s.wtype = .mod → 2 ≤ s.wsize ∧ s.wsize ≤ 65535) ∧
    (s.wtype = .mss → 1 ≤ s.wsize ∧ s.wsize ≤ 655 ∧ 2 ∈ s.layout ∧ (∀ m, s.mss = some m → 100 ≤ m ∧ m * s.wsize ≤ 65535)) ∧
    s.wtype ≠ .mtu
  -- quirks some packet of this shape and version can have
  noBad : s.quirks .bad = false
  eolNzCoherent : s.quirks .eolNz = true → endsEol s = true ∧ 0 < s.eolPad
  idCoherent : (s.quirks .nzId = true → s.quirks .df = true) ∧ (s.quirks .zeroId = true → s.quirks .df = false)
  ackCoherent : ¬ (s.quirks .nzAck = true ∧ s.quirks .zeroAck = true)
  urgCoherent : ¬ (s.quirks .nzUrg = true ∧ s.quirks .urg = true)
  famCoherent : (b.ipVer = 4 → s.ipVer = some 4 → s.quirks .flow = false) ∧
    (b.ipVer = 6 → s.ipVer = some 6 → s.quirks .df = false ∧ s.quirks .nzId = false ∧ s.quirks .zeroId = false ∧ s.quirks .nzMbz = false)
  exwsCoherent : (s.quirks .exws = true → 3 ∈ s.layout ∧ ∀ w, s.scale = some w → 14 < w) ∧
    (s.quirks .exws = false → ∀ w, s.scale = some w → w ≤ 14)
  mssCoherent : ∀ m, s.mss = some m → 2 ∈ s.layout ∨ m = 0
  scaleCoherent : ∀ w, s.scale = some w → 3 ∈ s.layout ∨ w = 0
  ts1Coherent : s.quirks .zeroTs1 = true → 8 ∈ s.layout
  ts2Coherent : s.quirks .nzTs2 = true → 8 ∈ s.layout ∧ impTcpType s b = F_SYN
  -- the IP options and the TCP options fit their headers (at most 40 bytes each)
  sizeOk : s.olen ≤ 40 ∧ layoutLen (bodyLayout s) + (if endsEol s then 1 + s.eolPad else 0) ≤ 40

/-! ### the option list for plain layouts -/

/-- a layout entry before the EOL: nop, mss, ws, sok, ts, sack or a kind unknown to p0f -/
def PlainKind (k : Nat) : Prop :=
  k = 1 ∨ k = 2 ∨ k = 3 ∨ k = 4 ∨ k = 8 ∨ k = 5 ∨ (k ≠ 0 ∧ k ≠ 1 ∧ k ≠ 2 ∧ k ≠ 3 ∧ k ≠ 4 ∧ k ≠ 5 ∧ k ≠ 8)

theorem plainKind_of_ne_zero (k : Nat) (h : k ≠ 0) : PlainKind k := by
  unfold PlainKind; omega

/-- as produced by `_impersonate_options`, before `_align_options`: SACK carries 8 zero bytes, an unknown kind none -/
def SOpt.fresh : SOpt → Prop
  | .sack n => n = 8
  | .raw _ n => n = 0
  | _ => True

/-- one plain layout entry yields exactly one well-formed, non-EOL option of that kind -/
theorem impOption_plain (s : Sig) (b : Base) (up : Option Int) (k : Nat) (c : Nat × Nat) (hk : PlainKind k)
    (hm : ∀ m, s.mss = some m → m < 65536) (hw : ∀ w, s.scale = some w → w < 256)
    (hok : optChoiceOk s b up k c = true) :
    ∃ o, impOption s b up k c = ([o], false) ∧ o.kind = k ∧ o ≠ .eol ∧ o.WF ∧
      o.wireLen = (if k = 1 then 1 else if k = 2 then 4 else if k = 3 then 3 else if k = 4 then 2
        else if k = 5 ∨ k = 8 then 10 else 2) ∧ o.fresh := by
  rcases hk with rfl | rfl | rfl | rfl | rfl | rfl | ⟨k0, k1, k2, k3, k4, k5, k8⟩
  · exact ⟨.nop, by simp [impOption], rfl, by simp, trivial, rfl, trivial⟩
  · -- MSS
    cases hs : s.mss with
    | some m =>
      exact ⟨.mss m, by simp [impOption, hs], rfl, by simp, hm m hs, rfl, trivial⟩
    | none =>
      cases hh : inRange (mssBounds s).1 (mssBounds s).2 b.mssHint with
      | some h =>
        refine ⟨.mss h, ?_, rfl, by simp, ?_, rfl, trivial⟩
        · simp only [impOption, beq_self_eq_true, ↓reduceIte, hs]
          rw [show mssBounds s = ((mssBounds s).1, (mssBounds s).2) from rfl]
          simp only [hh]
        · -- the hint passed the range test, whose upper bound is at most 65535
          simp only [SOpt.WF]
          cases hb : b.mssHint with
          | none => simp [hb, inRange] at hh
          | some v =>
            rw [hb, inRange_some] at hh
            split at hh
            · rename_i hr
              simp only [Option.some.injEq] at hh
              have hhi : (mssBounds s).2 ≤ 65535 := by
                unfold mssBounds
                split
                · simp only
                  by_cases hz : (s.wsize : Int) = 0
                  · simp [hz]
                  · have : (0 : Int) < s.wsize := by omega
                    exact Int.ediv_le_self _ (by omega)
                · simp
              have hlo : 0 ≤ (mssBounds s).1 := by unfold mssBounds; split <;> simp
              omega
            · simp at hh
      | none =>
        refine ⟨.mss c.1, ?_, rfl, by simp, ?_, rfl, trivial⟩
        · simp only [impOption, beq_self_eq_true, ↓reduceIte, hs]
          rw [show mssBounds s = ((mssBounds s).1, (mssBounds s).2) from rfl]
          simp only [hh]
        · simp only [SOpt.WF]
          simp only [optChoiceOk, beq_self_eq_true, ↓reduceIte, hs] at hok
          rw [show mssBounds s = ((mssBounds s).1, (mssBounds s).2) from rfl] at hok
          simp only [hh, decide_eq_true_eq] at hok
          have hhi : (mssBounds s).2 ≤ 65535 := by
            unfold mssBounds
            split
            · simp only
              by_cases hz : (s.wsize : Int) = 0
              · simp [hz]
              · have : (0 : Int) < s.wsize := by omega
                exact Int.ediv_le_self _ (by omega)
            · simp
          omega
  · -- window scale
    cases hs : s.scale with
    | some w => exact ⟨.ws w, by simp [impOption, hs], rfl, by simp, hw w hs, rfl, trivial⟩
    | none =>
      by_cases he : s.quirks .exws = true
      · cases hh : inRange 15 255 b.wsHint with
        | some h =>
          refine ⟨.ws h, by simp [impOption, hs, he, hh], rfl, by simp, ?_, rfl, trivial⟩
          simp only [SOpt.WF]
          cases hb : b.wsHint with
          | none => simp [hb, inRange] at hh
          | some v =>
            rw [hb, inRange_some] at hh
            split at hh
            · simp only [Option.some.injEq] at hh; omega
            · simp at hh
        | none =>
          refine ⟨.ws c.1, by simp [impOption, hs, he, hh], rfl, by simp, ?_, rfl, trivial⟩
          have : 15 ≤ c.1 ∧ c.1 ≤ 255 := by simpa [optChoiceOk, hs, he, hh] using hok
          simp only [SOpt.WF]; omega
      · have he' : s.quirks .exws = false := by simpa using he
        cases hh : inRange 0 14 b.wsHint with
        | some h =>
          refine ⟨.ws h, by simp [impOption, hs, he', hh], rfl, by simp, ?_, rfl, trivial⟩
          simp only [SOpt.WF]
          cases hb : b.wsHint with
          | none => simp [hb, inRange] at hh
          | some v =>
            rw [hb, inRange_some] at hh
            split at hh
            · simp only [Option.some.injEq] at hh; omega
            · simp at hh
        | none =>
          refine ⟨.ws c.1, by simp [impOption, hs, he', hh], rfl, by simp, ?_, rfl, trivial⟩
          have : c.1 ≤ 14 := by simpa [optChoiceOk, hs, he', hh] using hok
          simp only [SOpt.WF]; omega
  · exact ⟨.sackok, by simp [impOption], rfl, by simp, trivial, rfl, trivial⟩
  · -- timestamps
    refine ⟨_, by simp only [impOption]; rfl, rfl, by simp, ?_, rfl, by simp [SOpt.fresh]⟩
    simp only [SOpt.WF]
    have inRange_lt : ∀ (lo : Int) (h : Option Int) (v : Nat), inRange lo 4294967295 h = some v → v < 4294967296 := by
      intro lo h v hv
      cases hb : h with
      | none => simp [hb, inRange] at hv
      | some x =>
        rw [hb, inRange_some] at hv
        split at hv
        · simp only [Option.some.injEq] at hv; omega
        · simp at hv
    constructor
    · split
      · omega
      · cases hu : inRange 1 4294967295 up with
        | some u => simp only; exact inRange_lt _ _ _ hu
        | none =>
          simp only
          cases h1 : inRange 1 4294967295 b.ts1Hint with
          | some h => simp only; exact inRange_lt _ _ _ h1
          | none =>
            simp only
            rename_i hz
            have hz' : s.quirks .zeroTs1 = false := by simpa using hz
            have : 1 ≤ c.1 ∧ c.1 ≤ 4294967295 := by
              have := hok
              simp [optChoiceOk, hz', hu, h1] at this
              exact this.1
            omega
    · split
      · split
        · omega
        · cases h2 : inRange 1 4294967295 b.ts2Hint with
          | some h => simp only; exact inRange_lt _ _ _ h2
          | none =>
            simp only
            rename_i hsyn hq
            have hq' : s.quirks .nzTs2 = true := by simpa using hq
            have : 1 ≤ c.2 ∧ c.2 ≤ 4294967295 := by
              have := hok
              simp [optChoiceOk, hsyn, hq', h2] at this
              exact this.2
            omega
      · cases h2 : inRange 0 4294967295 b.ts2Hint with
        | some h => simp only; exact inRange_lt _ _ _ h2
        | none => simp
  · exact ⟨.sack 8, by simp [impOption], rfl, by simp, by simp [SOpt.WF], rfl, rfl⟩
  · have b0 : (k == 0) = false := by simpa using k0
    have b1 : (k == 1) = false := by simpa using k1
    have b2 : (k == 2) = false := by simpa using k2
    have b3 : (k == 3) = false := by simpa using k3
    have b4 : (k == 4) = false := by simpa using k4
    have b5 : (k == 5) = false := by simpa using k5
    have b8 : (k == 8) = false := by simpa using k8
    refine ⟨.raw k 0, by simp [impOption, b0, b1, b2, b3, b4, b5, b8], rfl, by simp, ?_, ?_, rfl⟩
    · simp only [SOpt.WF]; omega
    · simp [SOpt.wireLen, SOpt.encode, k1, k2, k3, k4, k5, k8]

/-- the whole option list for a plain layout: one well-formed option per layout entry, in order -/
theorem plain_options (s : Sig) (b : Base) (up : Option Int) (L : List Nat) (cs : List (Nat × Nat))
    (hL : ∀ k ∈ L, PlainKind k) (hm : ∀ m, s.mss = some m → m < 65536) (hw : ∀ w, s.scale = some w → w < 256)
    (hok : optChoicesOkGo s b up L cs = true) :
    (impOptionsGo s b up L cs).map SOpt.kind = L ∧ (∀ o ∈ impOptionsGo s b up L cs, o.WF) ∧
      (∀ o ∈ impOptionsGo s b up L cs, o ≠ .eol) ∧
      ((impOptionsGo s b up L cs).map SOpt.wireLen).sum = layoutLen L ∧
      (∀ o ∈ impOptionsGo s b up L cs, ∃ k c, k ∈ L ∧ impOption s b up k c = ([o], false) ∧ optChoiceOk s b up k c = true) ∧
      (∀ o ∈ impOptionsGo s b up L cs, o.fresh) := by
  induction L generalizing cs with
  | nil => simp [impOptionsGo, layoutLen]
  | cons k ks ih =>
    have hk : PlainKind k := hL k (by simp)
    simp only [optChoicesOkGo, Bool.and_eq_true, Bool.or_eq_true, beq_iff_eq] at hok
    obtain ⟨hok1, hok2⟩ := hok
    have hk0 : k ≠ 0 := by unfold PlainKind at hk; omega
    have hok2' : optChoicesOkGo s b up ks cs.tail = true := by
      rcases hok2 with h | h
      · exact absurd h hk0
      · exact h
    obtain ⟨o, ho, hkind, hne, hwf, hlen, hfresh⟩ := impOption_plain s b up k (cs.headD (0, 0)) hk hm hw hok1
    obtain ⟨i1, i2, i3, i4, i5, i6⟩ := ih cs.tail (fun x hx => hL x (by simp [hx])) hok2'
    have hgo : impOptionsGo s b up (k :: ks) cs = o :: impOptionsGo s b up ks cs.tail := by
      simp only [impOptionsGo, ho, Bool.false_eq_true, ↓reduceIte, List.cons_append, List.nil_append]
    rw [hgo]
    refine ⟨by simp [hkind, i1], ?_, ?_, ?_, ?_, ?_⟩
    · intro x hx
      simp only [List.mem_cons] at hx
      rcases hx with rfl | hx
      · exact hwf
      · exact i2 x hx
    · intro x hx
      simp only [List.mem_cons] at hx
      rcases hx with rfl | hx
      · exact hne
      · exact i3 x hx
    · simp only [List.map_cons, List.sum_cons, i4, hlen, layoutLen]
    · intro x hx
      simp only [List.mem_cons] at hx
      rcases hx with rfl | hx
      · exact ⟨k, _, by simp, ho, hok1⟩
      · obtain ⟨k', c', hk', h1, h2⟩ := i5 x hx
        exact ⟨k', c', by simp [hk'], h1, h2⟩
    · intro x hx
      simp only [List.mem_cons] at hx
      rcases hx with rfl | hx
      · exact hfresh
      · exact i6 x hx

/-! ### the quirk set extraction reports, quirk by quirk -/

theorem qIf_apply (c : Bool) (x y : Quirk) : (qIf c x) y = (c && decide (y = x)) := by
  unfold qIf
  cases c <;> simp [QSet.ofList, QSet.empty, quirk_beq]

/-- every quirk of the extracted signature in terms of the output's fields and the option walk -/
def outQ (o : OutPkt) (q : Quirk) : Bool :=
  match q with
  | .ecn => o.tos % 4 != 0 || bit o.flags 64 || bit o.flags 128 || bit o.flags 256
  | .df => o.ipVer != 6 && bit o.ipFlags 2
  | .nzId => o.ipVer != 6 && bit o.ipFlags 2 && o.ipId != 0
  | .zeroId => o.ipVer != 6 && !bit o.ipFlags 2 && o.ipId == 0
  | .nzMbz => o.ipVer != 6 && bit o.ipFlags 4
  | .flow => o.ipVer == 6 && o.fl != 0
  | .zeroSeq => o.seq == 0
  | .nzAck => !bit o.flags 16 && o.ack != 0 && !bit o.flags 4
  | .zeroAck => bit o.flags 16 && o.ack == 0
  | .nzUrg => !bit o.flags 32 && o.urp != 0
  | .urg => bit o.flags 32
  | .push => bit o.flags 8
  | .zeroTs1 => (outOpts o).quirks .zeroTs1
  | .nzTs2 => (outOpts o).quirks .nzTs2
  | .eolNz => (outOpts o).quirks .eolNz
  | .exws => (outOpts o).quirks .exws
  | .bad => (outOpts o).quirks .bad

theorem extract_quirks (o : OutPkt)
    (hopt : ∀ q, (outOpts o).quirks q = true → q = .zeroTs1 ∨ q = .nzTs2 ∨ q = .eolNz ∨ q = .exws ∨ q = .bad) (q : Quirk) :
    (extractOut o).quirks q = outQ o q := by
  have hnot : ∀ q', ¬ (q' = .zeroTs1 ∨ q' = .nzTs2 ∨ q' = .eolNz ∨ q' = .exws ∨ q' = .bad) → (outOpts o).quirks q' = false := by
    intro q' hq'
    cases hv : (outOpts o).quirks q' with
    | false => rfl
    | true => exact absurd (hopt q' hv) hq'
  simp only [extractOut, QSet.union, outIpQuirks, outTcpQuirks]
  by_cases h6 : (o.ipVer == 6) = true
  · have h6p : o.ipVer = 6 := by simpa using h6
    simp only [h6, ↓reduceIte, QSet.union, qIf_apply]
    cases q <;> simp [outQ, h6p, hnot, Bool.or_assoc]
  · have h6' : (o.ipVer == 6) = false := by simpa using h6
    have h6n : ¬ o.ipVer = 6 := by simpa using h6
    have h6b : (o.ipVer != 6) = true := by simpa using h6n
    simp only [h6', Bool.false_eq_true, ↓reduceIte, QSet.union, qIf_apply]
    cases q <;> simp [outQ, h6n, h6b, hnot, Bool.or_assoc]

/-! ### helper facts -/

theorem flatMap_encode_length (l : List SOpt) : (l.flatMap SOpt.encode).length = (l.map SOpt.wireLen).sum := by
  induction l with
  | nil => rfl
  | cons o t ih => simp [List.flatMap_cons, ih, SOpt.wireLen]

theorem lastMssOf_no_mss (t : List SOpt) (d : Nat) (h : t.any SOpt.isMss = false) : lastMssOf t d = d := by
  induction t with
  | nil => rfl
  | cons o t ih =>
    rw [List.any_cons, Bool.or_eq_false_iff] at h
    obtain ⟨h1, h2⟩ := h
    have ih' := ih h2
    simp only [lastMssOf] at ih' ⊢
    simp only [List.foldl_cons]
    cases o with
    | mss v => simp [SOpt.isMss] at h1
    | _ => exact ih'

theorem lastMss_eq (l : List SOpt) (acc : Option Nat) :
    l.foldl lastMssStep acc = if l.any SOpt.isMss then some (lastMssOf l (acc.getD 0)) else acc := by
  induction l generalizing acc with
  | nil => simp
  | cons o t ih =>
    simp only [List.foldl_cons, ih, List.any_cons, lastMssOf]
    cases o with
    | mss v =>
      simp only [lastMssStep, SOpt.isMss, Bool.true_or, ↓reduceIte, Option.getD_some]
      by_cases ht : t.any SOpt.isMss = true
      · simp [ht]
      · have ht' : t.any SOpt.isMss = false := by simpa using ht
        have := lastMssOf_no_mss t v ht'
        simp only [lastMssOf] at this
        simp [ht', this]
    | _ => simp [lastMssStep, SOpt.isMss]

theorem any_isMss_iff (l : List SOpt) : l.any SOpt.isMss = true ↔ ∃ v, SOpt.mss v ∈ l := by
  rw [List.any_eq_true]
  constructor
  · rintro ⟨o, ho, hm⟩
    cases o <;> simp [SOpt.isMss] at hm
    exact ⟨_, ho⟩
  · rintro ⟨v, hv⟩
    exact ⟨_, hv, rfl⟩

theorem mem_of_kind_mem (l : List SOpt) (k : Nat) (h : k ∈ l.map SOpt.kind) : ∃ o ∈ l, o.kind = k := by
  obtain ⟨o, ho, hk⟩ := List.mem_map.mp h
  exact ⟨o, ho, hk⟩

theorem beq_of_pointwise (a b : QSet) (h : ∀ q, a q = b q) : a.beq b = true := by
  unfold QSet.beq
  rw [List.all_eq_true]
  intro q _
  simp [h q]

/-- a window that is a multiple of an MSS of at least 100 gets that multiplier, read as MSS multiple -/
theorem windowMult_of_mss (w : WIn) (n : Nat) (hm : 100 ≤ w.mss) (hn : 1 ≤ n) (hw : w.win = w.mss * n) :
    windowMult w = ((n : Int), false) := by
  unfold windowMult
  have h0 : ¬ (w.win = 0 ∨ w.mss < 100) := by
    intro h
    rcases h with h | h
    · rw [hw] at h
      have : 0 < w.mss * n := Nat.mul_pos (by omega) (by omega)
      omega
    · omega
  simp only [h0, ↓reduceIte]
  have hd : divides w.win ((w.mss : Int), false) = true := by
    unfold divides
    simp only [Bool.and_eq_true, bne_iff_ne, ne_eq, beq_iff_eq]
    refine ⟨by omega, ?_⟩
    rw [hw]
    push_cast
    exact Int.mul_emod_right _ _
  have : (divisors w).find? (divides w.win) = some ((w.mss : Int), false) := by
    unfold divisors
    simp only [List.cons_append, List.nil_append, List.find?_cons, hd]
  rw [this]
  simp only
  rw [hw]
  push_cast
  have hpos : (w.mss : Int) ≠ 0 := by omega
  rw [Int.mul_ediv_cancel_left _ hpos]

/-! ### what each option of the output carries -/

/-- what one option of the output carries, relative to the signature -/
def OptionFacts (s : Sig) (b : Base) (o : SOpt) : Prop :=
  (∀ v, o = .mss v → (∀ m, s.mss = some m → v = m) ∧ (s.wtype = .mss → 100 ≤ v ∧ v * s.wsize ≤ 65535)) ∧
  (∀ v, o = .ws v → (∀ w, s.scale = some w → v = w) ∧ (decide (v > 14) = s.quirks .exws)) ∧
  (∀ x y, o = .ts x y → ((x == 0) = s.quirks .zeroTs1) ∧
    ((y != 0 && (impTcpType s b == F_SYN)) = s.quirks .nzTs2))

theorem plain_option_facts (s : Sig) (b : Base) (up : Option Int) (hsup : Supported s b)
    (o : SOpt) (k : Nat) (c' : Nat × Nat)
    (hio : impOption s b up k c' = ([o], false)) (hok : optChoiceOk s b up k c' = true) :
    OptionFacts s b o := by
  unfold OptionFacts
  have hwz : s.wtype = .mss → 0 < s.wsize := fun h => by have := (hsup.winOk.2.2.1 h).1; omega
  refine ⟨?_, ?_, ?_⟩
  · -- MSS
    intro v hv
    subst hv
    have hk : k = 2 := (impOption_kinds s b up k c').1 v (by rw [hio]; simp)
    subst hk
    obtain ⟨f1, f2, f3⟩ := impOption_mss s b up c' hwz
    cases hs : s.mss with
    | some m =>
      have := f1 m hs
      rw [hio] at this
      have this := SOpt.mss.inj (List.cons.inj (Prod.mk.inj this).1).1
      subst this
      refine ⟨fun m' hm' => Option.some.inj hm', fun hw => ?_⟩
      exact (hsup.winOk.2.2.1 hw).2.2.2 v hs
    | none =>
      refine ⟨fun m hm => by simp at hm, fun hw => ?_⟩
      by_cases hex : ∃ h, b.mssHint = some h ∧ MssAdmissible s h
      · obtain ⟨h, hh, hadm⟩ := hex
        have := f2 h hs hh hadm
        rw [hio] at this
        have this := SOpt.mss.inj (List.cons.inj (Prod.mk.inj this).1).1
        subst this
        obtain ⟨h0, _, h2⟩ := hadm
        obtain ⟨h3, h4⟩ := h2 hw
        have e : ((h.toNat : Nat) : Int) = h := Int.toNat_of_nonneg h0
        constructor
        · omega
        · have h5 : ((h.toNat * s.wsize : Nat) : Int) ≤ ((65535 : Nat) : Int) := by
            rw [Int.natCast_mul, e]; exact h4
          exact Int.ofNat_le.mp h5
      · have hbad : ∀ h, b.mssHint = some h → ¬ MssAdmissible s h := fun h hh hadm => hex ⟨h, hh, hadm⟩
        obtain ⟨g1, g2⟩ := f3 hs hbad
        rw [hio] at g1
        have g1 := SOpt.mss.inj (List.cons.inj (Prod.mk.inj g1).1).1
        subst g1
        obtain ⟨h0, _, h2⟩ := g2 hok
        obtain ⟨h3, h4⟩ := h2 hw
        constructor
        · omega
        · have h5 : ((c'.1 * s.wsize : Nat) : Int) ≤ ((65535 : Nat) : Int) := by
            rw [Int.natCast_mul]; exact h4
          exact Int.ofNat_le.mp h5
  · -- window scale
    intro v hv
    subst hv
    have hk : k = 3 := (impOption_kinds s b up k c').2.1 v (by rw [hio]; simp)
    subst hk
    obtain ⟨f1, f2, f3⟩ := impOption_ws s b up c'
    cases hs : s.scale with
    | some w =>
      have := f1 w hs
      rw [hio] at this
      have this := SOpt.ws.inj (List.cons.inj (Prod.mk.inj this).1).1
      subst this
      refine ⟨fun w' hw' => Option.some.inj hw', ?_⟩
      cases he : s.quirks .exws with
      | true => have := (hsup.exwsCoherent.1 he).2 v hs; simpa using this
      | false => have := hsup.exwsCoherent.2 he v hs; simp; omega
    | none =>
      refine ⟨fun w hw => by simp at hw, ?_⟩
      have key : ∀ h : Int, WsAdmissible s h → decide (h.toNat > 14) = s.quirks .exws := by
        intro h ⟨h0, h1, h2⟩
        cases he : s.quirks .exws with
        | true => have := h2.mp he; simp; omega
        | false =>
          have : ¬ (14 < h) := fun hc => by have := h2.mpr hc; simp [he] at this
          simp; omega
      by_cases hex : ∃ h, b.wsHint = some h ∧ WsAdmissible s h
      · obtain ⟨h, hh, hadm⟩ := hex
        have := f2 h hs hh hadm
        rw [hio] at this
        have this := SOpt.ws.inj (List.cons.inj (Prod.mk.inj this).1).1
        subst this
        exact key h hadm
      · have hbad : ∀ h, b.wsHint = some h → ¬ WsAdmissible s h := fun h hh hadm => hex ⟨h, hh, hadm⟩
        obtain ⟨g1, g2⟩ := f3 hs hbad
        rw [hio] at g1
        have g1 := SOpt.ws.inj (List.cons.inj (Prod.mk.inj g1).1).1
        subst g1
        have := key (c'.1 : Int) (g2 hok)
        simpa using this
  · -- timestamps
    intro x y hxy
    subst hxy
    have hk : k = 8 := (impOption_kinds s b up k c').2.2 x y (by rw [hio]; simp)
    subst hk
    constructor
    · obtain ⟨t1, t2, he, g1, g2⟩ := impOption_ts1 s b up c'
      rw [hio] at he
      have he := SOpt.ts.inj (List.cons.inj (Prod.mk.inj he).1).1
      obtain ⟨rfl, rfl⟩ := he
      cases hz : s.quirks .zeroTs1 with
      | true => simp [g1 hz]
      | false =>
        -- either the uptime argument, a usable hint, or a drawn value: never zero
        have hx : x ≠ 0 := by
          have hio' := hio
          simp only [impOption, Nat.reduceBEq, Bool.false_eq_true, ↓reduceIte, beq_self_eq_true, hz, Prod.mk.injEq,
            List.cons.injEq, SOpt.ts.injEq, and_true] at hio'
          cases hu : inRange 1 4294967295 up with
          | some u =>
            simp only [hu] at hio'
            have hu' := hu
            cases hb : up with
            | none => simp [hb, inRange] at hu'
            | some z =>
              rw [hb, inRange_some] at hu'
              split at hu'
              · simp only [Option.some.injEq] at hu'; omega
              · simp at hu'
          | none => exact (g2 hz hu).2 hok
        simp [hx]
    · obtain ⟨t1, t2, he, g1, g2, g3⟩ := impOption_ts2 s b up c'
      rw [hio] at he
      have he := SOpt.ts.inj (List.cons.inj (Prod.mk.inj he).1).1
      obtain ⟨rfl, rfl⟩ := he
      by_cases hsyn : impTcpType s b = F_SYN
      · have hb : (impTcpType s b == F_SYN) = true := by simpa using hsyn
        simp only [hb, Bool.and_true]
        cases hq : s.quirks .nzTs2 with
        | false => simp [g1 hsyn hq]
        | true =>
          -- a usable hint or a drawn value: never zero
          have hy : y ≠ 0 := by
            have hio' := hio
            simp only [impOption, Nat.reduceBEq, Bool.false_eq_true, ↓reduceIte, beq_self_eq_true, hb, hq, Bool.not_true,
              Prod.mk.injEq, List.cons.injEq, SOpt.ts.injEq, and_true] at hio'
            cases h2 : inRange 1 4294967295 b.ts2Hint with
            | some u =>
              have hu' := h2
              cases hbh : b.ts2Hint with
              | none => simp [hbh, inRange] at hu'
              | some z =>
                rw [hbh, inRange_some] at hu'
                split at hu'
                · simp only [Option.some.injEq] at hu'
                  simp only [h2] at hio'
                  omega
                · simp at hu'
            | none => exact (g2 hsyn hq).2 hok
          simp [hy]
      · have hb : (impTcpType s b == F_SYN) = false := by simpa using hsyn
        simp only [hb, Bool.and_false]
        cases hq : s.quirks .nzTs2 with
        | false => rfl
        | true => exact absurd (hsup.ts2Coherent hq).2 hsyn

/-! ### layouts closed by an EOL entry -/

theorem mem_bodyLayout (s : Sig) (hshape : s.layout = bodyLayout s ++ (if endsEol s then [0] else [])) (k : Nat)
    (hk : k ≠ 0) : k ∈ s.layout ↔ k ∈ bodyLayout s := by
  constructor
  · intro h
    rw [hshape] at h
    rw [List.mem_append] at h
    rcases h with h | h
    · exact h
    · split at h
      · simp at h; exact absurd h hk
      · simp at h
  · intro h
    exact List.takeWhile_subset _ h

theorem impOption_snd (s : Sig) (b : Base) (up : Option Int) (k : Nat) (c : Nat × Nat) (hk : k ≠ 0) :
    (impOption s b up k c).2 = false := by
  unfold impOption
  have h0 : (k == 0) = false := by simpa using hk
  simp only [h0]
  repeat' split
  all_goals first | rfl | simp_all

theorem impOptionsGo_append (s : Sig) (b : Base) (up : Option Int) (A t : List Nat) (cs : List (Nat × Nat))
    (hA : ∀ k ∈ A, k ≠ 0) :
    impOptionsGo s b up (A ++ t) cs = impOptionsGo s b up A cs ++ impOptionsGo s b up t (cs.drop A.length) := by
  induction A generalizing cs with
  | nil => simp [impOptionsGo]
  | cons k ks ih =>
    have hk := impOption_snd s b up k (cs.headD (0, 0)) (hA k (by simp))
    simp only [List.cons_append, impOptionsGo, hk, Bool.false_eq_true, ↓reduceIte, List.append_assoc]
    rw [ih cs.tail (fun x hx => hA x (by simp [hx]))]
    simp [List.drop_succ_cons, List.tail_drop]

theorem optChoicesOkGo_append_left (s : Sig) (b : Base) (up : Option Int) (A t : List Nat) (cs : List (Nat × Nat))
    (hA : ∀ k ∈ A, k ≠ 0) (h : optChoicesOkGo s b up (A ++ t) cs = true) : optChoicesOkGo s b up A cs = true := by
  induction A generalizing cs with
  | nil => simp [optChoicesOkGo]
  | cons k ks ih =>
    simp only [List.cons_append, optChoicesOkGo, Bool.and_eq_true, Bool.or_eq_true, beq_iff_eq] at h ⊢
    obtain ⟨h1, h2⟩ := h
    refine ⟨h1, ?_⟩
    rcases h2 with h2 | h2
    · exact absurd h2 (hA k (by simp))
    · exact Or.inr (ih cs.tail (fun x hx => hA x (by simp [hx])) h2)

/-- the options before the EOL entry, and the EOL entry with its padding -/
def bodyOpts (s : Sig) (b : Base) (up : Option Int) (c : Choices) : List SOpt :=
  impOptionsGo s b up (bodyLayout s) c.opt

def tailOpts (s : Sig) : List SOpt :=
  if endsEol s then .eol :: List.replicate s.eolPad (if s.quirks .eolNz then .nop else .eol) else []

/-- what the option walk does at the end of the options before EOL -/
def finishOpts (s : Sig) (st : Opts) : Opts :=
  if endsEol s then
    ((st.pushKind 0).setEolPad s.eolPad).addQuirkIf (s.quirks .eolNz && decide (0 < s.eolPad)) .eolNz
  else st

theorem bodyLayout_ne_zero (s : Sig) : ∀ k ∈ bodyLayout s, k ≠ 0 := by
  intro k hk
  have := mem_takeWhile_pred hk
  simpa using this

/-! ### the output packet for a supported signature -/

/-- everything the final argument needs to know about one run -/
structure RunFacts (s : Sig) (b : Base) (hops : Int) (mtu : Nat) (up : Option Int) (c : Choices) (o : OutPkt) : Prop where
  run : impTcp s b hops mtu up c = .ok o
  kinds : (bodyOpts s b up c).map SOpt.kind = bodyLayout s
  parsed : ∀ isSyn, parseOpts (encodeOpts o.opts) isSyn =
    finishOpts s ((bodyOpts s b up c).foldl (fun st x => stepOpt isSyn x st) Opts.init)
  facts : ∀ x ∈ bodyOpts s b up c, ∃ k c', k ∈ bodyLayout s ∧ impOption s b up k c' = ([x], false) ∧
    optChoiceOk s b up k c' = true
  noEol : ∀ x ∈ bodyOpts s b up c, x ≠ .eol
  window : (s.wtype = .normal → o.window = s.wsize) ∧ (s.wtype = .mod → o.window = s.wsize * c.winMul) ∧
    (s.wtype = .mss → o.window = lastMssOf (bodyOpts s b up c) 0 * s.wsize ∧
      ∃ v, SOpt.mss v ∈ bodyOpts s b up c) ∧
    (s.wtype = .any → o.window = b.window)
  optLen : (encodeOpts o.opts).length ≤ 40

theorem lastMssOf_append_nomss (l t : List SOpt) (d : Nat) (ht : t.any SOpt.isMss = false) :
    lastMssOf (l ++ t) d = lastMssOf l d := by
  unfold lastMssOf
  rw [List.foldl_append]
  exact lastMssOf_no_mss t _ ht

theorem tailOpts_no_mss (s : Sig) : (tailOpts s).any SOpt.isMss = false := by
  unfold tailOpts
  split
  · simp only [List.any_cons, SOpt.isMss, Bool.false_or]
    rw [List.any_eq_false]
    intro x hx
    rw [List.mem_replicate] at hx
    obtain ⟨_, rfl⟩ := hx
    split <;> simp [SOpt.isMss]
  · rfl

theorem tailOpts_bytes (s : Sig) :
    (tailOpts s).flatMap SOpt.encode =
      if endsEol s then 0 :: List.replicate s.eolPad (if s.quirks .eolNz then 1 else 0) else [] := by
  unfold tailOpts
  split
  · simp only [List.flatMap_cons, SOpt.encode, List.cons_append, List.nil_append, List.cons.injEq, true_and]
    induction s.eolPad with
    | zero => simp
    | succ n ih =>
      simp only [List.replicate_succ, List.flatMap_cons, ih]
      split <;> simp [SOpt.encode]
  · rfl

theorem tailOpts_wireLen (s : Sig) :
    ((tailOpts s).map SOpt.wireLen).sum = if endsEol s then 1 + s.eolPad else 0 := by
  rw [← flatMap_encode_length, tailOpts_bytes]
  split <;> simp <;> omega

/-! ### `_align_options`: the first SACK / unknown-kind option absorbs the missing bytes -/

def SOpt.stretchy : SOpt → Bool
  | .sack _ => true
  | .raw _ _ => true
  | _ => false

theorem stretchFirst_zero (l : List SOpt) : stretchFirst 0 l = l := by
  induction l with
  | nil => rfl
  | cons o t ih => cases o <;> simp [stretchFirst, ih]

theorem alignOptions_eq (l : List SOpt) :
    alignOptions l = stretchFirst ((4 - (l.map SOpt.wireLen).sum % 4) % 4) l := by
  unfold alignOptions
  simp only
  split
  · rename_i h
    have : (4 - (l.map SOpt.wireLen).sum % 4) % 4 = 0 := by simpa using h
    rw [this, stretchFirst_zero]
  · rfl

theorem stretchFirst_of_none (m : Nat) (l : List SOpt) (h : l.any SOpt.stretchy = false) : stretchFirst m l = l := by
  induction l with
  | nil => rfl
  | cons o t ih =>
    simp only [List.any_cons, Bool.or_eq_false_iff] at h
    cases o <;> simp [stretchFirst, SOpt.stretchy, ih h.2] at h ⊢

theorem stretchFirst_append_of_any (m : Nat) (l t : List SOpt) (h : l.any SOpt.stretchy = true) :
    stretchFirst m (l ++ t) = stretchFirst m l ++ t := by
  induction l with
  | nil => simp at h
  | cons o r ih =>
    cases o with
    | sack n => simp [stretchFirst]
    | raw k n => simp [stretchFirst]
    | _ =>
      simp only [List.any_cons, SOpt.stretchy, Bool.false_or] at h
      simp [stretchFirst, ih h]

theorem stretchFirst_wireLen (m : Nat) (l : List SOpt) (h : l.any SOpt.stretchy = true) :
    ((stretchFirst m l).map SOpt.wireLen).sum = (l.map SOpt.wireLen).sum + m := by
  induction l with
  | nil => simp at h
  | cons o r ih =>
    cases o with
    | sack n => simp [stretchFirst, SOpt.wireLen, SOpt.encode]; omega
    | raw k n => simp [stretchFirst, SOpt.wireLen, SOpt.encode]; omega
    | _ =>
      simp only [List.any_cons, SOpt.stretchy, Bool.false_or] at h
      simp [stretchFirst, ih h]
      omega

theorem stretchFirst_foldl (isSyn : Bool) (m : Nat) (l : List SOpt) (st : Opts) :
    (stretchFirst m l).foldl (fun st x => stepOpt isSyn x st) st = l.foldl (fun st x => stepOpt isSyn x st) st := by
  induction l generalizing st with
  | nil => rfl
  | cons o r ih =>
    cases o with
    | sack n => simp only [stretchFirst, List.foldl_cons]; rfl
    | raw k n => simp only [stretchFirst, List.foldl_cons]; rfl
    | _ => simp only [stretchFirst, List.foldl_cons]; exact ih _

theorem stretchFirst_wf (m : Nat) (hm : m ≤ 3) (l : List SOpt) (hwf : ∀ o ∈ l, o.WF) (hfr : ∀ o ∈ l, o.fresh) :
    ∀ o ∈ stretchFirst m l, o.WF := by
  induction l with
  | nil => intro o ho; simp [stretchFirst] at ho
  | cons x r ih =>
    have ihr := ih (fun o ho => hwf o (by simp [ho])) (fun o ho => hfr o (by simp [ho]))
    have hx := hwf x (by simp)
    have hf := hfr x (by simp)
    cases x with
    | sack n =>
      intro o ho
      simp only [stretchFirst, List.mem_cons] at ho
      rcases ho with rfl | ho
      · simp only [SOpt.fresh] at hf; simp only [SOpt.WF]; omega
      · exact hwf o (by simp [ho])
    | raw k n =>
      intro o ho
      simp only [stretchFirst, List.mem_cons] at ho
      rcases ho with rfl | ho
      · simp only [SOpt.fresh] at hf; simp only [SOpt.WF] at hx ⊢; omega
      · exact hwf o (by simp [ho])
    | _ =>
      intro o ho
      simp only [stretchFirst, List.mem_cons] at ho
      rcases ho with rfl | ho
      · exact hx
      · exact ihr o ho

theorem stretchFirst_ne_eol (m : Nat) (l : List SOpt) (h : ∀ o ∈ l, o ≠ .eol) : ∀ o ∈ stretchFirst m l, o ≠ .eol := by
  induction l with
  | nil => intro o ho; simp [stretchFirst] at ho
  | cons x r ih =>
    have ihr := ih (fun o ho => h o (by simp [ho]))
    have hx := h x (by simp)
    cases x with
    | sack n =>
      intro o ho
      simp only [stretchFirst, List.mem_cons] at ho
      rcases ho with rfl | ho
      · simp
      · exact h o (by simp [ho])
    | raw k n =>
      intro o ho
      simp only [stretchFirst, List.mem_cons] at ho
      rcases ho with rfl | ho
      · simp
      · exact h o (by simp [ho])
    | _ =>
      intro o ho
      simp only [stretchFirst, List.mem_cons] at ho
      rcases ho with rfl | ho
      · exact hx
      · exact ihr o ho

theorem stretchFirst_lastMss (m : Nat) (l : List SOpt) (acc : Option Nat) :
    (stretchFirst m l).foldl lastMssStep acc = l.foldl lastMssStep acc := by
  induction l generalizing acc with
  | nil => rfl
  | cons o r ih => cases o <;> simp [stretchFirst, lastMssStep, ih]

theorem run_facts (s : Sig) (b : Base) (hops : Int) (mtu : Nat) (up : Option Int) (c : Choices)
    (hsup : Supported s b) (hc : choicesOk s b up c = true) :
    ∃ o, RunFacts s b hops mtu up c o := by
  have hokL0 : optChoicesOkGo s b up s.layout c.opt = true := by
    unfold choicesOk at hc
    simp only [Bool.and_eq_true] at hc
    exact hc.2
  have hokL : optChoicesOkGo s b up (bodyLayout s) c.opt = true := by
    rw [hsup.layoutShape] at hokL0
    exact optChoicesOkGo_append_left s b up _ _ _ (bodyLayout_ne_zero s) hokL0
  obtain ⟨i1, i2, i3, i4, i5, i6⟩ := plain_options s b up (bodyLayout s) c.opt
    (fun k hk => plainKind_of_ne_zero k (bodyLayout_ne_zero s k hk)) hsup.mssFits hsup.scaleFits hokL
  -- the whole list: the options before EOL, then EOL and its padding
  have hgo : impOptionsGo s b up s.layout c.opt = bodyOpts s b up c ++ tailOpts s := by
    rw [hsup.layoutShape, impOptionsGo_append _ _ _ _ _ _ (bodyLayout_ne_zero s)]
    unfold bodyOpts tailOpts
    congr 1
    cases h : endsEol s <;> simp [impOptionsGo, impOption]
  -- alignment: the first SACK / unknown-kind option (if any) absorbs the missing bytes; otherwise the layout is aligned
  obtain ⟨missing, hmissing⟩ : ∃ m, m = (4 - ((bodyOpts s b up c ++ tailOpts s).map SOpt.wireLen).sum % 4) % 4 := ⟨_, rfl⟩
  have hm3 : missing ≤ 3 := by omega
  obtain ⟨body', hbody'⟩ : ∃ l, l = stretchFirst missing (bodyOpts s b up c) := ⟨_, rfl⟩
  have htail_ns : (tailOpts s).any SOpt.stretchy = false := by
    unfold tailOpts
    split
    · simp only [List.any_cons, SOpt.stretchy, Bool.false_or]
      rw [List.any_eq_false]
      intro x hx
      rw [List.mem_replicate] at hx
      obtain ⟨_, rfl⟩ := hx
      split <;> simp [SOpt.stretchy]
    · rfl
  have hbs : ((bodyOpts s b up c).map SOpt.wireLen).sum = layoutLen (bodyLayout s) := i4
  have hts := tailOpts_wireLen s
  have hsz := hsup.sizeOk.2
  have hsplit : impOptions s b up c = body' ++ tailOpts s ∧ ((body' ++ tailOpts s).map SOpt.wireLen).sum % 4 = 0 ∧
      ((body' ++ tailOpts s).map SOpt.wireLen).sum ≤ 40 := by
    unfold impOptions
    rw [alignOptions_eq, hgo, ← hmissing]
    cases hany : (bodyOpts s b up c).any SOpt.stretchy with
    | true =>
      rw [stretchFirst_append_of_any _ _ _ hany, ← hbody']
      rw [List.map_append, List.sum_append] at hmissing
      refine ⟨rfl, ?_, ?_⟩
      · rw [hbody', List.map_append, List.sum_append, stretchFirst_wireLen _ _ hany]
        omega
      · rw [hbody', List.map_append, List.sum_append, stretchFirst_wireLen _ _ hany]
        omega
    | false =>
      -- nothing to stretch: the signature's layout fills a multiple of four bytes by itself
      have hal : (layoutLen (bodyLayout s) + if endsEol s = true then 1 + s.eolPad else 0) % 4 = 0 := by
        rcases hsup.aligned with ⟨k, hk, hst⟩ | h
        · exfalso
          obtain ⟨x, hx, hxk⟩ := mem_of_kind_mem (bodyOpts s b up c) k
            (by show k ∈ (impOptionsGo s b up (bodyLayout s) c.opt).map SOpt.kind; rw [i1]; exact hk)
          have hxs : x.stretchy = false := by
            rw [List.any_eq_false] at hany
            simpa using hany x hx
          have hne := i3 x hx
          simp only [stretchable, Bool.and_eq_true, bne_iff_ne, ne_eq] at hst
          cases x <;> simp [SOpt.kind, SOpt.stretchy] at hxk hxs hne <;> omega
        · exact h
      have htot : ((bodyOpts s b up c ++ tailOpts s).map SOpt.wireLen).sum % 4 = 0 := by
        rw [List.map_append, List.sum_append, tailOpts_wireLen]
        unfold bodyOpts
        rw [i4]
        exact hal
      have hm0 : missing = 0 := by omega
      have hb : body' = bodyOpts s b up c := by rw [hbody', stretchFirst_of_none _ _ hany]
      have : (bodyOpts s b up c ++ tailOpts s).any SOpt.stretchy = false := by
        rw [List.any_append, hany, htail_ns]; rfl
      rw [stretchFirst_of_none _ _ this, hb]
      refine ⟨rfl, htot, ?_⟩
      rw [List.map_append, List.sum_append]
      omega
  obtain ⟨hopts, hlen, hlen40⟩ := hsplit
  have i2' : ∀ o ∈ body', o.WF := by rw [hbody']; exact stretchFirst_wf missing hm3 _ i2 i6
  have i3' : ∀ o ∈ body', o ≠ .eol := by rw [hbody']; exact stretchFirst_ne_eol missing _ i3
  have hfold : ∀ isSyn st, body'.foldl (fun st x => stepOpt isSyn x st) st =
      (bodyOpts s b up c).foldl (fun st x => stepOpt isSyn x st) st := by
    intro isSyn st; rw [hbody']; exact stretchFirst_foldl isSyn missing _ st
  have henc : encodeOpts (body' ++ tailOpts s) =
      body'.flatMap SOpt.encode ++ (tailOpts s).flatMap SOpt.encode := by
    unfold encodeOpts
    simp only [flatMap_encode_length, hlen]
    simp
  have hparsed : ∀ isSyn, parseOpts (encodeOpts (body' ++ tailOpts s)) isSyn =
      finishOpts s ((bodyOpts s b up c).foldl (fun st x => stepOpt isSyn x st) Opts.init) := by
    intro isSyn
    rw [henc]
    unfold parseOpts
    rw [parseOptsGo_encode_list isSyn _ i2' i3', tailOpts_bytes, hfold]
    unfold finishOpts
    split
    · rw [parseOptsGo_eol]
      congr 1
      · simp
      · cases hq : s.quirks .eolNz with
        | true =>
          cases hn : s.eolPad with
          | zero => simp
          | succ n => simp [List.replicate_succ]
        | false =>
          simp only [Bool.false_eq_true, ↓reduceIte, Bool.false_and]
          rw [List.any_eq_false]
          intro x hx
          rw [List.mem_replicate] at hx
          simp [hx.2]
    · rw [parseOptsGo_nil]
  have hlm : lastMss (body' ++ tailOpts s) = lastMss (bodyOpts s b up c ++ tailOpts s) := by
    unfold lastMss
    rw [List.foldl_append, List.foldl_append, hbody', stretchFirst_lastMss]
  -- the window
  have hwin : ∃ win, impWindow s b (impOptions s b up c) mtu c = .ok win ∧
      (s.wtype = .normal → win = s.wsize) ∧ (s.wtype = .mod → win = s.wsize * c.winMul) ∧
      (s.wtype = .mss → win = lastMssOf (bodyOpts s b up c) 0 * s.wsize ∧
        ∃ v, SOpt.mss v ∈ bodyOpts s b up c) ∧
      (s.wtype = .any → win = b.window) := by
    rw [hopts]
    unfold impWindow
    rw [hlm]
    cases hw : s.wtype with
    | normal => exact ⟨_, rfl, by simp, by simp, by simp, by simp⟩
    | mod => exact ⟨_, rfl, by simp, by simp, by simp, by simp⟩
    | any => exact ⟨_, rfl, by simp, by simp, by simp, by simp⟩
    | mtu => exact absurd hw hsup.winOk.2.2.2
    | mss =>
      have h2 : 2 ∈ bodyLayout s := (mem_bodyLayout s hsup.layoutShape 2 (by decide)).mp (hsup.winOk.2.2.1 hw).2.2.1
      obtain ⟨x, hx, hxk⟩ := mem_of_kind_mem (bodyOpts s b up c) 2
        (by show 2 ∈ (impOptionsGo s b up (bodyLayout s) c.opt).map SOpt.kind; rw [i1]; exact h2)
      have hxm : ∃ v, x = .mss v := by
        cases x <;> simp [SOpt.kind] at hxk
        · exact ⟨_, rfl⟩
        · have hwf := i2 _ hx
          simp only [SOpt.WF] at hwf
          omega
      obtain ⟨v, rfl⟩ := hxm
      have hany : (bodyOpts s b up c ++ tailOpts s).any SOpt.isMss = true :=
        (any_isMss_iff _).mpr ⟨v, List.mem_append.mpr (Or.inl hx)⟩
      have hl : lastMss (bodyOpts s b up c ++ tailOpts s) = some (lastMssOf (bodyOpts s b up c) 0) := by
        unfold lastMss
        rw [lastMss_eq]
        simp only [hany, ↓reduceIte, Option.getD_none]
        rw [lastMssOf_append_nomss _ _ _ (tailOpts_no_mss s)]
      simp only [hl]
      exact ⟨_, rfl, by simp, by simp, fun _ => ⟨rfl, v, hx⟩, by simp⟩
  obtain ⟨win, hw0, hw1, hw2, hw3, hw4⟩ := hwin
  have hver : (s.ipVer.isSome && s.ipVer != some b.ipVer) = false := by
    rcases hsup.version with h | h <;> simp [h]
  refine ⟨{ ipVer := b.ipVer, src := b.src, dst := b.dst, ttl := (s.ttl : Int) - hops,
            tos := if s.quirks .ecn then c.ecn else 0,
            ipId := if b.ipVer == 6 then 0 else impIpId s b c,
            ipFlags := if b.ipVer == 6 then 0 else impIpFlags s b.ipFlags,
            ipFrag := if b.ipVer == 6 then 0 else b.ipFrag,
            ipOptLen := if b.ipVer == 6 then 0 else s.olen,
            fl := if b.ipVer == 6 then (if s.quirks .flow then c.fl else 0) else 0,
            sport := b.sport, dport := b.dport, seq := impSeq s b c, ack := impAck s b c,
            flags := impFlags s b.flags, urp := impUrp s b c,
            window := win, opts := impOptions s b up c, payload := impPayload s b c }, ?_⟩
  refine ⟨?_, i1, ?_, i5, i3, ⟨hw1, hw2, hw3, hw4⟩, ?_⟩
  · unfold impTcp
    simp only [hver, Bool.false_eq_true, ↓reduceIte, hw0]
  · intro isSyn
    simp only [hopts]
    exact hparsed isSyn
  · simp only [hopts, henc, List.length_append, flatMap_encode_length]
    rw [List.map_append, List.sum_append] at hlen40
    exact hlen40

/-! ### the quirks of the output are the signature's -/

theorem any_raises_iff (isSyn : Bool) (q : Quirk) (l : List SOpt) :
    l.any (raises isSyn q) = true ↔ ∃ x ∈ l, raises isSyn q x = true := List.any_eq_true

/-- the option quirks the walk reports are exactly those the signature asks for -/
theorem finishOpts_quirks (s : Sig) (st : Opts) (q : Quirk) :
    (finishOpts s st).quirks q =
      (st.quirks q || (endsEol s && s.quirks .eolNz && decide (0 < s.eolPad) && decide (q = .eolNz))) := by
  unfold finishOpts
  cases he : endsEol s with
  | false => simp
  | true =>
    simp only [↓reduceIte, Opts.addQuirkIf, Bool.true_and]
    split
    · rename_i hc
      simp only [Bool.and_eq_true, decide_eq_true_eq] at hc
      simp [Opts.addQuirk, Opts.setEolPad, Opts.pushKind, QSet.insert, hc.1, hc.2, quirk_beq]
    · rename_i hc
      have : (s.quirks .eolNz && decide (0 < s.eolPad)) = false := by simpa using hc
      simp [Opts.setEolPad, Opts.pushKind, this]

theorem run_opt_quirks (s : Sig) (b : Base) (hops : Int) (mtu : Nat) (up : Option Int) (c : Choices) (o : OutPkt)
    (hadm : Admissible b) (hsup : Supported s b) (hr : RunFacts s b hops mtu up c o) :
    outIsSyn o = (impTcpType s b == F_SYN) ∧
    (∀ q, (outOpts o).quirks q =
      match q with
      | .exws => s.quirks .exws | .zeroTs1 => s.quirks .zeroTs1 | .nzTs2 => s.quirks .nzTs2
      | .eolNz => s.quirks .eolNz | _ => false) := by
  obtain ⟨o', ho'⟩ := impTcp_ok s b hops mtu up c o hr.run
  have hflags : o.flags = impFlags s b.flags := by rw [ho'.2]
  have F := impFlagsB_facts b.flags hadm.flagsLt (s.quirks .nzAck) (s.quirks .zeroAck) (s.quirks .nzUrg) (s.quirks .urg) (s.quirks .push)
  simp only at F
  obtain ⟨_, fSyn, fFin, fRst, fAck, _, _, _, _, _, fType⟩ := F
  have hsyn : outIsSyn o = (impTcpType s b == F_SYN) := by
    unfold outIsSyn
    rw [hflags]
    unfold impFlags
    rw [fType, fSyn, fFin, fRst, fAck, impTcpType_syn s b hadm.flagsLt, hadm.syn, hadm.noFin, hadm.noRst]
    simp
  refine ⟨hsyn, ?_⟩
  intro q
  unfold outOpts
  rw [hr.parsed, finishOpts_quirks, foldl_stepOpt_quirks]
  simp only [Opts.init, QSet.empty, Bool.false_or]
  -- facts about every option of the list
  have hfacts : ∀ x ∈ bodyOpts s b up c, OptionFacts s b x := by
    intro x hx
    obtain ⟨k, c', _, hio, hok⟩ := hr.facts x hx
    exact plain_option_facts s b up hsup x k c' hio hok
  have hkind : ∀ k ∈ s.layout, k ≠ 0 → ∃ x ∈ bodyOpts s b up c, x.kind = k := by
    intro k hk hk0
    exact mem_of_kind_mem _ k (by rw [hr.kinds]; exact (mem_bodyLayout s hsup.layoutShape k hk0).mp hk)
  have hnoeol : ∀ qq : Quirk, qq ≠ .eolNz →
      (endsEol s && s.quirks .eolNz && decide (0 < s.eolPad) && decide (qq = .eolNz)) = false := by
    intro qq hqq; simp [hqq]
  -- options of kind 3 / 8 in a plain-layout list are ws / ts tuples
  have hshape : ∀ x ∈ bodyOpts s b up c, (x.kind = 3 → ∃ v, x = .ws v) ∧ (x.kind = 8 → ∃ a t, x = .ts a t) := by
    intro x hx
    obtain ⟨k, c', hk, hio, hok⟩ := hr.facts x hx
    obtain ⟨o'', ho'', hk'', _, hwf, _⟩ := impOption_plain s b up k c' (plainKind_of_ne_zero k (bodyLayout_ne_zero s k hk)) hsup.mssFits hsup.scaleFits hok
    rw [hio] at ho''
    have : x = o'' := (List.cons.inj (Prod.mk.inj ho'').1).1
    subst this
    constructor
    · intro h3
      cases x <;> simp [SOpt.kind] at h3
      · exact ⟨_, rfl⟩
      · simp only [SOpt.WF] at hwf; omega
    · intro h8
      cases x <;> simp [SOpt.kind] at h8
      · exact ⟨_, _, rfl⟩
      · simp only [SOpt.WF] at hwf; omega
  cases q with
  | eolNz =>
    simp only [decide_true, Bool.and_true]
    have hnr : (bodyOpts s b up c).any (raises (outIsSyn o) .eolNz) = false := by
      rw [List.any_eq_false]; intro x _; cases x <;> simp [raises]
    rw [hnr, Bool.false_or]
    cases he : s.quirks .eolNz with
    | false => simp
    | true => obtain ⟨h1, h2⟩ := hsup.eolNzCoherent he; simp [h1, h2]
  | exws =>
    rw [hnoeol _ (by decide), Bool.or_false]
    simp only
    cases he : s.quirks .exws with
    | true =>
      rw [any_raises_iff]
      obtain ⟨x, hx, hxk⟩ := hkind 3 (hsup.exwsCoherent.1 he).1 (by decide)
      obtain ⟨v, rfl⟩ := (hshape x hx).1 hxk
      have := ((hfacts _ hx).2.1 v rfl).2
      exact ⟨_, hx, by simp only [raises]; rw [this, he]⟩
    | false =>
      rw [Bool.eq_false_iff]
      intro hany
      obtain ⟨x, hx, hrx⟩ := (any_raises_iff _ _ _).mp hany
      cases x <;> simp [raises] at hrx
      rename_i v
      have := ((hfacts _ hx).2.1 v rfl).2
      rw [he] at this
      simp at this
      omega
  | zeroTs1 =>
    rw [hnoeol _ (by decide), Bool.or_false]
    simp only
    cases he : s.quirks .zeroTs1 with
    | true =>
      rw [any_raises_iff]
      obtain ⟨x, hx, hxk⟩ := hkind 8 (hsup.ts1Coherent he) (by decide)
      obtain ⟨a, t, rfl⟩ := (hshape x hx).2 hxk
      have := ((hfacts _ hx).2.2 a t rfl).1
      exact ⟨_, hx, by simp only [raises]; rw [this, he]⟩
    | false =>
      rw [Bool.eq_false_iff]
      intro hany
      obtain ⟨x, hx, hrx⟩ := (any_raises_iff _ _ _).mp hany
      cases x <;> simp [raises] at hrx
      rename_i a t
      have := ((hfacts _ hx).2.2 a t rfl).1
      rw [he] at this
      simp [hrx] at this
  | nzTs2 =>
    rw [hnoeol _ (by decide), Bool.or_false]
    simp only
    cases he : s.quirks .nzTs2 with
    | true =>
      rw [any_raises_iff]
      obtain ⟨x, hx, hxk⟩ := hkind 8 (hsup.ts2Coherent he).1 (by decide)
      obtain ⟨a, t, rfl⟩ := (hshape x hx).2 hxk
      have := ((hfacts _ hx).2.2 a t rfl).2
      exact ⟨_, hx, by simp only [raises]; rw [hsyn, this, he]⟩
    | false =>
      rw [Bool.eq_false_iff]
      intro hany
      obtain ⟨x, hx, hrx⟩ := (any_raises_iff _ _ _).mp hany
      cases x <;> simp [raises] at hrx
      rename_i a t
      have := ((hfacts _ hx).2.2 a t rfl).2
      rw [he, ← hsyn] at this
      simp [hrx] at this
  | _ =>
    rw [hnoeol _ (by decide), Bool.or_false]
    simp only
    rw [Bool.eq_false_iff]
    intro hany
    obtain ⟨x, hx, hrx⟩ := (any_raises_iff _ _ _).mp hany
    cases x <;> simp [raises] at hrx

/-- the seven TCP-header quirks and the three ECN flag bits of the output, whatever the IP version -/
theorem tcp_header_quirks (s : Sig) (b : Base) (hops : Int) (mtu : Nat) (up : Option Int) (c : Choices) (o : OutPkt)
    (hadm : Admissible b) (hsup : Supported s b) (hc : choicesOk s b up c = true) (hrun : impTcp s b hops mtu up c = .ok o) :
    outQ o .zeroSeq = s.quirks .zeroSeq ∧ outQ o .nzAck = s.quirks .nzAck ∧ outQ o .zeroAck = s.quirks .zeroAck ∧
      outQ o .nzUrg = s.quirks .nzUrg ∧ outQ o .urg = s.quirks .urg ∧ outQ o .push = s.quirks .push ∧
      bit o.flags 64 = false ∧ bit o.flags 128 = false ∧ bit o.flags 256 = false := by
  obtain ⟨win, _, ho⟩ := impTcp_ok s b hops mtu up c o hrun
  have F := impFlagsB_facts b.flags hadm.flagsLt (s.quirks .nzAck) (s.quirks .zeroAck) (s.quirks .nzUrg) (s.quirks .urg) (s.quirks .push)
  simp only at F
  obtain ⟨_, _, _, fRst, fAck, fUrg, fPsh, fEce, fCwr, fNs, _⟩ := F
  have hfl : o.flags = impFlagsB (s.quirks .nzAck) (s.quirks .zeroAck) (s.quirks .nzUrg) (s.quirks .urg) (s.quirks .push) b.flags := by
    rw [ho]; rfl
  have fRst' : bit o.flags 4 = false := by rw [hfl]; exact fRst.trans hadm.noRst
  have fAck' : bit o.flags 16 = (if s.quirks .nzAck then false else if s.quirks .zeroAck then true else bit b.flags 16) := by
    rw [hfl]; exact fAck
  have fUrg' : bit o.flags 32 = (if s.quirks .nzUrg then false else if s.quirks .urg then true else false) := by
    rw [hfl]
    have hnu : bit b.flags F_URG = false := hadm.noUrg
    rw [hnu] at fUrg
    exact fUrg
  have fPsh' : bit o.flags 8 = s.quirks .push := by rw [hfl]; exact fPsh
  have fEce' : bit o.flags 64 = false := by rw [hfl]; exact fEce
  have fCwr' : bit o.flags 128 = false := by rw [hfl]; exact fCwr
  have fNs' : bit o.flags 256 = false := by rw [hfl]; exact fNs
  have oSeq : o.seq = impSeq s b c := by rw [ho]
  have oAck : o.ack = impAck s b c := by rw [ho]
  have oUrp : o.urp = impUrp s b c := by rw [ho]
  unfold choicesOk at hc
  simp only [Bool.and_eq_true, Bool.or_eq_true, Bool.not_eq_true', bne_iff_ne, ne_eq, decide_eq_true_eq] at hc
  obtain ⟨⟨⟨⟨⟨⟨⟨_, _⟩, cSeq⟩, cAck⟩, cUrp⟩, _⟩, _⟩, _⟩ := hc
  have ackIff16 : bit b.flags 16 = true ↔ b.ack ≠ 0 := hadm.ackIff
  refine ⟨?_, ?_, ?_, ?_, ?_, ?_, fEce', fCwr', fNs'⟩
  · -- seq-
    simp only [outQ, oSeq, impSeq]
    cases hz : s.quirks .zeroSeq with
    | true => simp
    | false =>
      by_cases hb : b.seq = 0
      · have := cSeq; simp [hz, hb] at this
        simp [hb]; omega
      · simp [hb]
  · -- ack+
    simp only [outQ, fAck', fRst', oAck, impAck]
    cases hn : s.quirks .nzAck with
    | true =>
      by_cases hb : b.ack = 0
      · have := cAck; simp [hn, hb] at this
        simp [hb]; omega
      · simp [hb]
    | false =>
      cases hz : s.quirks .zeroAck with
      | true => simp
      | false =>
        cases ha : bit b.flags 16 with
        | true => simp
        | false =>
          have : b.ack = 0 := by
            by_cases hne : b.ack = 0
            · exact hne
            · have := ackIff16.mpr hne; simp [ha] at this
          simp [this]
  · -- ack-
    simp only [outQ, fAck', oAck, impAck]
    cases hn : s.quirks .nzAck with
    | true =>
      have : s.quirks .zeroAck = false := by
        cases hz : s.quirks .zeroAck with
        | false => rfl
        | true => exact absurd ⟨hn, hz⟩ hsup.ackCoherent
      simp [this]
    | false =>
      cases hz : s.quirks .zeroAck with
      | true => simp
      | false =>
        cases ha : bit b.flags 16 with
        | false => simp
        | true =>
          have : b.ack ≠ 0 := ackIff16.mp ha
          simp [this]
  · -- uptr+
    simp only [outQ, fUrg', oUrp, impUrp]
    cases hn : s.quirks .nzUrg with
    | true =>
      by_cases hb : b.urp = 0
      · have := cUrp; simp [hn, hb] at this
        simp [hb]; omega
      · simp [hb]
    | false => cases s.quirks .urg <;> simp [hadm.urp0]
  · -- urgf+
    simp only [outQ, fUrg']
    cases hn : s.quirks .nzUrg with
    | true =>
      have : s.quirks .urg = false := by
        cases hz : s.quirks .urg with
        | false => rfl
        | true => exact absurd ⟨hn, hz⟩ hsup.urgCoherent
      simp [this]
    | false => cases s.quirks .urg <;> simp
  · -- pushf+
    simp only [outQ, fPsh']

/-- the IP-header quirks of the output (both families), and its ECN bits -/
theorem ip_header_quirks (s : Sig) (b : Base) (hops : Int) (mtu : Nat) (up : Option Int) (c : Choices) (o : OutPkt)
    (hadm : Admissible b) (hsup : Supported s b) (hc : choicesOk s b up c = true) (hrun : impTcp s b hops mtu up c = .ok o) :
    ((o.tos % 4 != 0) = s.quirks .ecn) ∧
    (b.ipVer = 4 → outQ o .df = s.quirks .df ∧ outQ o .nzId = s.quirks .nzId ∧ outQ o .zeroId = s.quirks .zeroId ∧
      outQ o .nzMbz = s.quirks .nzMbz ∧ outQ o .flow = false) ∧
    (b.ipVer = 6 → outQ o .df = false ∧ outQ o .nzId = false ∧ outQ o .zeroId = false ∧ outQ o .nzMbz = false ∧
      outQ o .flow = s.quirks .flow) := by
  obtain ⟨win, _, ho⟩ := impTcp_ok s b hops mtu up c o hrun
  have G := impIpFlagsB_facts b.ipFlags hadm.ipFlagsLt (s.quirks .df) (s.quirks .nzMbz)
  obtain ⟨_, gDf, gMbz, _⟩ := G
  unfold choicesOk at hc
  simp only [Bool.and_eq_true, Bool.or_eq_true, Bool.not_eq_true', bne_iff_ne, ne_eq, decide_eq_true_eq] at hc
  obtain ⟨⟨⟨⟨⟨⟨⟨cIp, cEcn⟩, _⟩, _⟩, _⟩, _⟩, _⟩, _⟩ := hc
  have oTos : o.tos = if s.quirks .ecn then c.ecn else 0 := by rw [ho]
  refine ⟨?_, ?_, ?_⟩
  · rw [oTos]
    cases he : s.quirks .ecn with
    | true => have := cEcn; simp [he] at this; simp; omega
    | false => simp
  · intro h4
    have hv6 : (b.ipVer == 6) = false := by simp [h4]
    have oVer : o.ipVer = 4 := by rw [ho]; exact h4
    have oFlags : o.ipFlags = impIpFlagsB (s.quirks .df) (s.quirks .nzMbz) b.ipFlags := by rw [ho]; simp [hv6, impIpFlags]
    have oId : o.ipId = impIpId s b c := by rw [ho]; simp [hv6]
    have cIp' : b.ipId ≠ 0 ∨ (s.quirks .df = true ∧ s.quirks .nzId = false) ∨ (s.quirks .df = false ∧ s.quirks .zeroId = true) ∨
        (1 ≤ c.id ∧ c.id < 65536) := by
      have := cIp
      simp only [hv6, Bool.false_eq_true, ↓reduceIte, Bool.or_eq_true, bne_iff_ne, ne_eq, Bool.and_eq_true,
        Bool.not_eq_true', decide_eq_true_eq] at this
      rcases this with ((h | h) | h) | h
      · exact Or.inl h
      · exact Or.inr (Or.inl h)
      · exact Or.inr (Or.inr (Or.inl h))
      · exact Or.inr (Or.inr (Or.inr h))
    refine ⟨?_, ?_, ?_, ?_, ?_⟩
    · simp [outQ, oVer, oFlags, gDf]
    · simp only [outQ, oVer, oFlags, gDf, oId, impIpId]
      cases hd : s.quirks .df with
      | false =>
        have : s.quirks .nzId = false := by
          cases hn : s.quirks .nzId with
          | false => rfl
          | true => have := hsup.idCoherent.1 hn; simp [hd] at this
        simp [this]
      | true =>
        cases hn : s.quirks .nzId with
        | false => simp
        | true =>
          by_cases hb : b.ipId = 0
          · rcases cIp' with h | h | h | h
            · exact absurd hb h
            · simp [hn] at h
            · simp [hd] at h
            · simp [hb]; omega
          · simp [hb]
    · simp only [outQ, oVer, oFlags, gDf, oId, impIpId]
      cases hd : s.quirks .df with
      | true =>
        have : s.quirks .zeroId = false := by
          cases hn : s.quirks .zeroId with
          | false => rfl
          | true => have := hsup.idCoherent.2 hn; simp [hd] at this
        simp [this]
      | false =>
        cases hn : s.quirks .zeroId with
        | true => simp
        | false =>
          by_cases hb : b.ipId = 0
          · rcases cIp' with h | h | h | h
            · exact absurd hb h
            · simp [hd] at h
            · simp [hn] at h
            · simp [hb]; omega
          · simp [hb]
    · simp [outQ, oVer, oFlags, gMbz]
    · simp [outQ, oVer]
  · intro h6
    have hv6 : (b.ipVer == 6) = true := by simp [h6]
    have oVer : o.ipVer = 6 := by rw [ho]; exact h6
    have oFl : o.fl = if s.quirks .flow then c.fl else 0 := by rw [ho]; simp [hv6]
    refine ⟨by simp [outQ, oVer], by simp [outQ, oVer], by simp [outQ, oVer], by simp [outQ, oVer], ?_⟩
    simp only [outQ, oVer, oFl]
    cases hf : s.quirks .flow with
    | true =>
      have := cIp
      simp [hv6, hf] at this
      simp; omega
    | false => simp

/-- **the quirk comparison**: every quirk of the output's extracted signature equals the signature's quirk after
    the family mask - so the comparison in `tcp_signatures_match` finds the sets equal -/
theorem run_quirks (s : Sig) (b : Base) (hops : Int) (mtu : Nat) (up : Option Int) (c : Choices) (o : OutPkt)
    (hadm : Admissible b) (hsup : Supported s b) (hc : choicesOk s b up c = true) (hr : RunFacts s b hops mtu up c o) :
    ∀ q, maskedQ s (extractOut o).toPSig q = (extractOut o).toPSig.quirks q := by
  obtain ⟨hsynEq, hoq⟩ := run_opt_quirks s b hops mtu up c o hadm hsup hr
  have hopt : ∀ q, (outOpts o).quirks q = true → q = .zeroTs1 ∨ q = .nzTs2 ∨ q = .eolNz ∨ q = .exws ∨ q = .bad := by
    intro q hq
    rw [hoq q] at hq
    cases q <;> simp_all
  obtain ⟨t1, t2, t3, t4, t5, t6, e1, e2, e3⟩ := tcp_header_quirks s b hops mtu up c o hadm hsup hc hr.run
  obtain ⟨iEcn, i4, i6⟩ := ip_header_quirks s b hops mtu up c o hadm hsup hc hr.run
  have hecn : outQ o .ecn = s.quirks .ecn := by simp only [outQ, e1, e2, e3, Bool.or_false]; exact iEcn
  obtain ⟨win, _, ho⟩ := impTcp_ok s b hops mtu up c o hr.run
  have hpv : (extractOut o).toPSig.ipVer = b.ipVer := by rw [ho]; rfl
  intro q
  have hpq : (extractOut o).toPSig.quirks q = outQ o q := extract_quirks o hopt q
  rw [hpq]
  rcases hadm.ver with h4 | h6
  · obtain ⟨j1, j2, j3, j4, j5⟩ := i4 h4
    have hmask : maskedQ s (extractOut o).toPSig q = (s.quirks q && !decide (q = .flow)) := by
      unfold maskedQ
      rw [hpv, h4]
      rcases hsup.version with hv | hv
      · simp only [hv, Option.isNone_none, ↓reduceIte, QSet.inter, v6Only]
        cases q <;> simp [quirk_beq, QSet.compl, QSet.ofList]
      · have hf := hsup.famCoherent.1 h4 (by rw [hv, h4])
        simp only [hv, Option.isNone_some, Bool.false_eq_true, ↓reduceIte]
        cases q <;> simp [hf]
    rw [hmask]
    cases q
    case ecn => simp [hecn]
    case df => simp [j1]
    case nzId => simp [j2]
    case zeroId => simp [j3]
    case nzMbz => simp [j4]
    case flow => simp [j5]
    case zeroSeq => simp [t1]
    case nzAck => simp [t2]
    case zeroAck => simp [t3]
    case nzUrg => simp [t4]
    case urg => simp [t5]
    case push => simp [t6]
    case zeroTs1 => simp [outQ, hoq]
    case nzTs2 => simp [outQ, hoq]
    case eolNz => simp [outQ, hoq]
    case exws => simp [outQ, hoq]
    case bad => simp [outQ, hoq, hsup.noBad]
  · obtain ⟨j1, j2, j3, j4, j5⟩ := i6 h6
    have hmask : maskedQ s (extractOut o).toPSig q =
        (s.quirks q && !(decide (q = .df) || decide (q = .nzId) || decide (q = .zeroId) || decide (q = .nzMbz))) := by
      unfold maskedQ
      rw [hpv, h6]
      rcases hsup.version with hv | hv
      · simp only [hv, Option.isNone_none, ↓reduceIte, QSet.inter, v4Only]
        cases q <;> simp [quirk_beq, QSet.compl, QSet.ofList]
      · obtain ⟨c1, c2, c3, c4⟩ := hsup.famCoherent.2 h6 (by rw [hv, h6])
        simp only [hv, Option.isNone_some, Bool.false_eq_true, ↓reduceIte]
        cases q <;> simp [c1, c2, c3, c4]
    rw [hmask]
    cases q
    case ecn => simp [hecn]
    case df => simp [j1]
    case nzId => simp [j2]
    case zeroId => simp [j3]
    case nzMbz => simp [j4]
    case flow => simp [j5]
    case zeroSeq => simp [t1]
    case nzAck => simp [t2]
    case zeroAck => simp [t3]
    case nzUrg => simp [t4]
    case urg => simp [t5]
    case push => simp [t6]
    case zeroTs1 => simp [outQ, hoq]
    case nzTs2 => simp [outQ, hoq]
    case eolNz => simp [outQ, hoq]
    case exws => simp [outQ, hoq]
    case bad => simp [outQ, hoq, hsup.noBad]

/-! ### the theorem -/

theorem ipOptBytes_length (n : Nat) (h : n % 4 = 0) : (ipOptBytes n).length = n := by
  unfold ipOptBytes
  simp [h]

/-- **C05 (partial: the class `Supported`)**: for every supported signature, every admissible base packet of a
    compatible IP version, every `extra_hops` below both the signature TTL and the maximum distance, and EVERY outcome
    of the random draws that lies in the ranges the impersonator draws from, `impersonate_tcp` returns a packet -
    without raising - whose extracted signature matches the requested signature exactly, at TTL distance `extra_hops`. -/
theorem imp_exact_partial (s : Sig) (b : Base) (hops d : Int) (mtu : Nat) (up : Option Int) (c : Choices)
    (hadm : Admissible b) (hsup : Supported s b) (hc : choicesOk s b up c = true)
    (hh0 : 0 ≤ hops) (hh1 : hops < s.ttl) (hh2 : hops ≤ d) :
    ∃ o, impTcp s b hops mtu up c = .ok o ∧ tcpMatchPkt s (extractOut o) d = some .exact ∧
      (s.ttl : Int) - ((extractOut o).ttl : Int) = hops := by
  obtain ⟨o, hr⟩ := run_facts s b hops mtu up c hsup hc
  refine ⟨o, hr.run, ?_, ?_⟩
  · -- the match
    have hq := run_quirks s b hops mtu up c o hadm hsup hc hr
    obtain ⟨hsynEq, hoq⟩ := run_opt_quirks s b hops mtu up c o hadm hsup hr
    obtain ⟨win, _, ho⟩ := impTcp_ok s b hops mtu up c o hr.run
    -- the option walk
    have hfold : outOpts o = finishOpts s ((bodyOpts s b up c).foldl (fun st x => stepOpt (outIsSyn o) x st) Opts.init) := by
      unfold outOpts; exact hr.parsed _
    have hfin : ∀ st : Opts, (finishOpts s st).layout = st.layout ++ (if endsEol s then [0] else []) ∧
        (finishOpts s st).eolPad = (if endsEol s then s.eolPad else st.eolPad) ∧
        (finishOpts s st).mss = st.mss ∧ (finishOpts s st).ws = st.ws := by
      intro st
      unfold finishOpts
      cases he : endsEol s with
      | false => simp
      | true =>
        simp only [↓reduceIte, Opts.addQuirkIf]
        split <;> simp [Opts.addQuirk, Opts.setEolPad, Opts.pushKind]
    have hlayout : (outOpts o).layout = s.layout := by
      rw [hfold, (hfin _).1, foldl_stepOpt_layout _ _ hr.noEol, hr.kinds]
      simp only [Opts.init, List.nil_append]
      exact hsup.layoutShape.symm
    have hpad : (outOpts o).eolPad = s.eolPad := by
      rw [hfold, (hfin _).2.1, foldl_stepOpt_eolPad]
      cases he : endsEol s with
      | true => simp
      | false => simp [Opts.init, hsup.eolPad0 he]
    have hmss : (outOpts o).mss = lastMssOf (bodyOpts s b up c) 0 := by
      rw [hfold, (hfin _).2.2.1, foldl_stepOpt_mss']; rfl
    have hws : (outOpts o).ws = lastWsOf (bodyOpts s b up c) 0 := by
      rw [hfold, (hfin _).2.2.2, foldl_stepOpt_ws']; rfl
    have hfacts : ∀ x ∈ bodyOpts s b up c, OptionFacts s b x := by
      intro x hx
      obtain ⟨k, c', _, hio, hok⟩ := hr.facts x hx
      exact plain_option_facts s b up hsup x k c' hio hok
    have hkindMem : ∀ k ∈ s.layout, k ≠ 0 → ∃ x ∈ bodyOpts s b up c, x.kind = k := by
      intro k hk hk0
      exact mem_of_kind_mem _ k (by rw [hr.kinds]; exact (mem_bodyLayout s hsup.layoutShape k hk0).mp hk)
    -- the fields of the packet signature
    set_option maxRecDepth 4096 in
    have kv : (extractOut o).toPSig.ipVer = b.ipVer := by rw [ho]; rfl
    have klay : (extractOut o).toPSig.layout = s.layout := hlayout
    have kpad : (extractOut o).toPSig.eolPad = s.eolPad := hpad
    have kolen : (extractOut o).toPSig.olen = (s.olen : Int) := by
      show (if o.ipVer == 6 then (0 : Int) else ((ipOptBytes o.ipOptLen).length : Int)) = s.olen
      rw [ho]
      simp only
      rcases hadm.ver with h4 | h6
      · have : (b.ipVer == 6) = false := by simp [h4]
        simp only [this, Bool.false_eq_true, ↓reduceIte]
        rw [ipOptBytes_length _ hsup.olenV.2]
      · have : (b.ipVer == 6) = true := by simp [h6]
        simp only [this, ↓reduceIte]
        rw [hsup.olenV.1 h6]; rfl
    have kttl : ((extractOut o).toPSig.ttl : Int) = s.ttl - hops := by
      show ((o.ttl.toNat : Nat) : Int) = s.ttl - hops
      rw [ho]
      simp only
      exact Int.toNat_of_nonneg (by omega)
    have kmss : (extractOut o).toPSig.mss = lastMssOf (bodyOpts s b up c) 0 := hmss
    have kws : (extractOut o).toPSig.wscale = lastWsOf (bodyOpts s b up c) 0 := hws
    have kpay : (extractOut o).toPSig.hasPayload = !o.payload.isEmpty := rfl
    have kwin : (extractOut o).toPSig.win = o.window := rfl
    -- criteria one by one
    have c_mss : ∀ m, s.mss = some m → (extractOut o).toPSig.mss = m := by
      intro m hm
      rw [kmss]
      rcases lastMssOf_mem (bodyOpts s b up c) 0 with h | ⟨h1, h2⟩
      · exact ((hfacts _ h).1 _ rfl).1 m hm
      · rcases hsup.mssCoherent m hm with h2' | h0
        · obtain ⟨x, hx, hxk⟩ := hkindMem 2 h2' (by decide)
          obtain ⟨k, c', hk, hio, hok⟩ := hr.facts x hx
          obtain ⟨o'', ho'', _, _, hwf, _⟩ := impOption_plain s b up k c' (plainKind_of_ne_zero k (bodyLayout_ne_zero s k hk)) hsup.mssFits hsup.scaleFits hok
          rw [hio] at ho''
          have hxe : x = o'' := (List.cons.inj (Prod.mk.inj ho'').1).1
          subst hxe
          cases x <;> simp [SOpt.kind] at hxk
          · exact absurd hx (h2 _)
          · simp only [SOpt.WF] at hwf; omega
        · rw [h1, h0]
    have c_ws : ∀ w, s.scale = some w → (extractOut o).toPSig.wscale = w := by
      intro w hw
      rw [kws]
      rcases lastWsOf_mem (bodyOpts s b up c) 0 with h | ⟨h1, h2⟩
      · exact ((hfacts _ h).2.1 _ rfl).1 w hw
      · rcases hsup.scaleCoherent w hw with h2' | h0
        · obtain ⟨x, hx, hxk⟩ := hkindMem 3 h2' (by decide)
          obtain ⟨k, c', hk, hio, hok⟩ := hr.facts x hx
          obtain ⟨o'', ho'', _, _, hwf, _⟩ := impOption_plain s b up k c' (plainKind_of_ne_zero k (bodyLayout_ne_zero s k hk)) hsup.mssFits hsup.scaleFits hok
          rw [hio] at ho''
          have hxe : x = o'' := (List.cons.inj (Prod.mk.inj ho'').1).1
          subst hxe
          cases x <;> simp [SOpt.kind] at hxk
          · exact absurd hx (h2 _)
          · simp only [SOpt.WF] at hwf; omega
        · rw [h1, h0]
    have c_pay : ∀ p, s.payClass = some p → (extractOut o).toPSig.hasPayload = p := by
      intro p hp
      rw [kpay, ho]
      simp only [impPayload, hp]
      cases p with
      | false => simp
      | true =>
        by_cases hb : b.payload.isEmpty = true
        · simp only [hb, ↓reduceIte]
          unfold choicesOk at hc
          simp only [Bool.and_eq_true, Bool.or_eq_true, Bool.not_eq_true', bne_iff_ne, ne_eq, decide_eq_true_eq] at hc
          have := hc.1.2
          simp [hp, hb] at this
          cases hcp : c.payload with
          | nil => simp [hcp] at this
          | cons x t => simp
        · simp [hb]
    have c_win : windowBad s (extractOut o).toPSig = false := by
      unfold windowBad
      rw [kwin]
      obtain ⟨w1, w2, w3, w4⟩ := hr.window
      cases hw : s.wtype with
      | normal => simp [w1 hw]
      | any => simp
      | mod => simp [w2 hw]
      | mtu => exact absurd hw hsup.winOk.2.2.2
      | mss =>
        obtain ⟨hwv, v, hv⟩ := w3 hw
        -- the last MSS of the list is one of its MSS options, hence at least 100 with window MSS*N
        have hmem : SOpt.mss (lastMssOf (bodyOpts s b up c) 0) ∈ bodyOpts s b up c := by
          rcases lastMssOf_mem (bodyOpts s b up c) 0 with h | ⟨_, h2⟩
          · exact h
          · exact absurd hv (h2 v)
        obtain ⟨h100, _⟩ := ((hfacts _ hmem).1 _ rfl).2 hw
        have hmult := windowMult_of_mss (extractOut o).wIn s.wsize
          (by show 100 ≤ (outOpts o).mss; rw [hmss]; exact h100)
          (hsup.winOk.2.2.1 hw).1
          (by show o.window = (outOpts o).mss * s.wsize; rw [hmss, hwv])
        have e1 : (extractOut o).toPSig.multVal = (s.wsize : Int) := by
          show (windowMult (extractOut o).wIn).1 = _; rw [hmult]
        have e2 : (extractOut o).toPSig.multMtu = false := by
          show (windowMult (extractOut o).wIn).2 = _; rw [hmult]
        simp [e1, e2]
    -- assemble
    unfold tcpMatchPkt tcpMatch
    have hbeq := beq_of_pointwise _ _ hq
    have hver : (s.ipVer.isSome && s.ipVer != some (extractOut o).toPSig.ipVer) = false := by
      rw [kv]; rcases hsup.version with h | h <;> simp [h]
    have hm : (s.mss.isSome && s.mss != some (extractOut o).toPSig.mss) = false := by
      cases hs : s.mss with
      | none => simp
      | some m => simp [c_mss m hs]
    have hsc : (s.scale.isSome && s.scale != some (extractOut o).toPSig.wscale) = false := by
      cases hs : s.scale with
      | none => simp
      | some w => simp [c_ws w hs]
    have hp : (s.payClass.isSome && s.payClass != some (extractOut o).toPSig.hasPayload) = false := by
      cases hs : s.payClass with
      | none => simp
      | some p => simp [c_pay p hs]
    have httl1 : ¬ (s.ttl < (extractOut o).toPSig.ttl) := by
      have := kttl; omega
    have httl2 : ¬ ((s.ttl : Int) - (extractOut o).toPSig.ttl > d) := by
      rw [kttl]; omega
    simp only [klay, bne_self_eq_false, Bool.false_eq_true, ↓reduceIte, hver, quirkStep, hbeq, Bool.not_true,
      kpad, kolen, Bool.or_self, hm, hsc, hp, c_win, httl1, httl2, decide_false, Bool.or_false]
    cases s.badTtl <;> simp
  · -- the distance
    obtain ⟨win, _, ho⟩ := impTcp_ok s b hops mtu up c o hr.run
    show (s.ttl : Int) - ((o.ttl.toNat : Nat) : Int) = hops
    rw [ho]
    simp only
    rw [Int.toNat_of_nonneg (by omega)]
    omega

/-! ### non-vacuity: a concrete supported signature, admissible base and in-range choices -/

/-- `*:64:0:*:mss*4,7:mss,nop,ws:df,id+:0` -/
def exSig : Sig :=
  { ipVer := none, olen := 0, ttl := 64, badTtl := false, wtype := .mss, wsize := 4, scale := some 7,
    layout := [2, 1, 3], mss := none, eolPad := 0, payClass := some false, quirks := QSet.ofList [.df, .nzId] }

/-- an IPv4 SYN with id 0, sequence number 0, an MSS hint of 50 (inadmissible with `mss*4`) and a payload -/
def exBase : Base :=
  { ipVer := 4, src := [10, 0, 0, 1], dst := [10, 0, 0, 2], ipFlags := 0, ipId := 0, ipFrag := 0, sport := 1234, dport := 80,
    seq := 0, ack := 0, flags := 0x02, urp := 0, window := 1111, mssHint := some 50, wsHint := none, ts1Hint := none,
    ts2Hint := none, payload := [65] }

def exChoices : Choices :=
  { id := 777, fl := 1, ecn := 1, seq := 4242, ack := 1, urp := 1, winMul := 1, payload := [66], opt := [(1400, 0), (0, 0), (0, 0)] }

theorem exBase_admissible : Admissible exBase := by
  refine ⟨by decide, by decide, by decide, by decide, ?_, by decide, rfl, Or.inl rfl, by decide, by decide, rfl⟩
  decide

theorem exSig_supported : Supported exSig exBase := by
  have hb : bodyLayout exSig = [2, 1, 3] := by decide
  have he : endsEol exSig = false := by decide
  refine { version := Or.inl rfl, layoutShape := by rw [hb, he]; rfl, layoutPlain := ?_, aligned := by rw [hb, he]; decide,
           eolPad0 := fun _ => rfl, olenV := ⟨fun _ => rfl, by decide⟩,
           ttlOk := by decide, mssFits := ?_, scaleFits := ?_, winOk := ?_, noBad := by decide, eolNzCoherent := by decide,
           idCoherent := by decide, ackCoherent := by decide, urgCoherent := by decide, famCoherent := ?_,
           exwsCoherent := ?_, mssCoherent := ?_, scaleCoherent := ?_, ts1Coherent := by decide, ts2Coherent := by decide,
           sizeOk := by rw [hb, he]; decide }
  · intro k hk; rw [hb] at hk; simp at hk; rcases hk with rfl | rfl | rfl <;> simp
  · intro m hm; simp [exSig] at hm
  · intro w hw; simp [exSig] at hw; omega
  · refine ⟨by simp [exSig], by simp [exSig], ?_, by simp [exSig]⟩
    intro _; refine ⟨by simp [exSig], by simp [exSig], by simp [exSig], ?_⟩
    intro m hm; simp [exSig] at hm
  · exact ⟨fun _ h => by simp [exSig] at h, fun h => by simp [exBase] at h⟩
  · exact ⟨fun h => by simp [exSig, QSet.ofList] at h, fun _ w hw => by simp [exSig] at hw; omega⟩
  · intro m hm; simp [exSig] at hm
  · intro w hw; left; simp [exSig]

theorem exChoices_ok : choicesOk exSig exBase none exChoices = true := by decide +kernel

/-- the theorem applies to the example: the run returns a packet that matches `exSig` exactly at distance 3 -/
example : ∃ o, impTcp exSig exBase 3 1500 none exChoices = .ok o ∧ tcpMatchPkt exSig (extractOut o) 35 = some .exact ∧
    (exSig.ttl : Int) - ((extractOut o).ttl : Int) = 3 :=
  imp_exact_partial exSig exBase 3 35 1500 none exChoices exBase_admissible exSig_supported exChoices_ok
    (by decide) (by decide) (by decide)

/-! ### the hypotheses as Booleans: what the driver evaluates on every run implies what the theorem assumes -/

theorem admissibleB_sound (b : Base) (h : admissibleB b = true) : Admissible b := by
  unfold admissibleB at h
  simp only [Bool.and_eq_true, Bool.or_eq_true, decide_eq_true_eq, Bool.not_eq_true', beq_iff_eq, bne_iff_ne] at h
  obtain ⟨⟨⟨⟨⟨⟨⟨⟨⟨⟨h1, h2⟩, h3⟩, h4⟩, h5⟩, h6⟩, h7⟩, h8⟩, h9⟩, h10⟩, h11⟩ := h
  refine ⟨h1, h2, h3, h4, ?_, h6, h7, h8, h9, h10, h11⟩
  constructor
  · intro ha
    rw [ha] at h5
    simpa using h5.symm
  · intro hne
    have : (b.ack != 0) = true := by simpa using hne
    rw [this] at h5
    exact h5

theorem layoutLenB_eq (l : List Nat) : layoutLenB l = layoutLen l := rfl

theorem supportedB_sound (s : Sig) (b : Base) (h : supportedB s b = true) : Supported s b := by
  unfold supportedB at h
  simp only [Bool.and_eq_true] at h
  obtain ⟨⟨⟨⟨⟨⟨⟨⟨⟨⟨⟨⟨⟨⟨⟨⟨⟨⟨⟨⟨⟨⟨⟨⟨⟨⟨⟨⟨⟨⟨a1, a2⟩, a3⟩, a4⟩, a5⟩, a6⟩, a7⟩, a8⟩, a9⟩, a10⟩, a11⟩, a12⟩, a13⟩, a14⟩, a15⟩, a16⟩, a17⟩, a18⟩, a19⟩, a20⟩, a21⟩, a22⟩, a23⟩, a24⟩, a25⟩, a26⟩, a27⟩, a28⟩, a29⟩, a30⟩, a31⟩ := h
  have hshape : s.layout = bodyLayout s ++ (if endsEol s then [0] else []) := by
    have := a29
    simp only [beq_iff_eq] at this
    exact this
  refine { version := ?_, layoutShape := hshape, layoutPlain := ?_, aligned := ?_, eolPad0 := ?_, olenV := ?_, ttlOk := ?_, mssFits := ?_,
           scaleFits := ?_, winOk := ?_, noBad := ?_, eolNzCoherent := ?_, idCoherent := ?_, ackCoherent := ?_, urgCoherent := ?_,
           famCoherent := ?_, exwsCoherent := ?_, mssCoherent := ?_, scaleCoherent := ?_, ts1Coherent := ?_, ts2Coherent := ?_,
           sizeOk := ⟨by simpa using a30, by
             have := a31
             simp only [decide_eq_true_eq] at this
             exact this⟩ }
  · cases hv : s.ipVer with
    | none => exact Or.inl rfl
    | some v => right; simp [hv] at a1; rw [a1]
  · intro k hk
    have := List.all_eq_true.mp a2 k hk
    simpa using this
  · simp only [Bool.or_eq_true, beq_iff_eq] at a3
    rcases a3 with h | h
    · left
      obtain ⟨k, hk, hst⟩ := List.any_eq_true.mp h
      exact ⟨k, hk, hst⟩
    · right; exact h
  · intro he
    have he' : s.layout.contains 0 = false := he
    simp only [he', Bool.false_or, beq_iff_eq] at a4
    exact a4
  · refine ⟨fun h6 => ?_, by simpa using a6⟩
    simp only [Bool.or_eq_true, bne_iff_ne, ne_eq, beq_iff_eq] at a5
    rcases a5 with h | h
    · exact absurd h6 h
    · exact h
  · exact ⟨by simpa using a7, by simpa using a8⟩
  · intro m hm; rw [hm] at a9; simpa using a9
  · intro w hw; rw [hw] at a10; simpa using a10
  · refine ⟨?_, ?_, ?_, ?_⟩
    · intro hw; simp [hw] at a11; exact a11
    · intro hw; simp [hw] at a12; exact a12
    · intro hw
      simp only [hw, bne_self_eq_false, Bool.false_or, Bool.and_eq_true, decide_eq_true_eq] at a13
      obtain ⟨⟨⟨b1, b2⟩, b3⟩, b4⟩ := a13
      refine ⟨b1, b2, by simpa using b3, ?_⟩
      intro m hm
      rw [hm] at b4
      simpa using b4
    · simpa using a14
  · simpa using a15
  · intro he
    simp only [he, Bool.not_true, Bool.false_or, Bool.and_eq_true, decide_eq_true_eq] at a16
    exact ⟨a16.1, a16.2⟩
  · constructor
    · intro hn; simp [hn] at a17; exact a17
    · intro hz; simp [hz] at a18; exact a18
  · intro ⟨h1, h2⟩; simp [h1, h2] at a19
  · intro ⟨h1, h2⟩; simp [h1, h2] at a20
  · constructor
    · intro h4 hv; simp [h4, hv] at a21; exact a21
    · intro h6 hv; simp [h6, hv] at a22; exact ⟨a22.1.1.1, a22.1.1.2, a22.1.2, a22.2⟩
  · constructor
    · intro he
      simp only [he, Bool.not_true, Bool.false_or, Bool.and_eq_true] at a23
      refine ⟨by simpa using a23.1, ?_⟩
      intro w hw
      have := a23.2
      rw [hw] at this
      simpa using this
    · intro he w hw
      simp only [he, Bool.false_or] at a24
      rw [hw] at a24
      simpa using a24
  · intro m hm
    rw [hm] at a25
    simp only [Bool.or_eq_true, beq_iff_eq] at a25
    rcases a25 with h | h
    · exact Or.inl (by simpa using h)
    · exact Or.inr h
  · intro w hw
    rw [hw] at a26
    simp only [Bool.or_eq_true, beq_iff_eq] at a26
    rcases a26 with h | h
    · exact Or.inl (by simpa using h)
    · exact Or.inr h
  · intro hz; simp [hz] at a27; exact a27
  · intro hz; simp [hz] at a28; exact ⟨a28.1, a28.2⟩

/-- **C05, in the form the driver uses**: whenever the Boolean hypotheses hold for a run's inputs and the drawn values
    are in range, the theorem applies to that run -/
theorem imp_exact_of_checks (s : Sig) (b : Base) (hops d : Int) (mtu : Nat) (up : Option Int) (c : Choices)
    (h1 : admissibleB b = true) (h2 : supportedB s b = true) (h3 : choicesOk s b up c = true)
    (hh0 : 0 ≤ hops) (hh1 : hops < s.ttl) (hh2 : hops ≤ d) :
    ∃ o, impTcp s b hops mtu up c = .ok o ∧ tcpMatchPkt s (extractOut o) d = some .exact ∧
      (s.ttl : Int) - ((extractOut o).ttl : Int) = hops :=
  imp_exact_partial s b hops d mtu up c (admissibleB_sound b h1) (supportedB_sound s b h2) h3 hh0 hh1 hh2

/-! non-vacuity for the stretched layouts: `mss,sok,sack,?77` is 18 bytes long, so `_align_options` adds two bytes to the
    SACK option; the theorem applies (hypotheses evaluated as Booleans) -/
def exSig2 : Sig :=
  { ipVer := some 4, olen := 0, ttl := 128, badTtl := false, wtype := .normal, wsize := 8192, scale := none,
    layout := [2, 4, 5, 77], mss := some 1460, eolPad := 0, payClass := none, quirks := QSet.ofList [.df, .nzId] }

def exChoices2 : Choices :=
  { id := 9, fl := 1, ecn := 1, seq := 1, ack := 1, urp := 1, winMul := 1, payload := [], opt := [] }

example : (impOptions exSig2 exBase none exChoices2) = [.mss 1460, .sackok, .sack 10, .raw 77 0] := by decide +kernel

example : ∃ o, impTcp exSig2 exBase 0 1500 none exChoices2 = .ok o ∧ tcpMatchPkt exSig2 (extractOut o) 35 = some .exact ∧
    (exSig2.ttl : Int) - ((extractOut o).ttl : Int) = 0 :=
  imp_exact_of_checks exSig2 exBase 0 35 1500 none exChoices2 (by decide +kernel) (by decide +kernel) (by decide +kernel)
    (by decide) (by decide) (by decide)

end P0f
