import P0f.Props.C03
/-
  C04 — any packet or payload yields a result or PacketError, in bounded work.
  Model-side part: the option walk terminates (Lean accepts `parseOptsGo` only with the
  `len ≥ 2` advance, i.e. the definition itself is the termination proof), makes at most one
  iteration per byte and never produces more layout entries than there are option bytes.
  The HTTP part is in `P0f/Props/C04Http.lean`.
-/
namespace P0f

/-- "the option layout never has more entries than there are option bytes" -/
theorem layout_le_bytes (buf : List Nat) (isSyn : Bool) :
    (parseOpts buf isSyn).layout.length ≤ buf.length := by
  have := parseOptsGo_layout_le isSyn buf Opts.init
  simpa [parseOpts, Opts.init] using this

/-- the walk makes at most one loop iteration per byte: the number of tokens read is at most the
    number of bytes -/
theorem tokenize_length_le (l : List Nat) : (tokenize l).length ≤ l.length := by
  fun_induction tokenize l <;> simp_all <;> omega

/-- the hostile inputs that used to loop forever now stop after one entry with `bad` -/
example : (parseOpts [2, 0, 0, 0] true).layout = [2] ∧ (parseOpts [2, 0, 0, 0] true).quirks .bad = true := by
  decide +kernel
example : (parseOpts [8, 0, 0, 0] false).layout = [8] := by decide +kernel

end P0f
