import P0f.Props.C08
import P0f.Lemmas.OptEncode
/-
  C08 — the round trip: the MTU fingerprint of an impersonated packet is the requested MTU.
  `encodeOpts` is Scapy's option encoding (modelled), `parseOpts` the verified option walk.
-/
namespace P0f

/-- steps that are not MSS options keep the MSS value; MSS options set it -/
theorem stepOpt_mss (isSyn : Bool) (o : SOpt) (st : Opts) :
    (stepOpt isSyn o st).mss = match o with | .mss v => v | _ => st.mss := by
  cases o with
  | ws v => simp only [stepOpt, Opts.addQuirkIf]; split <;> simp [Opts.addQuirk, Opts.setWs, Opts.pushKind]
  | ts a b =>
    simp only [stepOpt, Opts.addQuirkIf]
    split <;> split <;> simp [Opts.addQuirk, Opts.setTs, Opts.pushKind]
  | _ => simp [stepOpt, Opts.pushKind, Opts.setMss]

/-- if every MSS entry of the run carries `v`, and the run has an MSS entry or the state already holds `v`,
    the walk ends with MSS `v` -/
theorem foldl_stepOpt_mss (isSyn : Bool) (l : List SOpt) (v : Nat) (st : Opts)
    (hall : ∀ o ∈ l, o.isMss = true → o = .mss v) (hsome : l.any SOpt.isMss = true ∨ st.mss = v) :
    (l.foldl (fun s o => stepOpt isSyn o s) st).mss = v := by
  induction l generalizing st with
  | nil => simpa using hsome
  | cons o t ih =>
    simp only [List.foldl_cons]
    refine ih _ (fun x hx => hall x (by simp [hx])) ?_
    by_cases ho : o.isMss = true
    · right
      have := hall o (by simp) ho
      subst this
      simp [stepOpt_mss]
    · have ho' : o.isMss = false := by simpa using ho
      rcases hsome with hs | hs
      · simp only [List.any_cons, ho', Bool.false_or] at hs
        exact Or.inl hs
      · right
        rw [stepOpt_mss]
        cases o <;> simp_all [SOpt.isMss]

/-- what is left of the buffer after the options before the first EOL: nothing, or it starts with a zero byte -/
theorem parse_tail_mss (isSyn : Bool) (rest : List Nat) (st : Opts) (h : rest = [] ∨ rest.head? = some 0) :
    (parseOptsGo isSyn rest st).mss = st.mss := by
  rcases h with rfl | h
  · rw [parseOptsGo_nil]
  · cases rest with
    | nil => simp at h
    | cons x t =>
      simp only [List.head?_cons, Option.some.injEq] at h
      subst h
      rw [parseOptsGo_eol]
      simp only [Opts.addQuirkIf]
      split <;> simp [Opts.addQuirk, Opts.setEolPad, Opts.pushKind]

theorem mem_takeWhile_pred {α : Type} {p : α → Bool} : ∀ {l : List α} {a : α}, a ∈ l.takeWhile p → p a = true := by
  intro l
  induction l with
  | nil => intro a h; simp at h
  | cons x t ih =>
    intro a h
    by_cases hx : p x = true
    · simp only [List.takeWhile_cons, hx, ↓reduceIte, List.mem_cons] at h
      rcases h with rfl | h
      · exact hx
      · exact ih h
    · simp [List.takeWhile_cons, hx] at h

theorem takeWhile_append_dropWhile_flatMap (l : List SOpt) :
    l.flatMap SOpt.encode = (l.takeWhile (· ≠ .eol)).flatMap SOpt.encode ++ (l.dropWhile (· ≠ .eol)).flatMap SOpt.encode := by
  rw [← List.flatMap_append, List.takeWhile_append_dropWhile]

theorem dropWhile_head (l : List SOpt) :
    l.dropWhile (· ≠ .eol) = [] ∨ ∃ t, l.dropWhile (· ≠ .eol) = .eol :: t := by
  induction l with
  | nil => simp
  | cons o t ih =>
    by_cases h : o = .eol
    · subst h; right; exact ⟨t, by simp⟩
    · simp only [List.dropWhile_cons, ne_eq, h, not_false_eq_true, decide_true, ↓reduceIte]; exact ih

/-- **C08, round trip**: for every base option list of well-formed options in which no EOL precedes the first MSS
    option, every MTU `m` with `hdr < m ≤ hdr + 65535` and either IP version, the option bytes Scapy builds for the
    impersonated packet make the option walk report MSS `m − hdr`; hence `fingerprint_mtu` reports MTU `m`. -/
theorem impMtu_roundtrip (opts : List SOpt) (mtu ver : Nat) (isSyn : Bool)
    (hwf : ∀ o ∈ opts, o.WF) (hv : mtu - mtuHdr ver < 65536)
    (hreach : opts.any SOpt.isMss = false ∨ (opts.takeWhile (· ≠ .eol)).any SOpt.isMss = true) :
    (parseOpts (encodeOpts (impersonateMtu opts mtu ver)) isSyn).mss = mtu - mtuHdr ver := by
  obtain ⟨v, hvdef⟩ : ∃ v, v = mtu - mtuHdr ver := ⟨_, rfl⟩
  obtain ⟨out, hout⟩ : ∃ out, out = impersonateMtu opts mtu ver := ⟨_, rfl⟩
  rw [← hout, ← hvdef]
  rw [← hvdef] at hv
  -- facts about the rewritten list
  have hwf' : ∀ o ∈ out, o.WF := by
    intro o ho
    rw [hout] at ho
    unfold impersonateMtu at ho
    rw [← hvdef] at ho
    split at ho
    · obtain ⟨o', ho', rfl⟩ := List.mem_map.mp ho
      split
      · exact hv
      · exact hwf o' ho'
    · simp only [List.mem_cons] at ho
      rcases ho with rfl | ho
      · exact hv
      · exact hwf o ho
  have hall : ∀ o ∈ out, o.isMss = true → o = .mss v := by
    intro o ho hm
    rw [hout] at ho
    unfold impersonateMtu at ho
    rw [← hvdef] at ho
    split at ho
    · obtain ⟨o', _, rfl⟩ := List.mem_map.mp ho
      split
      · rfl
      · rename_i hn; simp [hn] at hm
    · simp only [List.mem_cons] at ho
      rcases ho with rfl | ho
      · rfl
      · rename_i hno
        have : opts.any SOpt.isMss = true := List.any_eq_true.mpr ⟨o, ho, hm⟩
        simp [this] at hno
  have hreach' : (out.takeWhile (· ≠ .eol)).any SOpt.isMss = true := by
    rw [hout]
    unfold impersonateMtu
    rw [← hvdef]
    rcases hreach with h | h
    · simp [h, SOpt.isMss]
    · have hany : opts.any SOpt.isMss = true := by
        obtain ⟨o, ho, hm⟩ := List.any_eq_true.mp h
        exact List.any_eq_true.mpr ⟨o, List.takeWhile_subset _ ho, hm⟩
      simp only [hany, ↓reduceIte]
      -- mapping MSS entries to an MSS entry does not move the first EOL
      have key : ∀ l : List SOpt, (l.takeWhile (· ≠ .eol)).any SOpt.isMss = true →
          ((l.map fun o => if o.isMss = true then SOpt.mss v else o).takeWhile (· ≠ .eol)).any SOpt.isMss = true := by
        intro l
        induction l with
        | nil => simp
        | cons o t ih =>
          intro h
          by_cases he : o = .eol
          · subst he; simp at h
          · by_cases hm : o.isMss = true
            · have e : (if o.isMss = true then SOpt.mss v else o) = SOpt.mss v := by simp [hm]
              simp only [List.map_cons, e]
              simp [SOpt.isMss]
            · have hm' : o.isMss = false := by simpa using hm
              simp only [List.takeWhile_cons, ne_eq, he, not_false_eq_true, decide_true, ↓reduceIte, List.any_cons,
                hm', Bool.false_or] at h
              simp only [List.map_cons, hm', Bool.false_eq_true, ↓reduceIte, List.takeWhile_cons, ne_eq, he,
                not_false_eq_true, decide_true, List.any_cons, Bool.false_or]
              exact ih h
      exact key opts h
  -- walk the options before the first EOL, then stop
  unfold parseOpts encodeOpts
  simp only
  rw [takeWhile_append_dropWhile_flatMap out, List.append_assoc]
  rw [parseOptsGo_encode_list isSyn _ (fun o ho => hwf' o (List.takeWhile_subset _ ho))
    (fun o ho => by have := mem_takeWhile_pred ho; simpa using this)]
  rw [parse_tail_mss]
  · exact foldl_stepOpt_mss isSyn _ v _ (fun o ho hm => hall o (List.takeWhile_subset _ ho) hm) (Or.inl hreach')
  · rcases dropWhile_head out with h | ⟨t, h⟩
    · rw [h]
      simp only [List.flatMap_nil, List.nil_append]
      generalize (4 - _ % 4) % 4 = n
      cases n with
      | zero => left; rfl
      | succ k => right; simp [List.replicate_succ]
    · right; rw [h]; simp [SOpt.encode]

/-! non-vacuity -/
example : (parseOpts (encodeOpts (impersonateMtu [.nop, .mss 1400, .ws 7, .eol] 1500 4)) true).mss = 1460 := by
  have := impMtu_roundtrip [.nop, .mss 1400, .ws 7, .eol] 1500 4 true (by simp [SOpt.WF]) (by decide) (by decide)
  simpa [mtuHdr] using this

end P0f
