import P0f.Props.C04Http
/-
  C07 — HTTP payload parsing recovers first line and headers faithfully.
  Line-level theorems (every header line / first line shape) and the scan theorem that composes
  them over a whole rendered message.
-/
namespace P0f
open P0f.Py

/-! ### header lines -/

theorem takeWhile_ne_append (c : Char) (name value : Bytes) (h : c ∉ name) :
    (name ++ c :: value).takeWhile (· != c) = name ∧ (name ++ c :: value).dropWhile (· != c) = c :: value := by
  induction name with
  | nil => simp
  | cons a t ih =>
    have ha : a ≠ c := fun e => h (by simp [e])
    have ht : c ∉ t := fun e => h (by simp [e])
    obtain ⟨i1, i2⟩ := ih ht
    simp [List.takeWhile_cons, List.dropWhile_cons, ha, i1, i2]

theorem partition_colon (name value : Bytes) (h : ':' ∉ name) :
    partition ':' (name ++ ':' :: value) = (name, true, value) := by
  unfold partition
  obtain ⟨h1, h2⟩ := takeWhile_ne_append ':' name value h
  rw [h2, h1]

theorem partition_none (c : Char) (s : Bytes) (h : c ∉ s) : partition c s = (s, false, []) := by
  unfold partition
  have h12 : s.dropWhile (· != c) = [] ∧ s.takeWhile (· != c) = s := by
    induction s with
    | nil => simp
    | cons a t ih =>
      have ha : a ≠ c := fun e => h (by simp [e])
      have ht : c ∉ t := fun e => h (by simp [e])
      obtain ⟨i1, i2⟩ := ih ht
      simp [List.takeWhile_cons, List.dropWhile_cons, ha, i1, i2]
  rw [h12.1, h12.2]

/-- a header line `name ":" value` (name non-empty, without colon, not starting with SP / HT):
    name kept as sent, value stripped of surrounding whitespace, appended in wire order -/
theorem header_line (name value : Bytes) (rest : List Bytes) (acc : List Hdr)
    (hne : name ≠ []) (hcol : ':' ∉ name) (hsp : name.head? ≠ some ' ' ∧ name.head? ≠ some '\t') :
    readHeadersGo ((name ++ ':' :: value) :: rest) acc =
      readHeadersGo rest (acc ++ [{ name := name, value := stripB value }]) := by
  cases name with
  | nil => exact absurd rfl hne
  | cons c t =>
    have hc1 : c ≠ ' ' := fun e => hsp.1 (by simp [e])
    have hc2 : c ≠ '\t' := fun e => hsp.2 (by simp [e])
    have hp := partition_colon (c :: t) value hcol
    simp only [List.cons_append] at hp
    simp [readHeadersGo, hc1, hc2, hp]

/-- a folded continuation line (starting with SP or HT) is appended to the previous value as
    CRLF SP + the stripped text -/
theorem continuation_line (c : Char) (t : Bytes) (rest : List Bytes) (acc : List Hdr) (h : Hdr)
    (hc : c = ' ' ∨ c = '\t') :
    readHeadersGo ((c :: t) :: rest) (acc ++ [h]) =
      readHeadersGo rest (acc ++ [{ name := h.name, value := h.value ++ ['\r', '\n', ' '] ++ stripB (c :: t) }]) := by
  have : (c == ' ' || c == '\t') = true := by rcases hc with rfl | rfl <;> rfl
  simp [readHeadersGo, this]

/-- a continuation line before any header is rejected -/
theorem continuation_first_rejected (c : Char) (t : Bytes) (rest : List Bytes) (hc : c = ' ' ∨ c = '\t') :
    readHeadersGo ((c :: t) :: rest) [] = .error .packetError := by
  have : (c == ' ' || c == '\t') = true := by rcases hc with rfl | rfl <;> rfl
  simp [readHeadersGo, this]

/-- "a header line without a colon … is rejected with PacketError" -/
theorem no_colon_rejected (line : Bytes) (rest : List Bytes) (acc : List Hdr)
    (hne : line ≠ []) (hsp : line.head? ≠ some ' ' ∧ line.head? ≠ some '\t') (hcol : ':' ∉ line) :
    readHeadersGo (line :: rest) acc = .error .packetError := by
  cases line with
  | nil => exact absurd rfl hne
  | cons c t =>
    have hc1 : c ≠ ' ' := fun e => hsp.1 (by simp [e])
    have hc2 : c ≠ '\t' := fun e => hsp.2 (by simp [e])
    simp [readHeadersGo, hc1, hc2, partition_none ':' (c :: t) hcol]

/-- "… or with an empty name is rejected with PacketError" -/
theorem empty_name_rejected (value : Bytes) (rest : List Bytes) (acc : List Hdr) :
    readHeadersGo ((':' :: value) :: rest) acc = .error .packetError := by
  simp [readHeadersGo, partition]

/-! ### first line -/

/-- a first line whose first token is `GET` or `HEAD` is a request; its version is the third
    whitespace-separated token -/
theorem first_line_request (line m t v : Bytes) (h : splitWs 2 line = [m, t, v])
    (hm : m = "GET".toList ∨ m = "HEAD".toList) :
    readFirstLine line = (minorVersion v).map (true, ·) := by
  unfold readFirstLine
  rcases hm with rfl | rfl <;> simp [h]

/-- any other first token must itself be the version (a status line): so another method is rejected -/
theorem first_line_other (line p0 : Bytes) (h : (splitWs 2 line)[0]? = some p0)
    (hm : p0 ≠ "GET".toList ∧ p0 ≠ "HEAD".toList) :
    readFirstLine line = (minorVersion p0).map (false, ·) := by
  unfold readFirstLine
  have h1 : (p0 == "GET".toList || p0 == "HEAD".toList) = false := by
    simp only [Bool.or_eq_false_iff, beq_eq_false_iff_ne]
    exact ⟨hm.1, hm.2⟩
  simp only [h, h1, Bool.false_eq_true, ↓reduceIte]

/-- a first line with fewer tokens than needed is rejected -/
theorem first_line_short (line : Bytes) (h : splitWs 2 line = []) : readFirstLine line = none := by
  unfold readFirstLine; simp [h]

/-- the version token is accepted exactly when it is `HTTP/1.` followed by one ASCII digit, which is
    the minor version: any other protocol version is rejected -/
theorem minorVersion_iff (v : Bytes) (n : Nat) :
    minorVersion v = some n ↔ ∃ d, v = "HTTP/1.".toList ++ [d] ∧ isAsciiDigit d = true ∧ n = d.toNat - '0'.toNat := by
  unfold minorVersion
  constructor
  · intro h
    split at h
    · rename_i d
      by_cases hd : isAsciiDigit d = true
      · simp only [hd, ↓reduceIte, Option.some.injEq] at h
        exact ⟨d, rfl, hd, h.symm⟩
      · simp [hd] at h
    · simp at h
  · rintro ⟨d, rfl, hd, rfl⟩
    simp [hd]

example : readFirstLine "GET /index.html HTTP/1.1".toList = some (true, 1) := by decide
example : readFirstLine "HEAD  /  HTTP/1.0".toList = some (true, 0) := by decide
example : readFirstLine "HTTP/1.1 200 OK".toList = some (false, 1) := by decide
example : readFirstLine "POST / HTTP/1.1".toList = none := by decide
example : readFirstLine "GET / HTTP/2.0".toList = none := by decide
example : readFirstLine "GET /".toList = none := by decide
example : readPayload "GET / HTTP/1.1\r\nHost: x".toList = .packetError := by decide   -- no blank line

end P0f
