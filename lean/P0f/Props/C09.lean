import P0f.Lemmas.Db
/-
  C09 — loading a database yields exactly the records written in the file.

  `parseLines` is the model of `_parse_file` (state machine, `create` / `add` on the record map);
  `specDb` (P0f/Spec/Db.lean) is the declarative reading: one record per `sig` line, determined by
  the lines before it.  All theorems hold for every list of lines (any interleaving of sections,
  repeated headers included, any number of lines).
-/
namespace P0f
open P0f.Py

/-- **C09 (main)**: after a successful load the database is exactly the one the file denotes:
    a section exists iff the file has a header for it (also when the header is repeated), and its
    list holds, in file order, one record per `sig` line of that section with the most recent
    label (+ `sys`), the structured signature of its text, the raw text and the line number. -/
theorem parseLines_records (ls : List (List Char)) (db : Db) (h : parseLines ls = .ok db) :
    db = specDb ls := by
  unfold parseLines at h
  cases hg : parseGo ls 1 PSt.init with
  | error e => simp [hg] at h
  | ok st =>
    simp only [hg, Except.ok.injEq] at h
    subst h
    have := parseGo_spec ls PSt.init st [] Inv.init (by simpa using hg)
    rw [this]
    simp [PSt.init, applyEv_empty, specDb]

/-- the same through the text of the file (universal newlines) -/
theorem parseText_records (t : List Char) (db : Db) (h : parseText t = .ok db) :
    db = specDb (pyLines t) := parseLines_records _ _ h

/-! ### what `specDb` says, spelled out -/

/-- a contribution `(s, some r)` comes from exactly one `sig` line: the line kinds split as
    `before ++ sig v :: after`, and `r` is the record that line stands for given what is before it -/
theorem mem_specEvents_iff (ks pre : List LineKind) (s : Section) (r : DbRec) :
    (s, some r) ∈ specEvents ks pre ↔
      ∃ a v b, ks = a ++ .sig v :: b ∧ recordAt (a.reverse ++ pre) v = some (s, r) := by
  induction ks generalizing pre with
  | nil => simp [specEvents]
  | cons k rest ih =>
    rw [specEvents_cons, List.mem_append, ih]
    constructor
    · rintro (h | ⟨a, v, b, hks, hr⟩)
      · cases k with
        | sig v =>
          simp only [evOf] at h
          cases hra : recordAt pre v with
          | none => simp [hra] at h
          | some sr =>
            simp only [hra, Option.map_some, Option.toList_some, List.mem_singleton, Prod.mk.injEq,
              Option.some.injEq] at h
            refine ⟨[], v, rest, by simp, ?_⟩
            simp only [List.reverse_nil, List.nil_append, hra]
            obtain ⟨h1, h2⟩ := h
            cases sr; simp_all
        | header s' => cases s' <;> simp [evOf] at h
        | skip => simp [evOf] at h
        | label v => simp [evOf] at h
        | sys v => simp [evOf] at h
        | other => simp [evOf] at h
      · exact ⟨k :: a, v, b, by simp [hks], by simpa [List.append_assoc] using hr⟩
    · rintro ⟨a, v, b, hks, hr⟩
      cases a with
      | nil =>
        simp only [List.nil_append, List.cons.injEq] at hks
        obtain ⟨rfl, rfl⟩ := hks
        left
        simp only [List.reverse_nil, List.nil_append] at hr
        simp [evOf, hr]
      | cons a0 a =>
        simp only [List.cons_append, List.cons.injEq] at hks
        obtain ⟨rfl, rfl⟩ := hks
        right
        exact ⟨a, v, b, rfl, by simpa [List.append_assoc] using hr⟩

/-- **C09, record ↔ sig line**: `r` is in the list of section `s` iff some `sig` line of the file,
    with enclosing section `s`, stands for it. -/
theorem record_iff_sig_line (ls : List (List Char)) (s : Section) (r : DbRec) :
    (∃ l, specDb ls s = some l ∧ r ∈ l) ↔
      ∃ a v b, ls.map classify = a ++ .sig v :: b ∧ recordAt a.reverse v = some (s, r) := by
  have key := mem_specEvents_iff (ls.map classify) [] s r
  simp only [List.append_nil] at key
  rw [← key]
  unfold specDb dbOfEvents
  constructor
  · rintro ⟨l, hl, hr⟩
    split at hl
    · simp at hl
    · simp only [Option.some.injEq] at hl
      subst hl
      simp only [List.mem_filterMap, List.mem_filter, decide_eq_true_eq] at hr
      obtain ⟨⟨s', o⟩, ⟨hm, hs⟩, ho⟩ := hr
      simp only at hs ho
      subst hs; subst ho
      exact hm
  · intro hm
    have hne : ¬ ((specEvents (ls.map classify) []).filter (·.1 = s)).isEmpty = true := by
      simp only [List.isEmpty_iff]
      intro he
      have : (s, some r) ∈ (specEvents (ls.map classify) []).filter (·.1 = s) := by
        simp [List.mem_filter, hm]
      rw [he] at this
      simp at this
    refine ⟨((specEvents (ls.map classify) []).filter (·.1 = s)).filterMap (·.2), by simp only [hne, Bool.false_eq_true, ↓reduceIte], ?_⟩
    simp only [List.mem_filterMap, List.mem_filter, decide_eq_true_eq]
    exact ⟨(s, some r), ⟨hm, rfl⟩, rfl⟩

/-- the record of a `sig` line carries the enclosing section, the most recent label, the raw text
    and the 1-based line number -/
theorem recordAt_fields (pre : List LineKind) (v : List Char) (s : Section) (r : DbRec)
    (h : recordAt pre v = some (s, r)) :
    lastSection pre = some s ∧ r.label = lastLabel pre ∧ r.raw = v ∧ r.line = pre.length + 1 ∧
      parseSigFor s.kind v = some r.sig := by
  unfold recordAt at h
  cases hs : lastSection pre with
  | none => simp [hs] at h
  | some s' =>
    simp only [hs] at h
    cases hp : parseSigFor s'.kind v with
    | none => simp [hp] at h
    | some sg =>
      simp only [hp, Option.map_some, Option.some.injEq, Prod.mk.injEq] at h
      obtain ⟨rfl, rfl⟩ := h
      exact ⟨rfl, rfl, rfl, rfl, hp⟩

/-! ### len -/

theorem len_create (db : Db) (s : Section) : (db.create s).len = db.len := by
  unfold Db.create
  cases h : db s with
  | some l => rfl
  | none =>
    unfold Db.len Section.all
    cases s <;> simp [Db.set, h]

theorem len_set_append (db : Db) (s : Section) (l : List DbRec) (r : DbRec) (h : db s = some l) :
    (db.set s (some (l ++ [r]))).len = db.len + 1 := by
  unfold Db.len Section.all
  cases s <;> simp [Db.set, h] <;> omega

theorem stepKind_len (st st' : PSt) (n : Nat) (k : LineKind) (h : stepKind st n k = .ok st') :
    st'.db.len = st.db.len + (if k.isSig then 1 else 0) := by
  cases k with
  | skip => simp only [stepKind, Except.ok.injEq] at h; subst h; simp [LineKind.isSig]
  | other => simp [stepKind] at h
  | header s =>
    cases s with
    | none => simp [stepKind] at h
    | some s => simp only [stepKind, Except.ok.injEq] at h; subst h; simp [LineKind.isSig, len_create]
  | sig v =>
    simp only [stepKind] at h
    split at h
    · rename_i s hstate hsec
      cases hp : parseSigFor s.kind v with
      | none => simp [hp] at h
      | some sg =>
        simp only [hp, Db.add] at h
        cases hl : st.db s with
        | none => simp [hl] at h
        | some l =>
          simp only [hl, Except.ok.injEq] at h; subst h
          simp [LineKind.isSig, len_set_append _ _ _ _ hl]
    · simp at h
  | label v =>
    simp only [stepKind] at h
    cases hsec : st.sec with
    | none => simp [hsec] at h
    | some s =>
      simp only [hsec] at h
      split at h
      · cases hp : parseLabelFor s.kind v with
        | none => simp [hp] at h
        | some lb => simp only [hp, Except.ok.injEq] at h; subst h; simp [LineKind.isSig]
      · simp at h
  | sys v =>
    simp only [stepKind] at h
    split at h
    · simp only [Except.ok.injEq] at h; subst h; simp [LineKind.isSig]
    · simp at h

theorem parseGo_len (ls : List (List Char)) (n : Nat) (st st' : PSt) (h : parseGo ls n st = .ok st') :
    st'.db.len = st.db.len + (ls.map classify).countP LineKind.isSig := by
  induction ls generalizing st n with
  | nil => simp only [parseGo, Except.ok.injEq] at h; subst h; simp
  | cons l ls ih =>
    simp only [parseGo] at h
    cases hs : stepLine st n l with
    | error e => simp [hs] at h
    | ok st1 =>
      simp only [hs] at h
      rw [stepLine_eq] at hs
      rw [ih _ _ h, stepKind_len _ _ _ _ hs, List.map_cons, List.countP_cons]
      omega

/-- **C09, len**: `len(database)` equals the number of `sig` lines of the file -/
theorem len_eq_sig_lines (ls : List (List Char)) (db : Db) (h : parseLines ls = .ok db) :
    db.len = (ls.map classify).countP LineKind.isSig := by
  unfold parseLines at h
  cases hg : parseGo ls 1 PSt.init with
  | error e => simp [hg] at h
  | ok st =>
    simp only [hg, Except.ok.injEq] at h
    subst h
    have := parseGo_len ls 1 PSt.init st hg
    simpa [PSt.init, Db.len, Db.empty, Section.all] using this

/-! ### file order -/

/-- all records contributed after `pre` have line numbers above `pre.length`, increasing -/
theorem specEvents_lines (ks pre : List LineKind) :
    ((specEvents ks pre).filterMap (·.2)).Pairwise (fun a b => a.line < b.line) ∧
      ∀ r ∈ (specEvents ks pre).filterMap (·.2), pre.length < r.line := by
  induction ks generalizing pre with
  | nil => simp [specEvents]
  | cons k rest ih =>
    obtain ⟨ih1, ih2⟩ := ih (k :: pre)
    rw [specEvents_cons, List.filterMap_append]
    have hev : ∀ r ∈ (evOf k pre).filterMap (·.2), r.line = pre.length + 1 := by
      intro r hr
      cases k with
      | sig v =>
        simp only [evOf] at hr
        cases hra : recordAt pre v with
        | none => simp [hra] at hr
        | some sr =>
          simp only [hra, Option.map_some, Option.toList_some, List.filterMap_cons, List.filterMap_nil,
            List.mem_singleton] at hr
          subst hr
          exact (recordAt_fields pre v sr.1 sr.2 (by simp [hra])).2.2.2.1
      | header s' => cases s' <;> simp [evOf] at hr
      | skip => simp [evOf] at hr
      | label v => simp [evOf] at hr
      | sys v => simp [evOf] at hr
      | other => simp [evOf] at hr
    have hlen : ((evOf k pre).filterMap (·.2)).length ≤ 1 := by
      cases k with
      | sig v => simp only [evOf]; cases recordAt pre v <;> simp
      | header s' => cases s' <;> simp [evOf]
      | skip => simp [evOf]
      | label v => simp [evOf]
      | sys v => simp [evOf]
      | other => simp [evOf]
    constructor
    · rw [List.pairwise_append]
      refine ⟨?_, ih1, ?_⟩
      · generalize (evOf k pre).filterMap (·.2) = L at hlen
        match L, hlen with
        | [], _ => exact List.Pairwise.nil
        | [x], _ => exact List.pairwise_singleton _ _
        | _ :: _ :: _, h => simp at h
      · intro a ha b hb
        have := hev a ha
        have := ih2 b hb
        simp only [List.length_cons] at this
        omega
    · intro r hr
      rw [List.mem_append] at hr
      rcases hr with hr | hr
      · have := hev r hr; omega
      · have := ih2 r hr; simp only [List.length_cons] at this; omega

/-- **C09, file order**: within every section list the records stand in file order
    (strictly increasing line numbers) -/
theorem records_in_file_order (ls : List (List Char)) (s : Section) (l : List DbRec)
    (h : specDb ls s = some l) : l.Pairwise (fun a b => a.line < b.line) := by
  unfold specDb dbOfEvents at h
  split at h
  · simp at h
  · simp only [Option.some.injEq] at h
    subst h
    have := (specEvents_lines (ls.map classify) []).1
    exact List.Pairwise.sublist (List.Sublist.filterMap _ List.filter_sublist) this

/-! ### non-vacuity: a file with a repeated section header, an application label with `sys`,
    comments and blank lines -/
def exampleFile : List (List Char) :=
  ["[http:request]", "label = s:!:curl:", "sys = @unix,@win", "sig = *:Host,User-Agent::curl", "; comment",
   "[http:response]", "label = s:unix:Apache:2.x", "sig = *:Server::Apache", "", "[http:request]",
   "label = g:unix:wget:", "sig = *:User-Agent,?Accept::"].map String.toList

example : (parseLines exampleFile).toOption.isSome = true := by decide +kernel
example : ((parseLines exampleFile).toOption.map Db.len) = some 3 := by decide +kernel
example : ((parseLines exampleFile).toOption.bind (· .httpReq)).map (·.map (·.line)) = some [4, 12] := by decide +kernel

end P0f
