import P0f.Model.Effects
import P0f.Props.C11
/-
  C12 — fingerprinting and TCP impersonation never modify the caller's objects.

  The footprint of every call over the explicit store of caller objects (`World`): the statement the
  run-time snapshots are compared against.  Which copies the code makes (copy_packet with
  assemble=True, copy_buffer, fresh layers) is a fact about the code that the model states and the
  snapshot oracle checks on the real objects; the theorems lift the per-call footprint to arbitrary
  call sequences.
-/
namespace P0f

def WCall.isImpMtu : WCall → Bool
  | .impMtu _ _ _ => true
  | _ => false

/-- **C12, per call**: every call except `impersonate_mtu` leaves all caller objects and the database
    exactly as they were -/
theorem call_frame {α : Type} (w : World α) (c : WCall) (h : c.isImpMtu = false) : wStep w c = w := by
  cases c <;> simp_all [wStep, WCall.isImpMtu]

/-- **C12, impersonate_mtu**: only the option list of the packet it is given changes; every other
    packet, every other field of that packet, every buffer and the database stay the same -/
theorem impMtu_world_frame {α : Type} (w : World α) (i mtu ver : Nat) :
    (wStep w (.impMtu i mtu ver)).bufs = w.bufs ∧ (wStep w (.impMtu i mtu ver)).db = w.db ∧
      (wStep w (.impMtu i mtu ver)).pkts.length = w.pkts.length ∧
      (∀ j, j ≠ i → (wStep w (.impMtu i mtu ver)).pkts[j]? = w.pkts[j]?) ∧
      (∀ p, w.pkts[i]? = some p →
        (wStep w (.impMtu i mtu ver)).pkts[i]? = some { p with opts := impersonateMtu p.opts mtu ver }) := by
  refine ⟨rfl, rfl, by simp [wStep], ?_, ?_⟩
  · intro j hj
    simp only [wStep, List.getElem?_modify]
    have : ¬ i = j := fun h => hj h.symm
    simp [this]
  · intro p hp
    simp [wStep, List.getElem?_modify, hp]

/-- **C12, call sequences**: over any sequence of calls the database and all buffers are unchanged, and
    a sequence without `impersonate_mtu` changes nothing at all -/
theorem run_frame {α : Type} (w : World α) (cs : List WCall) :
    (wRun w cs).db = w.db ∧ (wRun w cs).bufs = w.bufs ∧
      ((∀ c ∈ cs, c.isImpMtu = false) → wRun w cs = w) := by
  induction cs generalizing w with
  | nil => exact ⟨rfl, rfl, fun _ => rfl⟩
  | cons c cs ih =>
    obtain ⟨h1, h2, h3⟩ := ih (wStep w c)
    have hstep : (wStep w c).db = w.db ∧ (wStep w c).bufs = w.bufs := by
      cases c <;> exact ⟨rfl, rfl⟩
    refine ⟨?_, ?_, ?_⟩
    · simp only [wRun, List.foldl_cons] at h1 ⊢; rw [h1, hstep.1]
    · simp only [wRun, List.foldl_cons] at h2 ⊢; rw [h2, hstep.2]
    · intro hall
      have hc := call_frame w c (hall c (by simp))
      simp only [wRun, List.foldl_cons] at h3 ⊢
      rw [hc] at h3 ⊢
      have := ih w
      exact this.2.2 (fun c' hc' => hall c' (by simp [hc']))

/-- the database part, in terms of the public call model of C11: no fingerprint, lookup or
    impersonation call alters any record, label or signature -/
theorem db_untouched (db : Db) (c : Call) (h : ∀ f, c ≠ .load f) : (apiStep db c).1 = db :=
  only_load_changes db c h

end P0f
