import P0f.Lemmas.Match
/-
  C01 — a TCP signature matches a packet exactly when the p0f matching rules say so.
  Property theorems only; helper lemmas are in `P0f/Lemmas/Match.lean`.
-/
namespace P0f

/-- **C01, full strength**: for every signature, every packet signature and every `max_dist`, the
    model of `tcp_signatures_match` returns exactly what the property text demands. -/
theorem tcpMatch_eq_spec (s : Sig) (p : PSig) (d : Int) : tcpMatch s p d = specMatch s p d := by
  rw [tcpMatch_eq_bool, maskedQ_eq]
  have hE := quirkStep_exact (effQ s p) p.quirks
  have hS := quirkStep_isSome (effQ s p) p.quirks
  have hF := fixedB_iff s p
  have hT := ttlB_iff s p d
  unfold specMatch
  have hS' : (quirkStep (effQ s p) p.quirks).isSome = true ↔ quirksFuzz s p := hS
  have hE' : quirkStep (effQ s p) p.quirks = some .exact ↔ quirksEqual s p := hE
  clear hS hE
  by_cases hf : fixedB s p = true
  · have hf' := hF.mp hf
    rw [if_pos hf]
    cases hq : quirkStep (effQ s p) p.quirks with
    | none =>
      have : ¬ quirksFuzz s p := fun h => by have := hS'.mpr h; simp [hq] at this
      rw [if_pos (fun h => this h.2)]
    | some mt0 =>
      have hz : quirksFuzz s p := hS'.mp (by simp [hq])
      rw [if_neg (fun h => h ⟨hf', hz⟩)]
      by_cases ht : ttlB s p d = true
      · have ht' := hT.mp ht
        simp only [ht, if_true]
        cases mt0 with
        | exact =>
          have := hE'.mp hq
          rw [if_pos ⟨this, ht'⟩]
        | fuzzyTtl => exact absurd hq (quirkStep_ne_fuzzyTtl _ _)
        | fuzzyQuirks =>
          have : ¬ quirksEqual s p := fun h => by have := hE'.mpr h; simp [hq] at this
          rw [if_neg (fun h => this h.1), if_neg (fun h => h ht')]
      · have ht' : ¬ ttlWithin s p d := fun h => ht (hT.mpr h)
        have htf : ttlB s p d = false := by simpa using ht
        rw [if_neg (fun h => ht' h.2), if_pos ht']
        simp [htf]
  · have hf' : ¬ fixedOk s p := fun h => hf (hF.mpr h)
    rw [if_neg hf, if_pos (fun h => hf' h.1)]

/-! Readable corollaries, clause by clause. -/

/-- "the signature matches only if …" -/
theorem match_only_if (s : Sig) (p : PSig) (d : Int) (m : MatchType) (h : tcpMatch s p d = some m) :
    fixedOk s p ∧ quirksFuzz s p := by
  rw [tcpMatch_eq_spec] at h
  unfold specMatch at h
  by_cases hc : fixedOk s p ∧ quirksFuzz s p
  · exact hc
  · simp [hc] at h

/-- "Nothing else matches" / "matches … when": the converse -/
theorem match_if (s : Sig) (p : PSig) (d : Int) (h : fixedOk s p ∧ quirksFuzz s p) :
    (tcpMatch s p d).isSome = true := by
  rw [tcpMatch_eq_spec]
  unfold specMatch
  simp only [h, and_self, not_true_eq_false, ↓reduceIte]
  split <;> (try split) <;> simp

/-- "Such a match is exact when the quirks are equal and 0 ≤ sig TTL − packet TTL ≤ max
    distance" (a `ttl-` signature ignoring the limit), "and fuzzy otherwise" -/
theorem exact_iff (s : Sig) (p : PSig) (d : Int) :
    tcpMatch s p d = some .exact ↔
      fixedOk s p ∧ quirksEqual s p ∧ ttlWithin s p d := by
  rw [tcpMatch_eq_spec]
  unfold specMatch
  constructor
  · intro h
    by_cases hc : fixedOk s p ∧ quirksFuzz s p
    · simp only [hc, and_self, not_true_eq_false, ↓reduceIte] at h
      by_cases he : quirksEqual s p ∧ ttlWithin s p d
      · exact ⟨hc.1, he⟩
      · simp only [he, ↓reduceIte] at h
        split at h <;> simp at h
    · simp [hc] at h
  · intro ⟨hf, he, ht⟩
    have hz : quirksFuzz s p := by
      constructor
      · intro q h1 h2; rw [he q] at h1; simp [h1] at h2
      · intro q h1 h2; rw [he q] at h1; simp [h1] at h2
    simp [hf, hz, he, ht]

/-- a version-specific signature only meets a packet of that IP version -/
theorem match_version (s : Sig) (p : PSig) (d : Int) (m : MatchType) (v : Nat)
    (h : tcpMatch s p d = some m) (hv : s.ipVer = some v) : v = p.ipVer :=
  (match_only_if s p d m h).1.2.2.2.1 v hv

/-- a `ttl-` signature "never matches a larger packet TTL" and "ignores the distance limit" -/
theorem badTtl_never_larger (s : Sig) (p : PSig) (d : Int) (m : MatchType)
    (h : tcpMatch s p d = some m) (hb : s.badTtl = true) : p.ttl ≤ s.ttl ∧ m ≠ .fuzzyTtl := by
  have hf := (match_only_if s p d m h)
  refine ⟨hf.1.2.2.2.2.2.2.2.2 hb, ?_⟩
  rw [tcpMatch_eq_spec] at h
  unfold specMatch at h
  have ht : ttlWithin s p d := Or.inl hb
  simp only [hf, and_self, not_true_eq_false, ↓reduceIte, ht, and_true] at h
  split at h <;> simp at h <;> (subst h; simp)

/-! Non-vacuity: concrete signatures / packets producing each outcome. -/

private def sigA : Sig :=
  { ipVer := none, olen := 0, ttl := 64, badTtl := false, wtype := .mss, wsize := 4, scale := some 7,
    layout := [2, 4, 8, 1, 3], mss := none, eolPad := 0, payClass := some false,
    quirks := QSet.ofList [.df, .nzId] }
private def pktA : PSig :=
  { ipVer := 4, olen := 0, ttl := 57, win := 5840, layout := [2, 4, 8, 1, 3], mss := 1460, wscale := 7,
    eolPad := 0, hasPayload := false, quirks := QSet.ofList [.df, .nzId], multVal := 4, multMtu := false }

example : tcpMatch sigA pktA 35 = some .exact := by decide
example : tcpMatch sigA { pktA with ttl := 20 } 35 = some .fuzzyTtl := by decide
example : tcpMatch sigA { pktA with quirks := QSet.ofList [.df, .nzId, .ecn] } 35 = some .fuzzyQuirks := by decide
example : tcpMatch sigA { pktA with quirks := QSet.ofList [.df, .nzId, .zeroSeq] } 35 = none := by decide
example : tcpMatch { sigA with ipVer := some 6 } pktA 35 = none := by decide
example : tcpMatch { sigA with badTtl := true } { pktA with ttl := 1 } 0 = some .exact := by decide
example : tcpMatch { sigA with badTtl := true } { pktA with ttl := 65 } 35 = none := by decide

end P0f
