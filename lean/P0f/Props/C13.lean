import P0f.Lemmas.Uptime
/-
  C13 — uptime detection computes tick rate and uptime with 32-bit timestamp arithmetic.
-/
namespace P0f

/-- **C13, full statement**: for all timestamp pairs in `[0, 2^32)` (wrap-around included), all
    elapsed times (negative ones too), all packet types / fragment flags and all thresholds in the
    documented domain, the model of `fingerprint_uptime` (integer arithmetic, as the code) equals
    the rational-arithmetic reading of the property. -/
theorem uptime_eq_spec (o : UpOpts) (hD : o.Dom) (flags : Nat) (frag : Bool) (a b : Nat) (ms : Int)
    (ha : a < TWO32) (hb : b < TWO32) :
    fingerprintUptime o flags frag a b ms = specUptime o flags frag a b ms := by
  unfold fingerprintUptime specUptime
  simp only
  by_cases hv : validUptime frag (tcpType flags) = true
  · have hv' := (validUptime_iff frag flags).mp hv
    rw [if_neg (by simp [hv]), if_neg hv']
    rw [tsDiff_eq_ticks a b ha hb]
    by_cases hz : b = 0 ∨ a = 0
    · rw [if_pos hz, if_pos]
      unfold noVerdictCond; tauto
    · rw [if_neg hz]
      have htol := tolerated_iff o hD a b ms
      by_cases hn : ¬ (o.minWait ≤ ms ∧ ms ≤ o.maxWait)
          ∨ (ticks a b < 5 ∨ (ms < o.grace ∧
              ((tsInv (ticks a b) / 1000 : Nat) : Int) * o.maxScaleD * o.grace < o.maxScaleN))
      · rw [if_pos hn, if_pos]
        unfold noVerdictCond
        rcases hn with hn | hn | hn
        · have : ms < o.minWait ∨ o.maxWait < ms := by omega
          tauto
        · tauto
        · exact Or.inr (Or.inr (Or.inr (Or.inr (Or.inr (htol.mp hn)))))
      · rw [if_neg hn]
        have hnv : ¬ noVerdictCond o a b ms := by
          unfold noVerdictCond
          intro h
          apply hn
          rcases h with h | h | h | h | h | h
          · exact absurd (Or.inl h) hz
          · exact absurd (Or.inr h) hz
          · left; omega
          · left; omega
          · right; left; exact h
          · right; right; exact htol.mpr h
        rw [if_neg hnv]
        have hms : 0 < ms := by
          have := hD.wait
          have : o.minWait ≤ ms := by
            apply Classical.byContradiction; intro hc; exact hn (Or.inl (fun h => hc h.1))
          omega
        rw [if_neg (by omega)]
        by_cases hbk : ticks a b > tsInv (ticks a b)
        · have hbk' := (backward_iff a b).mp hbk
          rw [if_pos hbk, if_pos (Or.inl hbk')]
          have : ¬ (o.minScaleN = 0 ∧ tsInv (ticks a b) = 0) := by have := hD.minPos; omega
          rw [if_neg this]
          unfold badReading
          by_cases ht : tcpType flags = F_SYN <;> simp [ht]
        · have hbk' : ¬ backward a b := fun h => hbk ((backward_iff a b).mpr h)
          rw [if_neg hbk]
          have hr := range_iff o hD (ticks a b * 1000) ms hms
          unfold rawFreq
          by_cases hrange : o.minScaleN * ms.toNat ≤ ticks a b * 1000 * o.minScaleD ∧
              ticks a b * 1000 * o.maxScaleD ≤ o.maxScaleN * ms.toNat
          · rw [if_neg (by simpa using hrange), if_neg]
            · rw [floor_raw _ ms hms]
              have e : ∀ f : Nat, f * 60 * 60 * 24 = f * 86400 := by intro f; omega
              simp only [e]
            · intro hc
              rcases hc with hc | hc
              · exact hbk' hc
              · exact hc (hr.mp hrange)
          · rw [if_pos (by simpa using hrange), if_pos (Or.inr (fun h => hrange (hr.mpr h)))]
            unfold badReading
            by_cases ht : tcpType flags = F_SYN <;> simp [ht]
  · have hv' : frag = true ∨ ¬ (tcpType flags = F_SYN ∨ tcpType flags = F_SYN ||| F_ACK ∨ tcpType flags = F_ACK) := by
      apply Classical.byContradiction
      intro hc
      exact hv ((validUptime_iff frag flags).mpr hc)
    rw [if_pos (by simp [hv]), if_pos hv']

/-- "Only non-fragment SYN, SYN+ACK or ACK packets are accepted; others raise PacketError" -/
theorem gate_types (o : UpOpts) (flags : Nat) (frag : Bool) (a b : Nat) (ms : Int) :
    fingerprintUptime o flags frag a b ms = .packetError ↔
      (frag = true ∨ ¬ (tcpType flags = F_SYN ∨ tcpType flags = F_SYN ||| F_ACK ∨ tcpType flags = F_ACK)) := by
  have hv := validUptime_iff frag flags
  unfold fingerprintUptime
  simp only
  by_cases h : validUptime frag (tcpType flags) = true
  · have := hv.mp h
    simp only [h, Bool.not_true, Bool.false_eq_true, ↓reduceIte, this, iff_false]
    unfold badReading
    repeat' split
    all_goals simp
  · have : frag = true ∨ ¬ (tcpType flags = F_SYN ∨ tcpType flags = F_SYN ||| F_ACK ∨ tcpType flags = F_ACK) := by
      apply Classical.byContradiction; intro hc; exact h (hv.mpr hc)
    rw [if_pos (by simp [h])]
    exact ⟨fun _ => this, fun _ => rfl⟩

/-- the rounding function over every integer frequency: positive (so `timestamp // tps` is safe),
    the identity on 1..10, a multiple of the bucket step and close to the input elsewhere -/
theorem roundFrequency_spec (f : Nat) :
    1 ≤ roundFrequency f ∧
    (f = 0 → roundFrequency f = 1) ∧
    (1 ≤ f ∧ f ≤ 10 → roundFrequency f = f) ∧
    (11 ≤ f ∧ f ≤ 50 → roundFrequency f % 5 = 0 ∧ f ≤ roundFrequency f + 1 ∧ roundFrequency f ≤ f + 3) ∧
    (51 ≤ f ∧ f ≤ 100 → roundFrequency f % 10 = 0 ∧ f ≤ roundFrequency f + 2 ∧ roundFrequency f ≤ f + 7) ∧
    (101 ≤ f ∧ f ≤ 500 → roundFrequency f % 50 = 0 ∧ f ≤ roundFrequency f + 16 ∧ roundFrequency f ≤ f + 33) ∧
    (501 ≤ f → roundFrequency f % 100 = 0 ∧ f ≤ roundFrequency f + 32 ∧ roundFrequency f ≤ f + 67) := by
  unfold roundFrequency
  refine ⟨?_, ?_, ?_, ?_, ?_, ?_, ?_⟩ <;> (try intro h) <;> (repeat' split) <;> omega

/-- a wrap-around is read as the forward advance it is -/
example : ticks 4294967246 50 = 100 := by decide
/-- a forward reading inside the grace window is used (p0f's u32 complement is huge) -/
example : fingerprintUptime ⟨7, 10, 1500, 1, 25, 600000, 100⟩ F_ACK false 1000 1008 80
    = .verdict 8000 80 100 0 497 := by decide
example : fingerprintUptime ⟨7, 10, 1500, 1, 25, 600000, 100⟩ F_ACK false 4294967246 50 1000
    = .verdict 100000 1000 100 0 497 := by decide
example : fingerprintUptime ⟨7, 10, 1500, 1, 25, 600000, 100⟩ F_ACK false 5000 4000 1000 = .badTps := by decide
example : fingerprintUptime ⟨7, 10, 1500, 1, 25, 600000, 100⟩ F_SYN false 5000 4000 1000 = .noVerdict := by decide
example : fingerprintUptime ⟨7, 10, 1500, 1, 25, 600000, 100⟩ F_ACK false 5000 4990 50 = .noVerdict := by decide
example : (⟨7, 10, 1500, 1, 25, 600000, 100⟩ : UpOpts).Dom := ⟨by decide, by decide, by decide, by decide, by decide⟩

end P0f
