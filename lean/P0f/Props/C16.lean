import P0f.Model.Effects
import P0f.Props.C11
/-
  C16 — fingerprint results are a pure function of (input, database, options).

  Two layers:
  * inside one call: the multiplier cache threaded through the record loop (`findLoopObj`) gives
    the same answer as the cache-free definitions the C01 / C02 / C17 theorems are about;
  * across calls: the only state is the live database (C11: `history_independent`,
    `repeat_stable`, `only_load_changes`), and every call builds a fresh signature object.
-/
namespace P0f

theorem toPSigWith_mult (k : PktSig) : k.toPSigWith (windowMult k.wIn) = k.toPSig := rfl

/-- the criteria before the window block do not read the multiplier -/
theorem tcpMatchPre_indep (s : Sig) (k : PktSig) (m m' : Int × Bool) (d : Int) :
    tcpMatchPre s (k.toPSigWith m) d = tcpMatchPre s (k.toPSigWith m') d := rfl

/-- `tcp_signatures_match` = the earlier criteria, then the window block -/
theorem tcpMatch_split (s : Sig) (p : PSig) (d : Int) :
    tcpMatch s p d = match tcpMatchPre s p d with
      | none => none
      | some mt => if windowBad s p then none else some mt := by
  unfold tcpMatch tcpMatchPre
  by_cases h1 : (s.layout != p.layout) = true
  · simp [h1]
  · simp only [h1, Bool.false_eq_true, ↓reduceIte]
    by_cases h2 : (s.ipVer.isSome && s.ipVer != some p.ipVer) = true
    · simp [h2]
    · simp only [h2, Bool.false_eq_true, ↓reduceIte]
      cases quirkStep (maskedQ s p) p.quirks with
      | none => rfl
      | some mt0 =>
        simp only
        by_cases h3 : (s.eolPad != p.eolPad || (s.olen : Int) != p.olen) = true
        · simp [h3]
        · simp only [h3, Bool.false_eq_true, ↓reduceIte]
          generalize (if s.badTtl = true then (if s.ttl < p.ttl then none else some mt0)
            else if (decide (s.ttl < p.ttl) || decide ((s.ttl : Int) - p.ttl > d)) = true then some MatchType.fuzzyTtl
            else some mt0) = ts
          cases ts with
          | none => rfl
          | some mt =>
            simp only
            by_cases h4 : ((s.mss.isSome && s.mss != some p.mss) || (s.scale.isSome && s.scale != some p.wscale)
                || (s.payClass.isSome && s.payClass != some p.hasPayload)) = true
            · simp [h4]
            · simp [h4]

/-- literal and `%N` windows do not read the multiplier either -/
theorem windowBad_indep (s : Sig) (k : PktSig) (m m' : Int × Bool)
    (h : (s.wtype == .mss || s.wtype == .mtu) = false) :
    windowBad s (k.toPSigWith m) = windowBad s (k.toPSigWith m') := by
  unfold windowBad PktSig.toPSigWith
  have wt_beq : ∀ a b : WinType, (a == b) = decide (a = b) := fun _ _ => rfl
  cases hw : s.wtype <;> simp_all [wt_beq]

theorem mult_coherent (o : SigObj) (h : o.Coherent) :
    o.mult.1 = windowMult o.k.wIn ∧ o.mult.2.Coherent ∧ o.mult.2.k = o.k := by
  unfold SigObj.mult
  rcases h with h | h
  · simp [h, SigObj.Coherent]
  · simp [h, SigObj.Coherent]

/-- **C16, one comparison**: with a coherent cache the object version answers exactly what the pure
    `tcp_signatures_match` answers, keeps the cache coherent and never changes the fields -/
theorem tcpMatchObj_eq (s : Sig) (o : SigObj) (d : Int) (h : o.Coherent) :
    (tcpMatchObj s o d).1 = tcpMatchPkt s o.k d ∧ (tcpMatchObj s o d).2.Coherent ∧
      (tcpMatchObj s o d).2.k = o.k := by
  unfold tcpMatchObj tcpMatchPkt
  rw [tcpMatch_split, ← toPSigWith_mult, tcpMatchPre_indep s o.k (windowMult o.k.wIn) (0, false) d]
  cases hp : tcpMatchPre s (o.k.toPSigWith (0, false)) d with
  | none =>
    refine ⟨?_, ?_, ?_⟩
    · rfl
    · exact h
    · rfl
  | some mt =>
    simp only
    obtain ⟨hm1, hm2, hm3⟩ := mult_coherent o h
    by_cases hw : (s.wtype == .mss || s.wtype == .mtu) = true
    · simp only [hw, ↓reduceIte]
      rw [hm1]
      refine ⟨?_, ?_, ?_⟩ <;> first | rfl | exact hm2 | exact hm3 | trivial
    · have hw' : (s.wtype == .mss || s.wtype == .mtu) = false := by simpa using hw
      simp only [hw', Bool.false_eq_true, ↓reduceIte]
      rw [windowBad_indep s o.k (0, false) (windowMult o.k.wIn) hw']
      refine ⟨?_, ?_, ?_⟩ <;> first | rfl | exact h | trivial

/-- **C16, the record loop**: threading the cache through all records gives the pure loop's answer -/
theorem findLoopObj_eq (d : Int) (recs : List Rec) (o : SigObj) (fz gn : Option TcpMatch)
    (h : o.Coherent) :
    (findLoopObj d recs o fz gn).1 = findLoop o.k.toPSig d recs fz gn ∧
      (findLoopObj d recs o fz gn).2.Coherent ∧ (findLoopObj d recs o fz gn).2.k = o.k := by
  induction recs generalizing o fz gn with
  | nil => exact ⟨rfl, h, rfl⟩
  | cons r rs ih =>
    obtain ⟨h1, h2, h3⟩ := tcpMatchObj_eq r.sig o d h
    unfold findLoopObj findLoop
    generalize hres : tcpMatchObj r.sig o d = res at h1 h2 h3
    obtain ⟨m, o'⟩ := res
    simp only at h1 h2 h3
    have hk : o'.k.toPSig = o.k.toPSig := by rw [h3]
    unfold tcpMatchPkt at h1
    rw [← h1]
    cases m with
    | none =>
      simp only
      have := ih o' fz gn h2
      rw [hk, h3] at this
      exact this
    | some mt =>
      cases mt with
      | exact =>
        simp only
        split
        · exact ⟨rfl, h2, h3⟩
        · have := ih o' fz (if gn.isNone then some (.exact, r) else gn) h2
          rw [hk, h3] at this
          exact this
      | fuzzyTtl =>
        simp only
        have := ih o' (if fz.isNone then some (.fuzzyTtl, r) else fz) gn h2
        rw [hk, h3] at this
        exact this
      | fuzzyQuirks =>
        simp only
        have := ih o' (if fz.isNone then some (.fuzzyQuirks, r) else fz) gn h2
        rw [hk, h3] at this
        exact this

/-- **C16, one call**: `fingerprint_tcp` with its per-call signature object and cache equals the
    cache-free `fingerprintTcp` (the function C02's theorems are about) - for every database, packet
    signature and `max_dist`.  No record order, repetition or earlier comparison can change it. -/
theorem fingerprintTcpObj_eq (db : TcpDb) (k : PktSig) (isSyn : Bool) (d : Int) :
    fingerprintTcpObj db k isSyn d = fingerprintTcp db k isSyn d := by
  unfold fingerprintTcpObj fingerprintTcp findTcpMatch
  have := (findLoopObj_eq d (if isSyn then db.req else db.resp) (SigObj.fresh k) none none (Or.inl rfl)).1
  simp only [SigObj.fresh] at this ⊢
  rw [this]

/-- even an object that is matched again after the loop (a result object the caller keeps and
    re-uses) stays coherent: repeated evaluation is stable -/
theorem repeated_match_stable (s s' : Sig) (o : SigObj) (d : Int) (h : o.Coherent) :
    (tcpMatchObj s (tcpMatchObj s' o d).2 d).1 = (tcpMatchObj s o d).1 := by
  obtain ⟨_, h2, h3⟩ := tcpMatchObj_eq s' o d h
  rw [(tcpMatchObj_eq s _ d h2).1, (tcpMatchObj_eq s o d h).1, h3]

/-- across calls: an API fingerprint result is a function of the live database and the input only
    (C11 `history_independent`); restated for the three fingerprint calls -/
theorem fp_pure_of_db (db1 db2 : Db) (h1 h2 : List Call) (c : Call)
    (hdb : (apiRun db1 h1).1 = (apiRun db2 h2).1) :
    (apiStep (apiRun db1 h1).1 c).2 = (apiStep (apiRun db2 h2).1 c).2 := by
  rw [hdb]

end P0f
