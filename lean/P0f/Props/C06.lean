import P0f.Spec.Http
/-
  C06 — HTTP signature matching and selection follow the p0f rules.
-/
namespace P0f
open P0f.Py

/-- what the inner `while` loop computes -/
theorem advance_spec (all : List Hdr) (name : Bytes) (i fuel : Nat) (hf : all.length - i ≤ fuel) :
    i ≤ advance all name i fuel ∧
    (∀ k, i ≤ k → k < advance all name i fuel → ∀ ph, all[k]? = some ph → lower name ≠ lower ph.name) ∧
    (∀ ph, all[advance all name i fuel]? = some ph → lower name = lower ph.name) ∧
    (all[advance all name i fuel]? = none → ∀ k, i ≤ k → ∀ ph, all[k]? = some ph → lower name ≠ lower ph.name) := by
  induction fuel generalizing i with
  | zero =>
    have hi : all.length ≤ i := by omega
    have hnone : all[i]? = none := List.getElem?_eq_none hi
    simp only [advance]
    refine ⟨Nat.le_refl _, fun k h1 h2 => by omega, fun ph h => by simp [hnone] at h, ?_⟩
    intro _ k hk ph hph
    have : all[k]? = none := List.getElem?_eq_none (by omega)
    simp [this] at hph
  | succ fuel ih =>
    simp only [advance]
    cases hget : all[i]? with
    | none =>
      simp only
      refine ⟨Nat.le_refl _, fun k h1 h2 => by omega, fun ph h => by simp [hget] at h, ?_⟩
      intro _ k hk ph hph
      have hlen : all.length ≤ i := by
        rcases Nat.lt_or_ge i all.length with h | h
        · simp [List.getElem?_eq_getElem h] at hget
        · exact h
      have : all[k]? = none := List.getElem?_eq_none (by omega)
      simp [this] at hph
    | some ph0 =>
      simp only
      by_cases hne : (lower name != lower ph0.name) = true
      · simp only [hne, ↓reduceIte]
        have hlt : i < all.length := by
          rcases Nat.lt_or_ge i all.length with h | h
          · exact h
          · simp [List.getElem?_eq_none h] at hget
        obtain ⟨h1, h2, h3, h4⟩ := ih (i + 1) (by omega)
        refine ⟨by omega, ?_, h3, ?_⟩
        · intro k hk1 hk2 ph hph
          by_cases hki : k = i
          · subst hki; rw [hget] at hph; cases hph; simpa using hne
          · exact h2 k (by omega) hk2 ph hph
        · intro hn k hk ph hph
          by_cases hki : k = i
          · subst hki; rw [hget] at hph; cases hph; simpa using hne
          · exact h4 hn k (by omega) ph hph
      · have he : lower name = lower ph0.name := by simpa using hne
        simp only [hne, Bool.false_eq_true, ↓reduceIte]
        refine ⟨Nat.le_refl _, fun k h1 h2 => by omega, ?_, fun h => by simp [hget] at h⟩
        intro ph hph; rw [hget] at hph; cases hph; exact he

/-- **C06, header walk**: for every signature header list and every message header list -/
theorem headersMatchGo_iff (all : List Hdr) (sh : List SigHdr) (i : Nat) :
    headersMatchGo all sh i = true ↔ Walk all sh i := by
  induction sh generalizing i with
  | nil => simp [headersMatchGo]; exact Walk.nil i
  | cons h hs ih =>
    obtain ⟨a1, a2, a3, a4⟩ := advance_spec all h.name i (all.length - i) (Nat.le_refl _)
    simp only [headersMatchGo]
    generalize hj : advance all h.name i (all.length - i) = j at *
    cases hget : all[j]? with
    | none =>
      have hnone := a4 hget
      simp only
      constructor
      · intro hm
        by_cases ho : h.optional = true
        · simp only [ho, Bool.not_true, Bool.false_eq_true, ↓reduceIte] at hm
          by_cases hany : all.any (fun ph => lower h.name == lower ph.name) = true
          · simp [hany] at hm
          · simp only [hany, Bool.false_eq_true, ↓reduceIte] at hm
            refine Walk.absent h hs i ho ?_ ((ih i).mp hm)
            intro ph hph hn
            apply hany
            simp only [List.any_eq_true, beq_iff_eq]
            exact ⟨ph, hph, hn⟩
        · simp [ho] at hm
      · intro hw
        cases hw with
        | found _ _ _ j' ph hf hg hv hrest =>
          obtain ⟨hle, ⟨ph', hph', hne⟩, _⟩ := hf
          exact absurd hne (hnone j' hle ph' hph')
        | absent _ _ _ ho hnone' hrest =>
          have hany : all.any (fun ph => lower h.name == lower ph.name) = false := by
            rw [Bool.eq_false_iff]
            intro hc
            simp only [List.any_eq_true, beq_iff_eq] at hc
            obtain ⟨ph, hph, hn⟩ := hc
            exact hnone' ph hph hn
          simp [ho, hany, (ih i).mpr hrest]
    | some ph =>
      have hname := a3 ph hget
      have hfirst : FirstAt all h i j := ⟨a1, ⟨ph, hget, hname⟩, fun k h1 h2 p hp => a2 k h1 h2 p hp⟩
      simp only
      constructor
      · intro hm
        cases hv : h.value with
        | none =>
          simp only [hv] at hm
          exact Walk.found h hs i j ph hfirst hget (by simp [hv]) ((ih (j + 1)).mp hm)
        | some v =>
          simp only [hv] at hm
          by_cases hin : isInfix v ph.value = true
          · simp only [hin, ↓reduceIte] at hm
            exact Walk.found h hs i j ph hfirst hget (by intro v' hv'; rw [hv] at hv'; cases hv'; exact hin)
              ((ih (j + 1)).mp hm)
          · simp [hin] at hm
      · intro hw
        cases hw with
        | found _ _ _ j' ph' hf hg hv hrest =>
          -- the first matching position is unique
          have hjj : j' = j := by
            obtain ⟨hle, ⟨p1, hp1, hn1⟩, hmin⟩ := hf
            rcases Nat.lt_trichotomy j' j with hlt | heq | hgt
            · exact absurd hn1 (a2 j' hle hlt p1 hp1)
            · exact heq
            · exact absurd hname (hmin j a1 hgt ph hget)
          subst hjj
          rw [hget] at hg; cases hg
          cases hv' : h.value with
          | none => simpa [hv'] using (ih (j' + 1)).mpr hrest
          | some v => simp [hv v hv', (ih (j' + 1)).mpr hrest]
        | absent _ _ _ ho hnone' hrest =>
          exact absurd hname (hnone' ph (List.mem_of_getElem? hget))

theorem headersMatch_iff (sh : List SigHdr) (ph : List Hdr) : headersMatch sh ph = true ↔ Walk ph sh 0 :=
  headersMatchGo_iff ph sh 0

/-- **C06, signature match**: version, required headers, absent headers, walk -/
theorem httpSigMatch_iff (s : HttpSig) (minor : Nat) (ph : List Hdr) :
    httpSigMatch s minor ph = true ↔ HttpSigMatches s minor ph := by
  unfold httpSigMatch HttpSigMatches
  simp only [Bool.and_eq_true, Bool.or_eq_true, Option.isNone_iff_eq_none, beq_iff_eq, List.all_eq_true,
    List.mem_filter, List.contains_iff_mem, List.mem_map, Bool.not_eq_eq_eq_not,
    Bool.not_true, List.any_eq_false, headersMatch_iff, and_imp]
  constructor
  · rintro ⟨⟨⟨hv, hreq⟩, habs⟩, hw⟩
    refine ⟨hv, ?_, ?_, hw⟩
    · intro h hh ho
      obtain ⟨p, hp, he⟩ := hreq h hh ho
      exact ⟨p, hp, he⟩
    · intro a ha p hp he
      exact habs a ha ⟨p, hp, he⟩
  · rintro ⟨hv, hreq, habs, hw⟩
    refine ⟨⟨⟨hv, ?_⟩, ?_⟩, hw⟩
    · intro h hh ho
      obtain ⟨p, hp, he⟩ := hreq h hh ho
      exact ⟨p, hp, he⟩
    · intro a ha hc
      obtain ⟨p, hp, he⟩ := hc
      exact habs a ha p hp he

theorem findHttpLoop_eq (minor : Nat) (ph : List Hdr) (rs : List HttpRec) (g : Option HttpRec) :
    findHttpLoop minor ph rs g =
      match rs.find? (fun r => httpSigMatch r.sig minor ph && !r.generic) with
      | some r => some r
      | none => if g.isNone then rs.find? (fun r => httpSigMatch r.sig minor ph && r.generic) else g := by
  induction rs generalizing g with
  | nil => cases g <;> simp [findHttpLoop]
  | cons r rs ih =>
    simp only [findHttpLoop, List.find?_cons]
    cases hm : httpSigMatch r.sig minor ph
    · simpa using ih g
    · cases hg : r.generic
      · simp
      · simp only [Bool.not_true, Bool.false_eq_true, ↓reduceIte, Bool.and_false, Bool.and_self]
        rw [ih]
        cases g <;> simp

/-- **C06, selection**: the earliest non-generic match else the earliest generic one, for every
    record list -/
theorem findHttpMatch_eq_spec (recs : List HttpRec) (minor : Nat) (ph : List Hdr) :
    findHttpMatch recs minor ph = specFindHttp recs minor ph := by
  unfold findHttpMatch specFindHttp
  rw [findHttpLoop_eq]
  rfl

/-- **C06, dishonest**: exactly when the matched record expects a software string, the message
    has a User-Agent (else Server) value, and that value does not contain it -/
theorem dishonest_iff (m : Option HttpRec) (ph : List Hdr) :
    dishonest m ph = true ↔
      ∃ r sw exp, m = some r ∧ softwareOf ph = some sw ∧ r.sig.software = some exp ∧ isInfix exp sw = false := by
  unfold dishonest
  cases m with
  | none => simp
  | some r =>
    cases hs : softwareOf ph with
    | none => simp
    | some sw =>
      cases he : r.sig.software with
      | none => simp [he]
      | some exp => simp [he]

/-! Non-vacuity -/
private def hH (n v : String) : Hdr := { name := n.toList, value := v.toList }
private def sH (n : String) (opt : Bool) (v : Option String) : SigHdr := { name := n.toList, optional := opt, value := v.map String.toList }
example : headersMatch [sH "Host" false none, sH "Accept" false (some "*/*"), sH "X" true none]
    [hH "host" "a", hH "User-Agent" "c", hH "ACCEPT" "text, */*"] = true := by decide
-- the substring must be in the FIRST occurrence at or after the previous match
example : headersMatch [sH "Accept" false (some "html")] [hH "Accept" "*/*", hH "Accept" "text/html"] = false := by decide
-- an optional header may not occur elsewhere (here: before the previous match)
example : headersMatch [sH "Host" false none, sH "X" true none] [hH "X" "1", hH "Host" "a"] = false := by decide

end P0f
