import P0f.Model.Mtu
/-
  C08 — MTU fingerprint and MTU impersonation agree on MSS + header size.
-/
namespace P0f

/-- MTU = MSS + 40 (IPv4) or MSS + 60 (IPv6); PacketError exactly for packets without MSS,
    fragments and other flag combinations -/
theorem fpMtu_spec (db : List Nat) (p : PktL) :
    (fingerprintMtu db p = none ↔
        (p.ip.isFragment = true ∨ p.tcp.opts.mss = 0 ∨
          ¬ (p.tcp.type = F_SYN ∨ p.tcp.type = F_SYN ||| F_ACK))) ∧
    (∀ mtu m, fingerprintMtu db p = some (mtu, m) →
        mtu = p.tcp.opts.mss + (if p.ip.version = 4 then 40 else 60) ∧ m = findMtu db mtu) := by
  unfold fingerprintMtu validMtu shouldFingerprint mtuHdr
  constructor
  · constructor
    · intro h
      by_cases hc : p.ip.isFragment = true ∨ p.tcp.opts.mss = 0 ∨ ¬ (p.tcp.type = F_SYN ∨ p.tcp.type = F_SYN ||| F_ACK)
      · exact hc
      · exfalso
        have h1 : p.ip.isFragment = false := by cases hh : p.ip.isFragment <;> simp_all
        have h2 : p.tcp.opts.mss > 0 := by omega
        have h3 : p.tcp.type = F_SYN ∨ p.tcp.type = F_SYN ||| F_ACK := by
          apply Classical.byContradiction; intro hn; exact hc (Or.inr (Or.inr hn))
        rcases h3 with h3 | h3 <;> simp [h1, h2, h3, hasAll, F_SYN, F_ACK, F_FIN, F_RST] at h
    · intro h
      rcases h with h | h | h
      · simp [h]
      · simp [h]
      · have : (p.tcp.type == F_SYN || p.tcp.type == (F_SYN ||| F_ACK)) = false := by
          simp only [Bool.or_eq_false_iff, beq_eq_false_iff_ne]
          exact ⟨fun e => h (Or.inl e), fun e => h (Or.inr e)⟩
        simp [this]
  · intro mtu m h
    split at h
    · simp at h
    · simp only [Option.some.injEq, Prod.mk.injEq] at h
      obtain ⟨rfl, rfl⟩ := h
      exact ⟨rfl, rfl⟩

/-- "returns the earliest database record with exactly that MTU, or no match" -/
theorem findMtu_first (db : List Nat) (mtu : Nat) :
    (∀ i, findMtu db mtu = some i → db[i]? = some mtu ∧ ∀ j < i, db[j]? ≠ some mtu) ∧
    (findMtu db mtu = none → mtu ∉ db) := by
  unfold findMtu
  constructor
  · intro i h
    rw [List.findIdx?_eq_some_iff_getElem] at h
    obtain ⟨hi, hp, hlt⟩ := h
    refine ⟨by simpa [List.getElem?_eq_getElem hi] using hp, ?_⟩
    intro j hj
    have := hlt j hj
    have hj' : j < db.length := by omega
    simpa [List.getElem?_eq_getElem hj'] using this
  · intro h
    rw [List.findIdx?_eq_none_iff] at h
    intro hm
    simpa using h mtu hm

theorem filter_replace_mss (opts : List SOpt) (v : SOpt) (hv : v.isMss = true) :
    (opts.map fun o => if o.isMss then v else o).filter (fun o => !o.isMss) = opts.filter (fun o => !o.isMss) := by
  induction opts with
  | nil => rfl
  | cons o t ih =>
    cases ho : o.isMss
    · simp only [List.map_cons, ho, Bool.false_eq_true, ↓reduceIte, List.filter_cons, Bool.not_false, ih]
    · simp only [List.map_cons, ho, ↓reduceIte, List.filter_cons, hv, Bool.not_true, Bool.false_eq_true, ih]

/-- impersonation leaves "all other options, their order" untouched -/
theorem impMtu_frame (opts : List SOpt) (mtu ver : Nat) :
    (impersonateMtu opts mtu ver).filter (fun o => !o.isMss) = opts.filter (fun o => !o.isMss) := by
  unfold impersonateMtu
  split
  · exact filter_replace_mss opts _ rfl
  · simp [SOpt.isMss]

/-- "replacing an existing MSS option in place": positions are kept, and every MSS entry of the
    result carries MTU − header size -/
theorem impMtu_in_place (opts : List SOpt) (mtu ver : Nat) (h : opts.any SOpt.isMss = true) :
    (impersonateMtu opts mtu ver).map SOpt.isMss = opts.map SOpt.isMss ∧
    ∀ o ∈ impersonateMtu opts mtu ver, o.isMss = true → o = .mss (mtu - mtuHdr ver) := by
  unfold impersonateMtu
  simp only [h, ↓reduceIte]
  constructor
  · simp only [List.map_map]
    apply List.map_congr_left
    intro o _
    cases ho : o.isMss
    · simp only [Function.comp, ho, Bool.false_eq_true, ↓reduceIte]
    · simp only [Function.comp, ho, ↓reduceIte]; rfl
  · intro o ho hm
    obtain ⟨o', _, rfl⟩ := List.mem_map.mp ho
    cases ho' : o'.isMss <;> simp_all

/-- without an MSS option in the base, one is put in front and the rest is kept as is -/
theorem impMtu_prepend (opts : List SOpt) (mtu ver : Nat) (h : opts.any SOpt.isMss = false) :
    impersonateMtu opts mtu ver = .mss (mtu - mtuHdr ver) :: opts := by
  unfold impersonateMtu; simp [h]

example : impersonateMtu [.nop, .mss 1400, .ws 7] 1500 4 = [.nop, .mss 1460, .ws 7] := by decide
example : impersonateMtu [.nop, .ws 7] 1500 6 = [.mss 1440, .nop, .ws 7] := by decide

end P0f
